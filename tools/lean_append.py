#!/usr/bin/env python3
"""dev helper: append the body of /tmp/t.lean (inside its namespace) to a lemma file"""
import sys
ns=sys.argv[2]
t=open('/tmp/t.lean').read()
body=t.split("namespace %s\n"%ns,1)[1].rsplit("end %s"%ns,1)[0]
p=sys.argv[1]
s=open(p).read()
s=s.rsplit("end %s"%ns,1)[0]+body+"\nend %s\n"%ns
open(p,'w').write(s)
