#!/usr/bin/env python3
"""write harness/*/Cargo.toml from Cargo.toml.in, pointing the path dependencies at $VERIF_REPO (default /repo)"""
import os, glob, shutil
VERIF = os.path.dirname(os.path.dirname(os.path.abspath(__file__)))
REPO = os.environ.get("VERIF_REPO", "/repo")
for t in glob.glob(os.path.join(VERIF, "harness", "*", "Cargo.toml.in")):
    out = t[:-3]
    new = open(t).read().replace("@REPO@", REPO)
    lock = os.path.join(os.path.dirname(t), "Cargo.lock")
    if not os.path.exists(out) or open(out).read() != new:
        open(out, "w").write(new)
        # dependencies changed: start again from the repository's full lock file (offline resolution
        # cannot add packages that the pruned lock no longer lists)
        if os.path.exists(lock):
            os.remove(lock)
    if not os.path.exists(lock):
        shutil.copy(os.path.join(REPO, "Cargo.lock"), lock)
