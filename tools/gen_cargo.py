#!/usr/bin/env python3
"""write harness/*/Cargo.toml from Cargo.toml.in, pointing the path dependencies at $VERIF_REPO (default /repo)"""
import os, glob, shutil
VERIF = os.path.dirname(os.path.dirname(os.path.abspath(__file__)))
REPO = os.environ.get("VERIF_REPO", "/repo")
for t in glob.glob(os.path.join(VERIF, "harness", "*", "Cargo.toml.in")):
    out = t[:-3]
    new = open(t).read().replace("@REPO@", REPO)
    if not os.path.exists(out) or open(out).read() != new:
        open(out, "w").write(new)
    lock = os.path.join(os.path.dirname(t), "Cargo.lock")
    if not os.path.exists(lock):
        shutil.copy(os.path.join(REPO, "Cargo.lock"), lock)
