#!/usr/bin/env python3
"""Regenerate lean/Varpulis/Generated/RaftCommands.lean from the current source:
   * the variants of `ClusterCommand` (raft/mod.rs) with their field names, in source order;
   * the arms of `apply_command` (raft/state_machine.rs): variant, the field of `CoordinatorState`
     the arm touches, and the operation on it (insert / remove / get_mut / assign);
   * the fields of `CoordinatorState`.
   Props/C35.lean proves over these tables that every variant has exactly one arm (no wildcard), that
   the model has a constructor per variant, and that the model's arm changes only the field the source
   arm touches — so a new command, a new state field or an arm that touches another map breaks a
   proof obligation until the model is updated.
   usage: extract_raft.py [--out FILE]   (source tree: $VERIF_REPO, default /repo)"""
import os, re, sys

VERIF = os.path.dirname(os.path.dirname(os.path.abspath(__file__)))
REPO = os.environ.get("VERIF_REPO", "/repo")
RAFT = os.path.join(REPO, "crates", "varpulis-cluster", "src", "raft")

def strip_comments(src):
    src = re.sub(r"/\*.*?\*/", "", src, flags=re.S)
    return re.sub(r"//[^\n]*", "", src)

def block_after(src, start_pat):
    """text between the braces that follow the first match of start_pat"""
    m = re.search(start_pat, src)
    if not m:
        sys.exit("extract_raft: pattern not found: " + start_pat)
    i = src.index("{", m.end() - 1)
    depth, j = 0, i
    while True:
        c = src[j]
        if c == "{": depth += 1
        elif c == "}":
            depth -= 1
            if depth == 0:
                return src[i + 1:j]
        j += 1

def split_top(body, sep=","):
    out, depth, cur = [], 0, ""
    for c in body:
        if c in "{(<[": depth += 1
        elif c in "})>]": depth -= 1
        if c == sep and depth == 0:
            out.append(cur); cur = ""
        else:
            cur += c
    if cur.strip():
        out.append(cur)
    return [x.strip() for x in out if x.strip()]

def variants():
    src = strip_comments(open(os.path.join(RAFT, "mod.rs")).read())
    body = block_after(src, r"pub enum ClusterCommand\s*\{")
    res = []
    for item in split_top(body):
        item = re.sub(r"#\[[^\]]*\]", "", item).strip()
        m = re.match(r"(\w+)\s*(\{(.*)\})?\s*$", item, flags=re.S)
        if not m:
            sys.exit("extract_raft: cannot read variant: " + item[:80])
        fields = [f.split(":")[0].strip() for f in split_top(m.group(3) or "")]
        res.append((m.group(1), fields))
    return res

def state_fields():
    src = strip_comments(open(os.path.join(RAFT, "state_machine.rs")).read())
    body = block_after(src, r"pub struct CoordinatorState\s*\{")
    res = []
    for item in split_top(body):
        item = re.sub(r"#\[[^\]]*\]", "", item).strip()
        m = re.match(r"pub\s+(\w+)\s*:", item)
        if m:
            res.append(m.group(1))
    return res

def arms():
    src = strip_comments(open(os.path.join(RAFT, "state_machine.rs")).read())
    fn_body = block_after(src, r"pub fn apply_command\s*\(")
    match_body = block_after(fn_body, r"match\s+cmd\s*\{")
    res = []
    # arms: `<pattern> => { ... }` at top level
    i = 0
    while i < len(match_body):
        m = re.compile(r"\s*([^=]*?)\s*=>\s*\{", re.S).match(match_body, i)
        if not m:
            break
        pat = " ".join(m.group(1).split())
        j = m.end() - 1
        depth = 0
        k = j
        while True:
            c = match_body[k]
            if c == "{": depth += 1
            elif c == "}":
                depth -= 1
                if depth == 0:
                    break
            k += 1
        body = match_body[j + 1:k]
        name = re.match(r"ClusterCommand::(\w+)", pat)
        vname = name.group(1) if name else pat  # a wildcard or binding arm shows up as itself
        touched = sorted(set(re.findall(r"\bstate\.(\w+)", body)))
        ops = []
        for f in touched:
            if re.search(r"\bstate\.%s\s*\.\s*insert\s*\(" % f, body): ops.append("insert")
            elif re.search(r"\bstate\.%s\s*\.\s*remove\s*\(" % f, body): ops.append("remove")
            elif re.search(r"\bstate\.%s\s*\.\s*get_mut\s*\(" % f, body): ops.append("get_mut")
            elif re.search(r"\bstate\.%s\s*=[^=]" % f, body): ops.append("assign")
            else: ops.append("other")
        resp = "Ok" if re.search(r"ClusterResponse::Ok\s*$", body.strip()) else "other"
        res.append((vname, touched, ops, resp))
        i = k + 1
        # skip optional comma
        mm = re.compile(r"\s*,?").match(match_body, i)
        i = mm.end()
    return res

def lean_str(s): return '"' + s.replace("\\", "\\\\").replace('"', '\\"') + '"'
def lean_list(xs): return "[" + ", ".join(xs) + "]"

def main():
    out = os.path.join(VERIF, "lean", "Varpulis", "Generated", "RaftCommands.lean")
    if "--out" in sys.argv:
        out = sys.argv[sys.argv.index("--out") + 1]
    vs, fs, ar = variants(), state_fields(), arms()
    lines = [
        "/-! GENERATED by tools/extract_raft.py from crates/varpulis-cluster/src/raft/{mod,state_machine}.rs — do not edit.",
        "Regenerated on every `bin/check C35`; `Props/C35.lean` proves its obligations over these tables. -/",
        "namespace Varpulis.Generated.RaftCommands",
        "",
        "/-- variants of `ClusterCommand` in source order, with their field names -/",
        "def variants : List (String × List String) := [",
        ",\n".join("  (%s, %s)" % (lean_str(v), lean_list([lean_str(f) for f in flds])) for v, flds in vs),
        "]",
        "",
        "/-- fields of `CoordinatorState` in source order -/",
        "def stateFields : List String := " + lean_list([lean_str(f) for f in fs]),
        "",
        "/-- arms of `apply_command` in source order: pattern head, fields of the state the arm touches,",
        "the operation on each, and whether the arm ends in `ClusterResponse::Ok` -/",
        "def arms : List (String × List String × List String × String) := [",
        ",\n".join("  (%s, %s, %s, %s)" % (lean_str(v), lean_list([lean_str(t) for t in touched]),
                                          lean_list([lean_str(o) for o in ops]), lean_str(resp))
                   for v, touched, ops, resp in ar),
        "]",
        "",
        "end Varpulis.Generated.RaftCommands",
        "",
    ]
    text = "\n".join(lines)
    os.makedirs(os.path.dirname(out), exist_ok=True)
    if not os.path.exists(out) or open(out).read() != text:
        open(out, "w").write(text)

if __name__ == "__main__":
    main()
