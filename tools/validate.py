#!/usr/bin/env python3
"""validate MANIFEST.json and evidence/*.json against the schemas (run with python3-vt)"""
import json, sys, glob, jsonschema
ok = True
def v(path, schema):
    global ok
    try:
        jsonschema.validate(json.load(open(path)), json.load(open(schema)))
        print("valid", path)
    except Exception as e:
        ok = False
        print("INVALID", path, str(e)[:400])
v("/verif/MANIFEST.json", "/root/.vp/MANIFEST.schema.json")
for f in sorted(glob.glob("/verif/evidence/*.json")):
    v(f, "/root/.vp/EVIDENCE.schema.json")
sys.exit(0 if ok else 1)
