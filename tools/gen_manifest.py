#!/usr/bin/env python3
"""regenerate /verif/MANIFEST.json from tools/props.py (claimed checks) and properties.jsonl"""
import json, os, sys, subprocess
VERIF = os.path.dirname(os.path.dirname(os.path.abspath(__file__)))
import glob
class P: pass
P.PROPS = {os.path.basename(f)[:-5]: json.load(open(f)) for f in glob.glob(os.path.join(VERIF, "checks", "C*.json"))}
_c = json.load(open(os.path.join(VERIF, "checks", "_common.json")))
P.HOOKS_ADD_ONLY = _c.get("hooks_add_only", True)
P.NOT_APPLICABLE = _c.get("not_applicable", {})
ids = [json.loads(l)["id"] for l in open(os.path.join(VERIF, "properties.jsonl"))]
hooks = subprocess.run(["git", "-C", "/repo", "log", "--format=%H %s"], capture_output=True, text=True).stdout.splitlines()
hook_commits = [l.split()[0] for l in hooks if l.split(" ", 1)[1].startswith("verif hook")]
checks = []
for pid in ids:
    c = P.PROPS.get(pid)
    if not c:
        continue
    checks.append({
        "property_id": pid,
        "quick_cmd": "bin/check %s --tier quick" % pid,
        "thorough_cmd": "bin/check %s --tier thorough" % pid,
        "evidence_file": "/verif/evidence/%s.json" % pid,
        "replay_cmd_template": "bin/check %s --replay {path}" % pid,
        "engine": "lean4+" + c["harness"],
        "level_claimed": {"category": "proof", "text": c.get("level_text", ""), "design_ref": "DESIGN.md section 7, " + pid},
        "level_note": c.get("level_note", "Trusted: Lean kernel; hand-written model tied to /repo by the correspondence run of this check; see evidence.trusted_base"),
        "technique": c.get("technique", "Lean 4 theorems over an executable model + differential correspondence with the Rust code"),
    })
na = [{"property_id": pid, "reason": P.NOT_APPLICABLE.get(pid, "not claimed yet: model/tie under construction (see DESIGN.md section 14 order of work)")}
      for pid in ids if pid not in P.PROPS]
m = {
    "version": 1,
    "setup_cmd": "bin/setup",
    "hooks": {
        "guard": "cargo feature varpulis_verif (declared in each touched crate; #[cfg(feature = \"varpulis_verif\")])",
        "enable": "harness crates under /verif/harness depend on /repo/crates/* by path with features = [\"varpulis_verif\"]",
        "baseline_off_cmd": "cd /repo && cargo nextest run --workspace --no-fail-fast --offline || cargo test --workspace --no-fail-fast --offline",
        "source_commits": hook_commits,
        "add_only": P.HOOKS_ADD_ONLY,
    },
    "engines": [
        {"name": "lean4", "path": "/verif/lean", "serves_properties": [c["property_id"] for c in checks],
         "kind_free_text": "Lake project Varpulis: Model/ (executable models), Lemmas/, Props/<id>.lean (property theorems), Driver/ + Main.lean (vmodel line-protocol driver, compiled)"},
    ] + [
        {"name": h, "path": "/verif/harness/" + h, "serves_properties": [pid for pid in ids if P.PROPS.get(pid, {}).get("harness") == h],
         "kind_free_text": "Rust correspondence harness calling the /repo crates in-process (path dependencies, feature varpulis_verif)"}
        for h in sorted({c["harness"] for c in P.PROPS.values()})
    ],
    "checks": checks,
    "notes": "bin/check <id>: exit 0 held, 1 VIOLATION (replay file), 2 infrastructure error. Known findings: known_findings.json.",
    "not_applicable": na,
}
json.dump(m, open(os.path.join(VERIF, "MANIFEST.json"), "w"), indent=1)
# known_findings.json = the union of the per-property findings lists (committed; never written at run time)
# fix commits were made on builder branches and cherry-picked (-x) onto /repo's main: map to the main commit
_log = subprocess.run(["git", "-C", "/repo", "log", "--format=%H%x00%B%x01"], capture_output=True, text=True).stdout
_main = []
for rec in _log.split("\x01"):
    if "\x00" in rec:
        h, b = rec.strip().split("\x00", 1)
        _main.append((h.strip(), b))
def to_main(c):
    if not c: return c
    for h, b in _main:
        if h.startswith(c): return h[:7]
    for h, b in _main:
        for m in re.findall(r"cherry picked from commit ([0-9a-f]+)", b):
            if m.startswith(c): return h[:7]
    return c + " (builder branch)"
import re
kf = []
for pid in ids:
    for f in P.PROPS.get(pid, {}).get("findings", []):
        e = dict(f); e["property"] = pid
        if e.get("commit"): e["commit"] = to_main(e["commit"])
        if e.get("kind") == "fixed":
            e["what"] = "fixed: property=%s %s %s" % (pid, e.get("commit", "?"), e["what"]) if not e["what"].startswith("fixed:") else e["what"]
        kf.append(e)
json.dump(kf, open(os.path.join(VERIF, "known_findings.json"), "w"), indent=1)
print("claimed", len(checks), "unclaimed", len(na))
