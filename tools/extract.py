#!/usr/bin/env python3
"""tools/extract.py <name>... — run the named extractors (tools/extract_<name>.py) against $VERIF_REPO.
Called by bin/check (lean_phase) with the `"extract": [...]` list of checks/<id>.json before the Lean build."""
import os, subprocess, sys
HERE = os.path.dirname(os.path.abspath(__file__))
rc = 0
for name in sys.argv[1:]:
    p = os.path.join(HERE, "extract_%s.py" % name)
    if not os.path.exists(p):
        print("extract: no extractor " + p)
        sys.exit(1)
    r = subprocess.run([sys.executable, p])
    rc = rc or r.returncode
sys.exit(rc)
