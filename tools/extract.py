#!/usr/bin/env python3
"""tools/extract.py NAME [NAME...] — regenerate lean/Varpulis/Generated/*.lean from the current source tree
($VERIF_REPO, default /repo). Dispatcher: every NAME runs tools/extract_NAME.py (one extractor per
table family, owned by the property that uses it). Called by bin/check through the "extract" key of
checks/<id>.json. Exit code != 0 = extraction failed (bin/check reports a broken proof obligation)."""
import os, subprocess, sys
HERE = os.path.dirname(os.path.abspath(__file__))
rc = 0
for name in sys.argv[1:]:
    script = os.path.join(HERE, "extract_%s.py" % name)
    if not os.path.exists(script):
        print("extract.py: no extractor " + script)
        sys.exit(2)
    r = subprocess.run([sys.executable, script])
    rc = rc or r.returncode
sys.exit(rc)
