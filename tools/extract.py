#!/usr/bin/env python3
"""tools/extract.py <name>...  — regenerate lean/Varpulis/Generated/*.lean from the current source
($VERIF_REPO, default /repo). Each <name> is handled by tools/extract.d/<name>.py (a script that
writes its own Generated file and exits non-zero when the source no longer has the expected shape).
Called by bin/check for the names listed under "extract" in checks/<id>.json."""
import os, subprocess, sys
here = os.path.dirname(os.path.abspath(__file__))
rc = 0
for name in sys.argv[1:]:
    script = os.path.join(here, "extract.d", name + ".py")
    if not os.path.exists(script):
        print("extract: no extractor " + script); rc = 1; continue
    r = subprocess.run([sys.executable, script])
    rc = rc or r.returncode
sys.exit(rc)
