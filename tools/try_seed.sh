#!/bin/bash
# dev helper: confirm a seeded breaking change and run the checks against it.
# usage: tools/try_seed.sh <seed-dir with patch.diff [+ demo*.rs]> <crate> <test-filter-or-''> <prop> [<prop>...]
d=$(realpath "$1"); crate="$2"; filter="$3"; shift 3
wt=/var/tmp/seedwt
export CARGO_NET_OFFLINE=true CARGO_TARGET_DIR=/var/tmp/seedwt-target
git -C /repo worktree remove --force $wt 2>/dev/null; git -C /repo worktree add -q --detach $wt HEAD || exit 2
res="$d/confirm.txt"; : > $res
cd $wt
demo=$(ls $d/demo*.rs 2>/dev/null | head -1)
if [ -n "$demo" ]; then mkdir -p crates/$crate/tests; cp $demo crates/$crate/tests/verif_seed_demo.rs; fi
if [ -n "$demo" ]; then
  timeout 3000 cargo test --offline -p $crate --test verif_seed_demo > /tmp/seed-demo-clean.log 2>&1; echo "demo on clean tree: rc=$? $(grep 'test result' /tmp/seed-demo-clean.log | tail -1)" >> $res
fi
git apply $d/patch.diff || { echo "PATCH DOES NOT APPLY" >> $res; cat $res; exit 1; }
rm -f crates/$crate/tests/verif_seed_demo.rs; timeout 6000 cargo test --offline -p $crate $filter > /tmp/seed-tests.log 2>&1; rc=$?; [ -n "$demo" ] && cp $demo crates/$crate/tests/verif_seed_demo.rs
echo "existing tests with change (cargo test -p $crate $filter): rc=$rc; failed binaries: $(grep -c 'test result: FAILED' /tmp/seed-tests.log); $(grep 'test result' /tmp/seed-tests.log | grep -v ' 0 failed' | head -3 | tr '\n' ';')" >> $res
if [ -n "$demo" ]; then
  timeout 3000 cargo test --offline -p $crate --test verif_seed_demo > /tmp/seed-demo-mut.log 2>&1; echo "demo with change: rc=$? $(grep 'test result' /tmp/seed-demo-mut.log | tail -1)" >> $res
fi
cd /verif; unset CARGO_TARGET_DIR
git -C /repo worktree remove --force $wt
git -C /repo apply $d/patch.diff || { echo "PATCH DOES NOT APPLY TO /repo" >> $res; cat $res; exit 1; }
for p in "$@"; do out=$(bin/check $p 2>&1 | grep -v "^KNOWN-FINDING" | tail -1); echo "bin/check $p with change: $out" >> $res; done
git -C /repo checkout -- .
cat $res
