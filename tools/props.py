"""Per-property configuration of bin/check."""

TRUSTED_BASE = [
    "Lean 4.33.0 kernel (leanchecker re-check in the thorough tier)",
    "axioms allowed: propext, Classical.choice, Quot.sound (audited by #print axioms on every theorem of Props/<id>.lean)",
    "the hand-written Lean model (each definition names the Rust function it mirrors)",
    "the correspondence harness (Rust, in-process calls), vmodel's line parsing/printing, canonicalisers, generators",
]

PROPS = {
    "C06": {
        "harness": "vh-core", "hargs": ["C06"], "driver": "zdd", "diff_is_failure": True,
        "level_text": "Theorems (all families, all sizes): union/inter/diff/product/pwo/count/contains/from_set/iteration of the tree model equal the set-family operations; "
                      "the model is tied to ZddArena and Zdd by replaying generated operation sequences (exhaustive over 3 variables in thorough) and comparing family, iteration order, counts and membership",
        "technique": "Lean 4 proof (fun_induction over the mirrored recursions) + differential correspondence",
        "rule": "cases = operations (fam/union/inter/diff/pwo/product/contains/gc) on ZddArena and standalone Zdd; "
                "each answer lists the family in iteration order, count (cached and uncached) and the membership of all 32 subsets of 5 variables; "
                "distinct = distinct operation lines; quick: all pairs over 2 variables, sampled pairs over 3 variables, random sequences over 5; "
                "thorough: all 65536 pairs of families over 3 variables for every binary operation in both APIs",
        "exhaustive_thorough": True,
        "assumptions": ["u32 variables modelled as Nat", "FxHashMap lookup modelled as structural equality of trees (table layer checked by the C07 judge on dumped tables)"],
    },
    "C07": {
        "harness": "vh-core", "hargs": ["C07"], "driver": "zdd", "diff_is_failure": True,
        "level_text": "Theorems: ordered+reduced trees with equal families are equal (canonicity); every operation preserves ordering and reducedness; iteration lists each member once in ascending order. "
                      "Hash-consing/gc of the real table are judged on dumped tables: well-formedness, treeOf(handle)=model tree, handle equality iff family equality",
        "technique": "Lean 4 proof of canonicity/invariant preservation + Lean judge over dumped node tables",
        "rule": "same sequences as C06; after every arena operation the node table and all handles are dumped (verif hook) and judged in Lean: "
                "table well-formedness (no duplicate / unreduced / unordered node), treeOf(table, handle) = model tree, handle equality <=> family equality; gc keeps random subsets",
        "exhaustive_thorough": True,
        "assumptions": ["hash-consing is checked on dumped tables (explored states), the tree-level canonicity is a theorem"],
    },
}

HOOKS_ADD_ONLY = True
NOT_APPLICABLE = {}
