#!/bin/bash
# dev helper: confirm a batch of independent seeds (demo with/without in a persistent scratch worktree,
# then the property checks against /repo with the change applied). usage: try_seeds_batch.sh <crate> <seed-dir>...
crate="$1"; shift
wt=/var/tmp/seedwt2
export CARGO_NET_OFFLINE=true
[ -d $wt ] || git -C /repo worktree add -q --detach $wt HEAD
git -C $wt checkout -q --detach $(git -C /repo rev-parse HEAD); git -C $wt checkout -- . ; git -C $wt clean -fdq -e target
mkdir -p $wt/crates/$crate/tests
names=""
for d in "$@"; do n=$(basename $d | tr '-' '_' | tr 'A-Z' 'a-z'); demo=$(ls $d/demo*.rs | head -1); cp $demo $wt/crates/$crate/tests/vs_$n.rs; names="$names --test vs_$n"; done
[ -z "$SKIP_DEMO" ] && (cd $wt && timeout 7200 cargo test --offline -p $crate $FEATURES $names > /tmp/seedbatch-clean.log 2>&1)
for d in "$@"; do
  d=$(realpath $d); n=$(basename $d | tr '-' '_' | tr 'A-Z' 'a-z'); res=$d/confirm.txt; : > $res
  echo "demo on clean tree: $(awk "/Running tests\/vs_$n.rs/{f=1} f&&/test result/{print; exit}" /tmp/seedbatch-clean.log)" >> $res
  prop=$(basename $d | sed 's/-.*//')
  if [ -n "$SKIP_DEMO" ]; then echo "demo: not re-run by the integrator (needs the RocksDB build); confirmed by the sub-agent (meta.json)" >> $res
  elif (cd $wt && git apply $d/patch.diff 2>/dev/null); then
    (cd $wt && timeout 7200 cargo test --offline -p $crate $FEATURES --test vs_$n > /tmp/seedbatch-mut.log 2>&1); echo "demo with change: rc=$? $(grep 'test result' /tmp/seedbatch-mut.log | tail -1)" >> $res
    (cd $wt && git apply -R $d/patch.diff)
  else echo "PATCH DOES NOT APPLY to current main" >> $res; fi
  echo "existing tests with change: run by the sub-agent that wrote the change (see meta.json); not repeated by the integrator" >> $res
  cd /verif
  if git -C /repo apply $d/patch.diff 2>/dev/null; then
    for p in $prop $EXTRA_PROPS; do out=$(bin/check $p 2>&1 | grep -v "^KNOWN-FINDING" | tail -1); echo "bin/check $p with change: $out" >> $res; done
    git -C /repo checkout -- .
  fi
  echo "=== $(basename $d)"; cat $res
done
