#!/bin/sh
# dev helper: create the /verif and /repo worktrees of a builder agent, with warm build caches
set -e
n="$1"
git -C /verif worktree add -q /var/tmp/vw-$n -b $n
git -C /repo worktree add -q /var/tmp/rw-$n -b $n
mkdir -p /var/tmp/vw-$n/.build
cp -r /verif/.build/cargo /var/tmp/vw-$n/.build/cargo
cp -r /verif/lean/.lake /var/tmp/vw-$n/lean/.lake
echo "ready $n"
