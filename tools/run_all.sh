#!/bin/bash
# dev helper: run every claimed quick check sequentially; summary in .build/run_all.log
cd /verif
mkdir -p .build
: > .build/run_all.log
for f in checks/C*.json; do p=$(basename $f .json); s=$(date +%s); out=$(bin/check $p 2>&1 | grep -v "^KNOWN-FINDING" | tail -1); echo "$p $(( $(date +%s) - s ))s $out" >> .build/run_all.log; done
echo DONE >> .build/run_all.log
