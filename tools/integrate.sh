#!/bin/sh
# dev helper: merge a builder agent's branches into /verif and /repo (sequentially, by the integrator)
n="$1"
cd /verif || exit 1
# a dirty tree makes `git merge` abort: commit what the checks rewrote (evidence) first
git add -A; git commit -qm "evidence/work in progress before integrating $n" 2>/dev/null
git merge --no-edit "$n" > /tmp/merge-$n.log 2>&1 || {
  # generated files may conflict: take ours and regenerate
  for f in MANIFEST.json known_findings.json lean/Main.lean tools/extract.py; do git checkout --ours -- $f 2>/dev/null && git add $f; done
  for f in $(git diff --name-only --diff-filter=U | grep "^evidence/\|confirm.txt$"); do git checkout --theirs -- $f 2>/dev/null && git add $f; done
  if git diff --name-only --diff-filter=U | grep -q .; then echo "UNRESOLVED:"; git diff --name-only --diff-filter=U; exit 1; fi
  git commit -q --no-edit
}
base=$(git -C /repo merge-base main "$n")
commits=$(git -C /repo rev-list --reverse $base.."$n")
[ -n "$SKIP_REPO" ] && commits=""
for c in $commits; do
  git -C /repo cherry-pick -x $c > /tmp/cp-$n.log 2>&1 || { echo "CHERRY-PICK CONFLICT at $c: $(git -C /repo log -1 --format=%s $c)"; git -C /repo status --short | grep "^U\|^AA\|^DU\|^UD" ; exit 1; }
  echo "picked $(git -C /repo log -1 --format='%h %s' | cut -c1-100)"
done
python3 tools/gen_main.py; python3 tools/gen_cargo.py; python3 tools/gen_manifest.py
git add -A; git commit -qm "integrate $n: regenerate Main.lean, MANIFEST.json, known_findings.json"
echo "merged $n (unmerged commits left: $(git rev-list --count main..$n))"
