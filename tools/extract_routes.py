#!/usr/bin/env python3
"""C29 extraction: regenerate lean/Varpulis/Generated/Routes.lean (and routes.tsv for the harnesses)
from the CURRENT source of $VERIF_REPO:

  codeRoutes  <- crates/varpulis-cluster/src/api.rs        (cluster_routes, cluster_routes_with_raft)
                 crates/varpulis-cluster/src/raft/routes.rs (raft_routes)
                 crates/varpulis-cli/src/api.rs             (api_routes, tenant_admin_routes + handler guards)
  docRoutes   <- docs/api/openapi.yaml                      (security stanza + "Requires X role")

The Rust side is read syntactically: every routes function is cut out by brace matching, split into
`let` statements, every statement is parsed as a method chain `head.and(..).and(..).and_then(h)`.
Each `.and(..)` argument must be one of the known filter shapes; an unknown shape aborts the extraction
(exit 1): a filter we cannot classify could be an access check.  The `or` composition is flattened into
the order in which warp tries the routes.  What the extractor cannot see is guarded behaviourally:
the C29 harness requests every extracted route and demands an answer other than 404/405.
"""
import os, re, sys

VERIF = os.path.dirname(os.path.dirname(os.path.abspath(__file__)))
REPO = os.environ.get("VERIF_REPO", "/repo")
OUT_LEAN = os.path.join(VERIF, "lean", "Varpulis", "Generated", "Routes.lean")
OUT_TSV = os.path.join(VERIF, "lean", "Varpulis", "Generated", "routes.tsv")

class ExtractError(Exception):
    pass

# ----------------------------------------------------------------------------- Rust text helpers

def strip_comments(src):
    """remove // and /* */ comments, keep string literals intact"""
    out, i, n = [], 0, len(src)
    while i < n:
        c = src[i]
        if c == '"':
            j = i + 1
            while j < n and src[j] != '"':
                j += 2 if src[j] == '\\' else 1
            out.append(src[i:j + 1]); i = j + 1
        elif src.startswith("//", i):
            j = src.find("\n", i)
            i = n if j < 0 else j
        elif src.startswith("/*", i):
            j = src.find("*/", i)
            i = n if j < 0 else j + 2
        elif c == "'" and i + 2 < n and (src[i + 2] == "'" or (src[i + 1] == '\\' and i + 3 < n and src[i + 3] == "'")):
            j = src.find("'", i + 2 if src[i + 1] != '\\' else i + 3)
            out.append(src[i:j + 1]); i = j + 1
        else:
            out.append(c); i += 1
    return "".join(out)

OPEN, CLOSE = "([{", ")]}"

def match_close(s, i):
    """s[i] is an opening bracket; return the index of its partner"""
    depth, n = 0, len(s)
    while i < n:
        c = s[i]
        if c == '"':
            i += 1
            while i < n and s[i] != '"':
                i += 2 if s[i] == '\\' else 1
        elif c in OPEN:
            depth += 1
        elif c in CLOSE:
            depth -= 1
            if depth == 0:
                return i
        i += 1
    raise ExtractError("unbalanced brackets")

def fn_body(src, name):
    """text between the braces of `fn name(`"""
    m = re.search(r"\bfn\s+%s\s*(<[^>]*>)?\s*\(" % re.escape(name), src)
    if not m:
        return None
    i = match_close(src, m.end() - 1)          # end of the parameter list
    j = src.index("{", i)
    # a `where`/return type may contain braces only inside generics: the first `{` at depth 0 is the body
    k = match_close(src, j)
    return src[j + 1:k]

def split_statements(body):
    """top-level `;`-separated statements of a block; the tail expression is the last element"""
    out, depth, start, i, n = [], 0, 0, 0, len(body)
    while i < n:
        c = body[i]
        if c == '"':
            i += 1
            while i < n and body[i] != '"':
                i += 2 if body[i] == '\\' else 1
        elif c in OPEN:
            depth += 1
        elif c in CLOSE:
            depth -= 1
        elif c == ";" and depth == 0:
            out.append(body[start:i].strip()); start = i + 1
        i += 1
    out.append(body[start:].strip())
    return out

def parse_chain(expr):
    """`head.m1(a1).m2(a2)...` -> (head, [(m1, a1), ...]) splitting only at depth 0"""
    expr = expr.strip()
    i, n, depth = 0, len(expr), 0
    cuts = []
    while i < n:
        c = expr[i]
        if c == '"':
            i += 1
            while i < n and expr[i] != '"':
                i += 2 if expr[i] == '\\' else 1
        elif c in OPEN:
            depth += 1
        elif c in CLOSE:
            depth -= 1
        elif c == "." and depth == 0:
            m = re.match(r"\.\s*([A-Za-z_][A-Za-z0-9_]*)\s*\(", expr[i:])
            if m:
                cuts.append((i, m.group(1), i + m.end() - 1))
        i += 1
    if not cuts:
        return expr, []
    head = expr[:cuts[0][0]].strip()
    calls = []
    for (_, name, par) in cuts:
        q = match_close(expr, par)
        calls.append((name, expr[par + 1:q].strip()))
    return head, calls

def squeeze(s):
    return re.sub(r"\s+", "", s)

# ----------------------------------------------------------------------------- filter classification

def classify_filter(arg):
    """one `.and(<arg>)` of a route -> (kind, value)"""
    a = squeeze(arg)
    m = re.fullmatch(r'warp::path\("([^"]*)"\)', a)
    if m:
        if "/" in m.group(1):
            raise ExtractError("path literal with a slash: " + a)
        return ("lit", m.group(1))
    if re.fullmatch(r"warp::path::param::<[A-Za-z0-9_:]+>\(\)", a):
        return ("param", None)
    if a == "warp::path::end()":
        return ("end", None)
    m = re.fullmatch(r"warp::(get|post|put|delete|patch|head|options)\(\)", a)
    if m:
        return ("method", m.group(1))
    m = re.fullmatch(r"with_rbac\([A-Za-z_.()]+,Role::(Viewer|Operator|Admin)\)", a)
    if m:
        return ("auth", "rbac " + m.group(1).lower())
    if re.fullmatch(r"with_optional_raft_auth\([A-Za-z_.()]+\)", a):
        return ("auth", "raft")
    if a == "with_api_key()":
        return ("auth", "apiKeyHeader")
    if a == "with_admin_key()":
        return ("auth", "adminKeyHeader")
    if re.fullmatch(r"rate_limit_filter(\.clone\(\))?", a):
        return ("ratelimit", None)
    if re.fullmatch(r"warp::body::content_length_limit\([A-Z_a-z0-9:]+\)", a):
        return ("bodylimit", None)
    if a == "warp::body::json()":
        return ("body", None)
    if re.fullmatch(r"warp::query::<[A-Za-z0-9_:]+>\(\)", a):
        return ("query", None)
    if re.fullmatch(r"with_(coordinator|manager|raft|admin_key_config)\([A-Za-z_.()]+\)", a) or a == "with_request_id()":
        return ("inject", None)
    raise ExtractError("unknown filter shape (cannot tell whether it is an access check): " + arg.strip()[:200])

ROUTE_FNS = {"cluster_routes", "cluster_routes_with_raft", "raft_routes", "api_routes", "tenant_admin_routes"}

class Fn:
    def __init__(self, name, body):
        self.name = name
        self.lets = {}      # ident -> (head, calls)
        self.order = []
        stmts = split_statements(body)
        for s in stmts[:-1]:
            m = re.match(r"let\s+(?:mut\s+)?([A-Za-z_][A-Za-z0-9_]*)\s*(?::[^=]+)?=\s*(.*)\Z", s, flags=re.S)
            if m:
                self.lets[m.group(1)] = parse_chain(m.group(2))
                self.order.append(m.group(1))
        self.tail = parse_chain(stmts[-1])

def prefix_of(fn, ident, seen=()):
    """segments contributed by a prefix base such as `api` / `raft_prefix`"""
    if ident in seen or ident not in fn.lets:
        raise ExtractError("route head %r in %s is not a known prefix" % (ident, fn.name))
    head, calls = fn.lets[ident]
    segs = head_segments(fn, head, seen + (ident,))
    for name, arg in calls:
        if name != "and":
            raise ExtractError("prefix %s in %s has a non-`and` call %s" % (ident, fn.name, name))
        k, v = classify_filter(arg)
        if k not in ("lit", "param"):
            raise ExtractError("prefix %s in %s contains a non-path filter: %s" % (ident, fn.name, arg))
        segs.append((k, v))
    return segs

def head_segments(fn, head, seen=()):
    h = squeeze(head)
    if re.fullmatch(r"[A-Za-z_][A-Za-z0-9_]*", h):
        return prefix_of(fn, h, seen)
    k, v = classify_filter(head)
    if k in ("lit", "param"):
        return [(k, v)]
    raise ExtractError("route head is neither a prefix nor a path filter: " + head[:120])

def route_of(fn, ident, src_file):
    head, calls = fn.lets[ident]
    segs = head_segments(fn, head)
    r = {"name": ident, "fn": fn.name, "file": src_file, "path": segs, "method": None, "auth": [], "ended": False,
         "body": False, "query": False, "rateLimited": False, "handler": None, "authPos": None, "bodyPos": None}
    for pos, (name, arg) in enumerate(calls):
        if name == "and_then":
            if r["handler"] is not None:
                raise ExtractError("two and_then in route " + ident)
            h = squeeze(arg)
            if not re.fullmatch(r"[A-Za-z_][A-Za-z0-9_:]*", h):
                raise ExtractError("route %s: handler is not a named function (%s)" % (ident, arg[:80]))
            r["handler"] = h.split("::")[-1]
            continue
        if name != "and":
            raise ExtractError("route %s: unexpected combinator .%s(..)" % (ident, name))
        if r["handler"] is not None:
            raise ExtractError("route %s: filter after and_then" % ident)
        k, v = classify_filter(arg)
        if k in ("lit", "param"):
            if r["ended"]:
                raise ExtractError("route %s: path segment after path::end()" % ident)
            r["path"].append((k, v))
        elif k == "end":
            r["ended"] = True
        elif k == "method":
            if r["method"]:
                raise ExtractError("route %s: two method filters" % ident)
            r["method"] = v
        elif k == "auth":
            r["auth"].append(v)
            if r["authPos"] is None:
                r["authPos"] = pos
        elif k == "ratelimit":
            r["rateLimited"] = True
        elif k == "body":
            r["body"] = True
            r["bodyPos"] = pos
        elif k == "query":
            r["query"] = True
    # filter ORDER: every access filter of the chain stands before the first body filter
    body_positions = [pos for pos, (name, arg) in enumerate(calls) if name == "and" and classify_filter(arg)[0] in ("body", "bodylimit")]
    auth_positions = [pos for pos, (name, arg) in enumerate(calls) if name == "and" and classify_filter(arg)[0] == "auth"]
    r["authBeforeBody"] = (not body_positions) or (not auth_positions) or max(auth_positions) < min(body_positions)
    if not r["ended"]:
        raise ExtractError("route %s has no path::end(): it would match every longer path" % ident)
    if not r["method"]:
        raise ExtractError("route %s has no method filter" % ident)
    if not r["handler"]:
        raise ExtractError("route %s has no handler" % ident)
    return r

def is_route(chain):
    return any(n == "and_then" for n, _ in chain[1])

def flatten(fns, files, fname, expr_chain, fn):
    """the routes of an `a.or(b).or(c).boxed().with(..)` expression in the order warp tries them"""
    head, calls = expr_chain
    out = term_routes(fns, files, fn, head)
    for name, arg in calls:
        if name == "or":
            out += term_routes(fns, files, fn, arg)
        elif name in ("boxed", "with"):
            continue
        else:
            raise ExtractError("composition in %s uses .%s(..), which the route model does not know" % (fname, name))
    return out

def term_routes(fns, files, fn, term):
    t = squeeze(term)
    if re.fullmatch(r"[A-Za-z_][A-Za-z0-9_]*", t):
        if t not in fn.lets:
            raise ExtractError("composition in %s mentions unknown %s" % (fn.name, t))
        ch = fn.lets[t]
        if is_route(ch):
            return [route_of(fn, t, files[fn.name])]
        return flatten(fns, files, fn.name, ch, fn)
    m = re.match(r"(?:[A-Za-z_][A-Za-z0-9_]*::)*([A-Za-z_][A-Za-z0-9_]*)\(", t)
    if m and m.group(1) in ROUTE_FNS:
        callee = fns[m.group(1)]
        return flatten(fns, files, callee.name, callee.tail, callee)
    # nested composition `a.or(b)` given as an argument
    ch = parse_chain(term)
    if ch[1]:
        return flatten(fns, files, fn.name, ch, fn)
    raise ExtractError("composition in %s: cannot resolve %s" % (fn.name, term[:120]))

# ----------------------------------------------------------------------------- closure routes of the binaries (cli/main.rs)

def classify_main_filter(arg):
    a = squeeze(arg)
    m = re.fullmatch(r'warp::path\("([^"/]*)"\)', a)
    if m:
        return ("lit", m.group(1))
    if a == "warp::path::end()":
        return ("end", None)
    m = re.fullmatch(r"warp::(get|post|put|delete|patch|head|options)\(\)", a)
    if m:
        return ("method", m.group(1))
    if re.fullmatch(r"auth::with_auth\([A-Za-z_.()]+\)", a):
        return ("access", "auth::with_auth")
    if re.fullmatch(r"rate_limit::with_rate_limit\([A-Za-z_.()]+\)", a):
        return ("ratelimit", None)
    if a == "warp::ws()" or re.fullmatch(r"[a-z_]+_filter", a):
        return ("inject", None)
    raise ExtractError("main.rs: unknown filter shape in a closure route: " + arg.strip()[:160])

def main_routes(text):
    """`let <x>_route = warp::path("..")…` statements of cli/main.rs (handlers are closures)"""
    out = []
    fns = [(m.start(), m.group(1)) for m in re.finditer(r"\bfn\s+([A-Za-z_][A-Za-z0-9_]*)\s*[<(]", text)]
    for m in re.finditer(r"\blet\s+([a-z_]+_route)\s*=", text):
        i = m.end()
        depth, j, n = 0, i, len(text)
        while j < n:
            c = text[j]
            if c == '"':
                j += 1
                while j < n and text[j] != '"':
                    j += 2 if text[j] == '\\' else 1
            elif c in OPEN:
                depth += 1
            elif c in CLOSE:
                depth -= 1
            elif c == ";" and depth == 0:
                break
            j += 1
        head, calls = parse_chain(text[i:j])
        k, v = classify_main_filter(head)
        if k != "lit":
            raise ExtractError("main.rs: route %s does not start with a path literal" % m.group(1))
        r = {"name": m.group(1), "fn": [f for pos, f in fns if pos < m.start()][-1], "path": [("lit", v)], "method": None,
             "ended": False, "access": [], "rateLimited": False, "handler": False}
        for name, arg in calls:
            if name in ("and_then", "map"):
                r["handler"] = True
                continue
            if name != "and":
                raise ExtractError("main.rs: route %s uses .%s(..)" % (r["name"], name))
            if r["handler"]:
                raise ExtractError("main.rs: route %s has a filter after its handler" % r["name"])
            k, v = classify_main_filter(arg)
            if k == "lit":
                r["path"].append(("lit", v))
            elif k == "end":
                r["ended"] = True
            elif k == "method":
                r["method"] = v
            elif k == "access":
                r["access"].append(v)
            elif k == "ratelimit":
                r["rateLimited"] = True
        if not r["handler"]:
            raise ExtractError("main.rs: route %s has no handler" % r["name"])
        out.append(r)
    # every such route must be mounted in a `.or(..)` composition of its function
    for r in out:
        if not re.search(r"(\.or\(\s*%s\s*\)|=\s*%s\s*\.or\()" % (r["name"], r["name"]), text):
            raise ExtractError("main.rs: route %s is not mounted" % r["name"])
    return out

# ----------------------------------------------------------------------------- handler guards (cli/api.rs)

ALLOWED_BEFORE_GUARD = [
    r"let(mut)?mgr=manager\.(read|write)\(\)\.await;",
    r"ifpagination\.exceeds_max\(\)\{returnOk\(error_response\(StatusCode::BAD_REQUEST,\"invalid_limit\",&format!\(\"[^\"]*\"\),?\)\);\}",
]
TENANT_GUARD = (r"lettenant_id=matchmgr\.get_tenant_by_api_key\(&api_key\)\{Some\(id\)=>id\.clone\(\),"
                r"None=>\{returnOk\(error_response\(StatusCode::UNAUTHORIZED,\"[a-z_]*\",\"[^\"]*\",?\)\),?;?\}\}?,?\};")
ADMIN_GUARD = r"ifletErr\(resp\)=validate_admin_key\(&admin_key,&configured_key\)\{returnOk\(resp\);\}"

def handler_guard(src, handler):
    body = fn_body(src, handler)
    if body is None:
        raise ExtractError("handler %s not found" % handler)
    b = squeeze(body)
    for kind, pat in (("tenantLookup", TENANT_GUARD), ("adminValidate", ADMIN_GUARD)):
        m = re.search(pat, b)
        if m:
            before = b[:m.start()]
            for allowed in ALLOWED_BEFORE_GUARD:
                before = re.sub(allowed, "", before)
            if before == "":
                # after a tenant lookup the api key must not be used again and no other tenant id may be built
                return kind
    return "none"

# ----------------------------------------------------------------------------- openapi

def doc_routes(path):
    import yaml
    doc = yaml.safe_load(open(path))
    out = []
    for p, ops in doc["paths"].items():
        segs = []
        for s in p.strip("/").split("/"):
            segs.append(("param", None) if re.fullmatch(r"\{[^}]+\}", s) else ("lit", s))
        for method, op in ops.items():
            if method not in ("get", "post", "put", "delete", "patch"):
                continue
            sec = op.get("security") or []
            schemes = sorted({k for d in sec for k in d})
            desc = op.get("description") or ""
            roles = re.findall(r"Requires (Viewer|Operator|Admin) role", desc)
            noauth = "No authentication required" in desc
            if len(roles) > 1:
                raise ExtractError("openapi %s %s names two roles" % (method, p))
            if schemes == [] and not roles:
                req = "open"
            elif schemes == ["AdminKeyAuth"] and not roles:
                req = "adminKey"
            elif schemes == ["ApiKeyAuth"] and roles:
                req = "role " + roles[0].lower()
            elif schemes == ["ApiKeyAuth"] and not roles:
                # SaaS surface: per-tenant key.  A cluster operation without a role sentence is a documentation gap:
                req = "tenantKey" if segs[:3] != [("lit", "api"), ("lit", "v1"), ("lit", "cluster")] else "undocumentedRole"
            else:
                raise ExtractError("openapi %s %s: cannot read the requirement (security=%s roles=%s)" % (method, p, schemes, roles))
            if noauth and req != "open":
                raise ExtractError("openapi %s %s says both 'No authentication required' and %s" % (method, p, req))
            out.append({"method": method, "path": segs, "req": req, "op": op.get("operationId", "")})
    return out

# ----------------------------------------------------------------------------- output

def lean_str(s):
    return '"' + s.replace("\\", "\\\\").replace('"', '\\"') + '"'

def lean_path(segs):
    return "[" + ", ".join(".param" if k == "param" else ".lit " + lean_str(v) for k, v in segs) + "]"

def lean_auth(a):
    return {"rbac viewer": ".rbac .viewer", "rbac operator": ".rbac .operator", "rbac admin": ".rbac .admin",
            "raft": ".raft", "apiKeyHeader": ".apiKeyHeader", "adminKeyHeader": ".adminKeyHeader"}[a]

def lean_req(r):
    return {"open": ".open", "role viewer": ".role .viewer", "role operator": ".role .operator", "role admin": ".role .admin",
            "tenantKey": ".tenantKey", "adminKey": ".adminKey", "undocumentedRole": ".undocumented"}[r]

def b(x):
    return "true" if x else "false"

def pattern_text(segs):
    return "/" + "/".join("{}" if k == "param" else v for k, v in segs)

def main():
    srcs = {
        "cluster": os.path.join(REPO, "crates/varpulis-cluster/src/api.rs"),
        "raft": os.path.join(REPO, "crates/varpulis-cluster/src/raft/routes.rs"),
        "cli": os.path.join(REPO, "crates/varpulis-cli/src/api.rs"),
    }
    text = {k: strip_comments(open(p).read()) for k, p in srcs.items()}
    where = {"cluster_routes": "cluster", "cluster_routes_with_raft": "cluster", "raft_routes": "raft",
             "api_routes": "cli", "tenant_admin_routes": "cli"}
    fns, files = {}, {}
    for name, key in where.items():
        body = fn_body(text[key], name)
        if body is None:
            raise ExtractError("routes function %s not found in %s" % (name, srcs[key]))
        fns[name] = Fn(name, body)
        files[name] = key
    apps = {"cluster": "cluster_routes_with_raft", "cli": "api_routes"}
    routes = []
    for app, top in apps.items():
        rs = flatten(fns, files, top, fns[top].tail, fns[top])
        for r in rs:
            r["app"] = app
            r["guard"] = handler_guard(text["cli"], r["handler"]) if app == "cli" else "none"
        routes += rs
    # every route-shaped `let` must be mounted (an unmounted route is dead code; a mounted one we missed is worse)
    mounted = {(r["fn"], r["name"]) for r in routes}
    for fn in fns.values():
        for ident in fn.order:
            if is_route(fn.lets[ident]) and (fn.name, ident) not in mounted:
                raise ExtractError("route %s in %s is defined but not part of the composition" % (ident, fn.name))
    docs = doc_routes(os.path.join(REPO, "docs/api/openapi.yaml"))
    mains = main_routes(strip_comments(open(os.path.join(REPO, "crates/varpulis-cli/src/main.rs")).read()))

    L = []
    L.append("import Varpulis.Model.Rbac")
    L.append("/-! GENERATED by tools/extract_routes.py from the current source — do not edit.")
    L.append("`codeRoutes`: every mounted warp route (in the order warp tries them, per app) of")
    L.append("cluster/api.rs, cluster/raft/routes.rs and cli/api.rs; `docRoutes`: docs/api/openapi.yaml. -/")
    L.append("namespace Varpulis.Generated")
    L.append("open Varpulis.Rbac")
    L.append("")
    L.append("def codeRoutes : List Route := [")
    rows = []
    for r in routes:
        rows.append("  { app := .%s, name := %s, method := .%s, path := %s,\n    auth := [%s], guard := .%s, handler := %s, body := %s, query := %s, rateLimited := %s,\n    authBeforeBody := %s }" % (
            r["app"], lean_str(r["name"]), r["method"], lean_path(r["path"]), ", ".join(lean_auth(a) for a in r["auth"]),
            r["guard"], lean_str(r["handler"]), b(r["body"]), b(r["query"]), b(r["rateLimited"]), b(r["authBeforeBody"])))
    L.append(",\n".join(rows))
    L.append("]")
    L.append("")
    L.append("def docRoutes : List DocRoute := [")
    L.append(",\n".join("  { method := .%s, path := %s, req := %s }" % (d["method"], lean_path(d["path"]), lean_req(d["req"])) for d in docs))
    L.append("]")
    L.append("")
    L.append("/-- closure routes of crates/varpulis-cli/src/main.rs (server mode and coordinator mode); they live in")
    L.append("the binary's `async fn`s and cannot be linked into a harness: extracted and proved about, not driven -/")
    L.append("def mainRoutes : List MainRoute := [")
    L.append(",\n".join("  { fn := %s, name := %s, method := %s, path := %s, ended := %s, access := [%s], rateLimited := %s }" % (
        lean_str(r["fn"]), lean_str(r["name"]), ("some .%s" % r["method"]) if r["method"] else "none", lean_path(r["path"]), b(r["ended"]),
        ", ".join(lean_str(a) for a in r["access"]), b(r["rateLimited"])) for r in mains))
    L.append("]")
    L.append("")
    L.append("end Varpulis.Generated")
    out = "\n".join(L) + "\n"
    os.makedirs(os.path.dirname(OUT_LEAN), exist_ok=True)
    if not os.path.exists(OUT_LEAN) or open(OUT_LEAN).read() != out:
        open(OUT_LEAN, "w").write(out)
    T = ["# GENERATED by tools/extract_routes.py: app\tname\tmethod\tpattern\tauth\tguard\thandler\tbody\tquery\trateLimited"]
    for r in routes:
        T.append("\t".join([r["app"], r["name"], r["method"], pattern_text(r["path"]), ",".join(r["auth"]) or "-", r["guard"],
                            r["handler"], b(r["body"]), b(r["query"]), b(r["rateLimited"])]))
    for r in mains:
        T.append("\t".join(["main", r["name"], r["method"] or "-", pattern_text(r["path"]) + ("" if r["ended"] else "/*"), ",".join(r["access"]) or "-", "-", r["fn"], "-", "-", b(r["rateLimited"])]))
    for d in docs:
        T.append("\t".join(["doc", d["op"] or "-", d["method"], pattern_text(d["path"]), d["req"], "-", "-", "-", "-", "-"]))
    tsv = "\n".join(T) + "\n"
    if not os.path.exists(OUT_TSV) or open(OUT_TSV).read() != tsv:
        open(OUT_TSV, "w").write(tsv)
    print("extract_routes: %d code routes (%s), %d closure routes of main.rs, %d documented operations" % (
        len(routes), ", ".join("%s=%d" % (a, sum(1 for r in routes if r["app"] == a)) for a in apps), len(mains), len(docs)))

if __name__ == "__main__":
    try:
        main()
    except ExtractError as e:
        print("extract_routes: " + str(e))
        sys.exit(1)
