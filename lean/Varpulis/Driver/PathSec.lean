import Varpulis.Model.PathSec
import Varpulis.Driver.Util
/-! `vmodel pathsec`: rebuilds the generated directory tree as a `World`, answers `validate_path`
requests with the model and judges the implementation's own answers (C31).

Arguments are written `=<enc>` where `<enc>` keeps `[A-Za-z0-9/._-]` and writes every other
character as `%<hex code point>;` (so the empty string is `=`). -/
namespace Varpulis.Driver.PathSecD
open Varpulis.PathSec Varpulis.Driver

def hexVal (c : Char) : Option Nat :=
  if '0' ≤ c ∧ c ≤ '9' then some (c.toNat - 48)
  else if 'a' ≤ c ∧ c ≤ 'f' then some (c.toNat - 87)
  else none

def decodeAux : List Char → List Char → Option Nat → Option (List Char)
  | [], acc, none => some acc.reverse
  | [], _, some _ => none
  | c :: rest, acc, none =>
    if c = '%' then decodeAux rest acc (some 0) else decodeAux rest (c :: acc) none
  | c :: rest, acc, some n =>
    if c = ';' then decodeAux rest (Char.ofNat n :: acc) none
    else match hexVal c with
      | some d => decodeAux rest acc (some (n * 16 + d))
      | none => none

/-- `=<enc>` → string -/
def decode (w : String) : Option String :=
  match w.toList with
  | '=' :: rest => (decodeAux rest [] none).map String.ofList
  | _ => none

def hexDigit (n : Nat) : Char := if n < 10 then Char.ofNat (48 + n) else Char.ofNat (87 + n)
def toHex (n : Nat) : List Char :=
  if n < 16 then [hexDigit n] else toHex (n / 16) ++ [hexDigit (n % 16)]

def plain (c : Char) : Bool :=
  c.isAlphanum || c == '/' || c == '.' || c == '_' || c == '-'

def encode (s : String) : String :=
  String.ofList ('=' :: s.toList.flatMap fun c => if plain c then [c] else '%' :: toHex c.toNat ++ [';'])

def renderStr (c : List String) : String := "/" ++ "/".intercalate c

def keyOf (s : String) : List String := (comps s).filter (· ≠ "")

def showRes : Res → String
  | .ok c => s!"ok {encode (renderStr c)} same=1 nolink=1"
  | .errWorkdir => "err workdir"
  | .errInvalid => "err invalid"
  | .errTraversal => "err traversal"

/-- verdict on the implementation's own answer: an accepted path must be the canonical form of the
request, extend the canonical work directory component-wise, and the harness' independent look at
the real file system (same inode as the kernel's resolution of the request; no symlink on the way)
must agree -/
def judge (w : World) (path wd : String) (impl : String) : String :=
  let model := validate w path wd
  if showRes model == impl then "ok"
  else match words impl with
    | "ok" :: c :: flags =>
      match decode c with
      | none => "BADLINE"
      | some cs =>
        let ci := keyOf cs
        let inside := match canon w wd with
          | some cw => cw.isPrefixOf ci
          | none => false
        if !inside then s!"JUDGE accepted path {c} does not lie inside the resolved work directory (model: {showRes model})"
        else if canon w (join wd path) != some ci then
          s!"JUDGE accepted path {c} is not the resolution of the request (model: {showRes model})"
        else if flags != ["same=1", "nolink=1"] then
          s!"JUDGE accepted path {c} differs from the real resolution ({flags})"
        else s!"DIFF model={showRes model}"
    | _ => s!"DIFF model={showRes model}"

def step (w : World) (line : String) : World × String :=
  let (op, impl?) := splitCase line
  let impl := impl?.getD ""
  match words op with
  | "new" :: _ => ({ fs := [], cwd := [] }, "")
  | ["d", p] => match decode p with
    | some p => ({ w with fs := (keyOf p, .dir) :: w.fs }, "")
    | none => (w, "BADLINE")
  | ["f", p] => match decode p with
    | some p => ({ w with fs := (keyOf p, .file) :: w.fs }, "")
    | none => (w, "BADLINE")
  | ["l", p, t] => match decode p, decode t with
    | some p, some t => ({ w with fs := (keyOf p, .link t) :: w.fs }, "")
    | _, _ => (w, "BADLINE")
  | ["cwd", p] => match decode p with
    | some p => ({ w with cwd := keyOf p }, "")
    | none => (w, "BADLINE")
  | ["v", wd, p] => match decode wd, decode p with
    | some wd, some p => (w, judge w p wd impl)
    | _, _ => (w, "BADLINE")
  | [] => (w, "")
  | _ => (w, "BADLINE")

--! vmodel: pathsec => Varpulis.Driver.PathSecD.driver
def driver : Prop' World := { init := { fs := [], cwd := [] }, step := step }

end Varpulis.Driver.PathSecD
