import Varpulis.Model.RaftSM
import Varpulis.Model.RaftStore
import Varpulis.Driver.Util
/-! `vmodel raftsm`: replays the C35 lines (harness/vh-cluster/src/p_raftsm.rs) on the model and judges
the implementation's own answers (`same`, log-state lines, conformance suite).
The parsers/printers (`RaftIO`) are shared with `vmodel raftstore` (C36). -/
namespace Varpulis.Driver.RaftIO
open Varpulis.RaftSM Varpulis.RaftStore Varpulis.Driver

/-! ### parsing -/

def parseLid (s : String) : Option LogId :=
  match (s.splitOn ".").mapM String.toNat? with
  | some [t, n, i] => some ⟨t, n, i⟩
  | _ => none

def parseOLid (s : String) : Option (Option LogId) :=
  if s == "-" then some none else (parseLid s).map some

def parseList (s : String) : List String := if s == "-" then [] else s.splitOn ","

/-- split `k=Sval` at the first `=` -/
def splitEq (s : String) : String × String :=
  match s.splitOn "=" with
  | k :: rest => (k, "=".intercalate rest)
  | [] => ("", "")

def parseField (s : String) : Option (String × JV) :=
  let (k, v) := splitEq s
  if v.startsWith "S" then some (k, .str (v.drop 1).toString)
  else if v.startsWith "R" then some (k, .raw (v.drop 1).toString)
  else none

def parseTask (s : String) : Option Task :=
  if s == "N" then some .null
  else if s.startsWith "X" then some (.other (s.drop 1).toString)
  else if s.startsWith "O" then
    (((s.drop 1).toString.splitOn ";").filter (· ≠ "")).mapM parseField |>.map .obj
  else none

def parseCmd : List String → Option Cmd
  | ["RW", id, addr, key, c, r, m] => do
      some (.registerWorker id addr key (← c.toNat?) (← r.toNat?) (← m.toNat?))
  | ["DW", id] => some (.deregisterWorker id)
  | ["WS", id, st] => some (.workerStatusChanged id st)
  | ["WP", id, l] => some (.workerPipelinesUpdated id (parseList l))
  | ["GD", n, g] => some (.groupDeployed n g)
  | ["GU", n, g] => some (.groupUpdated n g)
  | ["GR", n] => some (.groupRemoved n)
  | ["MS", t] => (parseTask t).map .migrationStarted
  | ["MU", id, st] => some (.migrationUpdated id st)
  | ["MR", id] => some (.migrationRemoved id)
  | ["CC", n, c] => some (.connectorCreated n c)
  | ["CU", n, c] => some (.connectorUpdated n c)
  | ["CR", n] => some (.connectorRemoved n)
  | ["SP", p] => some (.scalingPolicySet (if p == "-" then none else some p))
  | ["MG", n, e] => some (.modelRegistered n e)
  | ["MX", n] => some (.modelRemoved n)
  | _ => none

def parseEntry : List String → Option Entry
  | [l, "B"] => (parseLid l).map (⟨·, .blank⟩)
  | [l, "M", cfg] => (parseLid l).map (⟨·, .membership cfg⟩)
  | l :: "N" :: ws => do some ⟨← parseLid l, .normal (← parseCmd ws)⟩
  | _ => none

/-- split a word list at the `|` words -/
def splitBar (ws : List String) : List (List String) :=
  let (cur, acc) := ws.foldl (fun (st : List String × List (List String)) w =>
    if w == "|" then ([], st.1.reverse :: st.2) else (w :: st.1, st.2)) ([], [])
  (cur.reverse :: acc).reverse

def parseEntries (ws : List String) : Option (List Entry) :=
  if ws == ["-"] then some [] else (splitBar ws).mapM parseEntry

/-! ### printing (must equal the harness' renderers) -/

def pLid (l : LogId) : String := s!"{l.term}.{l.node}.{l.index}"
def pOLid : Option LogId → String
  | some l => pLid l
  | none => "-"
def pList (l : List String) : String := if l.isEmpty then "-" else ",".intercalate l

def insSorted {α : Type} (p : String × α) : List (String × α) → List (String × α)
  | [] => [p]
  | x :: xs => if p.1 < x.1 then p :: x :: xs else x :: insSorted p xs
/-- sort bindings by key -/
def sortKeys {α : Type} (m : List (String × α)) : List (String × α) := m.foldr insSorted []

def pTask : Task → String
  | .null => "N"
  | .other t => "X" ++ t
  | .obj fs => "O" ++ ";".intercalate ((sortKeys fs).map fun (k, v) =>
      match v with
      | .str s => s!"{k}=S{s}"
      | .raw t => s!"{k}=R{t}")

def pCmd : Cmd → String
  | .registerWorker id a k c r m => s!"RW {id} {a} {k} {c} {r} {m}"
  | .deregisterWorker id => s!"DW {id}"
  | .workerStatusChanged id st => s!"WS {id} {st}"
  | .workerPipelinesUpdated id l => s!"WP {id} {pList l}"
  | .groupDeployed n g => s!"GD {n} {g}"
  | .groupUpdated n g => s!"GU {n} {g}"
  | .groupRemoved n => s!"GR {n}"
  | .migrationStarted t => s!"MS {pTask t}"
  | .migrationUpdated id st => s!"MU {id} {st}"
  | .migrationRemoved id => s!"MR {id}"
  | .connectorCreated n c => s!"CC {n} {c}"
  | .connectorUpdated n c => s!"CU {n} {c}"
  | .connectorRemoved n => s!"CR {n}"
  | .scalingPolicySet p => s!"SP {p.getD "-"}"
  | .modelRegistered n e => s!"MG {n} {e}"
  | .modelRemoved n => s!"MX {n}"

def pEntry (e : Entry) : String :=
  match e.payload with
  | .blank => s!"{pLid e.id} B"
  | .membership cfg => s!"{pLid e.id} M {cfg}"
  | .normal c => s!"{pLid e.id} N {pCmd c}"

def pEntries (es : List Entry) : String := if es.isEmpty then "-" else " | ".intercalate (es.map pEntry)

def pSec (l : List String) : String := if l.isEmpty then "-" else " ".intercalate l

def pWorker (w : Worker) : String :=
  s!"{w.id}/{w.address}/{w.apiKey}/{w.status}/{w.cpuCores}/{w.pipelinesRunning}/{w.maxPipelines}/{pList w.assigned}/{w.eventsProcessed}"

def pState (s : State) : String :=
  let w := (sortKeys s.workers).map fun (k, v) => s!"{k}={pWorker v}"
  let g := (sortKeys s.groups).map fun (k, v) => s!"{k}={v}"
  let c := (sortKeys s.connectors).map fun (k, v) => s!"{k}={v}"
  let m := (sortKeys s.migrations).map fun (k, v) => s!"{k}={pTask v}"
  let r := (sortKeys s.models).map fun (k, v) => s!"{k}={v}"
  s!"W:{pSec w} G:{pSec g} C:{pSec c} M:{pSec m} P:{s.policy.getD "-"} R:{pSec r}"

def pMem (m : StoredMembership) : String := s!"{pOLid m.logId}/{if m.cfg == "" then "-" else m.cfg}"

def pSM (sm : SM) : String := s!"la={pOLid sm.lastApplied} mem={pMem sm.membership} {pState sm.state}"

def pLog (s : LogStore) : String :=
  let st := s.getLogState
  s!"purged={pOLid st.1} last={pOLid st.2} ids={pList (s.log.map (pLid ·.id))}"

def pVote : Option Vote → String
  | none => "-"
  | some v => s!"{v.term}.{v.node}.{if v.committed then 1 else 0}"

/-- value of `key=` in a result line -/
def field (res key : String) : Option String :=
  (words res).findSome? fun w => if w.startsWith (key ++ "=") then some (w.drop (key.length + 1)).toString else none

/-- verdict of the property on the implementation's own log-state line:
`last_log_id` = last entry if there is one, else the purge marker; every entry above the marker -/
def judgeLogLine (res : String) : Option String :=
  match field res "purged", field res "last", field res "ids" with
  | some p, some l, some ids =>
    let idl := parseList ids
    let expect := idl.getLast?.getD p
    if l != expect then some s!"last_log_id={l} but max(last entry, last_purged)={expect}"
    else match parseOLid p with
      | some (some pl) =>
        if idl.any (fun i => match parseLid i with | some x => x.index ≤ pl.index | none => true)
        then some "an entry at or below last_purged is still in the log" else none
      | _ => none
  | _, _, _ => some "unreadable log-state line"

/-- verdict on a log-state line produced under openraft's full log discipline: the indices are
consecutive and the first entry comes right after the purge marker (no hole) -/
def judgeHoles (res : String) : Option String :=
  match field res "purged", field res "ids" with
  | some p, some ids =>
    let idx := (parseList ids).filterMap fun i => (parseLid i).map (·.index)
    let rec consec : List Nat → Bool
      | a :: b :: r => b == a + 1 && consec (b :: r)
      | _ => true
    if !consec idx then some s!"hole inside the log: ids={ids}"
    else match parseOLid p, idx.head? with
      | some (some pl), some f =>
        if f != pl.index + 1 then some s!"hole between last_purged={p} and the first log entry: ids={ids}" else none
      | _, _ => none
  | _, _ => some "unreadable log-state line"

end Varpulis.Driver.RaftIO

namespace Varpulis.Driver.RaftSMD
open Varpulis.RaftSM Varpulis.RaftStore Varpulis.Driver Varpulis.Driver.RaftIO

structure St where
  sms : List (String × SM) := []
  logs : List (String × LogStore) := []
  snaps : List (Nat × Snapshot) := []
  /-- `get_current_snapshot` per store: the last snapshot built by it or installed into it -/
  cur : List (String × Snapshot) := []
  /-- the storage-call sequence follows the full log discipline: holes in the log are failures -/
  disciplined : Bool := false

def St.sm (s : St) (r : String) : SM := (s.sms.lookup r).getD {}
def St.setSm (s : St) (r : String) (sm : SM) : St := { s with sms := (r, sm) :: s.sms.filter (·.1 ≠ r) }
def St.log (s : St) (r : String) : LogStore := (s.logs.lookup r).getD {}
def St.setLog (s : St) (r : String) (l : LogStore) : St := { s with logs := (r, l) :: s.logs.filter (·.1 ≠ r) }

def bad (s : St) (why : String) : St × String := (s, "PROTOCOL " ++ why)

/-- a log-store line: model answer vs implementation, and the property verdict on the implementation's answer -/
def logVerdict (disciplined : Bool) (l : LogStore) (impl : String) : String :=
  match (judgeLogLine impl).orElse (fun _ => if disciplined then judgeHoles impl else none) with
  | some why => "JUDGE " ++ why
  | none => verdict (pLog l) impl

def step (s : St) (line : String) : St × String :=
  let (op, res) := splitCase line
  let ws := words op
  match ws, res with
  | ["new", "log", "d"], _ => ({ disciplined := true }, "")
  | "new" :: _, _ => ({}, "")
  | ["store", r, _], none => ({ (s.setSm r {}).setLog r {} with cur := s.cur.filter (·.1 ≠ r) }, "")
  | ["cur", r], some impl =>
    (s, verdict (match s.cur.lookup r with
      | none => "none"
      | some sn => s!"id={sn.snapshotId} la={pOLid sn.metaLast} mem={pMem sn.metaMembership}") impl)
  | "apply" :: r :: rest, some impl =>
    match parseEntries rest with
    | none => bad s "entries"
    | some es =>
      match applyEntries (s.sm r) es with
      | .ok sm' => (s.setSm r sm', verdict s!"r={es.length} {pSM sm'}" impl)
      | .panic => (s, verdict "panic" impl)
  | ["snap", r, k], some impl =>
    match k.toNat? with
    | none => bad s "snap"
    | some k =>
      let sn := buildSnapshot (s.sm r)
      ({ s with snaps := (k, sn) :: s.snaps.filter (·.1 ≠ k), cur := (r, sn) :: s.cur.filter (·.1 ≠ r) },
        verdict s!"id={sn.snapshotId} la={pOLid sn.metaLast} mem={pMem sn.metaMembership}" impl)
  | ["taint", k, id, tok], none =>
    match k.toNat?, parseTask tok with
    | some k, some t =>
      match s.snaps.lookup k with
      | some sn =>
        let sn' := { sn with dataState := { sn.dataState with migrations := mInsert sn.dataState.migrations id t } }
        ({ s with snaps := (k, sn') :: s.snaps.filter (·.1 ≠ k) }, "")
      | none => bad s "taint: no snapshot"
    | _, _ => bad s "taint"
  | ["install", r, k], some impl =>
    match k.toNat?.bind (s.snaps.lookup ·) with
    | none => bad s "install"
    | some sn =>
      let sm' := installSnapshot (s.sm r) sn
      ({ s.setSm r sm' with cur := (r, sn) :: s.cur.filter (·.1 ≠ r) }, verdict (pSM sm') impl)
  | ["same", a, b], some impl =>
    if impl != "eq" then (s, s!"JUDGE stores {a} and {b} hold different replicated states for the same log")
    else (s, verdict (if s.sm a == s.sm b then "eq" else "ne") impl)
  | "append" :: r :: rest, some impl =>
    match parseEntries rest with
    | none => bad s "entries"
    | some es =>
      let l := (s.log r).append es
      (s.setLog r l, logVerdict s.disciplined l impl)
  | ["purge", r, id], some impl =>
    match parseLid id with
    | none => bad s "purge"
    | some id =>
      let l := (s.log r).purgeUpto id
      (s.setLog r l, logVerdict s.disciplined l impl)
  | ["trunc", r, id], some impl =>
    match parseLid id with
    | none => bad s "trunc"
    | some id =>
      let l := (s.log r).deleteConflictSince id
      (s.setLog r l, logVerdict s.disciplined l impl)
  | ["vote", r, t, n, c], some impl =>
    match t.toNat?, n.toNat? with
    | some t, some n =>
      let l := (s.log r).saveVote ⟨t, n, c == "1"⟩
      -- vote round trip on the implementation's own answer: `read_vote` right after `save_vote v` is `v`
      if impl != pVote l.vote then
        (s.setLog r l, s!"JUDGE read_vote after save_vote({pVote l.vote}) returned {impl}")
      else (s.setLog r l, "ok")
    | _, _ => bad s "vote"
  | ["rvote", r], some impl => (s, verdict (pVote (s.log r).vote) impl)
  | ["get", r, lo, hi], some impl =>
    match lo.toNat?, hi.toNat? with
    | some lo, some hi => (s, verdict (pEntries ((s.log r).tryGet lo hi)) impl)
    | _, _ => bad s "get"
  | ["suite", kind], some impl =>
    if impl == "pass" then (s, "ok")
    else (s, s!"JUDGE openraft storage conformance suite fails on the {kind} store: {impl}")
  | _, _ => bad s ("unknown line: " ++ op)

--! vmodel: raftsm => Varpulis.Driver.RaftSMD.driver
def driver : Prop' St := { init := {}, step := step }

end Varpulis.Driver.RaftSMD
