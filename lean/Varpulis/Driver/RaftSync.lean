import Varpulis.Model.RaftSync
import Varpulis.Driver.Util
/-! `vmodel raftsync`: trace validation of the coordinator's local view against the replicated state (C38).

Every case line is `<op> => <answer> | L <dump of the local view> | R <dump of the replicated state>`
(both dumped by the harness after the call). For each line the driver
* applies the model operation (`RaftSync.step`: local update + proposed commands through `applyCmd`) to the
  implementation's *previous* pair of states and compares the canonical dumps (`DIFF` = the implementation's
  transition is not the model's),
* judges the property on the implementation's own states: every component (`Comp`) that was synchronised
  before the call (`compSyncB`) must be synchronised after it; on a `sync` line every component that was
  synchronised must also be unchanged in the view (`noRevertB`). A component broken by a call is
  `KNOWN[<finding>]` exactly when the cell (operation kind, component) is listed in `knownCell`, else `JUDGE`.
  Group values additionally carry a digest of their whole JSON on both sides (`h`), compared by the judge. -/
namespace Varpulis.Driver.RaftSyncD
open Varpulis.RaftSync Varpulis.Driver

def sortBy {α : Type} (lt : α → α → Bool) (l : List α) : List α := (l.toArray.qsort lt).toList

def between (s : String) (a b : String) : Option String :=
  match s.splitOn a with
  | _ :: rest :: _ => (rest.splitOn b).head?
  | _ => none

def parseList {α : Type} (f : String → Option α) (sep : String) (s : String) : Option (List α) :=
  if s.isEmpty || s == "-" then some [] else (s.splitOn sep).mapM f

/-! ### canonical dumps -/

def wstatusStr : WStatus → String
  | .registering => "registering" | .ready => "ready" | .unhealthy => "unhealthy" | .draining => "draining"

def parseWStatus : String → Option WStatus
  | "registering" => some .registering | "ready" => some .ready
  | "unhealthy" => some .unhealthy | "draining" => some .draining | _ => none

def pstatusStr : PStatus → String
  | .deploying => "deploying" | .running => "running" | .failed => "failed" | .stopped => "stopped"

def parsePStatus : String → Option PStatus
  | "deploying" => some .deploying | "running" => some .running | "failed" => some .failed
  | "stopped" => some .stopped | _ => none

def gstatusStr : GStatus → String
  | .deploying => "deploying" | .running => "running" | .partiallyRunning => "partially_running"
  | .failed => "failed" | .tornDown => "torn_down"

def parseGStatus : String → Option GStatus
  | "deploying" => some .deploying | "running" => some .running | "partially_running" => some .partiallyRunning
  | "failed" => some .failed | "torn_down" => some .tornDown | _ => none

def listStr (l : List String) : String := if l.isEmpty then "-" else "+".intercalate l
def strList (s : String) : List String := if s == "-" || s.isEmpty then [] else s.splitOn "+"

def pidStr (p : String) : String := if p.isEmpty then "~" else p
def strPid (p : String) : String := if p == "~" then "" else p

def dumpPl (e : String × Pl) : String :=
  s!"{e.1}@{e.2.worker}:{pstatusStr e.2.status}:{pidStr e.2.pid}:{e.2.epoch}"

def parsePl (s : String) : Option (String × Pl) :=
  match s.splitOn "@" with
  | [n, rest] =>
    match rest.splitOn ":" with
    | [w, st, pid, ep] => do
      pure (n, { worker := w, status := ← parsePStatus st, pid := strPid pid, epoch := ← ep.toNat? })
    | _ => none
  | _ => none

def dumpGroup (e : String × GroupV) : String :=
  let pls := sortBy (fun a b => a.1 < b.1) e.2.pls
  s!"{e.1},{e.2.name},{gstatusStr e.2.status},{listStr (pls.map dumpPl)}"

/-- `gid,name,status,h,placements` → the group and its digest -/
def parseGroup (s : String) : Option ((String × GroupV) × (String × String)) :=
  match s.splitOn "," with
  | [g, n, st, h, pls] => do
    let ps ← (strList pls).mapM parsePl
    pure ((g, { name := n, status := ← parseGStatus st, pls := ps }), (g, h))
  | _ => none

def dumpLW (e : String × LWorker) : String :=
  let w := e.2
  s!"{e.1},{w.addr},{wstatusStr w.status},{w.cpu},{w.running},{w.maxP},{w.events},{w.lastHb},{listStr (sortBy (· < ·) w.assigned)}"

def parseLW (s : String) : Option (String × LWorker) :=
  match s.splitOn "," with
  | [id, addr, st, cpu, run, mx, ev, hb, a] => do
    pure (id, { addr := addr, status := ← parseWStatus st, cpu := ← cpu.toNat?, running := ← run.toNat?,
                maxP := ← mx.toNat?, assigned := strList a, events := ← ev.toNat?, lastHb := ← hb.toNat? })
  | _ => none

def dumpRW (e : String × RWorker) : String :=
  let w := e.2
  s!"{e.1},{w.addr},{w.status},{w.cpu},{w.running},{w.maxP},{w.events},{listStr (sortBy (· < ·) w.assigned)}"

def parseRW (s : String) : Option (String × RWorker) :=
  match s.splitOn "," with
  | [id, addr, st, cpu, run, mx, ev, a] => do
    pure (id, { addr := addr, status := st, cpu := ← cpu.toNat?, running := ← run.toNat?,
                maxP := ← mx.toNat?, assigned := strList a, events := ← ev.toNat? })
  | _ => none

def parseConn (s : String) : Option (String × String) :=
  match s.splitOn "=" with
  | n :: rest => if rest.isEmpty then none else some (n, "=".intercalate rest)
  | _ => none

def dumpConns (m : AMap String) : String :=
  let l := sortBy (fun (a b : String × String) => a.1 < b.1) m
  if l.isEmpty then "-" else ";".intercalate (l.map fun e => s!"{e.1}={e.2}")

def dumpPolicy (p : Option String) : String := p.getD "-"
def parsePolicy (s : String) : Option String := if s == "-" then none else some s

def secList (l : List String) : String := if l.isEmpty then "-" else ";".intercalate l

def dumpL (l : LState) : String :=
  let ws := sortBy (fun (a b : String × LWorker) => a.1 < b.1) l.workers
  let gs := sortBy (fun (a b : String × GroupV) => a.1 < b.1) l.groups
  s!"W[{secList (ws.map dumpLW)}] G[{secList (gs.map dumpGroup)}] C[{dumpConns l.connectors}] P[{dumpPolicy l.policy}]"

def dumpR (r : RState) : String :=
  let ws := sortBy (fun (a b : String × RWorker) => a.1 < b.1) r.workers
  let gs := sortBy (fun (a b : String × GroupV) => a.1 < b.1) r.groups
  s!"W[{secList (ws.map dumpRW)}] G[{secList (gs.map dumpGroup)}] C[{dumpConns r.connectors}] P[{dumpPolicy r.policy}]"

abbrev Tags := List (String × String)

def parseLDump (timeout : Nat) (pending : Bool) (d : String) : Option (LState × Tags) := do
  let ws ← parseList parseLW ";" (← between d "W[" "]")
  let gs ← parseList parseGroup ";" (← between d "G[" "]")
  let cs ← parseList parseConn ";" (← between d "C[" "]")
  let p ← between d "P[" "]"
  pure ({ workers := ws, groups := gs.map (·.1), connectors := cs, policy := parsePolicy p, pending := pending,
          timeout := timeout }, gs.map (·.2))

def parseRDump (d : String) : Option (RState × Tags) := do
  let ws ← parseList parseRW ";" (← between d "W[" "]")
  let gs ← parseList parseGroup ";" (← between d "G[" "]")
  let cs ← parseList parseConn ";" (← between d "C[" "]")
  let p ← between d "P[" "]"
  pure ({ workers := ws, groups := gs.map (·.1), connectors := cs, policy := parsePolicy p }, gs.map (·.2))

/-! ### operands -/

/-- `replica@worker:ok:pid` -/
def parseDRes (s : String) : Option DRes :=
  match s.splitOn "@" with
  | [n, rest] =>
    match rest.splitOn ":" with
    | [w, ok, pid] => some { replica := n, worker := w, ok := ok == "1", pid := strPid pid }
    | _ => none
  | _ => none

def parseAt (s : String) : Option (String × String) :=
  match s.splitOn "@" with
  | [n, w] => some (n, w)
  | _ => none

/-- `gid/name>target:ok:pid` -/
def parseMig (s : String) : Option Mig :=
  match s.splitOn ">" with
  | [gn, rest] =>
    match gn.splitOn "/", rest.splitOn ":" with
    | [g, n], [t, ok, pid] => some { g := g, name := n, target := t, deployOk := ok == "1", pid := strPid pid }
    | _, _ => none
  | _ => none

/-- `worker/pipeline` -/
def parseSlash (s : String) : Option (String × String) :=
  match s.splitOn "/" with
  | [w, p] => some (w, p)
  | _ => none

/-! ### verdicts -/

structure St' where
  timeout : Nat := 15000
  prev : Sys := {}
  prevTags : Tags × Tags := ([], [])
  /-- previous local views of the follower coordinators (3-node part) -/
  followers : List (String × LState) := []
  /-- when each worker last registered or sent a heartbeat (what `last_heartbeat` would be without the
  re-stamping of `sync_from_raft`) -/
  trueHb : List (String × Nat) := []
  /-- the leader's model registry as last dumped (`name=key` entries) -/
  models : List String := []

def compName : Comp → String
  | .wset => "worker-set" | .status => "worker-status" | .book => "worker-bookkeeping"
  | .groups => "groups" | .conns => "connectors" | .policy => "scaling-policy"

/-- digests agree on every group both sides know -/
def tagsAgree (tl tr : Tags) : Bool :=
  tl.all fun (g, h) => match tr.find? (·.1 == g) with | some (_, h') => h == h' | none => true

def compOk (c : Comp) (s : Sys) (tags : Tags × Tags) : Bool :=
  compSyncB c s.l s.r && (c != .groups || tagsAgree tags.1 tags.2)

/-- workers Ready in `l` whose last real heartbeat is older than the time-out at `now` -/
def silentWorkers (st : St') (l : LState) (now : Nat) : List String :=
  (l.workers.filter fun e => e.2.status == WStatus.ready &&
    match st.trueHb.find? (·.1 == e.1) with
    | some (_, t) => decide (now - t > l.timeout)
    | none => false).map (·.1)

def finish (st : St') (op? : Option Op) (modelAnswer : String) (implAnswer lDump rDump : String)
    (localOnly : Bool := false) : St' × String :=
  match parseLDump st.timeout false lDump, parseRDump rDump with
  | some (il, tl), some (ir, tr) =>
    -- `localOnly`: the call committed locally and its proposal failed (answer 5xx): no command reached the log
    let model : Sys := match op? with
      | some op => if localOnly then { l := stepL st.prev.l st.prev.r op, r := st.prev.r } else step st.prev op
      | none => st.prev
    -- `pending_rebalance` is not dumped: it does not take part in the comparison
    let impl : Sys := { l := { il with pending := model.l.pending }, r := ir }
    let hb2 := match op? with
      | some (.register id _ _ _ _ now) => (id, now) :: st.trueHb.filter (·.1 != id)
      | some (.heartbeat id _ _ now) => if (st.prev.l.workers.get id).isSome then (id, now) :: st.trueHb.filter (·.1 != id) else st.trueHb
      | _ => st.trueHb
    let st2 := { st with prev := impl, prevTags := (tl, tr), trueHb := hb2 }
    -- a sweep that leaves a silent worker Ready: the time-out was masked by the re-stamping of sync_from_raft
    let masked := match op? with
      | some (.tickSweep now) => (silentWorkers st st.prev.l now).filter fun id =>
          match impl.l.workers.get id with | some w => w.status == WStatus.ready | none => false
      | _ => []
    let broken := if localOnly then [] else
      Comp.all.filter fun c => compOk c st.prev st.prevTags && !compOk c impl (tl, tr)
    let isSync := match op? with | some (.tickSync _) => true | _ => false
    let reverted := if isSync then
        Comp.all.filter fun c => compOk c st.prev st.prevTags && !noRevertB c st.prev.l impl.l
      else []
    let kind? := op?.map Op.kind
    let unlisted := broken.filter fun c => match kind? with
      | some k => (knownCell k c).isNone
      | none => true
    let listed := broken.filterMap fun c => match kind? with
      | some k => (knownCell k c).map fun id => (id, c)
      | none => none
    if localOnly && !(implAnswer.startsWith "refused") then
      (st2, "JUDGE C38 a change that was applied locally but not proposed was acknowledged to the client")
    else if !reverted.isEmpty then
      (st2, s!"JUDGE C38 sync_from_raft changed a synchronised component of the view: {reverted.map compName}")
    else if !unlisted.isEmpty then
      (st2, s!"JUDGE C38 the operation left the local view out of sync with the replicated state in: {unlisted.map compName}")
    else
      let modelLine := s!"{modelAnswer} | L {dumpL model.l} | R {dumpR model.r}"
      let implLine := s!"{implAnswer} | L {dumpL impl.l} | R {dumpR impl.r}"
      if modelLine != implLine then (st2, s!"DIFF model={modelLine}")
      else match listed with
        | (id, c) :: _ => (st2, s!"KNOWN[{id}] {compName c} not replicated by this call; the next sync_from_raft reverts it")
        | [] =>
          if !masked.isEmpty then
            (st2, s!"KNOWN[C38-sync-refreshes-heartbeat-stamps] workers {masked} sent no heartbeat for longer than the time-out and stay Ready: sync_from_raft re-stamped them")
          else (st2, "ok")
  | _, _ => (st, "BADLINE dump")

def b01 (s : String) : Bool := s == "1"

/-- `fview <node> <now> => ok | L <leader's view> | F <follower's view after its sync_from_raft> | R <replicated state>`:
the follower's transition is `sync` (DIFF otherwise); wherever the leader is synchronised with the replicated
state, the follower must show what the leader shows (`follower_view_equals_leader_partial`) -/
def followerView (st : St') (node : String) (now : Nat) (ans ld fd rd : String) : St' × String :=
  match parseLDump st.timeout false ld, parseLDump st.timeout false fd, parseRDump rd with
  | some (ll, tll), some (fl, _), some (r, tr) =>
    let prevF : LState := ((st.followers.find? (·.1 == node)).map (·.2)).getD { timeout := st.timeout }
    let model := sync prevF r now
    let st2 := { st with followers := (node, fl) :: st.followers.filter (·.1 != node) }
    let differs := Comp.all.filter fun c =>
      compSyncB c ll r && (c != .groups || tagsAgree tll tr) && !noRevertB c ll fl
    if !differs.isEmpty then
      (st2, s!"JUDGE C38 follower {node} shows a different {differs.map compName} than the leader although the leader is in sync with the replicated state")
    else
      let m := s!"ok | F {dumpL model}"
      let i := s!"{ans} | F {dumpL fl}"
      (st2, verdict m i)
  | _, _, _ => (st, "BADLINE fview dump")

/-- the shape of the health loop of `varpulis-cli/src/main.rs` that the harness replays and `Op.tick*` model:
the calls in order, no `ScalingPolicySet` proposal anywhere, the start-up assignment of the policy -/
def loopShape : String :=
  "update_raft_role,sync_from_raft,is_writer,health_sweep,WorkerStatusChanged,client_write,handle_worker_failure," ++
  "cleanup_completed_migrations,pending_rebalance,reconcile_placements,rebalance,evaluate_scaling;policyset=0;startup_policy_assign=1"

def step (st : St') (line : String) : St' × String :=
  let (op, res?) := splitCase line
  match words op with
  | ["new", "rs", t] => ({ timeout := t.toNat?.getD 15000, prev := { l := { timeout := t.toNat?.getD 15000 } } }, "")
  | [] => (st, "")
  | ws =>
    match res? with
    | none => (st, "")
    | some res =>
    if ws == ["loopshape"] then (st, verdict loopShape res) else
    if ws.head? == some "modelup" || ws.head? == some "modeldel" || ws.head? == some "msync" || ws.head? == some "fmodels" then
      -- the model registry: uploads / deletions are proposed (`ModelRegistered` / `ModelRemoved`) and applied locally;
      -- `sync_from_raft` copies the replicated registry (repaired: it used to ignore it), so a follower shows the leader's
      match res.splitOn " | " with
      | [ans, a, b] =>
        let parse (x : String) : List String := let y := (x.drop 3).toString; if y == "-" then [] else y.splitOn ";"
        let ma := parse a
        let mb := parse b
        let expected : List String := match ws with
          | ["modelup", n, k] => sortBy (· < ·) (s!"{n}={k}" :: st.models.filter fun e => !(e.startsWith (n ++ "=")))
          | ["modeldel", n] => st.models.filter fun e => !(e.startsWith (n ++ "="))
          | _ => st.models
        let st2 := if ws.head? == some "fmodels" then st else { st with models := ma }
        if ma != mb then
          (st2, if ws.head? == some "fmodels"
            then s!"JUDGE C38 follower {ws.drop 1} shows model registry {mb}, the leader {ma}"
            else s!"JUDGE C38 the coordinator's model registry {ma} differs from the replicated one {mb}")
        else (st2, verdict s!"{if ws.head? == some "fmodels" then "ok" else ans} {expected}" s!"{ans} {ma}")
      | _ => (st, "BADLINE models")
    else
    if ws.head? == some "fview" then
      match ws, res.splitOn " | " with
      | ["fview", node, now], [ans, ld, fd, rd] =>
        followerView st node (now.toNat?.getD 0) ans (ld.drop 2).toString (fd.drop 2).toString (rd.drop 2).toString
      | _, _ => (st, "BADLINE fview")
    else
    match res.splitOn " | " with
    | [ans, ld, rd] =>
      let ld := (ld.drop 2).toString
      let rd := (rd.drop 2).toString
      let s := st.prev
      let fin (op : Option Op) (answer : String) := finish st op answer ans ld rd
      match ws with
      | ["reg", id, addr, cpu, run, mx, now] =>
        match cpu.toNat?, run.toNat?, mx.toNat?, now.toNat? with
        | some cpu, some run, some mx, some now => fin (some (.register id addr cpu run mx now)) "ok"
        | _, _, _, _ => (st, "BADLINE")
      | ["hb", id, run, ev, now] =>
        match run.toNat?, ev.toNat?, now.toNat? with
        | some run, some ev, some now =>
          fin (some (.heartbeat id run ev now)) (if (s.l.workers.get id).isSome then "ok" else "notfound")
        | _, _, _ => (st, "BADLINE")
      | ["dereg", id] => fin (some (.deregister id)) (if (s.l.workers.get id).isSome then "ok" else "notfound")
      | ["deploy", g, name, results] =>
        match parseList parseDRes "," results with
        | some rs => fin (some (.deploy g name rs)) "ok"
        | none => (st, "BADLINE")
      | ["teardown", g, tasks] =>
        match parseList parseAt "," tasks with
        | some ts => fin (some (.teardown g ts)) (if (s.l.groups.get g).isSome then "ok" else "notfound")
        | none => (st, "BADLINE")
      | ["migrate", g, name, src, tgt, ep, pid, ok] =>
        match ep.toNat? with
        | some ep => fin (some (.migrate { g := g, name := name, source := src, target := tgt, epoch := ep } (strPid pid) (b01 ok))) ans
        | none => (st, "BADLINE")
      | ["rebalance", migs] =>
        match parseList parseMig "," migs with
        | some ms => fin (some (.rebalanceApi ms)) ans
        | none => (st, "BADLINE")
      | ["drain", id, migs] =>
        match parseList parseMig "," migs with
        | some ms =>
          let answer := match s.l.workers.get id with
            | none => "notfound"
            | some w => if w.status == .draining then "already" else "ok"
          fin (some (.drain id ms)) answer
        | none => (st, "BADLINE")
      | ["conncreate", n, body, valid] =>
        fin (some (.connCreate n body (b01 valid))) (if (s.l.connectors.get n).isSome || !b01 valid then "rejected" else "ok")
      | ["connupdate", n, bn, body, valid] =>
        fin (some (.connUpdate n bn body (b01 valid))) (if (s.l.connectors.get n).isNone || !b01 valid then "rejected" else "ok")
      | ["conndelete", n] => fin (some (.connDelete n)) (if (s.l.connectors.get n).isSome then "ok" else "notfound")
      | ["sync", now] =>
        match now.toNat? with
        | some now => fin (some (.tickSync now)) "ok"
        | none => (st, "BADLINE")
      | ["sweep", now] =>
        match now.toNat? with
        | some now =>
          let m := sortBy (· < ·) (sweepMarked s.l now)
          fin (some (.tickSweep now)) ("m:" ++ (if m.isEmpty then "-" else ",".intercalate m))
        | none => (st, "BADLINE")
      | ["failover", id, migs] =>
        match parseList parseMig "," migs with
        | some ms => fin (some (.tickFailover id ms)) ans
        | none => (st, "BADLINE")
      | ["reconcile", rd] =>
        match parseList parseSlash "," rd with
        | some l => fin (some (.tickReconcile l)) ans
        | none => (st, "BADLINE")
      | ["autorebalance", migs] =>
        match parseList parseMig "," migs with
        | some ms => fin (some (.tickRebalance ms)) ans
        | none => (st, "BADLINE")
      | ["policy", p] => fin (some (.startupPolicy (parsePolicy p))) "ok"
      -- a call that was refused before it changed anything (plan errors): nothing may change
      | "noop" :: _ => fin none ans
      | "unreplicated" :: "deploy" :: [g, name, results] =>
        match parseList parseDRes "," results with
        | some rs => finish st (some (.deploy g name rs)) ans ans ld rd true
        | none => (st, "BADLINE")
      | "unreplicated" :: "teardown" :: [g, tasks] =>
        match parseList parseAt "," tasks with
        | some ts => finish st (some (.teardown g ts)) ans ans ld rd true
        | none => (st, "BADLINE")
      | _ => (st, "BADLINE op")
    | _ => (st, "BADLINE result")

--! vmodel: raftsync => Varpulis.Driver.RaftSyncD.driver
def driver : Prop' St' := { init := {}, step := step }

end Varpulis.Driver.RaftSyncD
