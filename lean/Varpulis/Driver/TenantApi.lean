import Varpulis.Model.TenantApi
import Varpulis.Driver.Util
/-! `vmodel tenantapi`: C28 request sequences on M-TENANT with the threshold engine.

```
new tenants=<tid:key:maxPipelines;…>
req <key> deploy <name> <src>          src: an integer = `stream Out = E .where(x > <src>) .emit(x: x)`, else unparsable text
req <key> list | usage
req <key> get|delete|checkpoint|metrics|logs <pid>
req <key> inject <pid> <x>      req <key> batch <pid> <x,x,…>
req <key> restore <pid> <c#>    (c# = the #-th successful checkpoint reply of the run)
req <key> reload <pid> <src>
        => <reply> | others=<same|changed> leak=<0|1>
```
Pipeline ids are canonical (`p0`, `p1`, … in order of successful deploys), as are tenant ids.
Judge: a request that changed another tenant's state, or whose reply shows another tenant's ids,
names or key, is a failing input; otherwise reply(model) = reply(implementation). -/
namespace Varpulis.Driver.TenantApiD
open Varpulis.TenantApi Varpulis.Driver

structure St where
  m : Manager ThrEngine := { tenants := [], index := [] }
  nextPid : Nat := 0
  cks : List Nat := []     -- checkpoints in order of creation

def showOuts (l : List Int) : String := if l.isEmpty then "-" else ",".intercalate (l.map toString)

def showInfo (i : PipelineInfo) : String := s!"{i.id}:{i.name}:{i.status}:{i.source}"

def insertSorted (x : String) : List String → List String
  | [] => [x]
  | y :: ys => if x ≤ y then x :: y :: ys else y :: insertSorted x ys

def sortStrings (l : List String) : List String := l.foldr insertSorted []

def showResp : Resp Int Nat → String
  | .unauthorized => "401"
  | .tenantNotFound => "404t"
  | .pipelineNotFound => "404p"
  | .quotaExceeded => "429"
  | .parseError => "400"
  | .engineError => "500"
  | .deployed id name => s!"201 {id} {name}"
  | .pipelines l => "200 list " ++ (if l.isEmpty then "-" else ",".intercalate (sortStrings (l.map showInfo)))
  | .pipeline i => s!"200 info {showInfo i}"
  | .deleted => "200 deleted"
  | .injected out => s!"200 inj {showOuts out}"
  | .batch acc out => s!"200 batch {acc} {showOuts out}"
  | .checkpointed pid ck => s!"200 ck {pid} {ck}"
  | .restored pid => s!"200 restored {pid}"
  | .metrics pid ep oe => s!"200 metrics {pid} {ep} {oe}"
  | .reloaded => "200 reloaded"
  | .usage tid u mp => s!"200 usage {tid} {u.eventsProcessed} {u.outputEventsEmitted} {u.activePipelines} {mp}"
  | .logStream => "200 logs"

def parseTenants (s : String) : Option (Manager ThrEngine) := do
  let ts ← (s.splitOn ";").mapM fun (p : String) => match p.splitOn ":" with
    | [tid, key, mp] => mp.toNat?.map fun mp => (tid, key, mp)
    | _ => none
  pure { tenants := ts.map fun (tid, key, mp) =>
           { id := tid, name := tid, apiKey := key, maxPipelines := mp, usage := ⟨0, 0, 0⟩, pipelines := [] },
         index := ts.map fun (tid, key, _) => (key, tid) }

def parseOp (st : St) : List String → Option (Op Int Nat)
  | ["deploy", name, src] => some (.deploy name src s!"p{st.nextPid}")
  | ["list"] => some .list
  | ["usage"] => some .usage
  | ["get", pid] => some (.get pid)
  | ["delete", pid] => some (.delete pid)
  | ["checkpoint", pid] => some (.checkpoint pid)
  | ["metrics", pid] => some (.metrics pid)
  | ["logs", pid] => some (.logs pid)
  | ["inject", pid, x] => x.toInt?.map fun x => .inject pid x
  | ["batch", pid, xs] => ((xs.splitOn ",").mapM String.toInt?).map fun xs => .injectBatch pid xs
  | ["restore", pid, c] => ((c.drop 1).toString.toNat?.bind fun i => st.cks[i]?).map fun ck => .restore pid ck
  | ["reload", pid, src] => some (.reload pid src)
  | _ => none

def step (st : St) (line : String) : St × String :=
  let (op, impl?) := splitCase line
  let impl := impl?.getD ""
  match words op with
  | ["new", ts] =>
    (match parseTenants (ts.drop 8).toString with
    | some m => if ts.startsWith "tenants=" then ({ m := m }, "") else (st, "BADLINE")
    | none => (st, "BADLINE"))
  | "req" :: key :: rest =>
    (match parseOp st rest with
    | none => (st, "BADLINE")
    | some o =>
      let (m', r) := handle thrOps st.m key o
      let st' : St := { st with m := m' }
      let st' := match r with
        | .deployed _ _ => { st' with nextPid := st'.nextPid + 1 }
        | .checkpointed _ ck => { st' with cks := st'.cks ++ [ck] }
        | _ => st'
      let (reply, obs) := match impl.splitOn " | " with
        | [a, b] => (a, b)
        | _ => (impl, "")
      if obs != "others=same leak=0" then
        (st', s!"JUDGE C28 a request with key {key} " ++
          (if (words obs).head? == some "others=changed" then "changed another tenant's pipelines, outputs or usage"
           else "got a reply showing another tenant's pipeline/tenant ids, names or key") ++ s!" ({obs})")
      else if ((showResp r).startsWith "404" || (showResp r).startsWith "401") && reply.startsWith "2" then
        -- the model refuses (unknown key, or a pipeline the key's tenant does not own) but the server served it
        (st', s!"JUDGE C28 the server served ({reply.take 40}) a request that must be refused ({showResp r}): key {key} does not own the addressed pipeline")
      else (st', verdict (showResp r) reply))
  | [] => (st, "")
  | _ => (st, "BADLINE")

--! vmodel: tenantapi => Varpulis.Driver.TenantApiD.driver
def driver : Prop' St := { init := {}, step := step }

end Varpulis.Driver.TenantApiD
