import Varpulis.Model.RaftStore
import Varpulis.Driver.RaftSM
/-! `vmodel raftstore`: replays the C36 histories (harness/vh-cluster/src/p_raftstore.rs) on the disk
model, computes the disk a crash after `n` writes leaves, reopens it, and judges the implementation's
recovered state against the specification (the committed log up to the recorded applied position). -/
namespace Varpulis.Driver.RaftStoreD
open Varpulis.RaftSM Varpulis.RaftStore Varpulis.Driver Varpulis.Driver.RaftIO

structure St where
  g : List Entry := []
  ops : List Op := []   -- reversed

def bad (s : St) (why : String) : St × String := (s, "PROTOCOL " ++ why)

def dump (nd : Node) : String :=
  s!"vote={pVote nd.disk.ls.vote} {pLog nd.disk.ls} {pSM nd.mem}"

/-- verdict on a `restart`/`crash` line for the disk `d` the model predicts -/
def recoveryVerdict (s : St) (d : Disk) (impl : String) : String :=
  match impl.splitOn " la=" with
  | [pre, post] =>
    match post.splitOn " persist=" with
    | [smPart, tail] =>
      let (persist, acked) := match tail.splitOn " acked=" with
        | [a, b] => (a, b)
        | _ => (tail, "?")
      let implSM := "la=" ++ smPart
      match (field implSM "la").bind parseOLid with
      | none => "JUDGE unreadable applied position"
      | some la =>
        let spec := pSM (specSM s.g la)
        if implSM != spec then
          s!"JUDGE recovered state is not the replicated state of the commands up to the recorded applied position {pOLid la}: expected {spec}"
        else if persist != "same" then "JUDGE vote/log/purge position changed across the restart"
        else if field pre "vote" != some acked then
          s!"JUDGE the recovered vote {(field pre "vote").getD "?"} is not the last vote save_vote acknowledged ({acked})"
        else match (judgeLogLine pre).orElse (fun _ => judgeHoles pre) with
          | some why => "JUDGE " ++ why
          | none =>
            match reopen d with
            | .ok nd => verdict (dump nd ++ " persist=same acked=" ++ pVote nd.disk.ls.vote) impl
            | .panic => verdict "panic" impl
    | _ => "JUDGE unreadable recovery line"
  | _ => "JUDGE unreadable recovery line"

def step (s : St) (line : String) : St × String :=
  let (op, res) := splitCase line
  let ws := words op
  match ws, res with
  | "new" :: _, _ => ({}, "")
  | "G" :: rest, none =>
    match parseEntries rest with
    | some es => ({ s with g := es }, "")
    | none => bad s "G"
  | "op" :: "append" :: rest, none =>
    match parseEntries rest with
    | some es => ({ s with ops := .append es :: s.ops }, "")
    | none => bad s "append"
  | ["op", "apply", j], none =>
    match j.toNat? with
    | some j => ({ s with ops := .applyTo j :: s.ops }, "")
    | none => bad s "apply"
  | ["op", "begin"], none => ({ s with ops := .beginSnapshot :: s.ops }, "")
  | ["op", "finish"], none => ({ s with ops := .finishSnapshot :: s.ops }, "")
  | ["op", "install", o], none =>
    let pos : Option (Option Nat) := if o == "-" then some none else o.toNat?.map some
    match pos with
    | some o =>
      let sm := applyEntriesT {} (s.g.filter (fun e => upto o e.id.index))
      ({ s with ops := .installSnapshot (buildSnapshot sm) :: s.ops }, "")
    | none => bad s "install"
  | ["op", "purge", id], none =>
    match parseLid id with
    | some id => ({ s with ops := .purge id :: s.ops }, "")
    | none => bad s "purge"
  | ["op", "trunc", id], none =>
    match parseLid id with
    | some id => ({ s with ops := .deleteConflict id :: s.ops }, "")
    | none => bad s "trunc"
  | ["op", "vote", t, n, c], none =>
    match t.toNat?, n.toNat? with
    | some t, some n => ({ s with ops := .saveVote ⟨t, n, c == "1"⟩ :: s.ops }, "")
    | _, _ => bad s "vote"
  | ["rv", k], some impl =>
    -- `read_vote` right after the k-th operation (a `save_vote`) of the uncrashed run
    match k.toNat? with
    | some k =>
      let ops := s.ops.reverse
      match ops[k]? with
      | some (.saveVote v) =>
        if impl != pVote (some v) then
          (s, s!"JUDGE read_vote after save_vote({pVote (some v)}) returned {impl}")
        else (s, verdict (pVote (run {} (ops.take (k + 1))).disk.ls.vote) impl)
      | _ => bad s "rv: not a vote operation"
    | none => bad s "rv"
  | ["restart", _], some impl => (s, recoveryVerdict s (run {} s.ops.reverse).disk impl)
  | ["crash", n], some impl =>
    match n.toNat? with
    | some n => (s, recoveryVerdict s (crashDiskAt {} s.ops.reverse n) impl)
    | none => bad s "crash"
  | _, _ => bad s ("unknown line: " ++ op)

--! vmodel: raftstore => Varpulis.Driver.RaftStoreD.driver
def driver : Prop' St := { init := {}, step := step }

end Varpulis.Driver.RaftStoreD
