import Varpulis.Model.RaftAgree
import Varpulis.Driver.RaftSync
import Varpulis.Driver.Util
/-! `vmodel raftagree`: per-node applied state of real coordinators against the model (C37).

Lines:
* `new ra` — fresh scenario.
* `clog <entries>` — the committed log as read from the nodes' stores (entries `term/payload`, index = position).
* `ack <index> <payload>` — a write acknowledged to the client (`client_write` returned its log id).
* `round` — a new checkpoint (states of one round are compared with each other).
* `nlog <node> <first> <entries>` => `ok` — what a node's own log holds from index `first`: every entry
  below the node's applied position must be the committed one (State Machine Safety; `JUDGE` otherwise).
* `state <node> <applied>` => `<dump of the node's CoordinatorState>` — model: `applyLog {} (clog.take applied)`
  (`DIFF` otherwise); judge: acknowledged writes below `applied` are in the log at their index, nodes of
  the round at the same position have the same state.
* `leader <node> <term> <lastindex>` => `ok` — every write acknowledged in an earlier term is in the new
  leader's log (judged on `nlog` of that node).
* `sm <script>` => `<dump>` — state-machine replay without consensus: the script is a list of storage events
  (`a<k>` apply the next k entries of `clog`, `s` build a snapshot, `i` install the last snapshot into a
  fresh store and continue there, `r` restart in memory); model `SM.step`. -/
namespace Varpulis.Driver.RaftAgreeD
open Varpulis.RaftSync Varpulis.RaftAgree Varpulis.Driver
open Varpulis.Driver.RaftSyncD (sortBy between parseList parseRDump dumpR strList listStr secList parsePolicy)

def optStr (s : String) : Option String := if s == "-" then none else some s

def parseGS (s : String) : GStatus := (Varpulis.Driver.RaftSyncD.parseGStatus s).getD .failed

def parseCmd (s : String) : Option Cmd :=
  match s.splitOn ":" with
  | ["rw", id, addr, cpu, run, mx] => do pure (.registerWorker id addr (← cpu.toNat?) (← run.toNat?) (← mx.toNat?))
  | ["dw", id] => some (.deregisterWorker id)
  | ["ws", id, st] => some (.workerStatusChanged id st)
  | ["wp", id, a] => some (.workerPipelinesUpdated id (strList a))
  | ["gd", k, n, st] => some (.groupDeployed k { name := n, status := parseGS st, pls := [] })
  | ["gu", k, n, st] => some (.groupUpdated k { name := n, status := parseGS st, pls := [] })
  | ["gr", k] => some (.groupRemoved k)
  | ["ms", id, st, body] => some (.migrationStarted (optStr id) st body)
  | ["mu", id, st] => some (.migrationUpdated id st)
  | ["mr", id] => some (.migrationRemoved id)
  | ["cc", n, b] => some (.connectorCreated n b)
  | ["cu", n, b] => some (.connectorUpdated n b)
  | ["cr", n] => some (.connectorRemoved n)
  | ["sp", p] => some (.scalingPolicySet (optStr p))
  | ["mg", n, e] => some (.modelRegistered n e)
  | ["mx", n] => some (.modelRemoved n)
  | _ => none

def parsePayload (s : String) : Option Payload :=
  if s == "b" then some .blank else if s == "m" then some (.membership "") else (parseCmd s).map .normal

/-- `term/payload` -/
def parseEntry (s : String) : Option LEntry :=
  match s.splitOn "/" with
  | [t, p] => do pure { term := ← t.toNat?, payload := ← parsePayload p }
  | _ => none

def dumpFull (r : RState) : String :=
  let ms := sortBy (fun (a b : String × RMig) => a.1 < b.1) r.migrations
  let xs := sortBy (fun (a b : String × String) => a.1 < b.1) r.models
  s!"{dumpR r} M[{secList (ms.map fun e => s!"{e.1}={e.2.status}~{e.2.body}")}] X[{secList (xs.map fun e => s!"{e.1}={e.2}")}]"

structure St' where
  clog : List LEntry := []
  acks : List (Nat × Nat × Payload) := []      -- index, term of the ack, payload
  nlogs : List (String × Nat × List LEntry) := []
  round : List (Nat × String) := []            -- applied, dump
  smSeen : List (Nat × String) := []           -- (position, dump) of the `sm` histories over the current log

def payloadAt (l : List LEntry) (i : Nat) : Option Payload := (l[i]?).map (·.payload)

/-- storage script of the `sm` lines -/
def runScript (clog : List LEntry) (script : List String) : Option SM :=
  let rec go (m : SM) (snap : Option SM) : List String → Option SM
    | [] => some m
    | w :: ws =>
      if w == "s" then go m (some m.snapshot) ws
      else if w == "i" then
        match snap with
        | some s => go (({} : SM).step (.install s)) snap ws
        | none => none
      else if w == "r" then go (m.step .restartMem) snap ws
      else if w.startsWith "a" then
        match (w.drop 1).toString.toNat? with
        | some k => go (m.step (.apply ((clog.drop m.applied).take k))) snap ws
        | none => none
      else none
  go {} none script

def step (st : St') (line : String) : St' × String :=
  let (op, res?) := splitCase line
  match words op, res? with
  | ["new", "ra"], _ => ({}, "")
  | ["round"], _ => ({ st with round := [] }, "")
  | ["clog", es], none =>
    match parseList parseEntry "," es with
    | some l => ({ st with clog := l, smSeen := if l == st.clog then st.smSeen else [] }, "")
    | none => (st, "BADLINE clog")
  | ["ack", i, t, p], none =>
    match i.toNat?, t.toNat?, parsePayload p with
    | some i, some t, some p => ({ st with acks := st.acks ++ [(i, t, p)] }, "")
    | _, _, _ => (st, "BADLINE ack")
  | ["nlog", node, first, applied, es], some res =>
    match first.toNat?, applied.toNat?, parseList parseEntry "," es with
    | some first, some applied, some l =>
      let st2 := { st with nlogs := (node, first, l) :: st.nlogs.filter (·.1 != node) }
      -- every entry of the node below its applied position is the committed one
      let bad := (List.range l.length).filter fun k =>
        let i := first + k
        decide (i < applied) && (l[k]? != st.clog[i]?)
      if bad.isEmpty then (st2, verdict "ok" res)
      else (st2, s!"JUDGE C37 node {node} holds a different entry than the committed log at index {bad.map (· + first)} below its applied position {applied} (State Machine Safety)")
    | _, _, _ => (st, "BADLINE nlog")
  | ["state", node, applied], some res =>
    match applied.toNat? with
    | some applied =>
      if applied > st.clog.length then (st, s!"JUDGE C37 node {node} applied {applied} entries but only {st.clog.length} are committed")
      else
        let model := dumpFull (applyLog {} (st.clog.take applied))
        let lost := st.acks.filter fun (i, _, p) => decide (i < applied) && payloadAt st.clog i != some p
        let clash := st.round.filter fun (a, d) => a == applied && d != res
        let st2 := { st with round := (applied, res) :: st.round }
        if !lost.isEmpty then
          (st2, s!"JUDGE C37 acknowledged write at index {lost.map (·.1)} is not in the replicated log applied by node {node}")
        else if !clash.isEmpty then
          (st2, s!"JUDGE C37 node {node} at position {applied} differs from another coordinator at the same position")
        else (st2, verdict model res)
    | none => (st, "BADLINE state")
  | ["leader", node, term], some res =>
    match term.toNat?, st.nlogs.find? (·.1 == node) with
    | some term, some (_, first, l) =>
      let lost := st.acks.filter fun (i, t, p) => decide (t < term) && decide (first ≤ i) && payloadAt l (i - first) != some p
      if lost.isEmpty then (st, verdict "ok" res)
      else (st, s!"JUDGE C37 leader {node} of term {term} lacks the acknowledged write(s) at index {lost.map (·.1)}")
    | _, _ => (st, "BADLINE leader")
  | "sm" :: script, some res =>
    match runScript st.clog script with
    | some m =>
      -- two storage histories over the same log that end at the same position must hold the same state
      let pos := ((res.splitOn " ").head?.bind String.toNat?).getD 0
      let clash := st.smSeen.filter fun (p, d) => p == pos && d != res
      let st2 := { st with smSeen := (pos, res) :: st.smSeen }
      if !clash.isEmpty then
        (st2, s!"JUDGE C37 two state machines that applied the same log up to position {pos} (different batching / snapshots / restarts) differ")
      else (st2, verdict s!"{m.applied} {dumpFull m.state}" res)
    | none => (st, "BADLINE sm")
  | [], _ => (st, "")
  | _, _ => (st, "BADLINE op")

--! vmodel: raftagree => Varpulis.Driver.RaftAgreeD.driver
def driver : Prop' St' := { init := {}, step := step }

end Varpulis.Driver.RaftAgreeD
