import Varpulis.Model.Expr
import Varpulis.Driver.Util
/-! `vmodel expr`: replays the C08 / C10 / C11 case lines on `Model/Expr.lean`.

Line forms (tokens separated by blanks, parentheses are tokens, strings are hex of their UTF-8):
  `new env <etype> <n> (<name> <value>)^n <k> (<name> <value>)^k`   event type, fields, bindings
  `cmp <ctx> <op> <value> <value> => T|F|none|panic`                 C08, values compared directly
  `cmpx <path> <op> <expr> <expr> => T|F|none|kept|dropped|panic`    C08 through expressions / Engine
  `ev <path> <expr> => some <value>|none|panic|abort`                C11
  `evp <expr> => some <value>|none|panic|abort`                     C11/C08: eval_pattern_expr, vars = bindings
  `probe <path> <text> => ok|panic|abort`                            C11, no model (unmodelled forms)
  `c10 <expr> => <res> | <res> | <expr>`                             C10: unfolded, folded, folded AST
  `c10w <expr> => kept|dropped`                                      C10: `.where(<expr>)` after parse()+Engine
  `c10t <expr> => <res>`                                             C10: value after parse()+Engine
-/
namespace Varpulis.Driver.ExprD
open Varpulis.Expr Varpulis.Driver

/-! ## hardware float arithmetic (the `FOps` parameter) -/

def F.canon : F → F
  | .fin s 0 _ => .fin s 0 0
  | .fin s m e =>
    -- strip trailing zero bits
    let tz := (List.range 1100).foldl (fun (acc : Nat × Bool) _ =>
      if acc.2 then acc else if (m >>> acc.1) % 2 == 0 then (acc.1 + 1, false) else (acc.1, true)) (0, false)
    .fin s (m >>> tz.1) (e + tz.1)
  | x => x

def toFloat : F → Float
  | .nan true => Float.ofBits 0xFFF8000000000000
  | .nan false => Float.ofBits 0x7FF8000000000000
  | .inf true => -(1.0 / 0.0)
  | .inf false => 1.0 / 0.0
  | .fin s m e =>
    let x := Float.scaleB (Float.ofNat m) e
    if s then -x else x

def ofFloat (x : Float) : F :=
  let bits := x.toBits.toNat
  let s := bits >>> 63 == 1
  let ex := (bits >>> 52) % 2048
  let frac := bits % (2 ^ 52)
  if ex == 2047 then (if frac == 0 then .inf s else .nan s)
  else if ex == 0 then F.canon (.fin s frac (-1074))
  else F.canon (.fin s (frac + 2 ^ 52) ((ex : Int) - 1075))

/-- Lean's `Float.toBits` canonicalises NaN, so the sign of a NaN result follows the x86 rule here:
a NaN operand is propagated (first operand first), a freshly generated NaN is the default (negative)
one. Only `sort` (through `total_cmp`) can observe it; printed results never show it. -/
def nanSign (a b : F) (r : F) : F :=
  match r with
  | .nan _ => (match a, b with
    | .nan s, _ => .nan s
    | _, .nan s => .nan s
    | _, _ => .nan true)
  | x => x

def lift2 (f : Float → Float → Float) (a b : F) : F := nanSign a b (ofFloat (f (toFloat a) (toFloat b)))

/-- C `fmod` (Rust `%` on f64) is exact: computed on the exact values -/
def fmodF (x y : F) : F :=
  match x, y with
  | .nan s, _ => .nan s
  | _, .nan s => .nan s
  | .inf _, _ => .nan true
  | .fin s m e, .inf _ => .fin s m e
  | .fin s mx ex, .fin _ my ey =>
    if my == 0 then .nan true
    else
      let k := min ex ey
      let X := mx * 2 ^ (ex - k).toNat
      let Y := my * 2 ^ (ey - k).toNat
      F.canon (.fin s (X % Y) k)

/-- compiler-builtins `__powidf2` (what `f64::powi` lowers to): square-and-multiply, reciprocal
for negative exponents -/
def powiF (a : F) (b : Int) : F :=
  let rec go (fuel : Nat) (a : Float) (pow : Nat) (mul : Float) : Float :=
    match fuel with
    | 0 => mul
    | fuel + 1 =>
      let mul := if pow % 2 == 1 then mul * a else mul
      let pow := pow / 2
      if pow == 0 then mul else go fuel (a * a) pow mul
  let r := go 40 (toFloat a) b.natAbs 1.0
  ofFloat (if b < 0 then 1.0 / r else r)

/-- marker for results whose text the driver cannot reproduce (non-ASCII case mapping, float and
timestamp formatting beyond the exact short decimals): the case is then compared for panics only -/
def marker : String := String.singleton (Char.ofNat 1)

def asciiMap (f : Char → Char) (s : String) : String :=
  if s.toList.all (fun c => c.toNat < 128) then String.ofList (s.toList.map f) else marker ++ s

def stripTrailingZeros (cs : List Char) : List Char := (cs.reverse.dropWhile (· == '0')).reverse

/-- `Display for f64` (shortest round-trip decimal, never scientific): reproduced when the exact
decimal expansion has at most 15 significant digits — then it is the shortest one -/
def fmtFloatD (f : F) : String :=
  match F.canon f with
  | .nan _ => "NaN"
  | .inf s => if s then "-inf" else "inf"
  | .fin s m e =>
    let sign := if s then "-" else ""
    if m == 0 then sign ++ "0"
    else if 0 ≤ e then
      let ds := (toString (m * 2 ^ e.toNat)).toList
      if (stripTrailingZeros ds).length ≤ 15 then sign ++ String.ofList ds else marker
    else
      let k := (-e).toNat
      let ds := (toString (m * 5 ^ k)).toList
      if ds.length > 15 then marker
      else
        let padded := List.replicate (k + 1 - ds.length) '0' ++ ds
        let ip := padded.take (padded.length - k)
        let fp := stripTrailingZeros (padded.drop (padded.length - k))
        sign ++ String.ofList ip ++ (if fp.isEmpty then "" else "." ++ String.ofList fp)

def hw : FOps where
  add := lift2 (· + ·)
  sub := lift2 (· - ·)
  mul := lift2 (· * ·)
  div := lift2 (· / ·)
  rem := fmodF
  powi := powiF
  powf := lift2 Float.pow
  fn1 := fun name x =>
    let f := toFloat x
    nanSign x x <| ofFloat (match name with
      | "sqrt" => f.sqrt | "ln" => f.log | "log10" => f.log10 | "exp" => f.exp
      | "sin" => f.sin | "cos" => f.cos | "tan" => f.tan | _ => f)
  lower := asciiMap Char.toLower
  upper := asciiMap Char.toUpper
  fmtFloat := fmtFloatD
  fmtTs := fun _ => marker

/-! ## tokens, hex strings -/

def tokenize (s : String) : List String :=
  let (acc, cur) := s.toList.foldl (fun (st : List String × List Char) c =>
    let (acc, cur) := st
    let flush := if cur.isEmpty then acc else String.ofList cur.reverse :: acc
    if c == ' ' then (flush, [])
    else if c == '(' then ("(" :: flush, [])
    else if c == ')' then (")" :: flush, [])
    else (acc, c :: cur)) ([], [])
  ((if cur.isEmpty then acc else String.ofList cur.reverse :: acc)).reverse

def hexVal (c : Char) : Option Nat :=
  if '0' ≤ c ∧ c ≤ '9' then some (c.toNat - 48)
  else if 'a' ≤ c ∧ c ≤ 'f' then some (c.toNat - 87) else none

partial def hexBytes : List Char → Option (List UInt8)
  | [] => some []
  | a :: b :: rest => do
    let x ← hexVal a; let y ← hexVal b; let r ← hexBytes rest
    pure ((x * 16 + y).toUInt8 :: r)
  | _ => none

/-- `x<hex>` → string -/
def unhex (t : String) : Option String :=
  match t.toList with
  | 'x' :: cs => do
    let bs ← hexBytes cs
    String.fromUTF8? (ByteArray.mk bs.toArray)
  | _ => none

def hexDigit (n : Nat) : Char := if n < 10 then Char.ofNat (48 + n) else Char.ofNat (87 + n)
def hex (s : String) : String :=
  "x" ++ String.ofList (s.toUTF8.toList.flatMap fun b => [hexDigit (b.toNat / 16), hexDigit (b.toNat % 16)])

/-! ## parsing -/

def parseFloat (t : String) : Option F :=
  if t == "nan" then some (.nan false)
  else if t == "-nan" then some (.nan true)
  else if t == "inf" then some (.inf false)
  else if t == "-inf" then some (.inf true)
  else
    match t.toList with
    | sg :: rest =>
      let body := String.ofList rest
      match body.splitOn "p" with
      | [m, e] => do
        let m ← m.toNat?; let e ← e.toInt?
        if sg == '+' then some (.fin false m e) else if sg == '-' then some (.fin true m e) else none
      | _ => none
    | [] => none

def parseI64 (t : String) : Option Int64 := t.toInt?.map Int64.ofInt

/-- literal atoms shared by values and expressions -/
inductive Lit | null | bool (b : Bool) | int (n : Int64) | float (f : F) | str (s : String) | ts (n : Int64) | dur (n : Nat)

def parseLit (t : String) : Option Lit :=
  if t == "null" then some .null
  else if t == "true" then some (.bool true)
  else if t == "false" then some (.bool false)
  else if t.startsWith "i:" then (parseI64 (t.drop 2).toString).map .int
  else if t.startsWith "f:" then (parseFloat (t.drop 2).toString).map .float
  else if t.startsWith "s:" then (unhex (t.drop 2).toString).map .str
  else if t.startsWith "t:" then (parseI64 (t.drop 2).toString).map .ts
  else if t.startsWith "d:" then ((t.drop 2).toString.toNat?).map .dur
  else none

def Lit.toValue : Lit → Value
  | .null => .null | .bool b => .bool b | .int n => .int n | .float f => .float f
  | .str s => .str s | .ts n => .ts n | .dur n => .dur n
def Lit.toExpr : Lit → Expr
  | .null => .null | .bool b => .bool b | .int n => .int n | .float f => .float f
  | .str s => .str s | .ts n => .ts n | .dur n => .dur n

mutual
partial def parseValue : List String → Option (Value × List String)
  | "(" :: "arr" :: rest => do
    let (vs, rest) ← parseValues rest
    pure (.arr vs, rest)
  | "(" :: "map" :: rest => do
    let (vs, rest) ← parseKVs rest
    pure (.map vs, rest)
  | t :: rest => do
    let l ← parseLit t
    pure (l.toValue, rest)
  | [] => none
partial def parseValues : List String → Option (List Value × List String)
  | ")" :: rest => some ([], rest)
  | toks => do
    let (v, rest) ← parseValue toks
    let (vs, rest) ← parseValues rest
    pure (v :: vs, rest)
partial def parseKVs : List String → Option (List (String × Value) × List String)
  | ")" :: rest => some ([], rest)
  | k :: toks => do
    let k ← unhex k
    let (v, rest) ← parseValue toks
    let (vs, rest) ← parseKVs rest
    pure ((k, v) :: vs, rest)
  | [] => none
end

def parseBinOp : String → Option BinOp
  | "add" => some .add | "sub" => some .sub | "mul" => some .mul | "div" => some .div
  | "mod" => some .mod | "pow" => some .pow | "eq" => some .eq | "ne" => some .ne
  | "lt" => some .lt | "le" => some .le | "gt" => some .gt | "ge" => some .ge
  | "in" => some .inn | "notin" => some .notIn | "is" => some .is
  | "and" => some .and | "or" => some .or | "xor" => some .xor
  | "followedby" => some .followedBy | "bitand" => some .bitAnd | "bitor" => some .bitOr
  | "bitxor" => some .bitXor | "shl" => some .shl | "shr" => some .shr
  | _ => none

def BinOp.name : BinOp → String
  | .add => "add" | .sub => "sub" | .mul => "mul" | .div => "div" | .mod => "mod" | .pow => "pow"
  | .eq => "eq" | .ne => "ne" | .lt => "lt" | .le => "le" | .gt => "gt" | .ge => "ge"
  | .inn => "in" | .notIn => "notin" | .is => "is" | .and => "and" | .or => "or" | .xor => "xor"
  | .followedBy => "followedby" | .bitAnd => "bitand" | .bitOr => "bitor" | .bitXor => "bitxor"
  | .shl => "shl" | .shr => "shr"

def parseUnOp : String → Option UnOp
  | "neg" => some .neg | "not" => some .not | "bitnot" => some .bitNot | _ => none
def UnOp.name : UnOp → String
  | .neg => "neg" | .not => "not" | .bitNot => "bitnot"

def parseCmpOp : String → Option CmpOp
  | "lt" => some .lt | "le" => some .le | "gt" => some .gt | "ge" => some .ge | _ => none

def takeNames : Nat → List String → Option (List String × List String)
  | 0, rest => some ([], rest)
  | n + 1, t :: rest => do
    let s ← unhex t
    let (ns, rest) ← takeNames n rest
    pure (s :: ns, rest)
  | _, [] => none

mutual
partial def parseExpr : List String → Option (Expr × List String)
  | "(" :: "id" :: n :: ")" :: rest => do pure (.ident (← unhex n), rest)
  | "(" :: "arr" :: rest => do
    let (es, rest) ← parseExprs rest
    pure (.arr es, rest)
  | "(" :: "map" :: rest => do
    let (kvs, rest) ← parseEKVs rest
    pure (.map (kvs.map (·.1)) (kvs.map (·.2)), rest)
  | "(" :: "bin" :: op :: rest => do
    let op ← parseBinOp op
    let (l, rest) ← parseExpr rest
    let (r, rest) ← parseExpr rest
    match rest with
    | ")" :: rest => pure (.bin op l r, rest)
    | _ => none
  | "(" :: "un" :: op :: rest => do
    let op ← parseUnOp op
    let (e, rest) ← parseExpr rest
    match rest with
    | ")" :: rest => pure (.un op e, rest)
    | _ => none
  | "(" :: "mem" :: rest => do
    let (e, rest) ← parseExpr rest
    match rest with
    | m :: ")" :: rest => pure (.member e (← unhex m), rest)
    | _ => none
  | "(" :: "omem" :: rest => do
    let (e, rest) ← parseExpr rest
    match rest with
    | m :: ")" :: rest => pure (.optMember e (← unhex m), rest)
    | _ => none
  | "(" :: "idx" :: rest => do
    let (e, rest) ← parseExpr rest
    let (i, rest) ← parseExpr rest
    match rest with
    | ")" :: rest => pure (.index e i, rest)
    | _ => none
  | "(" :: "slice" :: rest => do
    let (e, rest) ← parseExpr rest
    let (s, rest) ← parseOptExpr rest
    let (en, rest) ← parseOptExpr rest
    match rest with
    | ")" :: rest => pure (.slice e s en, rest)
    | _ => none
  | "(" :: "call" :: rest => do
    let (f, rest) ← parseExpr rest
    let (args, rest) ← parseExprs rest
    pure (.call f args, rest)
  | "(" :: "lam" :: k :: rest => do
    let (ps, rest) ← takeNames (← k.toNat?) rest
    let (b, rest) ← parseExpr rest
    match rest with
    | ")" :: rest => pure (.lambda ps b, rest)
    | _ => none
  | "(" :: "if" :: rest => do
    let (c, rest) ← parseExpr rest
    let (t, rest) ← parseExpr rest
    let (e, rest) ← parseExpr rest
    match rest with
    | ")" :: rest => pure (.ite c t e, rest)
    | _ => none
  | "(" :: "coal" :: rest => do
    let (e, rest) ← parseExpr rest
    let (d, rest) ← parseExpr rest
    match rest with
    | ")" :: rest => pure (.coalesce e d, rest)
    | _ => none
  | "(" :: "range" :: incl :: rest => do
    let (s, rest) ← parseExpr rest
    let (e, rest) ← parseExpr rest
    match rest with
    | ")" :: rest => pure (.range s e (incl == "1"), rest)
    | _ => none
  | "(" :: "block" :: rest => do
    let (kvs, rest) ← parseBlockKVs rest
    let (res, rest) ← parseExpr rest
    match rest with
    | ")" :: rest => pure (.block (kvs.map (·.1)) (kvs.map (·.2)) res, rest)
    | _ => none
  | t :: rest => do
    let l ← parseLit t
    pure (l.toExpr, rest)
  | [] => none
partial def parseOptExpr : List String → Option (Option Expr × List String)
  | "_" :: rest => some (none, rest)
  | toks => do
    let (e, rest) ← parseExpr toks
    pure (some e, rest)
partial def parseExprs : List String → Option (List Expr × List String)
  | ")" :: rest => some ([], rest)
  | toks => do
    let (e, rest) ← parseExpr toks
    let (es, rest) ← parseExprs rest
    pure (e :: es, rest)
partial def parseEKVs : List String → Option (List (String × Expr) × List String)
  | ")" :: rest => some ([], rest)
  | k :: toks => do
    let k ← unhex k
    let (e, rest) ← parseExpr toks
    let (es, rest) ← parseEKVs rest
    pure ((k, e) :: es, rest)
  | [] => none
/-- `(let <name> <expr>)* ;` -/
partial def parseBlockKVs : List String → Option (List (String × Expr) × List String)
  | ";" :: rest => some ([], rest)
  | k :: toks => do
    let k ← unhex k
    let (e, rest) ← parseExpr toks
    let (es, rest) ← parseBlockKVs rest
    pure ((k, e) :: es, rest)
  | [] => none
end

/-! ## printing -/

def showFloat (f : F) : String :=
  match F.canon f with
  | .nan _ => "nan"
  | .inf true => "-inf"
  | .inf false => "inf"
  | .fin s m e => (if s then "-" else "+") ++ toString m ++ "p" ++ toString e

mutual
partial def showValue : Value → String
  | .null => "null"
  | .bool b => if b then "true" else "false"
  | .int n => "i:" ++ toString n.toInt
  | .float f => "f:" ++ showFloat f
  | .str s => "s:" ++ hex s
  | .ts n => "t:" ++ toString n.toInt
  | .dur n => "d:" ++ toString n
  | .arr xs => "(arr" ++ String.join (xs.map fun v => " " ++ showValue v) ++ " )"
  | .map kvs => "(map" ++ String.join (kvs.map fun (k, v) => " " ++ hex k ++ " " ++ showValue v) ++ " )"
end

def showRes : Res → String
  | .val v => "some " ++ showValue v
  | .none => "none"
  | .panic => "panic"
  | .diverge => "abort"

partial def showExpr : Expr → String
  | .null => "null"
  | .bool b => if b then "true" else "false"
  | .int n => "i:" ++ toString n.toInt
  | .float f => "f:" ++ showFloat f
  | .str s => "s:" ++ hex s
  | .ts n => "t:" ++ toString n.toInt
  | .dur n => "d:" ++ toString n
  | .ident x => "(id " ++ hex x ++ ")"
  | .arr xs => "(arr" ++ String.join (xs.map fun e => " " ++ showExpr e) ++ " )"
  | .map ks vs => "(map" ++ String.join ((ks.zip vs).map fun (k, e) => " " ++ hex k ++ " " ++ showExpr e) ++ " )"
  | .bin op l r => "(bin " ++ BinOp.name op ++ " " ++ showExpr l ++ " " ++ showExpr r ++ ")"
  | .un op e => "(un " ++ UnOp.name op ++ " " ++ showExpr e ++ ")"
  | .member e m => "(mem " ++ showExpr e ++ " " ++ hex m ++ ")"
  | .optMember e m => "(omem " ++ showExpr e ++ " " ++ hex m ++ ")"
  | .index e i => "(idx " ++ showExpr e ++ " " ++ showExpr i ++ ")"
  | .slice e s en =>
    let so (o : Option Expr) := match o with | some x => showExpr x | none => "_"
    "(slice " ++ showExpr e ++ " " ++ so s ++ " " ++ so en ++ ")"
  | .call f args => "(call " ++ showExpr f ++ String.join (args.map fun e => " " ++ showExpr e) ++ " )"
  | .lambda ps b => "(lam " ++ toString ps.length ++ String.join (ps.map fun p => " " ++ hex p) ++ " " ++ showExpr b ++ ")"
  | .ite c t e => "(if " ++ showExpr c ++ " " ++ showExpr t ++ " " ++ showExpr e ++ ")"
  | .coalesce e d => "(coal " ++ showExpr e ++ " " ++ showExpr d ++ ")"
  | .range s e incl => "(range " ++ (if incl then "1" else "0") ++ " " ++ showExpr s ++ " " ++ showExpr e ++ ")"
  | .block ns vs res =>
    "(block" ++ String.join ((ns.zip vs).map fun (k, e) => " " ++ hex k ++ " " ++ showExpr e) ++ " ; " ++ showExpr res ++ ")"

/-! ## state and steps -/

structure St where
  env : Env := { etype := "E", fields := [] }

def takePairs : Nat → List String → Option (List (String × Value) × List String)
  | 0, rest => some ([], rest)
  | n + 1, k :: rest => do
    let k ← unhex k
    let (v, rest) ← parseValue rest
    let (ps, rest) ← takePairs n rest
    pure ((k, v) :: ps, rest)
  | _, [] => none

def parseEnv (toks : List String) : Option Env := do
  match toks with
  | et :: n :: rest =>
    let et ← unhex et
    let (fs, rest) ← takePairs (← n.toNat?) rest
    match rest with
    | k :: rest =>
      let (bs, _) ← takePairs (← k.toNat?) rest
      pure { etype := et, fields := fs, binds := bs }
    | [] => pure { etype := et, fields := fs }
  | _ => none

def parseCtx : String → Option Ctx
  | "expr" => some .expr | "pattern" => some .pattern | "sase" => some .sase | _ => none

def showOptBool : Option Bool → String
  | some true => "T" | some false => "F" | none => "none"

/-- C08 on two values: the model's answer, and the property's oracle on numeric operands -/
def stepCmp (ctx : Ctx) (op : CmpOp) (l r : Value) (impl : String) : String :=
  let model := showOptBool (evalCmp hw .fixed ctx op l r)
  match numExt l, numExt r with
  | some x, some y =>
    let oracle := showOptBool (some (mathCmp op x y))
    if impl != oracle then
      if patternGap ctx op l r && impl == model then
        s!"KNOWN[C08-pattern-le-ge-mixed] comparison is {impl}, the numeric order says {oracle}"
      else s!"JUDGE C08 comparison is {impl}, the numeric order says {oracle}"
    else verdict model impl
  | _, _ => verdict model impl

def resBool : Res → String
  | .val (.bool true) => "T"
  | .val (.bool false) => "F"
  | .val _ => "other"
  | .none => "none"
  | .panic => "panic"
  | .diverge => "abort"

/-- C08 through an expression: paths `W` (`.where`), `H` (`.having`), `P` (`.pattern`) report
kept/dropped, the others (`e`, `f`, `p`, `M` = `.emit`) report the value -/
def stepCmpx (env : Env) (path : String) (op : CmpOp) (l r : Expr) (impl : String) : String :=
  let lv := eval hw .fixed env l
  let rv := eval hw .fixed env r
  let pat := path == "p" || path == "P"
  -- `.pattern` lambdas go through `eval_pattern_expr` / `eval_binary_op`
  let res := if pat then lv.bind fun a => rv.bind fun b => patternBinop .fixed op.toBinOp a b
             else eval hw .fixed env (.bin op.toBinOp l r)
  let filt := path == "W" || path == "H" || path == "P"
  -- `.pattern`: the events are dropped only when the matcher has a value other than `true`
  let kept := if path == "P" then (match res with | .none => true | r => keeps r) else keeps res
  let model := if filt then (if kept then "kept" else "dropped") else resBool res
  match lv, rv with
  | .val a, .val b =>
    match numExt a, numExt b with
    | some x, some y =>
      let t := mathCmp op x y
      let oracle := if filt then (if t then "kept" else "dropped") else (if t then "T" else "F")
      if impl != oracle then
        if patternGap (if pat then .pattern else .expr) op a b && impl == model then
          s!"KNOWN[C08-pattern-le-ge-mixed] comparison gives {impl}, the numeric order says {oracle}"
        else s!"JUDGE C08 comparison gives {impl}, the numeric order says {oracle}"
      else verdict model impl
    | _, _ => verdict model impl
  | _, _ => verdict model impl

mutual
partial def hasMarker : Value → Bool
  | .str s => s.toList.any (· == Char.ofNat 1)
  | .arr xs => xs.any hasMarker
  | .map kvs => kvs.any fun kv => hasMarker kv.2
  | _ => false
end

def resHasMarker : Res → Bool
  | .val v => hasMarker v
  | _ => false

def stepEv (env : Env) (e : Expr) (impl : String) : String :=
  if impl == "panic" then "JUDGE C11 evaluation panicked"
  else if impl == "abort" then "JUDGE C11 evaluation aborted the process (stack overflow)"
  else
    let r := eval hw .fixed env e
    if resHasMarker r then "SKIP" else verdict (showRes r) impl

def stepC10 (env : Env) (e : Expr) (impl : String) : String :=
  if impl == "panic" then "JUDGE C10 folding or evaluating the expression panicked"
  else if impl == "abort" then "JUDGE C10 folding or evaluating the expression aborted the process"
  else
  match impl.splitOn " | " with
  | [u, f, fe] =>
    let mu := showRes (eval hw .fixed env e)
    let fe' := fold hw true e
    let mf := showRes (eval hw .fixed env fe')
    if u != f then
      if unsafeIdent hw env e then
        s!"KNOWN[C10-identity-rewrite] folded {f} vs unfolded {u}"
      else s!"JUDGE C10 folded expression evaluates to {f}, unfolded to {u}"
    else if showExpr fe' != fe then s!"DIFF model={mu} | {mf} | {showExpr fe'}"
    else if resHasMarker (eval hw .fixed env e) || resHasMarker (eval hw .fixed env fe') then "SKIP"
    else if mu != u || mf != f then s!"DIFF model={mu} | {mf} | {showExpr fe'}"
    else "ok"
  | _ => "BADLINE"

/-- value of the folded program (through `parse` and the Engine) against the value of the
unfolded expression in the model -/
def stepC10t (env : Env) (e : Expr) (impl : String) : String :=
  if impl == "panic" || impl == "abort" then s!"JUDGE C10 the folded program {impl}s" else
  let mu := showRes (eval hw .fixed env e)
  let mf := showRes (eval hw .fixed env (fold hw true e))
  if resHasMarker (eval hw .fixed env e) then "SKIP" else
  if impl == mu then "ok"
  else if unsafeIdent hw env e then s!"KNOWN[C10-identity-rewrite] program gives {impl}, unfolded expression {mu}"
  else if impl == mf then s!"JUDGE C10 folded program gives {impl}, the unfolded expression {mu}"
  else s!"DIFF model={mu} (folded {mf})"

def step (st : St) (line : String) : St × String :=
  let (op, impl?) := splitCase line
  let impl := impl?.getD ""
  match tokenize op with
  | "new" :: "env" :: rest =>
    match parseEnv rest with
    | some env => ({ st with env := env }, "")
    | none => (st, "BADLINE env")
  | "cmp" :: ctx :: cop :: rest =>
    match parseCtx ctx, parseCmpOp cop, parseValue rest with
    | some ctx, some cop, some (l, rest) =>
      match parseValue rest with
      | some (r, []) => (st, stepCmp ctx cop l r impl)
      | _ => (st, "BADLINE cmp operand")
    | _, _, _ => (st, "BADLINE cmp")
  | "cmpx" :: path :: cop :: rest =>
    match parseCmpOp cop, parseExpr rest with
    | some cop, some (l, rest) =>
      match parseExpr rest with
      | some (r, []) => (st, stepCmpx st.env path cop l r impl)
      | _ => (st, "BADLINE cmpx operand")
    | _, _ => (st, "BADLINE cmpx")
  | "ev" :: _path :: rest =>
    match parseExpr rest with
    | some (e, []) => (st, stepEv st.env e impl)
    | _ => (st, "BADLINE ev")
  | "evp" :: rest =>
    match parseExpr rest with
    | some (e, []) =>
      (st, if impl == "panic" then "JUDGE C11 pattern expression panicked"
           else if impl == "abort" then "JUDGE C11 pattern expression aborted the process"
           else
             let r := evalPat hw .fixed st.env.binds e
             if resHasMarker r then "SKIP" else verdict (showRes r) impl)
    | _ => (st, "BADLINE evp")
  | "probe" :: _ =>
    (st, if impl == "ok" then "ok" else if impl == "panic" then "JUDGE C11 evaluation panicked"
         else "JUDGE C11 evaluation aborted the process (stack overflow)")
  | "c10" :: rest =>
    match parseExpr rest with
    | some (e, []) => (st, stepC10 st.env e impl)
    | _ => (st, "BADLINE c10")
  | "c10w" :: rest =>
    match parseExpr rest with
    | some (e, []) =>
      let ru := eval hw .fixed st.env e
      let rf := eval hw .fixed st.env (fold hw true e)
      let sh (r : Res) := if keeps r then "kept" else "dropped"
      (st, if impl == "panic" || impl == "abort" then s!"JUDGE C10 the folded program {impl}s"
           else if resHasMarker ru then "SKIP"
           else if impl == sh ru then "ok"
           else if unsafeIdent hw st.env e then s!"KNOWN[C10-identity-rewrite] .where of the folded program: {impl}, of the unfolded expression: {sh ru}"
           else if impl == sh rf then s!"JUDGE C10 .where of the folded program: {impl}, of the unfolded expression: {sh ru}"
           else s!"DIFF model={sh ru} (folded {sh rf})")
    | _ => (st, "BADLINE c10w")
  | "c10t" :: rest =>
    match parseExpr rest with
    | some (e, []) => (st, stepC10t st.env e impl)
    | _ => (st, "BADLINE c10t")
  | [] => (st, "")
  | _ => (st, "BADLINE")

--! vmodel: expr => Varpulis.Driver.ExprD.driver
def driver : Prop' St := { init := {}, step := step }

end Varpulis.Driver.ExprD
