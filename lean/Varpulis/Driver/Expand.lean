import Varpulis.Model.Expand
import Varpulis.Driver.Util
/-! `vmodel expand`: C42 — replays the loop programs (`h`) and free texts (`x`) of `p_expand.rs`. -/
namespace Varpulis.Driver.ExpandD
open Varpulis.Expand Varpulis.Driver

def hexVal (c : Char) : Nat :=
  if c.isDigit then c.toNat - 48 else if 'a' ≤ c && c ≤ 'f' then c.toNat - 87 else 0

/-- inverse of `enc` / `enc_tok` of the harness -/
def dec : List Char → List Char
  | '\\' :: 'n' :: r => '\n' :: dec r
  | '\\' :: 'r' :: r => '\r' :: dec r
  | '\\' :: 't' :: r => '\t' :: dec r
  | '\\' :: 'g' :: r => '>' :: dec r
  | '\\' :: 's' :: r => ' ' :: dec r
  | '\\' :: 'w' :: r => '~' :: dec r
  | '\\' :: 'p' :: r => '|' :: dec r
  | '\\' :: '\\' :: r => '\\' :: dec r
  | '\\' :: 'u' :: r =>
    let h := r.takeWhile (· != ';')
    Char.ofNat (h.foldl (fun a c => a * 16 + hexVal c) 0) :: dec ((r.dropWhile (· != ';')).drop 1)
  | c :: r => c :: dec r
  | [] => []
termination_by l => l.length
decreasing_by
  all_goals simp_wf
  all_goals try omega
  have := (List.dropWhile_suffix (l := r) (· != ';')).length_le
  omega

def hexDigit (n : Nat) : Char := if n < 10 then Char.ofNat (48 + n) else Char.ofNat (87 + n)
def toHexL : Nat → Nat → List Char
  | 0, _ => []
  | f + 1, n => if n < 16 then [hexDigit n] else toHexL f (n / 16) ++ [hexDigit (n % 16)]

def encChar (tok : Bool) (c : Char) : List Char :=
  if c = '\\' then ['\\', '\\'] else if c = '\n' then ['\\', 'n'] else if c = '\r' then ['\\', 'r']
  else if c = '\t' then ['\\', 't'] else if c = '>' then ['\\', 'g']
  else if c = ' ' && tok then ['\\', 's']
  else if c.toNat < 0x20 || c.toNat > 0x7e then '\\' :: 'u' :: toHexL 8 c.toNat ++ [';']
  else [c]

def enc (t : Text) : String := String.ofList (t.flatMap (encChar false))
def encTok (t : Text) : String := String.ofList (t.flatMap (encChar true))

def showOutcome (o : Outcome Text) : String :=
  match o with
  | .ok t => enc t
  | .err k => "E:" ++ k
  | .panic _ => "PANIC"

def parseBound (w : String) : Option Bound :=
  match w.toInt? with
  | some k => some (.lit k)
  | none => if w.startsWith "{" && w.endsWith "}" then some (.ph (dec ((w.drop 1).toString.dropEnd 1).toString.toList)) else none

/-- parse `L:<text>` / `F:<var>:<s>:<e>:<i|x>` … `E` tokens (`<s>`/`<e>`: an integer, or `{name}` for the
placeholder of an enclosing loop); a line without a visible first character continues the declaration
before it. Returns the blocks and the remaining tokens -/
def parseBlocks : Nat → List String → Option (List XBlock × List String)
  | 0, _ => none
  | _ + 1, [] => some ([], [])
  | fuel + 1, tok :: rest =>
    if tok == "E" then some ([], tok :: rest)
    else if tok.startsWith "L:" then
      let first := dec (tok.drop 2).toString.toList
      let isCont (w : String) : Bool := w.startsWith "L:" && !headOk (dec (w.drop 2).toString.toList)
      let conts := (rest.takeWhile isCont).map fun w => dec (w.drop 2).toString.toList
      (parseBlocks fuel (rest.dropWhile isCont)).map fun (bs, r) => (.decl first conts :: bs, r)
    else if tok.startsWith "F:" then
      match (tok.drop 2).toString.splitOn ":" with
      | [v, s, e, i] =>
        match parseBound s, parseBound e, parseBlocks fuel rest with
        | some s, some e, some (body, r) =>
          match r with
          | "E" :: r' => (parseBlocks fuel r').map fun (bs, r'') => (.loop (dec v.toList) s e (i == "i") body :: bs, r'')
          | _ => none
        | _, _, _ => none
      | _ => none
    else none

def field (kvs : List String) (k : String) : Option String :=
  (kvs.find? (·.startsWith (k ++ "="))).map fun w => (w.drop (k.length + 1)).toString

def stepH (ws : List String) (impl : String) : String :=
  match ws with
  | u :: toks =>
    match u.toNat?, parseBlocks (toks.length + 1) toks with
    | some unit, some (bs, []) =>
      let kv := words impl
      match field kv "src", field kv "out", field kv "hand", field kv "ast" with
      | some src, some out, some handI, some ast =>
        let mSrc := joinLines (xrenderList unit 0 bs)
        let mHand := joinLines (xhandList [] bs)
        if encTok mSrc != src then s!"DIFF render model={encTok mSrc}"
        else if encTok mHand != handI then s!"DIFF hand-expansion of the generator differs from the specification model={encTok mHand}"
        else
          -- the property verdict on the implementation's own output first (a failing input), then the mirror.
          -- `wf`: covered by the theorem (all bounds literal); `judged`: the wider class decided against the
          -- specification's hand expansion (bounds may be placeholders of enclosing loops)
          let wf := match XBlock.toBlockList? bs with
            | some b => wellFormed unit b
            | none => false
          let judged := wf || judgeable unit bs
          if judged && out != handI then
            if out.startsWith "E:" || out == "PANIC" then
              s!"JUDGE C42 a well-formed loop program is rejected ({out}) instead of being expanded to the hand-written copies"
            else s!"JUDGE C42 expansion of a well-formed loop block differs from the hand-written copies: {out}"
          else if judged && !(ast.startsWith "eq" || ast == "err-both") then
            s!"JUDGE C42 parse(loop program) and parse(hand-expanded program) differ: ast={ast}"
          else
            let mOut := (showOutcome (expand mSrc)).replace " " "\\s"
            if mOut != out then s!"DIFF model={mOut}"
            else if wf then "ok well-formed"
            else if judged then "ok judged against the specification (a bound mentions an outer variable)"
            else "ok not-well-formed (mirror only)"
      | _, _, _, _ => "BADLINE fields"
    | _, _ => "BADLINE blocks"
  | [] => "BADLINE"

def step (st : Unit) (line : String) : Unit × String :=
  let (op, impl?) := splitCase line
  match impl? with
  | none => (st, "")
  | some impl =>
    if op.startsWith "h " then (st, stepH (words (op.drop 2).toString) impl)
    else if op.startsWith "x " then
      (st, verdict (showOutcome (expand (dec (op.drop 2).toString.toList))) impl)
    else (st, "BADLINE op")

--! vmodel: expand => Varpulis.Driver.ExpandD.driver
def driver : Prop' Unit := { init := (), step := step }

end Varpulis.Driver.ExpandD
