import Varpulis.Model.LspText
import Varpulis.Driver.Util
/-! `vmodel lsptext`: C43. Keeps the current document (`new doc <hex utf-8>`), answers the helper
lines with the model (DIFF on disagreement) and judges what the six handlers reported: no panic,
every range within the document (JUDGE otherwise). -/
namespace Varpulis.Driver.LspTextD
open Varpulis.LspText Varpulis.Driver

/-! character classes of the generator's alphabet (checked against Rust by the `cls` lines) -/
def wordMB : List Nat := [0xe9, 0xc9, 0xfc, 0x3b1, 0x3a9, 0x65e5, 0x672c, 0x663, 0xb2, 0x2167, 0x1d4d0]
def wsAll : List Nat := [0x20, 0x9, 0xa, 0xb, 0xc, 0xd, 0x85, 0xa0, 0x2003, 0x3000]
def isWordT (c : Char) : Bool := c.isAlphanum || c == '_' || wordMB.contains c.toNat
def isWsT (c : Char) : Bool := wsAll.contains c.toNat
def alphaMB : List Nat := [0xe9, 0xc9, 0xfc, 0x3b1, 0x3a9, 0x65e5, 0x672c, 0x2167, 0x1d4d0]
def isAlphaT (c : Char) : Bool := c.isAlpha || alphaMB.contains c.toNat

def hexVal (c : Char) : Option Nat :=
  if '0' ≤ c ∧ c ≤ '9' then some (c.toNat - 48)
  else if 'a' ≤ c ∧ c ≤ 'f' then some (c.toNat - 87)
  else none

def hexBytes : List Char → Option (List UInt8)
  | [] => some []
  | [_] => none
  | a :: b :: rest => do
    let x ← hexVal a
    let y ← hexVal b
    let r ← hexBytes rest
    pure (UInt8.ofNat (x * 16 + y) :: r)

def unhex (w : String) : Option Str := do
  let bs ← hexBytes w.toList
  let s ← String.fromUTF8? (ByteArray.mk bs.toArray)
  pure s.toList

/-- `x<hex>` → text -/
def unhexX (w : String) : Option Str :=
  match w.toList with
  | 'x' :: rest => unhex (String.ofList rest)
  | _ => none

def hexDigit (n : Nat) : Char := if n < 10 then Char.ofNat (48 + n) else Char.ofNat (87 + n)
def hexOf (s : Str) : String :=
  String.ofList ('x' :: (String.ofList s).toUTF8.toList.flatMap fun b => [hexDigit (b.toNat / 16), hexDigit (b.toNat % 16)])

/-- UTF-16 length (the unit of LSP columns): the most generous reading of "within the line" -/
def u16len (l : Str) : Nat := l.foldl (fun a c => a + if c.toNat ≥ 0x10000 then 2 else 1) 0

def posOk (doc : Str) (l c : Nat) : Bool :=
  match (docLines doc)[l]? with
  | some ln => c ≤ u16len ln
  | none => false

def parsePos (s : String) : Option (Nat × Nat) :=
  match s.splitOn ":" with
  | [a, b] => do pure (← a.toNat?, ← b.toNat?)
  | _ => none

def parseRange (s : String) : Option ((Nat × Nat) × (Nat × Nat)) :=
  match s.splitOn "-" with
  | [a, b] => do pure (← parsePos a, ← parsePos b)
  | _ => none

/-- `none` = fine, `some why` = the range is not within the document -/
def rangeBad (doc : Str) (s : String) : Option String :=
  match parseRange s with
  | none => some s!"unparsable range {s}"
  | some ((a, b), (c, d)) =>
    if !posOk doc a b then some s!"range {s} starts outside the document"
    else if !posOk doc c d then some s!"range {s} ends outside the document"
    else if c < a || (c == a && d < b) then some s!"range {s} is inverted"
    else none

def tokenBad (doc : Str) (s : String) : Option String :=
  match s.splitOn "+" with
  | [p, n] => match parsePos p, n.toNat? with
    | some (l, c), some n =>
      (match (docLines doc)[l]? with
      | some ln => if c + n ≤ u16len ln then none else some s!"token {s} extends past its line"
      | none => some s!"token {s} is on a line outside the document")
    | _, _ => some s!"unparsable token {s}"
  | _ => some s!"unparsable token {s}"

def firstBad (f : String → Option String) (ws : List String) : Option String :=
  ws.findSome? f

def fmtPos (p : Nat × Nat) : String := s!"{p.1}:{p.2}"

def fmtWord : Outcome Str → String
  | .ok w => hexOf w
  | .none => "none"
  | .panic => "panic"

def field (fs : List String) (k : String) : String :=
  match fs.find? (·.startsWith (k ++ "=")) with
  | some f => (f.drop (k.length + 1)).toString
  | none => ""

def step (doc : Str) (line : String) : Str × String :=
  let (op, impl?) := splitCase line
  let impl := impl?.getD ""
  match words op with
  | ["new", "doc"] => ([], "")
  | ["new", "doc", h] => match unhex h with
    | some d => (d, "")
    | none => (doc, "BADLINE")
  | "new" :: _ => ([], "")
  | ["cls", h] =>
    match (h.toList.mapM hexVal).map (·.foldl (fun a d => a * 16 + d) 0) with
    | some n =>
      let c := Char.ofNat n
      let fs := words impl
      let m := s!"w={(isWordT c).toNat} s={(isWsT c).toNat} a={(isAlphaT c).toNat} n={c.utf8Size}"
      (doc, verdict m s!"w={field fs "w"} s={field fs "s"} a={field fs "a"} n={field fs "n"}")
    | none => (doc, "BADLINE")
  -- helpers: exact correspondence with the model
  | ["o", off] => match off.toNat? with
    | some off =>
      let p := fmtPos (posToLineCol doc off)
      (doc, verdict s!"d={p} n={p}" impl)
    | none => (doc, "BADLINE")
  | ["w", l, c] => match l.toNat?, c.toNat? with
    | some l, some c =>
      let w := fmtWord (wordAt isWordT doc l c)
      let p := match complPrefix doc l c with | .ok p => hexOf p | _ => "panic"
      (doc, verdict s!"h={w} n={w} p={p}" impl)
    | _, _ => (doc, "BADLINE")
  | ["e", l, c] => match l.toNat?, c.toNat? with
    | some l, some c =>
      let e := match errorEndColumn isWordT doc l c with | .ok n => toString n | _ => "panic"
      (doc, verdict s!"eec={e} clamp={fmtPos (clampPos doc l c)}" impl)
    | _, _ => (doc, "BADLINE")
  | ["tok", h] => match unhexX h with
    | some s =>
      let run := s.takeWhile isWordT
      let m := match identToken isWordT s with
        | .ok n => s!"len={blen run} chars={n}"
        | _ => "panic"
      (doc, verdict m impl)
    | none => (doc, "BADLINE")
  -- handlers: judged on their own output
  | ["diag"] =>
    if impl == "panic" then (doc, "JUDGE get_diagnostics panicked")
    else if impl == "-" then (doc, "ok")
    else match firstBad (rangeBad doc) (words impl) with
      | some why => (doc, s!"JUDGE diagnostics: {why}")
      | none => (doc, "ok")
  | ["sem"] =>
    if impl == "panic" then (doc, "JUDGE get_semantic_tokens panicked")
    else if impl == "-" then (doc, "ok")
    else match firstBad (tokenBad doc) (words impl) with
      | some why => (doc, s!"JUDGE semantic tokens: {why}")
      | none => (doc, "ok")
  | ["at", l, c] => match l.toNat?, c.toNat? with
    | some l, some c =>
      let fs := words impl
      let h := field fs "h"; let cm := field fs "c"; let d := field fs "d"; let r := field fs "r"
      if h == "panic" then (doc, "JUDGE get_hover panicked")
      else if cm == "panic" then (doc, "JUDGE get_completions panicked")
      else if d == "panic" then (doc, "JUDGE get_definition panicked")
      else if r == "panic" then (doc, "JUDGE get_references panicked")
      else
        let dbad := if d == "none" || d == "skip" then none else rangeBad doc d
        let rbad := if r == "none" || r == "skip" || r == "-" then none else firstBad (rangeBad doc) (r.splitOn ",")
        match dbad, rbad with
        | some why, _ => (doc, s!"JUDGE go-to-definition: {why}")
        | _, some why => (doc, s!"JUDGE references: {why}")
        | none, none =>
          -- model prediction: no word under the cursor ⇒ no hover, no definition, no references
          let noWord := match wordAt isWordT doc l c with | .ok _ => false | _ => true
          -- model prediction (by value, no accessor): the cursor is among connector parameters iff
          -- the completions are parameter names only (or none, for an unknown connector)
          let k := field fs "k"
          let mk := match complPrefix doc l c with
            | .ok p => (match connectorCtx isWsT isWordT isAlphaT p with
              | .ok true => "p" | .ok false => "o" | _ => "panic")
            | _ => "panic"
          if noWord && (h == "some" || !(d == "none" || d == "skip") || !(r == "none" || r == "skip")) then
            (doc, "DIFF model=no word at this position, so h=none d=none r=none")
          else if k != "" && k != mk then
            (doc, s!"DIFF model=connector-parameter context k={mk}")
          else (doc, "ok")
    | _, _ => (doc, "BADLINE")
  | [] => (doc, "")
  | _ => (doc, "BADLINE")

--! vmodel: lsptext => Varpulis.Driver.LspTextD.driver
def driver : Prop' Str := { init := [], step := step }

end Varpulis.Driver.LspTextD
