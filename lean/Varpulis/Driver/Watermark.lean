import Varpulis.Model.Watermark
import Varpulis.Driver.Util
/-! `vmodel watermark`: replays C24 tracker operations / engine events on the model, compares the
tracker state and the gate's decision, and judges the property on the implementation's own output
(per-source watermark did not decrease, effective = minimum, drops only when late for all). -/
namespace Varpulis.Driver.WatermarkD
open Varpulis.Watermark Varpulis.Driver

structure St where
  tr : Tracker := Tracker.new
  eng : Option Eng := none
  /-- the implementation's previous tracker state (for the judge) -/
  prev : Option Tracker := some Tracker.new

def fmtO (o : Option Int) : String := match o with | some i => toString i | none => "-"

def insertSorted (s : Src) : List Src → List Src
  | [] => [s]
  | x :: xs => if s.name ≤ x.name then s :: x :: xs else x :: insertSorted s xs

def fmtTracker (t : Tracker) : String :=
  let srcs := (t.sources.foldl (fun acc s => insertSorted s acc) []).map fun s =>
    s!"{s.name}:{fmtO s.wm}:{fmtO s.maxTs}:{s.ooo}"
  s!"eff={fmtO t.eff} srcs={if srcs.isEmpty then "-" else ",".intercalate srcs}"

def fmtState (t : Option Tracker) : String := match t with | some t => fmtTracker t | none => "off"

def parseO (s : String) : Option (Option Int) := if s == "-" then some none else s.toInt?.map some

def parseSrc (w : String) : Option Src :=
  match w.splitOn ":" with
  | [n, wm, mx, ooo] => do
    pure { name := ← n.toNat?, wm := ← parseO wm, maxTs := ← parseO mx, ooo := ← ooo.toInt? }
  | _ => none

/-- parse `eff=… srcs=…` / `off` (the implementation's state) -/
def parseState (ws : List String) : Option (Option Tracker) :=
  match ws with
  | ["off"] => some none
  | [e, s] =>
    if e.startsWith "eff=" && s.startsWith "srcs=" then do
      let eff ← parseO (e.drop 4).toString
      let body := (s.drop 5).toString
      let srcs ← if body == "-" then some [] else (body.splitOn ",").mapM parseSrc
      pure (some { sources := srcs, eff := eff })
    else none
  | _ => none

/-- judge of the tracker part on the implementation's own states: no source's watermark decreased
(`reReg` = the operation re-registered that source, which is outside the property), and after an
operation that recomputes, the effective watermark is the minimum of the sources' watermarks -/
def judgeTracker (prev now : Tracker) (reReg : Option Nat) (recomputed : Bool) : Option String :=
  let regress := prev.sources.filter fun s =>
    some s.name != reReg && !(decide (wmLe s.wm (wmOf now s.name)))
  if !regress.isEmpty then some s!"JUDGE C24 watermark of source {regress.map (·.name)} decreased"
  else if recomputed && (minWm now.sources).isSome && now.eff != minWm now.sources then
    some s!"JUDGE C24 effective watermark {fmtO now.eff} is not the minimum {fmtO (minWm now.sources)}"
  else none

def trackerCase (st : St) (model : Tracker) (impl : String) (reReg : Option Nat) (recomputed : Bool) : St × String :=
  match parseState (words impl) with
  | some (some now) =>
    let v := verdict (fmtTracker model) impl
    let j := match st.prev with
      | some p => judgeTracker p now reReg recomputed
      | none => none
    -- on disagreement continue from the implementation's state
    ({ st with tr := if v == "ok" then model else now, prev := some now }, j.getD v)
  | _ => (st, "BADLINE")

def parseStream (w : String) : Option (Nat × Option Int × Option Int × Option Nat) :=
  match w.splitOn ":" with
  | ["S", et, ooo, late, side] => do
    let side ← if side == "-" then some none else side.toNat?.map some
    pure (← et.toNat?, ← parseO ooo, ← parseO late, side)
  | _ => none

/-- `Engine::load` over the streams in program order: `.watermark()` enables tracking and registers
the stream's event type; `.allowed_lateness()` adds the stream's late-data configuration; every
stream is routed from its event type. -/
def mkEngine (streams : List (Nat × Option Int × Option Int × Option Nat)) : Eng :=
  let idx := List.range streams.length
  let zs := idx.zip streams
  let tracker := zs.foldl (fun (t : Option Tracker) (_, (et, ooo, _, _)) =>
    match ooo with
    | some o => some (register (t.getD Tracker.new) et o)
    | none => t) none
  let cfgs := zs.filterMap fun (i, (_, _, late, side)) => late.map fun l => (i, ({ lateness := l, side := side } : Cfg))
  let ets := (streams.map (·.1)).eraseDups
  let routes := ets.map fun et => (et, (zs.filter fun (_, (e, _, _, _)) => e == et).map (·.1))
  { tracker := tracker, cfgs := cfgs, routes := routes }

def fmtOuts (l : List Nat) : String := if l.isEmpty then "-" else ",".intercalate (l.map toString)

def fmtDecision (d : Decision) (routes : List Nat) : String :=
  match d with
  | .pass => if routes.isEmpty then "none outs=-" else s!"out outs={fmtOuts routes}"
  | .drop => "none outs=-"
  | .divert s => s!"divert:{s} outs=-"

def step (st : St) (line : String) : St × String :=
  let (op, impl?) := splitCase line
  let impl := impl?.getD ""
  match words op with
  | ["new", "tracker"] => ({}, "")
  | "new" :: "engine" :: ss =>
    match ss.mapM parseStream with
    | some streams =>
      let e := mkEngine streams
      ({ tr := Tracker.new, eng := some e, prev := e.tracker }, "")
    | none => (st, "BADLINE")
  | ["reg", n, ooo] =>
    match n.toNat?, ooo.toInt? with
    | some n, some ooo =>
      let known := (find st.tr.sources n).isSome
      trackerCase st (register st.tr n ooo) impl (if known then some n else none) false
    | _, _ => (st, "BADLINE")
  | ["obs", n, ts] =>
    match n.toNat?, ts.toInt? with
    | some n, some ts => trackerCase st (observe st.tr n ts) impl none true
    | _, _ => (st, "BADLINE")
  | ["adv", n, w] =>
    match n.toNat?, w.toInt? with
    | some n, some w => trackerCase st (advance st.tr n w) impl none (find st.tr.sources n).isSome
    | _, _ => (st, "BADLINE")
  | ["rel"] =>
    -- `Engine::reload` with the same program: no stream changes, tracker and configs untouched
    match st.eng with
    | some e =>
      let model := s!"+0 -0 ~0 | {fmtState e.tracker}"
      (st, verdict model impl)
    | none => (st, "BADLINE")
  | ["ev", et, ts] =>
    match st.eng, et.toNat?, ts.toInt? with
    | some e, some et, some ts =>
      let (e', d) := process e et ts
      let routes := e.routesOf et
      let model := s!"{fmtDecision d routes} | {fmtState e'.tracker}"
      match impl.splitOn " | " with
      | [dec, state] =>
        match parseState (words state) with
        | some now =>
          let v := verdict model impl
          -- judge: a dropped / diverted event must be late for every configured consuming stream,
          -- measured against the implementation's own effective watermark before the event
          let implDropped := (dec.startsWith "none" && !routes.isEmpty) || dec.startsWith "divert"
          let late := gate (st.prev.bind (·.eff)) e.cfgs routes ts != .pass
          let j1 := if implDropped && !late then
              some s!"JUDGE C24 event type {et} ts {ts} dropped/diverted although not late (effective {fmtO (st.prev.bind (·.eff))})"
            else none
          let j2 := match st.prev, now with
            | some p, some n => judgeTracker p n none (!implDropped && dec.startsWith "out")
            | _, _ => none
          let e'' := if v == "ok" then e' else { e' with tracker := now }
          ({ st with eng := some e'', prev := now }, (j1.orElse fun _ => j2).getD v)
        | none => (st, "BADLINE")
      | _ => (st, "BADLINE")
    | _, _, _ => (st, "BADLINE")
  | [] => (st, "")
  | _ => (st, "BADLINE")

--! vmodel: watermark => Varpulis.Driver.WatermarkD.driver
def driver : Prop' St := { init := {}, step := step }

end Varpulis.Driver.WatermarkD
