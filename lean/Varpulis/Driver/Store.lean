import Varpulis.Model.Store
import Varpulis.Driver.Util
/-! `vmodel store`: replays C21 histories on the `Varpulis.Store` model. -/
namespace Varpulis.Driver.StoreD
open Varpulis.Store Varpulis.Driver

structure St where
  keep : Nat := 3
  sys : Sys := {}

def fmtRec : LoadResult → String
  | .nothing => "none"
  | .err => "err"
  | .found i x => s!"{i}:{x}"

def sortTmp (l : List (Nat × Content)) : List (Nat × Content) :=
  l.foldr (fun e acc => insertFin acc e.1 e.2) []

def observe (s : Sys) : String :=
  let ids := ",".intercalate (s.disk.fin.map fun e => toString e.1)
  let tmp := ",".intercalate ((sortTmp s.disk.tmp).map fun e =>
    s!"{e.1}:{match e.2 with | .good _ _ => "good" | .bad => "bad"}")
  let r := fmtRec (loadLatest s.disk.fin)
  s!"ids={ids} tmp={tmp} rec={r} load={r}"

def field (impl key : String) : String :=
  ((words impl).filterMap fun w => if w.startsWith (key ++ "=") then some ((w.drop (key.length + 1)).toString) else none).headD ""

/-- Property verdict on the implementation's own answer (independent of the rest of the model's
answer): recovery must return the newest completely written, still readable checkpoint; a
completed `checkpoint()` leaves at most `keep` files; the manager must come up. Anything else that
differs from the model (e.g. tmp files, which ids were pruned) is a correspondence DIFF only. -/
def judge (keep : Nat) (s : Sys) (afterSave : Bool) (impl : String) : String :=
  let model := observe s
  if model == impl then "ok" else
  let want := fmtRec (loadLatest s.disk.fin)
  let ids := (field impl "ids").splitOn "," |>.filter (· ≠ "")
  if field impl "rec" != want || field impl "load" != want then
    s!"JUDGE recovery returned rec={field impl "rec"} load={field impl "load"}, the newest complete readable checkpoint is {want}"
  else if afterSave && ids.length > keep then
    s!"JUDGE {ids.length} checkpoints kept after a completed checkpoint(), max_checkpoints = {keep}"
  else if (words impl).contains "mgr=err" then "JUDGE CheckpointManager::new failed"
  else s!"DIFF model={model}"

def step (st : St) (line : String) : St × String :=
  let (op, impl?) := splitCase line
  let impl := impl?.getD ""
  match words op with
  | ["new", k] => ({ keep := k.toNat?.getD 3, sys := {} }, "")
  | ["save", d] => match d.toNat? with
    | some d => let s' := Store.step st.keep st.sys (.save d); ({ st with sys := s' }, judge st.keep s' true impl)
    | none => (st, "BADLINE")
  | ["crash", d, k] => match d.toNat?, k.toNat? with
    | some d, some k => let s' := Store.step st.keep st.sys (.crash d k); ({ st with sys := s' }, judge st.keep s' false impl)
    | _, _ => (st, "BADLINE")
  | ["restart"] => let s' := Store.step st.keep st.sys .restart; ({ st with sys := s' }, judge st.keep s' false impl)
  | ["corrupt"] =>
    let d := { st.sys.disk with fin := corruptNewest st.sys.disk.fin }
    let s' := Store.step st.keep { st.sys with disk := d } .restart
    ({ st with sys := s' }, judge st.keep s' false impl)
  | [] => (st, "")
  | _ => (st, "BADLINE")

--! vmodel: store => Varpulis.Driver.StoreD.driver
def driver : Prop' St := { init := {}, step := step }

end Varpulis.Driver.StoreD
