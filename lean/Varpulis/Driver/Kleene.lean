import Varpulis.Model.SaseBounds
import Varpulis.Driver.Util
/-!
`vmodel kleene` (C03): replays generated Kleene scenarios on the SASE model, compares the matches and the
index sets behind enumerated matches, and judges the implementation's own output against the brute-force
specification (`SaseK.Spec`).  The parsing / formatting helpers are shared with `vmodel bounds` (C05).

```
new <api> <maxRuns> <strategy> <maxKleene> <maxResults> <partitioned> <step>…      step = TY/(e|k)/(alias|_)/(pred|_) with `_` written as a dash
ev <TY> <x|_> <y|_> <key|_> => m=<matches> z=<index sets>
```
-/
namespace Varpulis.Driver.KleeneD
open Varpulis.Driver Varpulis.SaseK Varpulis.SaseB

/-! ### parsing -/
def parseTy (s : String) : Option Nat :=
  match s with | "A" => some 0 | "B" => some 1 | "C" => some 2 | "D" => some 3 | _ => none
def tyName (t : Nat) : String := match t with | 0 => "A" | 1 => "B" | 2 => "C" | _ => "D"
def parseAlias (s : String) : Option Nat :=
  match s with | "a" => some 0 | "b" => some 1 | "c" => some 2 | "d" => some 3 | _ => none
def aliasName (a : Nat) : String := match a with | 0 => "a" | 1 => "b" | 2 => "c" | _ => "d"
def parseField (s : String) : Option Nat := match s with | "x" => some 0 | "y" => some 1 | _ => none
def parseOp (s : String) : Option Op :=
  match s with
  | "eq" => some .eq | "ne" => some .ne | "lt" => some .lt | "le" => some .le | "gt" => some .gt | "ge" => some .ge
  | _ => none

/-- Polish notation over comma-separated tokens: `and,P,Q` `or,P,Q` `not,P` `c.x.gt.12` `r.x.gt.b.y` -/
def parsePredToks : Nat → List String → Option (Pred × List String)
  | 0, _ => none
  | _, [] => none
  | fuel + 1, t :: rest =>
    if t == "and" || t == "or" then do
      let (p, r1) ← parsePredToks fuel rest
      let (q, r2) ← parsePredToks fuel r1
      pure (if t == "and" then .and p q else .or p q, r2)
    else if t == "not" then do
      let (p, r1) ← parsePredToks fuel rest
      pure (.not p, r1)
    else match t.splitOn "." with
      | ["c", f, op, c] => do pure (.cmp (← parseField f) (← parseOp op) (← c.toInt?), rest)
      | ["r", f, op, al, rf] => do pure (.cmpRef (← parseField f) (← parseOp op) (← parseAlias al) (← parseField rf), rest)
      | _ => none

def parsePredOpt (s : String) : Option (Option Pred) :=
  if s == "-" then some none else
  let toks := s.splitOn ","
  match parsePredToks (toks.length + 1) toks with
  | some (p, []) => some (some p)
  | _ => none

def parseStep (s : String) : Option Step :=
  match s.splitOn "/" with
  | [ty, k, al, p] => do
    let ty ← parseTy ty
    let pred ← parsePredOpt p
    let alias ← (if al == "-" then some none else (parseAlias al).map some)
    pure { ty := ty, pred := pred, alias := alias, kleene := k == "k" }
  | _ => none

def parseStrategy (s : String) : Option Strategy :=
  match s with
  | "drop" => some .drop | "error" => some .error | "oldest" => some .evictOldest | "least" => some .evictLeastProgress
  | _ => match s.splitOn ":" with
    | ["sample", r] => match r.splitOn "/" with
      | [n, d] => do pure (.sample (← n.toNat?) (← d.toNat?))
      | _ => none
    | _ => none

def parseOptInt (s : String) : Option (Option Int) := if s == "_" then some none else s.toInt?.map some
def parseOptNat (s : String) : Option (Option Nat) := if s == "_" then some none else s.toNat?.map some

structure Scn where
  api : String := "sase"
  steps : List Step := []
  cfg : Cfg := { maxRuns := 10000, lim := { maxEvents := 20, maxResults := 10000 } }
  nfa : Nfa := {}
  eng : Eng := {}
  evs : List Ev := []
  /-- matches reported so far by the implementation on lines without enumeration (pairwise-distinct judge) -/
  seen : List String := []
  dead : Bool := false
  deriving Inhabited

def parseHeader (ws : List String) : Option Scn :=
  match ws with
  | api :: mr :: st :: mk :: mres :: part :: steps => do
    let steps ← steps.mapM parseStep
    let cfg : Cfg := { maxRuns := ← mr.toNat?, strat := ← parseStrategy st,
                       lim := { maxEvents := ← mk.toNat?, maxResults := ← mres.toNat? }, partitioned := part == "1" }
    pure { api := api, steps := steps, cfg := cfg, nfa := compile steps }
  | _ => none

def parseEv (id : Nat) (ws : List String) : Option Ev :=
  match ws with
  | [ty, x, y, k] => do pure { id := id, ty := ← parseTy ty, x := ← parseOptInt x, y := ← parseOptInt y, key := ← parseOptNat k }
  | _ => none

/-- drop a trailing `# comment` of a header line -/
def stripComment (l : String) : String := ((l.splitOn "#").headD "")

/-! ### formatting -/
def insertSortedBy {α : Type} (lt : α → α → Bool) (x : α) : List α → List α
  | [] => [x]
  | y :: ys => if lt x y then x :: y :: ys else y :: insertSortedBy lt x ys
def sortBy {α : Type} (lt : α → α → Bool) (l : List α) : List α := l.foldr (insertSortedBy lt) []

def fmtCap (c : Cap) : String :=
  ",".intercalate ((sortBy (fun (a b : Nat × Ev) => a.1 < b.1) c).map fun (a, e) => s!"{aliasName a}:{e.id}")

def fmtMatch (api : String) (m : Match) : String :=
  if api == "vpl" then "|" ++ fmtCap m.captured
  else "s:" ++ ",".intercalate (m.stack.map fun en => toString en.ev.id) ++ "|" ++ fmtCap m.captured

def fmtSet (s : List Nat) : String := "{" ++ ",".intercalate (s.map toString) ++ "}"

/-- what the hook records during one `process` call: (enumeration call relative to the first recording one,
events kept, index set) -/
def fmtRecorded (groups : List (List Match)) : String :=
  let calls := groups.filter fun g => g.any (·.enum.isSome)
  -- only enumeration calls count; calls that recorded nothing still advance the counter
  let enumCalls := groups.filter fun g => g.all (·.enum.isSome)
  let numbered := (List.range enumCalls.length).zip enumCalls
  let nonEmpty := numbered.filter fun (_, g) => !g.isEmpty
  if calls.isEmpty then "-" else
  let base := (nonEmpty.head?.map (·.1)).getD 0
  ";".intercalate (nonEmpty.flatMap fun (i, g) => g.filterMap fun m =>
    m.enum.map fun (kept, s) => s!"{i - base}/{kept}:{fmtSet s}")

def fmtOut (api : String) (o : Out) : String :=
  let ms := o.emitted.flatten
  let m := if ms.isEmpty then "-" else ";".intercalate (ms.map (fmtMatch api))
  s!"m={m} z={fmtRecorded o.emitted}"

/-! ### judge (C03 on the implementation's own output) -/

/-- the scenario so far is `A B^n` on the pattern `A -> all B [-> C]` (first event starts the only run) -/
def kleeneShape (sc : Scn) : Option (Step × Step × Option Step) :=
  match sc.steps with
  | [a, b] => if !a.kleene && b.kleene && a.ty == 0 && b.ty == 1 then some (a, b, none) else none
  | [a, b, c] => if !a.kleene && b.kleene && !c.kleene && a.ty == 0 && b.ty == 1 && c.ty == 2 then some (a, b, some c) else none
  | _ => none

def stepOk (s : Step) (e : Ev) (cap : Cap) : Bool :=
  e.ty == s.ty && (match s.pred with | some p => evalPred p e cap | none => true)

/-- B events kept by the closure according to the property: with a consistent filter those that satisfy it,
with a self-referencing filter all of them; at most `maxKleene` -/
def keptOf (sc : Scn) (a b : Step) (eA : Ev) (bs : List Ev) : List Ev :=
  let cap0 : Cap := Cap.setOpt [] a.alias eA
  let isSelf := match b.pred with | some p => selfRef b.alias p | none => false
  let ok := bs.filter fun e => isSelf || stepOk b e cap0
  ok.take sc.cfg.lim.maxEvents

/-- expected result line for an event of the `A B^n C` prefix (`none`: the judge has no opinion) -/
def expected (sc : Scn) (e : Ev) : Option (String × Bool) :=
  match kleeneShape sc, sc.evs with
  | some (a, b, c?), eA :: bs =>
    if !(stepOk a eA [] && bs.all (·.ty == 1) && sc.cfg.maxRuns ≥ 1 && !sc.cfg.partitioned) then none else
    let cap0 : Cap := Cap.setOpt [] a.alias eA
    let isSelf := match b.pred with | some p => selfRef b.alias p | none => false
    let entry (s : Step) (e : Ev) : Entry := ⟨e, s.alias⟩
    match c? with
    | some c =>
      if e.ty == 1 then some ("m=- z=-", false)
      else if e.ty != 2 then none
      else
        let kept := keptOf sc a b eA bs
        match kept.getLast? with
        | none => some ("m=- z=-", false)
        | some lastB =>
          let capB := cap0.setOpt b.alias lastB
          if !stepOk c e capB then some ("m=- z=-", false) else
          let capC := capB.setOpt c.alias e
          let stack := [entry a eA] ++ kept.map (entry b) ++ [entry c e]
          if isSelf then
            let p := b.pred.getD (.cmp 0 .eq 0)
            let sets := Spec.expectedSets p b.alias capC kept sc.cfg.lim.maxResults
            let ms : List (List Match) := [sets.map fun s =>
              { captured := capC.setOpt b.alias ((Spec.pick kept s).getLastD lastB), stack := stack, enum := some (kept.length, s) }]
            some (fmtOut sc.api { emitted := ms }, false)
          else some (fmtOut sc.api { emitted := [[{ captured := capC, stack := stack }]] }, false)
    | none =>
      -- trailing `all` (consistent filters only): every kept B reports the closure so far
      if isSelf || e.ty != 1 then none else
      let kept := keptOf sc a b eA bs
      let kept' := keptOf sc a b eA (bs ++ [e])
      -- guard of the known finding: more filter-passing B events than `maxKleene` have arrived
      let over := ((bs ++ [e]).filter fun x => stepOk b x cap0).length > sc.cfg.lim.maxEvents
      if kept'.length == kept.length then some ("m=- z=-", over) else
      let stack := [entry a eA] ++ kept'.map (entry b)
      some (fmtOut sc.api { emitted := [[{ captured := cap0.setOpt b.alias e, stack := stack }]] }, over)
  | _, _ => none

def between (s a b : String) : Option String :=
  match s.splitOn a with
  | _ :: rest :: _ => (rest.splitOn b).head?
  | _ => none

def hasDup : List String → Bool
  | [] => false
  | x :: xs => xs.contains x || hasDup xs

/-- pairwise distinctness on the implementation's own output: index sets within one enumeration, and
plain (non-enumerated) matches across the scenario -/
def judgeDistinct (sc : Scn) (impl : String) : Option String × List String :=
  match impl.splitOn " z=" with
  | [m, z] =>
    let ms := if m == "m=-" then [] else (m.drop 2).toString.splitOn ";"
    if z == "-" then
      let dupNew := hasDup ms || ms.any sc.seen.contains
      (if dupNew then some "a combination was emitted twice" else none, sc.seen ++ ms)
    else
      let items := z.splitOn ";"
      (if hasDup items then some "an index set was emitted twice by one enumeration" else none, sc.seen)
  | _ => (none, sc.seen)

def step (sc : Scn) (line : String) : Scn × String :=
  let (op, impl?) := splitCase line
  match words (if impl?.isNone then stripComment op else op) with
  | "new" :: rest =>
    match parseHeader rest with
    | some s => (s, "")
    | none => (sc, "BADLINE")
  | "ev" :: rest =>
    match parseEv sc.evs.length rest, impl? with
    | some e, some impl =>
      let exp := expected sc e
      let (dup, seen') := judgeDistinct sc impl
      let (eng', model) : Eng × String :=
        if sc.dead then (sc.eng, "panic") else
        match SaseB.step sc.nfa sc.cfg sc.eng e with
        | some (s', o) => (s', fmtOut sc.api o)
        | none => (sc.eng, "panic")
      let sc' := { sc with eng := eng', evs := sc.evs ++ [e], seen := seen', dead := sc.dead || model == "panic" }
      let v :=
        if impl == "panic" then "JUDGE C05/C03 processing panicked"
        else match exp with
          | some (x, over) =>
              if x != impl then
                (if over && model == impl then s!"KNOWN[C03-trailing-all-uncapped] expected={x}"
                 else if over then verdict model impl
                 else s!"JUDGE C03 expected={x}")
              else (match dup with | some why => s!"JUDGE C03 {why}" | none => verdict model impl)
          | none => match dup with
              | some why => s!"JUDGE C03 {why}"
              | none => verdict model impl
      (sc', v)
    | _, _ => (sc, "BADLINE")
  | [] => (sc, "")
  | _ => (sc, "BADLINE")

--! vmodel: kleene => Varpulis.Driver.KleeneD.driver
def driver : Prop' Scn := { init := {}, step := step }

end Varpulis.Driver.KleeneD
