import Varpulis.Model.Coord
import Varpulis.Driver.Util
/-! `vmodel coord`: trace validation of the coordinator (C32, C33).

Every case line is `<op> => <answer> | <dump of the implementation's state after the call>`.
For each line the driver
* applies the corresponding model step(s) to the implementation's *previous* state and compares the
  canonical dumps (`DIFF` = the implementation's transition is not a transition of the model),
* judges the properties on the implementation's own answer and state: C33 — placement targets are
  available (pinned rule, least-loaded failover targets), sweeps mark exactly the overdue Ready workers,
  heartbeats restore; C32 — `bookInvB` of the dumped state. A broken invariant is `KNOWN[C32-…]` when the
  step that broke it falls outside the guard of the partial theorem (`guardFail`), else `JUDGE`. -/
namespace Varpulis.Driver.CoordD
open Varpulis.Coord Varpulis.Driver

/-! ### canonical dump -/

def statusStr : WStatus → String
  | .registering => "registering" | .ready => "ready" | .unhealthy => "unhealthy" | .draining => "draining"

def parseStatus : String → Option WStatus
  | "registering" => some .registering | "ready" => some .ready
  | "unhealthy" => some .unhealthy | "draining" => some .draining | _ => none

def sortBy {α : Type} (lt : α → α → Bool) (l : List α) : List α := (l.toArray.qsort lt).toList

def dumpWorker (w : Worker) : String :=
  let a := sortBy (· < ·) w.assigned
  s!"{w.id},{statusStr w.status},{w.running},{w.maxP},{w.cores},{w.lastHb},{if a.isEmpty then "-" else "+".intercalate a}"

def dumpP (r : PRec) : String :=
  s!"{r.gid},{r.name},{r.worker},{if r.status == .running then "running" else "failed"},{if r.hasId then 1 else 0},{r.epoch}"

def dumpSt (s : St) : String :=
  let ws := sortBy (fun a b => a.id < b.id) s.workers
  let ps := sortBy (fun a b => a.gid < b.gid || (a.gid == b.gid && a.name < b.name)) s.placements
  let gs := sortBy (· < ·) (s.groups.map (·.1))
  s!"W[{";".intercalate (ws.map dumpWorker)}] P[{";".intercalate (ps.map dumpP)}] G[{",".intercalate (gs.map toString)}]"

def between (s : String) (a b : String) : Option String :=
  match s.splitOn a with
  | _ :: rest :: _ => (rest.splitOn b).head?
  | _ => none

def parseWorker (w : String) : Option Worker :=
  match w.splitOn "," with
  | [id, st, r, m, c, hb, a] => do
    pure { id := ← id.toNat?, status := ← parseStatus st, running := ← r.toNat?, maxP := ← m.toNat?,
           cores := ← c.toNat?, lastHb := ← hb.toNat?, assigned := if a == "-" then [] else a.splitOn "+" }
  | _ => none

def parseP (w : String) : Option PRec :=
  match w.splitOn "," with
  | [g, n, wk, st, hid, e] => do
    pure { gid := ← g.toNat?, name := n, worker := ← wk.toNat?,
           status := if st == "running" then .running else .failed, hasId := hid == "1", epoch := ← e.toNat? }
  | _ => none

def parseList {α : Type} (f : String → Option α) (sep : String) (s : String) : Option (List α) :=
  if s.isEmpty || s == "-" then some [] else (s.splitOn sep).mapM f

def parseDump (timeout : Nat) (d : String) : Option St := do
  let ws ← parseList parseWorker ";" (← between d "W[" "]")
  let ps ← parseList parseP ";" (← between d "P[" "]")
  let gs ← parseList String.toNat? "," (← between d "G[" "]")
  -- stored group statuses: `S[…]` lists the groups whose status is not Running (read by `reconcile` only;
  -- not part of the compared dump)
  let nr := (between d "S[" "]").bind (parseList String.toNat? ",") |>.getD []
  pure { workers := ws, placements := ps, groups := gs.map fun g => (g, []), timeout := timeout, notRunning := nr }

/-! ### operands -/

def parseSpec (w : String) : Option PSpec :=
  match w.splitOn ":" with
  | [n, a, r] => do
    let aff ← if a == "-" then pure none else a.toNat?.map some
    pure { name := n, affinity := aff, replicas := ← r.toNat? }
  | _ => none

def parseAt (w : String) : Option (Name × WId) :=
  match w.splitOn "@" with
  | [n, k] => do pure (n, ← k.toNat?)
  | _ => none

def parseResult (w : String) : Option DeployResult :=
  match w.splitOn ":" with
  | [nw, ok] => do let (n, k) ← parseAt nw; pure { replica := n, worker := k, ok := ok == "1" }
  | _ => none

/-- `gid/name>target:ok` -/
def parseMig (w : String) : Option (GId × Name × Option WId × Bool) :=
  match w.splitOn ">" with
  | [gn, tk] =>
    match gn.splitOn "/", tk.splitOn ":" with
    | [g, n], [t, ok] => do
      let tgt ← if t == "none" then pure none else t.toNat?.map some
      pure (← g.toNat?, n, tgt, ok == "1")
    | _, _ => none
  | _ => none

/-! ### verdict assembly -/

structure St' where
  timeout : Nat := 15000
  prev : St := {}
  /-- was `bookInvB` true of the previous implementation state -/
  prevInv : Bool := true
  /-- judge the bookkeeping invariant (C32 histories); C33 histories switch it off -/
  book : Bool := true

def failId : GuardFail → String
  | .reregister => "C32-reregister"
  | .heartbeatCount => "C32-heartbeat-count"
  | .deregisterRunning => "C32-deregister-running"
  | .deployWorkerGone => "C32-stale-deploy-commit"
  | .deployInput => "C32-deploy-input"
  | .staleTeardown => "C32-stale-teardown-commit"
  | .migrateFailedPlacement => "C32-migrate-failed-placement"

/-- run model steps from the previous implementation state; collect the first guard failure -/
def runSteps (s : St) (steps : List Step) : St × Option GuardFail :=
  steps.foldl (fun (acc : St × Option GuardFail) st =>
    let gf := match acc.2 with | some f => some f | none => guardFail acc.1 st
    (step acc.1 st, gf)) (s, none)

structure Out where
  judge : List String := []
  modelAnswer : String := ""
  model : St := {}
  fail : Option GuardFail := none
  /-- finding id override by call site (drain) -/
  failTag : Option String := none

def finish (st : St') (out : Out) (implAnswer implDump : String) : St' × String :=
  match parseDump st.timeout implDump with
  | none => (st, "BADLINE")
  | some impl =>
    let inv := bookInvB impl
    let st2 := { st with prev := impl, prevInv := inv }
    let modelLine := s!"{out.modelAnswer} | {dumpSt out.model}"
    let implLine := s!"{implAnswer} | {dumpSt impl}"
    if !out.judge.isEmpty then (st2, s!"JUDGE {"; ".intercalate out.judge}")
    else if st.book && st.prevInv && !inv then
      match out.fail with
      | some f =>
        (st2, s!"KNOWN[{out.failTag.getD (failId f)}] bookkeeping invariant broken by a step outside the guard ({repr f})")
      | none => (st2, "JUDGE C32 bookkeeping invariant broken by a guarded step: running placement off a registered worker, or assigned/count mismatch")
    else if st.book && !st.prevInv && !inv && bookInvB out.model then
      (st2, "JUDGE C32 this call restores the bookkeeping invariant in the model (e.g. reconcile after a re-registration) but the implementation's state is still inconsistent")
    else (st2, verdict modelLine implLine)

def availIn (s : St) (id : WId) : Bool := s.workers.any fun w => w.id == id && w.isAvailable

/-- C33 judge of a deploy plan against the state it was planned on -/
def judgePlan (s : St) (specs : List PSpec) (tasks : List (Name × WId)) : List String :=
  let names := specs.flatMap replicaNames
  let j1 := if tasks.map (·.1) != names then [s!"C33 plan tasks {tasks.map (·.1)} differ from the requested replicas {names}"] else []
  let j2 := tasks.filterMap fun (n, w) =>
    if availIn s w then none else some s!"C33 {n} placed on worker {w} which is not available (not Ready, full or not registered)"
  let j3 := specs.flatMap fun p =>
    match p.affinity with
    | some a =>
      if availIn s a then
        (tasks.filter fun (n, w) => (replicaNames p).contains n && w != a).map fun (n, w) =>
          s!"C33 pinned pipeline {n} went to {w} although its pinned worker {a} is available"
      else []
    | none => []
  j1 ++ j2 ++ j3

def migErrStr : MigErr → String
  | .groupNotFound => "err:groupnotfound" | .pipelineNotFound => "err:pipelinenotfound"
  | .workerNotFound => "err:workernotfound" | .targetUnavailable => "err:unavailable"

/-- replay the migrations a failover / drain performed; judge each target -/
def replayMigs (s : St) (failed : WId) (migs : List (GId × Name × Option WId × Bool)) :
    St × Option GuardFail × List String :=
  migs.foldl (fun (acc : St × Option GuardFail × List String) m =>
    let (s, gf, js) := acc
    let (g, n, t?, ok) := m
    let cands := failoverCandidates s failed
    match t? with
    | none =>
      (s, gf, if cands.isEmpty then js else js ++ [s!"C33 no failover target chosen for {n} although workers are available"])
    | some t =>
      let j := if isLeastLoaded cands t then [] else
        [s!"C33 failover target {t} for {n} is not an available least-loaded worker other than {failed}"]
      let st := Step.migrateAtomic g n t ok
      (step s st, (match gf with | some f => some f | none => guardFail s st), js ++ j)) (s, none, [])

def step (st : St') (line : String) : St' × String :=
  let (op, res?) := splitCase line
  match words op with
  | ["new", "c", t] => ({ timeout := t.toNat?.getD 15000, prev := { timeout := t.toNat?.getD 15000 } }, "")
  | ["new", "c", t, "nobook"] =>
    ({ timeout := t.toNat?.getD 15000, prev := { timeout := t.toNat?.getD 15000 }, book := false }, "")
  | [] => (st, "")
  | ws =>
    let res := res?.getD ""
    let (ans, dump) := match res.splitOn " | " with
      | [a, d] => (a, d)
      | _ => (res, "")
    let s := st.prev
    let simple (steps : List Step) (answer : String) (judge : List String := []) (tag : Option String := none) :=
      let (m, gf) := runSteps s steps
      finish st { judge := judge, modelAnswer := answer, model := m, fail := gf, failTag := tag } ans dump
    match ws with
    | ["reg", w, m, c, r0, now] =>
      match w.toNat?, m.toNat?, c.toNat?, r0.toNat?, now.toNat? with
      | some w, some m, some c, some r0, some now => simple [.register w m c r0 now] "ok"
      | _, _, _, _, _ => (st, "BADLINE")
    | ["hb", w, n, now] =>
      match w.toNat?, n.toNat?, now.toNat? with
      | some w, some n, some now =>
        let answer := if (s.getW w).isSome then "ok" else "notfound"
        -- C33 judge on the implementation's own new state
        let j := match parseDump st.timeout dump, s.getW w with
          | some impl, some old =>
            match impl.getW w with
            | some nw =>
              let want := if old.status == .unhealthy then WStatus.ready else old.status
              (if nw.status != want then [s!"C33 heartbeat left worker {w} {statusStr nw.status}, expected {statusStr want}"] else []) ++
              (if nw.lastHb != now then [s!"C33 heartbeat did not stamp worker {w}"] else [])
            | none => [s!"C33 worker {w} vanished on heartbeat"]
          | _, _ => []
        simple [.heartbeat w n now] answer j
      | _, _, _ => (st, "BADLINE")
    | ["dereg", w] =>
      match w.toNat? with
      | some w => simple [.deregister w] (if (s.getW w).isSome then "ok" else "notfound")
      | none => (st, "BADLINE")
    | ["sweep", now] =>
      match now.toNat? with
      | some now =>
        let marked := sortBy (· < ·) (sweepMarked s now)
        let answer := "m:" ++ (if marked.isEmpty then "-" else ",".intercalate (marked.map toString))
        let j := if ans != answer then
          [s!"C33 sweep at {now} marked {ans} but the Ready workers with a heartbeat older than {s.timeout} ms are {answer}"] else []
        simple [.sweep now] answer j
      | none => (st, "BADLINE")
    | ["setstatus", w, stw] =>
      -- test set-up: `WorkerNode::status` is a public field (used for Registering / Unhealthy start states)
      match w.toNat?, parseStatus stw with
      | some w, some x =>
        finish st { modelAnswer := "ok", model := s.updW w (fun k => { k with status := x }) } ans dump
      | _, _ => (st, "BADLINE")
    | ["drainmark", w] =>
      match w.toNat? with
      | some w => simple [.markDraining w] "ok"
      | none => (st, "BADLINE")
    | ["plan", specs] =>
      match parseList parseSpec "," specs with
      | some specs =>
        if ans == "noworkers" then
          let j := if s.available.isEmpty then [] else ["C33 plan refused although a worker is available"]
          simple [] "noworkers" j
        else
          match parseList parseAt "," ((ans.drop 2).toString) with
          | some tasks =>
            let j := (if s.available.isEmpty then ["C33 plan produced without any available worker"] else []) ++ judgePlan s specs tasks
            -- the choice among available workers is the implementation's: the model accepts any valid plan
            simple [] ans j
          | none => (st, "BADLINE")
      | none => (st, "BADLINE")
    | ["commit", g, specs, results] =>
      match g.toNat?, parseList parseSpec "," specs, parseList parseResult "," results with
      | some g, some specs, some rs => simple [.commitDeploy g specs rs] "ok"
      | _, _, _ => (st, "BADLINE")
    | ["dgroup", g, specs, results] =>
      -- monolithic `deploy_group`: select, deploy and book one replica after the other on the *current* state
      match g.toNat?, parseList parseSpec "," specs, parseList parseResult "," results with
      | some g, some specs, some rs =>
        if ans == "noworkers" && rs.isEmpty && !(parseDump st.timeout dump).any (fun i => i.hasGroup g) then
          simple [] "noworkers" (if s.available.isEmpty then [] else ["C33 deploy_group refused although a worker is available"])
        else
          let s0 : St := { s with groups := (g, specs) :: s.groups }
          let (curEnd, js) := rs.foldl (fun (acc : St × List String) r =>
            let (cur, js) := acc
            let j1 := if availIn cur r.worker then [] else
              [s!"C33 deploy_group placed {r.replica} on worker {r.worker} which is not available at that moment"]
            let j2 := match specs.find? (fun p => (replicaNames p).contains r.replica) with
              | some p => match p.affinity with
                | some a => if availIn cur a && r.worker != a then
                    [s!"C33 deploy_group: pinned {r.replica} went to {r.worker} although {a} is available"] else []
                | none => []
              | none => [s!"C33 deploy_group produced an unrequested replica {r.replica}"]
            (commitResult g cur r, js ++ j1 ++ j2)) (s0, [])
          let complete := rs.map (·.replica) == specs.flatMap replicaNames
          let answer := if complete then "ok" else "noworkers"
          let j3 := if !complete && !curEnd.available.isEmpty then
            ["C33 deploy_group gave up although a worker was still available"] else []
          simple [.commitDeploy g specs rs] answer (js ++ j3)
      | _, _, _ => (st, "BADLINE")
    | ["reconcile", mode] =>
      let redeploy := mode == "ok"
      let n := if redeploy then (reconcileCandidates s).length else 0
      finish st { modelAnswer := s!"n:{n}", model := reconcile s redeploy } ans dump
    | ["tdplan", g] =>
      match g.toNat? with
      | some g =>
        let answer := match planTeardown s g with
          | some ts => "t:" ++ (let l := sortBy (· < ·) (ts.map fun (n, w) => s!"{n}@{w}"); if l.isEmpty then "-" else ",".intercalate l)
          | none => "nogroup"
        simple [] answer
      | none => (st, "BADLINE")
    | ["tdcommit", g, tasks] =>
      match g.toNat?, parseList parseAt "," tasks with
      | some g, some ts => simple [.commitTeardown g ts] "ok"
      | _, _ => (st, "BADLINE")
    | ["mplan", g, n, t] =>
      match g.toNat?, t.toNat? with
      | some g, some t =>
        let (answer, j) := match planMigrate s g n t with
          | .ok p => (s!"ok:{p.source}:{p.epoch}", [])
          | .error e => (migErrStr e, [])
        let j2 := if ans.startsWith "ok" && !availIn s t then
          [s!"C33 migration of {n} planned onto worker {t} which is not available"] else j
        simple [] answer j2
      | _, _ => (st, "BADLINE")
    | ["mcommit", g, n, src, t, e, ok] =>
      match g.toNat?, src.toNat?, t.toNat?, e.toNat? with
      | some g, some src, some t, some e =>
        simple [.commitMigrate { gid := g, name := n, source := src, target := t, epoch := e } (ok == "1")] "ok"
      | _, _, _, _ => (st, "BADLINE")
    | ["migrate", g, n, t, ok] =>
      match g.toNat?, t.toNat? with
      | some g, some t =>
        let answer :=
          if !s.hasGroup g then "err:groupnotfound"
          else match s.getP g n, s.getW t with
            | none, _ => "err:pipelinenotfound"
            | some _, none => "err:workernotfound"
            | some _, some w => if !w.isAvailable then "err:unavailable" else if ok == "1" then "ok" else "err:deploy"
        let j := if ans == "ok" && !availIn s t then
          [s!"C33 pipeline {n} migrated onto worker {t} which is not available"] else []
        simple [.migrateAtomic g n t (ok == "1")] answer j
      | _, _ => (st, "BADLINE")
    | ["failover", w] =>
      match w.toNat?, parseList parseMig "," ((ans.drop 2).toString) with
      | some w, some migs =>
        let (m, gf, js) := replayMigs s w migs
        finish st { judge := js, modelAnswer := ans, model := m, fail := gf } ans dump
      | _, _ => (st, "BADLINE")
    | ["rebalance"] =>
      -- `rebalance` = a sequence of `migrate_pipeline` calls; each observed migration must target an
      -- available worker (C33) and is replayed as a model step (C32)
      match parseList parseMig "," ((ans.drop 2).toString) with
      | some migs =>
        let (m, gf, js) := migs.foldl (fun (acc : St × Option GuardFail × List String) mg =>
          let (s, gf, js) := acc
          match mg with
          | (g, n, some t, ok) =>
            let stp := Step.migrateAtomic g n t ok
            let j := if ok && !availIn s t then [s!"C33 rebalance moved {n} onto worker {t} which is not available"] else []
            (Varpulis.Coord.step s stp, (match gf with | some f => some f | none => guardFail s stp), js ++ j)
          | _ => acc) (s, none, [])
        finish st { judge := js, modelAnswer := ans, model := m, fail := gf } ans dump
      | none => (st, "BADLINE")
    | ["drain", w] =>
      match w.toNat? with
      | some w =>
        match s.getW w with
        | none => simple [] "notfound"
        | some wk =>
          if wk.status == .draining then simple [] "already"
          else
            match parseList parseMig "," ((ans.drop 2).toString) with
            | some migs =>
              let s1 := markDraining s w
              let (m, gf, js) := replayMigs s1 w migs
              let gf2 := match gf with | some f => some f | none => guardFail m (.deregister w)
              let m2 := Varpulis.Coord.step m (.deregister w)
              finish st { judge := js, modelAnswer := ans, model := m2, fail := gf2,
                          failTag := if gf.isNone && gf2.isSome then some "C32-drain-leaves-running" else none } ans dump
            | none => (st, "BADLINE")
      | none => (st, "BADLINE")
    | _ => (st, "BADLINE")

--! vmodel: coord => Varpulis.Driver.CoordD.driver
def driver : Prop' St' := { init := {}, step := step }

end Varpulis.Driver.CoordD
