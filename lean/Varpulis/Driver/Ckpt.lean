import Varpulis.Model.Ckpt
import Varpulis.Driver.Util
/-! `vmodel ckpt`: replays the C20 (and C19) case lines of `harness/vh-core/src/p_ckpt.rs` on M-CKPT.

Tree text (one blank between tokens):
`n | T | F | i<int> | d<16 hex: f64 bits> | "<raw> | x<hex of UTF-8> | [ t* ] | { key t … }`.
Objects are printed with sorted keys on both sides. -/
namespace Varpulis.Driver.CkptD
open Varpulis.Ckpt Varpulis.Driver

/-! ### floats by bit pattern -/
def f64OfBits (b : Nat) : F64 :=
  let e := (b / 2 ^ 52) % 2048
  let m := b % 2 ^ 52
  if e == 2047 then (if m != 0 then .nan else if b / 2 ^ 63 == 1 then .ninf else .pinf) else .fin b

def f64Bits : F64 → Nat
  | .fin b => b
  | .nan => 0x7ff8000000000000
  | .pinf => 0x7ff0000000000000
  | .ninf => 0xfff0000000000000

def hexDigit (n : Nat) : Char := if n < 10 then Char.ofNat (48 + n) else Char.ofNat (87 + n)

def hexVal (c : Char) : Option Nat :=
  if '0' ≤ c ∧ c ≤ '9' then some (c.toNat - 48)
  else if 'a' ≤ c ∧ c ≤ 'f' then some (c.toNat - 87)
  else none

def hexFixed (digits : Nat) (n : Nat) : String :=
  String.ofList ((List.range digits).reverse.map fun i => hexDigit ((n / 16 ^ i) % 16))

def parseHexNat (s : String) : Option Nat :=
  s.toList.foldlM (fun acc c => (hexVal c).map fun d => acc * 16 + d) 0

def hexBytes : List Char → Option (List UInt8)
  | [] => some []
  | a :: b :: r => do
    let x ← hexVal a; let y ← hexVal b; let t ← hexBytes r
    pure (UInt8.ofNat (x * 16 + y) :: t)
  | _ => none

/-! ### tree text -/
def safeChar (c : Char) : Bool := c.isAlphanum || c == '_' || c == '.' || c == ':' || c == '-'

def strTok (s : String) : String :=
  if !s.isEmpty && s.toList.all safeChar then "\"" ++ s
  else "x" ++ String.join (s.toUTF8.toList.map fun b => hexFixed 2 b.toNat)

def insertKey (kv : String × Json) : List (String × Json) → List (String × Json)
  | [] => [kv]
  | x :: xs => if kv.1 < x.1 then kv :: x :: xs else x :: insertKey kv xs

def sortKeys (l : List (String × Json)) : List (String × Json) := l.foldr insertKey []

partial def Json.text : Json → String
  | .null => "n"
  | .bool true => "T"
  | .bool false => "F"
  | .int i => "i" ++ toString i
  | .num f => "d" ++ hexFixed 16 (f64Bits f)
  | .str s => strTok s
  | .arr l => "[" ++ String.join (l.map fun j => " " ++ Json.text j) ++ " ]"
  | .obj l => "{" ++ String.join ((sortKeys l).map fun kv => " " ++ strTok kv.1 ++ " " ++ Json.text kv.2) ++ " }"

def parseStrTok (t : String) : Option String :=
  if t.startsWith "\"" then some (t.drop 1).toString
  else if t.startsWith "x" then
    (hexBytes (t.drop 1).toString.toList).bind fun bs => String.fromUTF8? (ByteArray.mk bs.toArray)
  else none

mutual
partial def parseTree : List String → Option (Json × List String)
  | [] => none
  | t :: rest =>
    if t == "n" then some (.null, rest)
    else if t == "T" then some (.bool true, rest)
    else if t == "F" then some (.bool false, rest)
    else if t == "[" then parseArr rest []
    else if t == "{" then parseObj rest []
    else if t.startsWith "i" then (t.drop 1).toString.toInt?.map fun i => (.int i, rest)
    else if t.startsWith "d" then (parseHexNat (t.drop 1).toString).map fun b => (.num (f64OfBits b), rest)
    else (parseStrTok t).map fun s => (.str s, rest)
partial def parseArr : List String → List Json → Option (Json × List String)
  | [], _ => none
  | t :: rest, acc =>
    if t == "]" then some (.arr acc.reverse, rest)
    else match parseTree (t :: rest) with
      | some (j, rest') => parseArr rest' (j :: acc)
      | none => none
partial def parseObj : List String → List (String × Json) → Option (Json × List String)
  | [], _ => none
  | t :: rest, acc =>
    if t == "}" then some (.obj acc.reverse, rest)
    else match parseStrTok t with
      | some k => match parseTree rest with
        | some (j, rest') => parseObj rest' ((k, j) :: acc)
        | none => none
      | none => none
end

def parseWhole (ws : List String) : Option Json :=
  match parseTree ws with
  | some (j, []) => some j
  | _ => none

/-! ### typed views of the harness' lossless trees -/
/-- a runtime value in the harness' rendering (the `SerializableValue` shape, floats by bits) -/
def decValL (j : Json) : Option Val := (decSV j).map s2v

/-- `{ data {…} event_type s ts i }` -/
def decEventL : Json → Option Event
  | .obj kvs => do
    let ty ← req kvs "event_type" decStr
    let ts ← req kvs "ts" decInt
    let d ← req kvs "data" (decMap decValL)
    pure { etype := ty, ts := ts, data := d }
  | _ => none

/-- split the implementation's answer `J=<tree> R=<tree|err>` -/
def splitJR (impl : String) : Option (String × String) :=
  if impl.startsWith "J=" then
    match ((impl.drop 2).toString).splitOn " R=" with
    | [j, r] => some (j, r)
    | _ => none
  else none

def short (s : String) : String := if s.length > 160 then (s.take 160).toString ++ "…" else s

/-- `ev`: Event → SerializableEvent → JSON → SerializableEvent → Event -/
def stepEv (ws : List String) (impl : String) : String :=
  match (parseWhole ws).bind decEventL with
  | none => "BADLINE"
  | some e =>
    if impl == "panic" then "JUDGE C20 the conversion or the codec panicked" else
    match splitJR impl with
    | none => "BADLINE"
    | some (ij, ir) =>
      let j' := wire (encSE (serOfEvent e))
      let r' := (decSE j').map eventOfSer
      let implR : Option Event := if ir == "err" then none else (parseWhole (words ir)).bind decEventL
      if ir != "err" && implR.isNone then "BADLINE" else
      -- the listed finding: a sub-millisecond timestamp comes back cut to the millisecond, nothing else changes
      let explained := !e.whole && implR == some e.truncMs
      if !(implR == some e) && !explained then
        s!"JUDGE C20 the event is not restored equal: {if ir == "err" then "the reader rejects what the writer wrote" else short ir}"
      else if Json.text j' != ij then s!"DIFF model={short (Json.text j')}"
      else if !(r' == implR) then "DIFF model restores a different event"
      else if !(implR == some e) then
        s!"KNOWN[C20-submillisecond-event-timestamps] timestamp {e.ts} ns restored as {e.truncMs.ts} ns"
      else "ok"

/-- `ck engine|checkpoint <tree>`: codec::serialize then codec::deserialize -/
def stepCk {α} [BEq α] (dec : Json → Option α) (enc : α → Json) (ws : List String) (impl : String) : String :=
  match (parseWhole ws).bind dec with
  | none => "BADLINE"
  | some c =>
    if impl == "panic" then "JUDGE C20 the codec panicked" else
    match splitJR impl with
    | none => "BADLINE"
    | some (ij, ir) =>
      let j' := wire (enc c)
      let r' := dec j'
      let implR : Option α := if ir == "err" then none else (parseWhole (words ir)).bind dec
      if ir != "err" && implR.isNone then "BADLINE" else
      if !(implR == some c) then
        s!"JUDGE C20 the checkpoint does not read back equal: {if ir == "err" then "the reader rejects what the writer wrote" else "a field differs"}"
      else if Json.text j' != ij then s!"DIFF model={short (Json.text j')}"
      else if !(r' == implR) then "DIFF model reads back a different checkpoint"
      else "ok"

/-- `det <variant> <engine tree>`: format auto-detection of `codec::deserialize` (feature `binary-codec` off) -/
def stepDet (variant : String) (ws : List String) (impl : String) : String :=
  match (parseWhole ws).bind decEngine with
  | none => "BADLINE"
  | some c =>
    let doc := wire (encEngine c)
    let bytes : Option Bytes :=
      if variant == "plain" then some (serialize (encEngine c))
      else if variant == "ws" then some (.json 5 doc)
      else if variant == "empty" then some .empty
      else if variant == "wsonly" then some (.other 3 ' ')
      else if variant == "garbage" then some (.other 0 (Char.ofNat 0x93))
      else if variant == "array" then some (.json 0 (.arr [doc]))
      else none
    match bytes with
    | none => "BADLINE"
    | some b =>
      let implR : Option EngineCkpt := if impl.startsWith "R=" && impl != "R=err" then (parseWhole (words (impl.drop 2).toString)).bind decEngine else none
      let expectOk := variant == "plain" || variant == "ws"
      if impl == "panic" then "JUDGE C20 codec::deserialize panicked" else
      if expectOk && !(implR == some c) then "JUDGE C20 a JSON checkpoint is not recognised / not read back equal by the auto-detection"
      else match deserialize false decEngine b with
        | .ok c' => if implR == some c' then "ok" else "DIFF model=ok"
        | .error _ => if impl == "R=err" then "ok" else "DIFF model=err"

/-! ### C19: what the restored component holds, read back through a second checkpoint -/

def insertPart (kv : String × PartWinCkpt) : List (String × PartWinCkpt) → List (String × PartWinCkpt)
  | [] => [kv]
  | x :: xs => if kv.1 < x.1 then kv :: x :: xs else x :: insertPart kv xs

/-- partitions listed by key (the harness prints hash maps sorted) -/
def canonWC (w : WindowCkpt) : WindowCkpt := { w with partitions := w.partitions.foldr insertPart [] }


/-- split the words of a `cut`/`scut` line at the `##` separator -/
def splitAt2 (ws : List String) : List String × List String :=
  (ws.takeWhile (· != "##"), (ws.dropWhile (· != "##")).drop 1)

def qeLe (a b : QEntry) : Bool :=
  a.ms < b.ms || (a.ms == b.ms && (a.sub < b.sub || (a.sub == b.sub &&
    (a.source < b.source || (a.source == b.source && a.key ≤ b.key)))))

def insertQE (x : QEntry) : List QEntry → List QEntry
  | [] => [x]
  | y :: r => if qeLe x y then x :: y :: r else y :: insertQE x r

/-- the expiry queue is a heap: its serialised order is not part of the state -/
def canonJoin (j : JoinCkpt) : JoinCkpt := { j with expiryQueue := j.expiryQueue.map fun q => q.foldr insertQE [] }

/-- `Run::from_checkpoint` followed by `Run::checkpoint`, on the checkpoint struct: everything comes
back as it was — in particular the ORDER of the stack, of the Kleene events and of the AND
branches — except the number of pending negations, which is 0 (`Run.fromCkpt`: `pendingNegs := []`) -/
def reRun (r : RunCkpt) : RunCkpt := { r with pendingNegationCount := 0 }

def reSase (x : SaseCkpt) : SaseCkpt :=
  { x with activeRuns := x.activeRuns.map reRun, partitionedRuns := x.partitionedRuns.map fun kv => (kv.1, kv.2.map reRun) }

/-- what `create_checkpoint ∘ restore_checkpoint` must give for checkpoint `c` according to the
model (`EngineSt.restore` / `EngineSt.ckpt`): the same checkpoint. Lists are compared in order:
window buffers, per-key join buffers, run stacks. -/
def reEngine (c : EngineCkpt) : EngineCkpt :=
  { c with saseStates := c.saseStates.map (fun kv => (kv.1, reSase kv.2)),
           joinStates := c.joinStates.map (fun kv => (kv.1, canonJoin kv.2)),
           windowStates := c.windowStates.map (fun kv => (kv.1, canonWC kv.2)) }

def canonEngine (c : EngineCkpt) : EngineCkpt :=
  { c with joinStates := c.joinStates.map (fun kv => (kv.1, canonJoin kv.2)),
           windowStates := c.windowStates.map (fun kv => (kv.1, canonWC kv.2)) }

/-- which component of the restored engine differs from the model's prediction -/
def recheckEngine (c : EngineCkpt) (tree2 : List String) : String :=
  if tree2 == ["n"] || tree2.isEmpty then "ok" else
  match (parseWhole tree2).bind decEngine with
  | none => "BADLINE"
  | some c2 =>
    let e := reEngine c
    let g := canonEngine c2
    if !(g.windowStates == e.windowStates) then "DIFF the restored engine holds a different window state (buffer order included) than the checkpoint"
    else if !(g.joinStates == e.joinStates) then "DIFF the restored engine holds a different join buffer (per-key arrival order included) than the checkpoint"
    else if !(g.saseStates == e.saseStates) then "DIFF the restored engine holds different pattern runs (stack order included) than the checkpoint"
    else if !(g == e) then "DIFF the restored engine holds a different state (variables, counters, watermarks, distinct, limit) than the checkpoint"
    else "ok"

/-! ### C19: engine cut lines -/

/-- does the checkpoint hold a run with a non-empty Kleene capture? -/
def hasKleeneRun (c : EngineCkpt) : Bool :=
  c.saseStates.any fun kv =>
    let runs := kv.2.activeRuns ++ (kv.2.partitionedRuns.map (·.2)).flatten
    runs.any fun r => match r.kleeneEvents with | some (_ :: _) => true | _ => false

def kleeneInSase (x : SaseCkpt) : Bool :=
  (x.activeRuns ++ (x.partitionedRuns.map (·.2)).flatten).any fun r =>
    match r.kleeneEvents with | some (_ :: _) => true | _ => false

/-- `scut k n tags=… subms=b <SASE checkpoint>`: the same judge for a `SaseEngine` driven through its API -/
def stepScut (evs : List (Option Event)) (ws0 : List String) (impl : String) : String :=
  let (ws, tree2) := splitAt2 ws0
  match ws with
  | k :: _n :: tags :: _subms :: tree =>
    match (parseWhole tree).bind decSase with
    | none => "BADLINE"
    | some c =>
      let subms := (evs.take (k.toNat?.getD 0)).any fun oe => match oe with | some e => !e.whole | none => false
      if impl == "same" then
        (if tree2 == ["n"] || tree2.isEmpty then "ok" else
         match (parseWhole tree2).bind decSase with
         | none => "BADLINE"
         | some c2 => if c2 == reSase c then "ok"
                      else "DIFF the restored SaseEngine holds different runs (stack order included) than the checkpoint")
      else
        let tagList := ((tags.drop 5).toString).splitOn ","
        if tagList.contains "kleene-self-ref" && kleeneInSase c && impl.startsWith "diff" then
          s!"KNOWN[C19-kleene-deferred] restored run lost its deferred Kleene predicate: {short impl}"
        else if subms && impl.startsWith "diff" then
          s!"KNOWN[C19-submillisecond-timestamps] events restored with millisecond timestamps: {short impl}"
        else s!"JUDGE C19 matches after the cut differ from the uninterrupted SaseEngine: {short impl}"
  | _ => "BADLINE"

/-- the structural premises of `engine_restore` (`EngineSt.Restorable`), checked on a real checkpoint:
LRU keys without duplicates, a buffered join pair carries its event's own timestamp, an effective
watermark comes with an applied one -/
def premisesHold (c : EngineCkpt) : Bool :=
  c.distinctStates.all (fun kv => kv.2.eraseDups.length == kv.2.length)
  && c.joinStates.all (fun kv => kv.2.buffers.all fun sb => sb.2.all fun kb => kb.2.all fun p => p.1 == p.2.tsMs)
  && (match c.watermarkState with
      | some w => w.effectiveMs.isNone || w.lastAppliedMs.isSome
      | none => true)

/-- `cut k n tags=… subms=b <engine checkpoint>` => `same` | `diff at=… exp=[…] got=[…]` | `unreadable …` | `panic`.
The judge is the property itself (outputs after the cut equal); a failing cut is classified under
the one listed finding iff the program has a self-referencing Kleene predicate (tag from the
generator) and the checkpoint at the cut holds a run with a Kleene capture. -/
def stepCut (evs : List (Option Event)) (ws0 : List String) (impl : String) : String :=
  let (ws, tree2) := splitAt2 ws0
  match ws with
  | k :: _n :: tags :: _subms :: tree =>
    match (parseWhole tree).bind decEngine with
    | none => "BADLINE"
    | some c =>
      -- guard of the sub-millisecond finding: an event with a sub-millisecond timestamp before the cut
      let subms := (evs.take (k.toNat?.getD 0)).any fun oe => match oe with | some e => !e.whole | none => false
      -- guard of the sliding count finding: the program has a plain sliding count window (generator tag)
      -- and the checkpoint holds a non-partitioned window state (its buffer may still be empty: with
      -- slide > size a fresh window starts its counter at slide - size, a restored one at 0)
      let plainBuf := c.windowStates.any fun kv => kv.2.partitions.isEmpty
      if impl == "same" then
        (if !premisesHold c then "DIFF a structural premise of engine_restore does not hold of this engine state"
         else recheckEngine c tree2)
      else
        let tagList := ((tags.drop 5).toString).splitOn ","
        if tagList.contains "kleene-self-ref" && hasKleeneRun c && impl.startsWith "diff" then
          s!"KNOWN[C19-kleene-deferred] restored run lost its deferred Kleene predicate: {short impl}"
        else if tagList.contains "slidingCount-plain" && plainBuf && impl.startsWith "diff" then
          s!"KNOWN[C19-sliding-count-counter-reset] plain sliding count window restored with its slide counter at 0: {short impl}"
        else if subms && impl.startsWith "diff" then
          s!"KNOWN[C19-submillisecond-timestamps] events restored with millisecond timestamps: {short impl}"
        else s!"JUDGE C19 outputs after the cut differ from the uninterrupted run: {short impl}"
  | _ => "BADLINE"

/-! ### C19: window components through their public API -/

/-- `to_partition_key` of the field `k` (the generator uses strings, ints, or leaves it out) -/
def pkOf (e : Event) : String :=
  match e.data.lookup "k" with
  | some (.str s) => s
  | some (.int i) => toString i
  | some (.bool b) => if b then "true" else "false"
  | _ => "default"

def idOf (e : Event) : String :=
  match e.data.lookup "id" with
  | some (.int i) => toString i
  | _ => "?"

def emTok (e : Event) : String := s!"{idOf e}@{e.ts}"

def emText : Emit → String
  | none => "-"
  | some l => "[" ++ ",".intercalate (l.map emTok) ++ "]"

def insertStr (x : String) : List String → List String
  | [] => [x]
  | y :: r => if x < y then x :: y :: r else y :: insertStr x r

def emSorted (l : List Event) : String := "[" ++ ",".intercalate ((l.map emTok).foldr insertStr []) ++ "]"

/-- one operation with the emission rendered as the harness renders it -/
def stepW (c : WinCfg) : WinSt → WinOp → WinSt × String
  | .tumbling w, .add e => let r := w.add c.dur e; (.tumbling r.1, emText r.2)
  | .tumbling w, .wm t => let r := w.wm c.dur t; (.tumbling r.1, emText r.2)
  | .sliding w, .add e => let r := w.add c.dur c.slide e; (.sliding r.1, emText r.2)
  | .sliding w, .wm t => let r := w.wm c.dur c.slide t; (.sliding r.1, emText r.2)
  | .count w, .add e => let r := w.add c.n e; (.count r.1, emText r.2)
  | .slidingCount w, .add e => let r := w.add c.n c.m e; (.slidingCount r.1, emText r.2)
  | .session w, .add e => let r := w.add c.dur e; (.session r.1, emText r.2)
  | .session w, .wm t => let r := w.wm c.dur t; (.session r.1, emText r.2)
  | .pTumbling ws, .add e => let r := partAdd pkOf { buf := [], start := none } (TumblingSt.add c.dur) ws e; (.pTumbling r.1, emText r.2)
  | .pSliding ws, .add e => let r := partAdd pkOf { buf := [], lastEmit := none } (SlidingSt.add c.dur c.slide) ws e; (.pSliding r.1, emText r.2)
  | .pSession ws, .add e => let r := partAdd pkOf { buf := [], last := none } (SessionSt.add c.dur) ws e; (.pSession r.1, emText r.2)
  | w, .wm t => match (WinSt.step c pkOf w (.wm t)) with
    | (w', out) => (w', match w with | .count _ | .slidingCount _ => "-" | _ => emSorted out)
  | w, op => let r := WinSt.step c pkOf w op; (r.1, emSorted r.2)

def freshOfKind (kind : String) : Option WinSt :=
  if kind == "tumbling" then some (.tumbling { buf := [], start := none })
  else if kind == "sliding" then some (.sliding { buf := [], lastEmit := none })
  else if kind == "count" then some (.count { buf := [] })
  else if kind == "slidingCount" then some (.slidingCount { buf := [], since := 0 })
  else if kind == "session" then some (.session { buf := [], last := none })
  else if kind == "pTumbling" then some (.pTumbling [])
  else if kind == "pSliding" then some (.pSliding [])
  else if kind == "pSession" then some (.pSession [])
  else none

def freshOfKindE (kind : String) : Option WinSt :=
  if kind == "pCount" then some (.pCount [])
  else if kind == "pSlidingCount" then some (.pSlidingCount [])
  else freshOfKind kind

structure St where
  cfg : WinCfg := {}
  a : Option WinSt := none
  b : Option WinSt := none
  src0 : List (String × SrcWm) := []
  ta : Option WmSt := none
  tb : Option WmSt := none
  /-- engine-level scenario with a single window stream: (stream name, fresh operator, configuration) … -/
  wspec : Option (String × WinSt × WinCfg) := none
  /-- the operations of an engine / SaseEngine scenario in order (`none` for one that is not an event) -/
  evs : List (Option Event) := []
  /-- component-level window scenario: the window kind, and whether a sub-millisecond timestamp occurred -/
  wkind : String := ""
  subSeen : Bool := false

/-- engine-level tie of `create_checkpoint`'s window arms: the window state of stream `W` after the
first `k` operations, computed by the model from the events alone, must be what the real engine
checkpointed (this also reaches the two `Partitioned*State` operators that have no public API) -/
def checkWindowCkpt (st : St) (ws : List String) : String :=
  match st.wspec, ws with
  | some (name, fresh, cfg), k :: _n :: _tags :: _subms :: tree =>
    match k.toNat?, (parseWhole tree).bind decEngine with
    | some k, some c =>
      let w := (st.evs.take k).foldl (fun w oe => match oe with
        | some e => if e.etype == "T" then (WinSt.step cfg pkOf w (.add e)).1 else w
        | none => w) fresh
      match c.windowStates.lookup name with
      | some real => if canonWC real == canonWC w.ckpt then "ok" else s!"DIFF model window checkpoint differs: {short (Json.text (encWC (canonWC w.ckpt)))}"
      | none => "DIFF no window state for the stream in the engine checkpoint"
    | _, _ => "BADLINE"
  | _, _ => "ok"

def effText (w : WmSt) : String := match w.effective with | some t => toString t | none => "-"

/-- the tracker's checkpoint carries no applied watermark (the engine fills that in) -/
def trackerCkpt (w : WmSt) : WmCkpt := { (WmSt.ckpt w) with lastAppliedMs := none, lastAppliedSub := 0 }

def parseRegs (s : String) : Option (List (String × SrcWm)) :=
  if s == "-" then some [] else
  (s.splitOn ",").mapM fun (w : String) => match w.splitOn ":" with
    | [n, o] => o.toInt?.map fun o => (n, ({ watermark := none, maxTs := none, oooMs := o } : SrcWm))
    | _ => none

/-- `tobs` / `tadv`: one tracker operation on the uninterrupted copy and, after the cut, on the restored one -/
def stepTracker (st : St) (f : WmSt → WmSt) (impl : String) : St × String :=
  match st.ta with
  | none => (st, "BADLINE")
  | some a =>
    let a' := f a
    match st.tb with
    | none => ({ st with ta := some a' }, verdict (effText a') impl)
    | some b =>
      let b' := f b
      let st' := { st with ta := some a', tb := some b' }
      match (impl.splitOn " B=") with
      | [ia, ib] =>
        if (ia.drop 2).toString != ib then (st', s!"JUDGE C19 the restored tracker reports {ib}, the uninterrupted one {(ia.drop 2).toString}")
        else (st', verdict s!"A={effText a'} B={effText b'}" impl)
      | _ => (st', "BADLINE")

def stepTcut (st : St) (impl : String) : St × String :=
  match st.ta with
  | none => (st, "BADLINE")
  | some a =>
    if impl == "unreadable" then (st, "JUDGE C19 the tracker checkpoint is unreadable") else
    let j := wire (encWm (trackerCkpt a))
    let b := (decWm j).map (WmSt.restore st.src0)
    ({ st with tb := b }, if b.isNone then "DIFF model cannot read its own checkpoint" else verdict (Json.text j) impl)

/-- an operation on the uninterrupted window `a` and, after a cut, on the restored one `b` -/
def stepWin (st : St) (op : WinOp) (impl : String) : St × String :=
  match st.a with
  | none => (st, "BADLINE")
  | some a =>
    let ra := stepW st.cfg a op
    match st.b with
    | none => ({ st with a := some ra.1 }, verdict ra.2 impl)
    | some b =>
      let rb := stepW st.cfg b op
      let st' := { st with a := some ra.1, b := some rb.1 }
      -- the property on the implementation's own answer: both copies emit the same
      match (impl.splitOn " B=") with
      | [ia, ib] =>
        let v := verdict s!"A={ra.2} B={rb.2}" impl
        if v != "ok" then (st', v)
        else if (ia.drop 2).toString != ib then
          -- the property fails on this operation; the model (which mirrors the code) agrees: classify
          if st.wkind == "slidingCount" then (st', s!"KNOWN[C19-sliding-count-counter-reset] the restored window emits {ib}, the uninterrupted one {(ia.drop 2).toString}")
          else if st.subSeen then (st', s!"KNOWN[C19-submillisecond-timestamps] the restored window emits {ib}, the uninterrupted one {(ia.drop 2).toString}")
          else (st', s!"JUDGE C19 the restored window emits {ib}, the uninterrupted one {(ia.drop 2).toString}")
        else (st', "ok")
      | _ => (st', "BADLINE")

/-- `wcut => <JSON of the checkpoint>`: the model's checkpoint must be the same tree; then restore -/
def stepWcut (st : St) (impl : String) : St × String :=
  match st.a with
  | none => (st, "BADLINE")
  | some a =>
    if impl == "unreadable" || impl == "panic" then (st, s!"JUDGE C19 the window checkpoint is {impl}") else
    let j := wire (encWC a.ckpt)
    let b := (decWC j).map (WinSt.restore a.fresh)
    -- `J=… J2=…`: the checkpoint, and the checkpoint the restored window gives (buffer order included)
    let expected := match b with
      | some bw => s!"{Json.text j} J2={Json.text (wire (encWC bw.ckpt))}"
      | none => ""
    ({ st with b := b }, if b.isNone then "DIFF model cannot read its own checkpoint" else verdict expected impl)

def step (st : St) (line : String) : St × String :=
  let (op, impl?) := splitCase line
  let impl := impl?.getD ""
  match words op with
  | ["new"] => ({}, "")
  | ["wcfg", kind, dur, slide, n, m] =>
    match freshOfKind kind, dur.toInt?, slide.toInt?, n.toNat?, m.toNat? with
    | some w, some d, some sl, some n, some m =>
      -- a freshly constructed sliding count window starts its counter at `slide - size`
      let w := match w with | .slidingCount _ => .slidingCount (SlidingCountSt.fresh n m) | w => w
      ({ cfg := { dur := d, slide := sl, n := n, m := m }, a := some w, b := none, wkind := kind }, "")
    | _, _, _, _, _ => (st, "BADLINE")
  | "wadd" :: ws =>
    match (parseWhole ws).bind decEventL with
    | some e => stepWin { st with subSeen := st.subSeen || !e.whole } (.add e) impl
    | none => (st, "BADLINE")
  | ["wwm", t] => match t.toInt? with
    | some t => stepWin { st with subSeen := st.subSeen || !wholeTs t } (.wm t) impl
    | none => (st, "BADLINE")
  | ["wcut"] => stepWcut st impl
  | ["tcfg", regs] => match parseRegs regs with
    | some r => ({ src0 := r, ta := some { sources := r, effective := none, lastApplied := none }, tb := none }, "")
    | none => (st, "BADLINE")
  | ["tobs", src, ts] => match ts.toInt? with
    | some t => stepTracker st (fun w => w.observe src t) impl
    | none => (st, "BADLINE")
  | ["tadv", src, ts] => match ts.toInt? with
    | some t => stepTracker st (fun w => w.advance src t) impl
    | none => (st, "BADLINE")
  | ["tcut"] => stepTcut st impl
  | "prog" :: _ => (st, "")
  | ["wspec", name, kind, dur, slide, n, m] =>
    match freshOfKindE kind, dur.toInt?, slide.toInt?, n.toNat?, m.toNat? with
    | some w, some d, some sl, some n, some m =>
      let w := match w with | .slidingCount _ => .slidingCount (SlidingCountSt.fresh n m) | w => w
      ({ st with wspec := some (name, w, { dur := d, slide := sl, n := n, m := m }) }, "")
    | _, _, _, _, _ => (st, "BADLINE")
  | "op" :: "ev" :: ws =>
    match (parseWhole ws).bind decEventL with
    | some e => ({ st with evs := st.evs ++ [some e] }, "")
    | none => (st, "BADLINE")
  | "op" :: _ => ({ st with evs := st.evs ++ [none] }, "")
  | "ev" :: ws => (st, stepEv ws impl)
  | "ck" :: "engine" :: ws => (st, stepCk decEngine encEngine ws impl)
  | "ck" :: "checkpoint" :: ws => (st, stepCk decCkpt encCkpt ws impl)
  | "det" :: variant :: ws => (st, stepDet variant ws impl)
  | "cut" :: ws =>
    let v := stepCut st.evs ws impl
    (st, if v == "ok" then checkWindowCkpt st (splitAt2 ws).1 else v)
  | "scut" :: ws => (st, stepScut st.evs ws impl)
  | [] => (st, "")
  | _ => (st, "BADLINE")

--! vmodel: ckpt => Varpulis.Driver.CkptD.driver
def driver : Prop' St := { init := {}, step := step }

end Varpulis.Driver.CkptD
