import Varpulis.Model.Sase
import Varpulis.Driver.Util
/-!
`vmodel sase`: replays C01/C02 scenarios on the step-level SASE model.

```
new <C01|C02> mr=<maxRuns> mk=<maxKleene> part=<field|_> ; step <ty> <alias|_> <e|k> <pred|_> ; … ; neg <ty> <pred|_> ; …
ev <idx> <ty> f=<val> … => api=<m>;<m>;… vpl=<c>;<c>;…      (`-` = no match, `NA` = rendering not available)
```
`pred` is prefix notation: `c f op val` | `r f op alias rfield` | `and P P` | `or P P` | `not P`;
`val` is `i:<int>` | `f:<quarters>` | `s:<string>` | `b:<0|1>`.
`nfa => <state> | <state> | …` (after a `new` line): the states of `SaseEngine::nfa()`, each
`type;event_type;alias;predicate;postponed_predicate;epsilons;transitions;self_loop;has_epsilon_to_accept`.
A match is `<idx><alias|_>,…|<alias>=<idx>,…` (stack | captures sorted by alias); the VPL rendering
only shows the captures. Matches of one event are sorted.
The `api` column is `SaseEngine::process` fed with every event; the `vpl` column is
`parse` + `Engine::load` + `Engine::process`, where only events of a type mentioned by the pattern
reach the matcher — the model keeps one engine state per rendering.
-/
namespace Varpulis.Driver.SaseD
open Varpulis.Sase Varpulis.Driver

/-! ### parsing -/

def parseVal (s : String) : Option Val :=
  match s.splitOn ":" with
  | ["i", n] => n.toInt?.map .int
  | ["f", n] => n.toInt?.map .flt
  | "s" :: rest => some (.str (":".intercalate rest))
  | ["b", "1"] => some (.bool true)
  | ["b", "0"] => some (.bool false)
  | _ => none

def parseOp : String → Option Op
  | "eq" => some .eq | "ne" => some .ne | "lt" => some .lt
  | "le" => some .le | "gt" => some .gt | "ge" => some .ge
  | _ => none

/-- prefix-notation predicate; fuel = number of tokens -/
def parsePred : Nat → List String → Option (Pred × List String)
  | 0, _ => none
  | fuel + 1, toks =>
    match toks with
    | "c" :: f :: op :: v :: rest => do
        let op ← parseOp op; let v ← parseVal v; pure (.cmp f op v, rest)
    | "r" :: f :: op :: a :: rf :: rest => do
        let op ← parseOp op; pure (.cmpRef f op a rf, rest)
    | "and" :: rest => do
        let (l, rest) ← parsePred fuel rest; let (r, rest) ← parsePred fuel rest; pure (.and l r, rest)
    | "or" :: rest => do
        let (l, rest) ← parsePred fuel rest; let (r, rest) ← parsePred fuel rest; pure (.or l r, rest)
    | "not" :: rest => do
        let (q, rest) ← parsePred fuel rest; pure (.not q, rest)
    | _ => none

def parseOptPred (toks : List String) : Option (Option Pred) :=
  match toks with
  | ["_"] => some none
  | _ => match parsePred (toks.length + 1) toks with
    | some (q, []) => some (some q)
    | _ => none

def optName (s : String) : Option String := if s == "_" then none else some s

def parseStep (toks : List String) : Option Step :=
  match toks with
  | "step" :: ty :: al :: k :: rest => do
      let pred ← parseOptPred rest
      pure { ty := ty, pred := pred, alias := optName al, kleene := k == "k" }
  | _ => none

def parseNeg (toks : List String) : Option Neg :=
  match toks with
  | "neg" :: ty :: rest => do
      let pred ← parseOptPred rest
      pure { ty := ty, pred := pred }
  | _ => none

def kvNat (key : String) (toks : List String) : Option Nat :=
  toks.findSome? fun t => if t.startsWith (key ++ "=") then (t.drop (key.length + 1)).toNat? else none

def kvStr (key : String) (toks : List String) : Option String :=
  toks.findSome? fun t => if t.startsWith (key ++ "=") then some (t.drop (key.length + 1)).toString else none

structure Header where
  prop : String
  pat : Pat
  cfg : Cfg

def parseHeader (line : String) : Option Header :=
  match line.splitOn " ; " with
  | [] => none
  | h :: secs =>
    match words h with
    | "new" :: prop :: opts => do
      let secs := secs.map words
      let steps ← (secs.filter fun s => s.head? == some "step").mapM parseStep
      let negs ← (secs.filter fun s => s.head? == some "neg").mapM parseNeg
      let mr := (kvNat "mr" opts).getD 10000
      let mk := (kvNat "mk" opts).getD 20
      let mx := (kvNat "mx" opts).getD 10000
      let part := (kvStr "part" opts).bind optName
      pure { prop := prop, pat := { steps := steps, partition := part, negs := negs }, cfg := { maxRuns := mr, maxKleene := mk, maxResults := mx } }
    | _ => none

def parseField (t : String) : Option (String × Val) :=
  match t.splitOn "=" with
  | f :: rest => (parseVal ("=".intercalate rest)).map fun v => (f, v)
  | _ => none

def parseEvent (toks : List String) : Option Event :=
  match toks with
  | "ev" :: idx :: ty :: fs => do
      let idx ← idx.toNat?
      let fields ← fs.mapM parseField
      pure { idx := idx, ty := ty, fields := fields }
  | _ => none

/-! ### canonical printing -/

def sortStrs (l : List String) : List String := (l.toArray.qsort (· < ·)).toList

/-- captures: one binding per alias (the newest), sorted by alias -/
def fmtCaps (c : Caps) : String :=
  let names := (c.map (·.1)).eraseDups
  let items := names.filterMap fun a => (c.lookup a).map fun e => s!"{a}={e.idx}"
  ",".intercalate (sortStrs items)

def fmtStack (st : List Entry) : String :=
  ",".intercalate (st.map fun en => s!"{en.ev.idx}{en.alias.getD "_"}")

def fmtMatch (m : Match) : String := s!"{fmtStack m.stack}|{fmtCaps m.caps}"

def fmtList (l : List String) : String := if l.isEmpty then "-" else ";".intercalate (sortStrs l)

/-! ### the compiled NFA, printed like the harness prints `SaseEngine::nfa()` -/

def fmtVal : Val → String
  | .int i => s!"i:{i}"
  | .flt q => s!"f:{q}"
  | .str s => s!"s:{s}"
  | .bool b => if b then "b:1" else "b:0"

def fmtOp : Op → String
  | .eq => "eq" | .ne => "ne" | .lt => "lt" | .le => "le" | .gt => "gt" | .ge => "ge"

def fmtPred : Pred → String
  | .cmp f op v => s!"c {f} {fmtOp op} {fmtVal v}"
  | .cmpRef f op a rf => s!"r {f} {fmtOp op} {a} {rf}"
  | .and l r => s!"and {fmtPred l} {fmtPred r}"
  | .or l r => s!"or {fmtPred l} {fmtPred r}"
  | .not q => s!"not {fmtPred q}"

def fmtIds (l : List Nat) : String := if l.isEmpty then "-" else ",".intercalate (l.map toString)

def fmtNState (s : NState) : String :=
  let st := match s.stype with | .start => "start" | .normal => "normal" | .kleene => "kleene" | .accept => "accept"
  let pr := match s.pred with | some q => fmtPred q | none => "_"
  let pp := match s.postponed with | some q => fmtPred q | none => "_"
  let b := fun (x : Bool) => if x then "1" else "0"
  s!"{st};{s.ty.getD "_"};{s.alias.getD "_"};{pr};{pp};{fmtIds s.eps};{fmtIds s.trans};{b s.selfLoop};{b s.epsAccept}"

def fmtNfa (n : Nfa) : String := " | ".intercalate (n.map fmtNState)

/-! ### reading the implementation's matches back (for the judges) -/

def findEv (evs : List Event) (i : Nat) : Option Event := evs.find? (·.idx == i)

/-- split `12ab` into (12, "ab") -/
def splitIdx (s : String) : Option (Nat × String) :=
  let ds := s.takeWhile Char.isDigit
  ds.toString.toNat?.map fun n => (n, (s.drop ds.toString.length).toString)

def parseEntry (evs : List Event) (s : String) : Option Entry := do
  let (i, a) ← splitIdx s
  let e ← findEv evs i
  pure ⟨e, optName a⟩

def parseCapsItem (evs : List Event) (s : String) : Option (String × Event) :=
  match s.splitOn "=" with
  | [a, i] => do let i ← i.toNat?; let e ← findEv evs i; pure (a, e)
  | _ => none

def splitNonEmpty (s : String) (sep : String) : List String := (s.splitOn sep).filter (· ≠ "")

/-- an `api` match string back into a `Match` (captures in printed order) -/
def parseMatch (evs : List Event) (s : String) : Option Match :=
  match s.splitOn "|" with
  | [st, cp] => do
      let stack ← (splitNonEmpty st ",").mapM (parseEntry evs)
      let caps ← (splitNonEmpty cp ",").mapM (parseCapsItem evs)
      pure ⟨stack, caps⟩
  | _ => none

/-- `m.caps == capsOf m.stack` up to the representation of the map -/
def capsAgree (m : Match) : Bool := fmtCaps m.caps == fmtCaps (capsOf m.stack)

/-- `GenuineK` on a match read back from the implementation (for patterns without enumeration this is
`Genuine` with the capture map compared as a map) -/
def genuineImpl (p : Pat) (evs : List Event) (m : Match) : Bool := GenuineK p evs m

/-- all steps aliased with distinct names and no `all`: the captures determine the stack -/
def capsDetermineStack (p : Pat) : Bool :=
  p.allFree && p.steps.all (·.alias.isSome) && (p.steps.filterMap (·.alias)).eraseDups.length == p.steps.length

def stackFromCaps (p : Pat) (c : Caps) : Option (List Entry) :=
  p.steps.mapM fun s => match s.alias with
    | some a => (c.lookup a).map fun e => (⟨e, some a⟩ : Entry)
    | none => none

def parseCapsOnly (evs : List Event) (s : String) : Option Caps :=
  (splitNonEmpty s ",").mapM (parseCapsItem evs)

/-! ### known findings (narrow guards, decided here) -/

/- C02-neg-at-completion: guard `negAtCompletion` (Model/Sase.lean) -/

/-! ### state and step -/

structure St where
  ok : Bool := false
  prop : String := ""
  pat : Pat := default
  cfg : Cfg := {}
  engA : Eng := Eng.init
  engV : Eng := Eng.init
  seenA : List Event := []
  seenV : List Event := []

def routed (p : Pat) (e : Event) : Bool :=
  p.steps.any (·.ty == e.ty) || p.negs.any (·.ty == e.ty)

def splitImpl (impl : String) : Option (String × String) :=
  match words impl with
  | [a, v] => if a.startsWith "api=" && v.startsWith "vpl=" then some ((a.drop 4).toString, (v.drop 4).toString) else none
  | _ => none

def implList (s : String) : List String := if s == "-" then [] else s.splitOn ";"

/-- C01 verdict on one rendering's matches: every one must be `GenuineK`. A failing match of a pattern under the
guard of a known finding is classified `KNOWN[...]`. -/
def judgeC01Api (p : Pat) (seen : List Event) (ms : List String) : Option String :=
  ms.findSome? fun s =>
    match parseMatch seen s with
    | none => some s!"JUDGE C01 match {s} is not built from input events"
    | some m =>
      if genuineImpl p seen m then none
      else if p.lateSelfRef then some s!"KNOWN[C01-late-selfref-all] match {s} violates a self-referencing `all` filter that is never evaluated"
      else if p.laterRefsKleene then some s!"KNOWN[C01-enum-later-ref] match {s}: a later filter / .not clause was evaluated against the last accumulated event"
      else some s!"JUDGE C01 match {s} is not a genuine occurrence"

def judgeC01Vpl (p : Pat) (seen : List Event) (ms : List String) : Option String :=
  if !capsDetermineStack p then none else
  ms.findSome? fun s =>
    match (parseCapsOnly seen s).bind (stackFromCaps p) with
    | none => some s!"JUDGE C01 vpl match {s} lacks a step's event"
    | some st => if Genuine p seen ⟨st, capsOf st⟩ then none else some s!"JUDGE C01 vpl match {s} is not a genuine occurrence"

/-- the oracle's matches completing at `e` -/
def expectedAt (p : Pat) (seen : List Event) (e : Event) : List Match :=
  (Spec.earliest p seen).filter fun m => m.lastIdx == e.idx

/-- C02 verdict: the matches emitted at `e` are exactly the oracle's matches completing at `e` -/
def judgeC02 (p : Pat) (seen : List Event) (e : Event) (impl : List String) (fmt : Match → String) (tag : String) : Option String :=
  let exp := expectedAt p seen e
  let expS := sortStrs (exp.map fmt)
  if expS == sortStrs impl then none
  else
    -- narrow guard of the known finding: the only differences are oracle matches whose completing event
    -- satisfies a `.not` clause, all of them missing from the implementation's output
    let missing := exp.filter fun m => !(impl.contains (fmt m))
    let extra := impl.filter fun s => !(expS.contains s)
    if extra.isEmpty && !missing.isEmpty && missing.all (negAtCompletion p) && impl.length + missing.length == exp.length then
      some s!"KNOWN[C02-neg-at-completion] {tag} expected {fmtList expS}"
    else some s!"JUDGE C02 {tag} expected {fmtList expS} (earliest completions at event {e.idx})"

def step (st : St) (line : String) : St × String :=
  let (op, impl?) := splitCase line
  match words op with
  | "new" :: _ =>
    match parseHeader op with
    | some h => ({ ok := true, prop := h.prop, pat := h.pat, cfg := h.cfg }, "")
    | none => ({ ok := false }, "BADLINE")
  | ["nfa"] =>
    -- `NfaCompiler::compile` of the pattern, against the model's `compile`
    if !st.ok then (st, "SKIP") else (st, verdict (fmtNfa (compile st.pat)) (impl?.getD ""))
  | "ev" :: _ =>
    if !st.ok then (st, "SKIP") else
    match parseEvent (words op), impl?.bind splitImpl with
    | some e, some (ia, iv) =>
      let p := st.pat
      if !p.modelled || (st.prop == "C02" && !p.allFree) then (st, "SKIP") else
      let seenA := st.seenA ++ [e]
      let (engA, msA) := stepEngineK p st.cfg st.engA e
      let r := routed p e
      let seenV := if r then st.seenV ++ [e] else st.seenV
      let (engV, msV) := if r then stepEngineK p st.cfg st.engV e else (st.engV, [])
      let st' := { st with engA := engA, engV := engV, seenA := seenA, seenV := seenV }
      let mA := fmtList (msA.map fmtMatch)
      let mV := if iv == "NA" then "NA" else fmtList (msV.map fun m => fmtCaps m.caps)
      let model := s!"api={mA} vpl={mV}"
      let judge : Option String :=
        if st.prop == "C02" then
          -- the property speaks about streams on which backpressure never refuses a run
          (if engA.dropped then none else judgeC02 p seenA e (implList ia) fmtMatch "api").orElse fun _ =>
            if iv == "NA" then none
            else if r then judgeC02 p seenV e (implList iv) (fun m => fmtCaps m.caps) "vpl"
            else if iv == "-" then none else some "JUDGE C02 vpl output on an event the stream does not consume"
        else
          (judgeC01Api p seenA (implList ia)).orElse fun _ =>
            if iv == "NA" then none else judgeC01Vpl p seenV (implList iv)
      match judge with
      | some v => (st', v)
      | none => (st', verdict model s!"api={ia} vpl={iv}")
    | _, _ => (st, "BADLINE")
  | [] => (st, "")
  | _ => (st, "BADLINE")

--! vmodel: sase => Varpulis.Driver.SaseD.driver
def driver : Prop' St := { init := {}, step := step }

end Varpulis.Driver.SaseD
