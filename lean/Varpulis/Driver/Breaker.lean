import Varpulis.Model.Breaker
import Varpulis.Driver.Util
/-! `vmodel breaker`: replays the C45 step lines on the breaker / resilient-sink model, compares,
and judges the contract on the implementation's own answers (J1 accounting of events, J2 opening,
J3 open window, J4 half-open). -/
namespace Varpulis.Driver.BreakerD
open Varpulis.Breaker Varpulis.Driver

/-- what the judge remembers of the implementation's own behaviour -/
structure Mon where
  st : String := "C"                 -- state the implementation reported last
  trail : Nat := 0                   -- consecutive failures recorded
  openedAt : Option Nat := none      -- time of the failure that (re)opened the breaker
  probe : Option Nat := none         -- sender admitted as the half-open probe
  delivered : List Nat := []
  dlq : List (String × String × Nat) := []
  calls : List (Nat × List Nat) := [] -- sender ↦ events of its pending call

structure St where
  sys : Sys := { cfg := { threshold := 1, resetTimeout := 1 }, name := "" }
  mon : Mon := {}

def hexVal (c : Char) : Option Nat :=
  if '0' ≤ c && c ≤ '9' then some (c.toNat - 48)
  else if 'a' ≤ c && c ≤ 'f' then some (c.toNat - 87) else none

def unhex (s : String) : Option String :=
  if s == "-" then some "" else
  let rec go (acc : ByteArray) : List Char → Option ByteArray
    | [] => some acc
    | a :: b :: rest => do go (acc.push (UInt8.ofNat ((← hexVal a) * 16 + (← hexVal b)))) rest
    | _ => none
  (go ByteArray.empty s.toList).bind String.fromUTF8?

def hexDigit (n : Nat) : Char := if n < 10 then Char.ofNat (48 + n) else Char.ofNat (87 + n)
def hex (s : String) : String :=
  if s.isEmpty then "-" else
  String.ofList (s.toUTF8.toList.flatMap fun b => [hexDigit (b.toNat / 16), hexDigit (b.toNat % 16)])

def stName : BState → String
  | .closed => "C" | .opened => "O" | .halfOpen => "H"

def counters (b : Breaker) : String := s!"f={b.failuresTotal} s={b.successesTotal} r={b.rejectionsTotal}"

def field (ws : List String) (key : String) : Option String :=
  (ws.find? (·.startsWith key)).map fun w => (w.drop key.length).toString

def parseIds (s : String) : Option (List Nat) :=
  if s == "-" then some [] else (s.splitOn ",").mapM String.toNat?

def parseEntries (s : String) : Option (List (String × String × Nat)) :=
  if s == "-" then some [] else
  (s.splitOn ";").mapM fun e => match e.splitOn "|" with
    | [c, m, i] => do pure (← unhex c, ← unhex m, ← i.toNat?)
    | _ => none

def fmtEntries (l : List DlqEntry) : String :=
  if l.isEmpty then "-" else ";".intercalate (l.map fun d => s!"{hex d.connector}|{hex d.error}|{d.event}")

def fmtIds (l : List Nat) : String := if l.isEmpty then "-" else ",".intercalate (l.map toString)

/-- judge of an admission decision; `st` = state reported before, `st'` = after -/
def judgeAllow (cfg : Cfg) (m : Mon) (sender t : Nat) (admitted : Bool) (st' : String) : Mon × Option String :=
  let m' := { m with st := st' }
  if m.st == "C" then
    (m', if admitted then none else some "JUDGE C45 a closed breaker rejected a request")
  else if m.st == "O" then
    let early := match m.openedAt with | some t0 => decide (t < t0 + cfg.resetTimeout) | none => false
    if admitted && early then (m', some s!"JUDGE C45 open breaker admitted a request at {t}, before reset_timeout after the failure at {m.openedAt.getD 0}")
    else if admitted then ({ m' with probe := some sender }, none)
    else (m', none)
  else
    (m', if admitted then some "JUDGE C45 half-open breaker admitted a second request before the probe completed" else none)

/-- judge of a recorded result -/
def judgeResult (cfg : Cfg) (m : Mon) (sender t : Nat) (ok : Bool) (st' : String) : Mon × Option String :=
  let trail := if ok then 0 else m.trail + 1
  let m' := { m with st := st', trail := trail }
  if m.st == "C" then
    if ok then (m', if st' == "C" then none else some "JUDGE C45 a success changed the state of a closed breaker")
    else
      let shouldOpen := decide (cfg.threshold ≤ trail)
      if (st' == "O") != shouldOpen then
        (m', some s!"JUDGE C45 after {trail} consecutive failures (threshold {cfg.threshold}) the breaker is {st'}")
      else ({ m' with openedAt := if st' == "O" then some t else m.openedAt }, none)
  else if m.st == "H" then
    let m'' := { m' with openedAt := if st' == "O" then some t else m.openedAt, probe := none }
    if m.probe != some sender then
      (m'', some s!"KNOWN[C45-stale-result] the result of sender {sender}, admitted before the breaker opened, was taken for the result of the half-open probe")
    else if ok && st' != "C" then (m'', some "JUDGE C45 the probe succeeded but the breaker did not close")
    else if !ok && st' != "O" then (m'', some "JUDGE C45 the probe failed but the breaker did not reopen")
    else (m'', none)
  else (m', none)

/-- J1: the events of a completed call are delivered (`ok`) or in the DLQ naming sink and error -/
def judgeCall (name : String) (m : Mon) (evs : List Nat) (res : String) : Option String :=
  if res == "ok" then
    if evs.all m.delivered.contains then none else some "JUDGE C45 send returned Ok but an event was not delivered"
  else
    let err? : Option String := if res == "rej" then some openMsg
      else if res.startsWith "err:" then unhex (res.drop 4).toString else none
    match err? with
    | none => some s!"JUDGE C45 send ended with {res}"
    | some err =>
      if evs.all fun e => m.dlq.contains (name, err, e) then none
      else some s!"JUDGE C45 send failed ({err}) but an event is neither delivered nor in the DLQ with sink name and error"

def verdictOf (j : Option String) (model impl : String) : String :=
  match j with
  | some v => v
  | none => verdict model impl

def step (s : St) (line : String) : St × String :=
  let (op, impl?) := splitCase line
  let impl := impl?.getD ""
  let iw := words impl
  match words op with
  | ["new", "breaker", th, to] =>
    match th.toNat?, to.toNat? with
    | some th, some to => ({ sys := { cfg := { threshold := th, resetTimeout := to }, name := "" }, mon := {} }, "")
    | _, _ => (s, "BADLINE")
  | ["new", "sink", th, to, nm] =>
    match th.toNat?, to.toNat?, unhex nm with
    | some th, some to, some nm => ({ sys := { cfg := { threshold := th, resetTimeout := to }, name := nm }, mon := {} }, "")
    | _, _, _ => (s, "BADLINE")
  | ["allow", sender, t] =>
    match sender.toNat?, t.toNat?, iw with
    | some sender, some t, a :: st' :: _ =>
      let (sys', r) := start s.sys sender [] t
      let admitted := r.isNone
      let model := s!"{if admitted then 1 else 0} {stName sys'.breaker.state} {counters sys'.breaker}"
      let (mon', j) := judgeAllow s.sys.cfg s.mon sender t (a == "1") st'
      ({ sys := sys', mon := mon' }, verdictOf j model impl)
    | _, _, _ => (s, "BADLINE")
  | ["res", sender, okw, t] =>
    match sender.toNat?, t.toNat?, iw with
    | some sender, some t, st' :: _ =>
      let ok := okw == "ok"
      let (sys', _) := finish s.sys sender (if ok then .ok else .fail "x" 0) t
      let model := s!"{stName sys'.breaker.state} {counters sys'.breaker}"
      let (mon', j) := judgeResult s.sys.cfg s.mon sender t ok st'
      ({ sys := sys', mon := mon' }, verdictOf j model impl)
    | _, _, _ => (s, "BADLINE")
  | ["engine", n, msg] =>
    -- `n` single sends one after the other through a sink wrapped by `wrap_with_resilience`, every
    -- inner send failing with `msg`: the model's DLQ (first `threshold` entries carry `msg`, the rest
    -- "circuit breaker open") against the DLQ file the engine wrote
    match n.toNat?, unhex msg, (field iw "dlq=").bind parseEntries with
    | some n, some msg, some de =>
      let sys' := (List.range n).foldl (fun (sy : Sys) i =>
        let (s1, r) := start sy 1 [i + 1] (i + 1)
        if r.isNone then (finish s1 1 (.fail msg 0) (i + 1)).1 else s1) s.sys
      let model := s!"dlq={fmtEntries sys'.dlq}"
      let lost := (List.range n).filter fun i => !(de.any fun (c, _, e) => c == s.sys.name && e == i + 1)
      if !lost.isEmpty then
        ({ s with sys := sys' }, s!"JUDGE C45 events {lost.map (· + 1)} handed to the engine's resilient sink are neither delivered nor in the DLQ under the sink's name")
      else ({ s with sys := sys' }, verdict model impl)
    | _, _, _ => (s, if (impl.splitOn "unreadable").length > 1
                    then "JUDGE C45 a DLQ line is not a readable entry (connector, error, timestamp, event)" else "BADLINE")
  | ["threads", _n, _calls] =>
    -- any number of racing callers on an open breaker whose timeout has passed: the model admits the
    -- first and rejects all others (`half_open_single_probe`)
    if impl == "admitted=1 H" then (s, "ok")
    else (s, s!"JUDGE C45 racing threads on a half-open breaker: {impl} (exactly one probe may be admitted)")
  | ["start", sender, _kind, ids, t] =>
    match sender.toNat?, parseIds ids, t.toNat?, iw with
    | some sender, some evs, some t, head :: st' :: rest =>
      let (sys', r) := start s.sys sender evs t
      if head == "pending" then
        let model := s!"pending {stName sys'.breaker.state}"
        let (mon', j) := judgeAllow s.sys.cfg s.mon sender t true st'
        ({ sys := sys', mon := { mon' with calls := (sender, evs) :: mon'.calls } }, verdictOf j model impl)
      else
        match (field rest "dlq=").bind parseEntries, (field rest "del=").bind parseIds with
        | some de, some dl =>
          let newDlq := sys'.dlq.drop s.sys.dlq.length
          let model := match r with
            | some .rejected => s!"rej {stName sys'.breaker.state} dlq={fmtEntries newDlq} del=-"
            | _ => s!"pending {stName sys'.breaker.state}"
          let (mon', j) := judgeAllow s.sys.cfg s.mon sender t false st'
          let mon'' := { mon' with dlq := mon'.dlq ++ de, delivered := mon'.delivered ++ dl }
          let j' := j.orElse fun _ => judgeCall s.sys.name mon'' evs head
          ({ sys := sys', mon := mon'' }, verdictOf j' model impl)
        | _, _ => (s, if rest.any (·.endsWith "unreadable") || (impl.splitOn "unreadable").length > 1
                      then "JUDGE C45 a DLQ line is not a readable entry (connector, error, timestamp, event)" else "BADLINE")
    | _, _, _, _ => (s, "BADLINE")
  | ["finish", sender, okw, k, msg, t] =>
    match sender.toNat?, k.toNat?, unhex msg, t.toNat?, iw with
    | some sender, some k, some msg, some t, head :: st' :: rest =>
      match (field rest "dlq=").bind parseEntries, (field rest "del=").bind parseIds with
      | some de, some dl =>
        let ok := okw == "ok"
        let (sys', r) := finish s.sys sender (if ok then .ok else .fail msg k) t
        let newDlq := sys'.dlq.drop s.sys.dlq.length
        let newDel := sys'.delivered.drop s.sys.delivered.length
        let rs := match r with
          | some .ok => "ok" | some (.failed m) => s!"err:{hex m}" | some .rejected => "rej" | none => "none"
        let model := s!"{rs} {stName sys'.breaker.state} dlq={fmtEntries newDlq} del={fmtIds newDel}"
        let (mon', j) := judgeResult s.sys.cfg s.mon sender t ok st'
        let evs := (mon'.calls.lookup sender).getD []
        let mon'' := { mon' with dlq := mon'.dlq ++ de, delivered := mon'.delivered ++ dl,
                                  calls := mon'.calls.filter (·.1 ≠ sender) }
        let jc := judgeCall s.sys.name mon'' evs head
        -- a contract violation outranks the known finding, which outranks a model difference
        let j' := match jc, j with
          | some v, _ => some v
          | none, v => v
        ({ sys := sys', mon := mon'' }, verdictOf j' model impl)
      | _, _ => (s, if (impl.splitOn "unreadable").length > 1
                    then "JUDGE C45 a DLQ line is not a readable entry (connector, error, timestamp, event)" else "BADLINE")
    | _, _, _, _, _ => (s, "BADLINE")
  | [] => (s, "")
  | _ => (s, "BADLINE")

--! vmodel: breaker => Varpulis.Driver.BreakerD.driver
def driver : Prop' St := { init := {}, step := step }

end Varpulis.Driver.BreakerD
