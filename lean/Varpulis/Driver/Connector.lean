import Varpulis.Model.Connector
import Varpulis.Driver.Expand
/-! `vmodel connector`: C39 — replays `p_connector.rs`: validation, rendering, injection, and the
verdict on what the real parser read back from the injected source. -/
namespace Varpulis.Driver.ConnectorD
open Varpulis.Connector Varpulis.Driver Varpulis.Driver.ExpandD

def untok (w : String) : Text := dec (w.drop 1).toString.toList

def encC (c : Char) : List Char :=
  if c = '\\' then ['\\', '\\'] else if c = '\n' then ['\\', 'n'] else if c = '\r' then ['\\', 'r']
  else if c = '\t' then ['\\', 't'] else if c = '>' then ['\\', 'g'] else if c = ' ' then ['\\', 's']
  else if c = '~' then ['\\', 'w'] else if c = '|' then ['\\', 'p']
  else if c.toNat < 0x20 || c.toNat > 0x7e then '\\' :: 'u' :: toHexL 8 c.toNat ++ [';']
  else [c]
def encT (t : Text) : String := String.ofList (t.flatMap encC)

/-- `C :name :type n :k :v …` groups, then `O :name …` -/
def parseConns : Nat → List String → Option (List Connector × List Text)
  | 0, _ => none
  | fuel + 1, ws =>
    match ws with
    | "C" :: name :: ty :: n :: rest =>
      match n.toNat? with
      | some n =>
        let kv := rest.take (2 * n)
        let rec pairs : List String → List (Text × Text)
          | k :: v :: r => (untok k, untok v) :: pairs r
          | _ => []
        (parseConns fuel (rest.drop (2 * n))).map fun (cs, o) =>
          ({ name := untok name, ctype := untok ty, params := pairs kv } :: cs, o)
      | none => none
    | "O" :: rest => some ([], rest.map untok)
    | _ => none

/-- typed value as printed by the harness → the runtime's string for it -/
def implText (tv : String) : Option Text :=
  let body := (tv.drop 2).toString
  if tv.startsWith "I." || tv.startsWith "F." || tv.startsWith "B." then some body.toList
  else if tv.startsWith "S." || tv.startsWith "N." then some (dec body.toList)
  else if tv.startsWith "D." then some (body.toList ++ "ns".toList)
  else none

def showCV : CV → String
  | .int i => s!"I.{i}"
  | .float r => "F." ++ String.ofList r
  | .dur r => "D." ++ String.ofList r
  | .str s => "S." ++ encT s
  | .bool b => s!"B.{b}"
  | .ident s => "N." ++ encT s
  | .array => "A."

def showDecl (d : Decl) : String :=
  "~".intercalate ([encT d.name, encT d.ctype] ++ d.params.flatMap fun p => [encT p.1, showCV p.2])

/-- verdict on one expected declaration against what the parser returned for it -/
def judgeDecl (c : Connector) (impl : String) : Option String :=
  match impl.splitOn "~" with
  | name :: ty :: kvs =>
    let rec pairs : List String → List (Text × Option Text)
      | k :: v :: r => (dec k.toList, implText v) :: pairs r
      | _ => []
    let got := pairs kvs
    if dec name.toList != c.name || dec ty.toList != c.ctype then some s!"declares {name} = {ty} instead of {encT c.name} = {encT c.ctype}"
    else if got != c.params.map (fun p => (p.1, some p.2)) then
      some s!"connector {encT c.name}: stored {c.params.map fun p => (encT p.1, encT p.2)} but the declaration carries {got.map fun p => (encT p.1, p.2.map encT)}"
    else none
  | _ => some "declaration missing"

def stepInj (ws : List String) (impl : String) : String :=
  match ws with
  | srcTok :: rest =>
    match parseConns (rest.length + 1) rest with
    | none => "BADLINE conns"
    | some (conns, order) =>
      if impl == "PANIC" then "JUDGE C39 inject_connectors panicked" else
      let src := untok srcTok
      let kv := words impl
      let validM := String.ofList (conns.map fun c => if validate c then '1' else '0')
      -- the property speaks about the connectors the *implementation's* validation accepted
      let validI := ((field kv "valid").getD "").toList
      let accepted := (conns.zip validI).filterMap fun (c, f) => if f == '1' then some c else none
      let store : Store := order.filterMap fun n => (accepted.find? fun c => c.name == n).map fun c => (n, c)
      let outM := inject src store
      let expected := (findMissing src).filterMap fun n => (store.find? fun e => e.1 == n).map (·.2)
      let implDecls := match field kv "decls" with
        | some "-" => []
        | some d => d.splitOn "|"
        | none => []
      -- the property verdict
      let srcParses := field kv "srcparse" == some "ok"
      let j : Option String :=
        if !srcParses then none
        else if field kv "parse" != some "ok" then
          some "the injected source does not parse although the pipeline's own source does"
        else if implDecls.length != expected.length then some s!"{expected.length} declarations injected, {implDecls.length} read back"
        else
          match (expected.zip implDecls).filterMap fun (c, d) => judgeDecl c d with
          | e :: _ => some e
          | [] => if field kv "rest" == some "diff" then some "the statements of the pipeline's own source changed" else none
      match j with
      | some why => s!"JUDGE C39 {why}"
      | none =>
        if field kv "valid" != some validM then s!"DIFF model=valid={validM}"
        else if field kv "out" != some (":" ++ encT outM) then s!"DIFF model=out=:{encT outM}"
        else if srcParses && field kv "parse" == some "ok" then
          -- the model's reading of each rendered declaration against the real parser's
          let modelDecls := expected.map fun c => match connectorDecl (render c) with
            | some (d, []) => showDecl d
            | _ => "unparsed"
          if modelDecls != implDecls then s!"DIFF model=decls={"|".intercalate modelDecls}" else "ok"
        else "ok"
  | [] => "BADLINE"

def step (st : Unit) (line : String) : Unit × String :=
  let (op, impl?) := splitCase line
  match impl? with
  | none => (st, "")
  | some impl =>
    if op.startsWith "inj " then (st, stepInj (words (op.drop 4).toString) impl)
    else (st, "BADLINE op")

--! vmodel: connector => Varpulis.Driver.ConnectorD.driver
def driver : Prop' Unit := { init := (), step := step }

end Varpulis.Driver.ConnectorD
