import Varpulis.Model.JsonValue
import Varpulis.Driver.Util
/-! `vmodel jsonvalue`: C44 lines.

Tree syntax (JSON and runtime values share it):
`N` null · `B1`/`B0` · `I<int>` · `D<16 hex digits>` float bits · `S<hex of the UTF-8 bytes>` ·
`A[t,…]` · `O{<hex key>:t,…}` · `Ts<int>` timestamp · `Du<nat>` duration.

```
conv <json>            => <value>            json_to_runtime_value (hook)
back <value>           => <json>             json_from_value (hook);   wsback: websocket::value_to_json
inject <O{…} fields>   => <status> <O{…} fields of the output event | ->     POST …/events
batch <O{…} fields>    => <status> <O{…} | ->                                  POST …/events-batch
```
Judge first (is the property true of what the implementation answered?), then model = implementation. -/
namespace Varpulis.Driver.JsonValueD
open Varpulis.JsonValue Varpulis.Driver

def knownId : String := "C44-u64-above-i64-max"

/-! ### printing -/
def hexDigit (n : Nat) : Char := if n < 10 then Char.ofNat (48 + n) else Char.ofNat (87 + n)

def hexFixed (n width : Nat) : String :=
  String.ofList ((List.range width).reverse.map fun i => hexDigit ((n / 16 ^ i) % 16))

def hexOfString (s : String) : String :=
  String.join (s.toUTF8.toList.map fun b => hexFixed b.toNat 2)

mutual
partial def showJson : Json → String
  | .null => "N"
  | .bool b => if b then "B1" else "B0"
  | .int n => s!"I{n}"
  | .float f => "D" ++ hexFixed f.bits 16
  | .str s => "S" ++ hexOfString s
  | .arr xs => "A[" ++ ",".intercalate (xs.map showJson) ++ "]"
  | .obj kvs => "O{" ++ ",".intercalate (kvs.map fun (k, v) => hexOfString k ++ ":" ++ showJson v) ++ "}"
end

mutual
partial def showValue : Value → String
  | .null => "N"
  | .bool b => if b then "B1" else "B0"
  | .int n => s!"I{n}"
  | .float f => "D" ++ hexFixed f.bits 16
  | .str s => "S" ++ hexOfString s
  | .timestamp n => s!"Ts{n}"
  | .duration n => s!"Du{n}"
  | .array xs => "A[" ++ ",".intercalate (xs.map showValue) ++ "]"
  | .map kvs => "O{" ++ ",".intercalate (kvs.map fun (k, v) => hexOfString k ++ ":" ++ showValue v) ++ "}"
end

/-! ### parsing (one grammar, read as a `Value`; a `Json` is a value without `Ts`/`Du`) -/
def hexVal (c : Char) : Option Nat :=
  if '0' ≤ c && c ≤ '9' then some (c.toNat - 48)
  else if 'a' ≤ c && c ≤ 'f' then some (c.toNat - 87)
  else none

def takeWhileC (p : Char → Bool) : List Char → List Char × List Char
  | [] => ([], [])
  | c :: cs => if p c then let (a, b) := takeWhileC p cs; (c :: a, b) else ([], c :: cs)

def hexBytes : List Char → Option (List UInt8)
  | [] => some []
  | a :: b :: rest => do
    let x ← hexVal a; let y ← hexVal b
    let t ← hexBytes rest
    pure (UInt8.ofNat (x * 16 + y) :: t)
  | _ => none

def hexToString (cs : List Char) : Option String := do
  let bs ← hexBytes cs
  String.fromUTF8? (ByteArray.mk bs.toArray)

def hexToNat (cs : List Char) : Option Nat := cs.foldlM (fun acc c => (hexVal c).map (acc * 16 + ·)) 0

def isHex (c : Char) : Bool := (hexVal c).isSome
def isIntChar (c : Char) : Bool := c == '-' || ('0' ≤ c && c ≤ '9')

mutual
partial def parseV : List Char → Option (Value × List Char)
  | 'N' :: r => some (.null, r)
  | 'B' :: '1' :: r => some (.bool true, r)
  | 'B' :: '0' :: r => some (.bool false, r)
  | 'I' :: r => let (d, r') := takeWhileC isIntChar r; (String.ofList d).toInt?.map fun n => (.int n, r')
  | 'T' :: 's' :: r => let (d, r') := takeWhileC isIntChar r; (String.ofList d).toInt?.map fun n => (.timestamp n, r')
  | 'D' :: 'u' :: r => let (d, r') := takeWhileC isIntChar r; (String.ofList d).toNat?.map fun n => (.duration n, r')
  | 'D' :: r => let (d, r') := takeWhileC isHex r; if d.length == 16 then (hexToNat d).map fun n => (.float ⟨n⟩, r') else none
  | 'S' :: r => let (d, r') := takeWhileC isHex r; (hexToString d).map fun s => (.str s, r')
  | 'A' :: '[' :: ']' :: r => some (.array [], r)
  | 'A' :: '[' :: r => (parseItems r).map fun (xs, r') => (.array xs, r')
  | 'O' :: '{' :: '}' :: r => some (.map [], r)
  | 'O' :: '{' :: r => (parseFields r).map fun (kvs, r') => (.map kvs, r')
  | _ => none
partial def parseItems (cs : List Char) : Option (List Value × List Char) := do
  let (v, r) ← parseV cs
  match r with
  | ',' :: r' => let (vs, r'') ← parseItems r'; pure (v :: vs, r'')
  | ']' :: r' => pure ([v], r')
  | _ => none
partial def parseFields (cs : List Char) : Option (List (String × Value) × List Char) := do
  let (kh, r) := takeWhileC isHex cs
  let k ← hexToString kh
  match r with
  | ':' :: r1 =>
    let (v, r2) ← parseV r1
    match r2 with
    | ',' :: r3 => let (kvs, r4) ← parseFields r3; pure ((k, v) :: kvs, r4)
    | '}' :: r3 => pure ([(k, v)], r3)
    | _ => none
  | _ => none
end

def parseValue (s : String) : Option Value :=
  match parseV s.toList with
  | some (v, []) => some v
  | _ => none

mutual
partial def valueAsJson : Value → Option Json
  | .null => some .null
  | .bool b => some (.bool b)
  | .int n => some (.int n)
  | .float f => some (.float f)
  | .str s => some (.str s)
  | .timestamp _ | .duration _ => none
  | .array xs => (xs.mapM valueAsJson).map .arr
  | .map kvs => (kvs.mapM fun (kv : String × Value) => (valueAsJson kv.2).map fun j => (kv.1, j)).map .obj
end

def parseJson (s : String) : Option Json := (parseValue s).bind valueAsJson

/-! ### verdicts -/

def judgeConv (j : Json) (impl : String) : String :=
  match parseValue impl with
  | none => "BADLINE"
  | some v =>
    if same j v then verdict (showValue (jsonToValue j)) impl
    else if j.hasBigInt then s!"KNOWN[{knownId}] integer outside i64 reaches the engine as {impl}"
    else s!"JUDGE C44 json_to_runtime_value changed type or contents: {showJson j} became {impl}"

def judgeBack (v : Value) (impl : String) : String :=
  match parseJson impl with
  | none => "BADLINE"
  | some j =>
    if v.plain && !same j v then s!"JUDGE C44 value_to_json changed type or contents: {showValue v} became {impl}"
    else verdict (showJson (valueToJson v)) impl

/-- `<status> <fields|->` of an inject / inject-batch reply for the request fields `kvs` -/
def judgeInject (kvs : List (String × Json)) (impl : String) : String :=
  let model := s!"200 {showJson (.obj (outputFields (injectEvent { eventType := "E", fields := kvs })))}"
  match words impl with
  | [st, out] =>
    if st != "200" then verdict model impl
    else match parseJson out with
      | some (.obj outKvs) =>
        if Json.beqFields outKvs kvs then verdict model impl
        else if Json.hasBigIntFields kvs then s!"KNOWN[{knownId}] integer outside i64 came back as {out}"
        else s!"JUDGE C44 the output event does not carry the injected values: sent {showJson (.obj kvs)} got {out}"
      | _ => verdict model impl
  | _ => verdict model impl

/-- `tinject` / `tbatch`: the same request against the pipeline `emit(a: f0 + 1, b: -f1, c: f2, d: f3)` -/
def judgeTransform (kvs : List (String × Json)) (impl : String) : String :=
  let ev := injectEvent { eventType := "E", fields := kvs }
  match transformFields ev.data with
  | none => "SKIP"
  | some out =>
    let model := s!"200 {showJson (.obj (valueToJsonFields out))}"
    if model == impl then "ok"
    else if Json.hasBigIntFields kvs then s!"KNOWN[{knownId}] integer outside i64 came back (through the evaluator) as {impl}"
    else s!"DIFF model={model}"

structure St where
  dummy : Unit := ()

def step (st : St) (line : String) : St × String :=
  let (op, impl?) := splitCase line
  let impl := impl?.getD ""
  match words op with
  | ["new"] => (st, "")
  | ["conv", j] => (st, match parseJson j with | some j => judgeConv j impl | none => "BADLINE")
  | ["back", v] => (st, match parseValue v with | some v => judgeBack v impl | none => "BADLINE")
  | ["wsback", v] => (st, match parseValue v with | some v => judgeBack v impl | none => "BADLINE")
  | ["inject", j] => (st, match parseJson j with | some (.obj kvs) => judgeInject kvs impl | _ => "BADLINE")
  | ["tinject", j] => (st, match parseJson j with | some (.obj kvs) => judgeTransform kvs impl | _ => "BADLINE")
  | ["tbatch", j] => (st, match parseJson j with | some (.obj kvs) => judgeTransform kvs impl | _ => "BADLINE")
  | ["batch", j] => (st, match parseJson j with | some (.obj kvs) => judgeInject kvs impl | _ => "BADLINE")
  | [] => (st, "")
  | _ => (st, "BADLINE")

--! vmodel: jsonvalue => Varpulis.Driver.JsonValueD.driver
def driver : Prop' St := { init := {}, step := step }

end Varpulis.Driver.JsonValueD
