import Varpulis.Driver.Window
import Varpulis.Model.Sase
/-! `vmodel partition` (C04): partitioned windows/aggregates against per-key replays of the real code and
against the model; `to_partition_key`; partitioned sequence patterns by correspondence of the real engine
with itself (whole stream vs per-key sub-streams). Window lines are delegated to the `window` driver. -/
namespace Varpulis.Driver.PartitionD
open Varpulis.Window Varpulis.Driver Varpulis.Driver.WindowD

structure St where
  win : WindowD.St := {}
  mode : String := "win"         -- "win" | "agg"
  aggN : Nat := 1
  aggWin : Count := {}
  sasePat : Option Varpulis.Sase.Pat := none
  saseEvs : List Varpulis.Sase.Event := []

/-- windows emitted by the plain machine of `kind` on the sub-sequence of key `k` -/
def perKeyModel (kind : Kind) (ops : List Op) (k : String) (engine : Bool) : List (List Nat) :=
  let sub := proj winRoute k ops
  let (_, out) := sub.foldl (fun (acc : W × List (List Nat)) op =>
      let (w', o) := acc.1.step op
      (w', acc.2 ++ o.map fun p => p.2.map (·.id))) (mkW kind false, [])
  if engine then out.filter (!·.isEmpty) else out

def fmtWindows (l : List (List Nat)) : String := if l.isEmpty then "-" else ";".intercalate (l.map fmtIds)

def parseWindows (s : String) : Option (List (List Nat)) :=
  if s.trimAscii.toString == "-" then some [] else (s.splitOn ";").mapM parseIds

/-- the aggregate results `PartitionedAggregatorState::apply` must give for a batch: per key (count, Σ 2^id) -/
def aggExpected (batch : List Ev) : List (String × (Nat × Nat)) :=
  sortTagged (papply (fun l => (l.length, pow2sum (l.map (·.id)))) Ev.partKey batch)

def fmtAggRes (l : List (String × (Nat × Nat))) : String :=
  if l.isEmpty then "-" else ";".intercalate (l.map fun p => s!"k={p.1},n={p.2.1},s={p.2.2}")


/-! ### partitioned sequence patterns on the SASE model (Model/Sase.lean) -/

/-- `[all] T as x` -/
def parseSaseStep (ws : List String) : Option Varpulis.Sase.Step :=
  match ws with
  | [ty, "as", al] => some ⟨ty, none, some al, false⟩
  | ["all", ty, "as", al] => some ⟨ty, none, some al, true⟩
  | _ => none

/-- `A as a -> B as b [-> …]`, partitioned by field `k`, no negations -/
def parseSasePat (ws : List String) : Option Varpulis.Sase.Pat :=
  let groups := (" ".intercalate ws).splitOn " -> "
  (groups.mapM fun g => parseSaseStep (words g)).map fun steps => { steps := steps, partition := some "k", negs := [] }

def saseKey (tok : String) : Option (List (String × Varpulis.Sase.Val)) :=
  if tok == "-" then some []
  else if tok.startsWith "s:" then some [("k", .str (tok.drop 2).toString)]
  else if tok.startsWith "i:" then (tok.drop 2).toString.toInt?.map fun i => [("k", .int i)]
  else none

def fmtSaseMatch (m : Varpulis.Sase.Match) : String :=
  let f := fun (a : String) => match m.caps.lookup a with | some e => toString e.idx | none => "_"
  s!"{f "a"}-{f "b"}-{f "c"}"

def saseModel (p : Varpulis.Sase.Pat) (evs : List Varpulis.Sase.Event) : String :=
  ",".intercalate (sortBy (fun a b => decide (a ≤ b)) ((Varpulis.Sase.matchesOf p {} evs).map fmtSaseMatch))

def allDistinct : List String → Bool
  | [] => true
  | a :: l => !l.contains a && allDistinct l

def step (st : St) (line : String) : St × String :=
  let (op, impl?) := splitCase line
  let impl := impl?.getD ""
  match words op with
  | ["new", "agg", n] =>
    (match n.toNat? with
     | some n => ({ mode := "agg", aggN := n }, "")
     | none => (st, "BADLINE"))
  | "new" :: "sase" :: pat =>
    (match parseSasePat pat with
     | some p => ({ mode := "sase", sasePat := some p }, "")
     | none => (st, "BADLINE"))
  | "new" :: _ => let (w, v) := WindowD.step {} line; ({ win := w, mode := "win" }, v)
  | ["sev", ty, id, key] =>
    (match id.toNat?, saseKey key with
     | some id, some kf => ({ st with saseEvs := st.saseEvs ++ [⟨id, ty, ("id", .int id) :: kf⟩] }, "")
     | _, _ => (st, "BADLINE"))
  | "vpl" :: _ => (st, "")
  | "perkey" :: keytok :: _ =>
    (match parseKey keytok with
     | some key =>
       let k := (⟨0, 0, key⟩ : Ev).partKey
       let model := perKeyModel st.win.kind st.win.ops k st.win.engine
       let whole := (st.win.implEm.filter (·.1 == k)).map (·.2)
       let whole := if st.win.engine then whole.filter (!·.isEmpty) else whole
       (match parseWindows impl with
        | some per =>
          if per != whole then
            (st, s!"JUDGE C04 key {k}: partitioned run emitted {fmtWindows whole}, the per-key run {fmtWindows per}")
          else (st, verdict (fmtWindows model) impl)
        | none => (st, "DIFF model=" ++ fmtWindows model ++ " (unparsable)"))
     | none => (st, "BADLINE"))
  | "keyset" :: toks =>
    (match toks.mapM parseKey with
     | some keys =>
       let model := keys.map fun k => (⟨0, 0, k⟩ : Ev).partKey
       let got := words impl
       -- property: distinct values of one type -> distinct keys; a present value never equals a placeholder
       let present := (keys.zip got).filter (·.1.isSome)
       let distinctVals := allDistinct (toks.filter (· != "-"))
       if distinctVals && !allDistinct (present.map (·.2)) then (st, "JUDGE C04 two distinct partition values share a key")
       else if present.any (fun p => p.2 == windowPlaceholder || p.2 == sasePlaceholder) then
         (st, "JUDGE C04 a present partition value renders as the missing-key placeholder")
       else (st, verdict (" ".intercalate model) impl)
     | none => (st, "BADLINE"))
  | ["sase"] =>
    -- W:<matches of the whole stream> | P:<union of per-key runs, partitioned program> | U:<…, plain program>
    (match impl.splitOn " | " with
     | [w, p, u] =>
       let w := (w.drop 2).toString; let p := (p.drop 2).toString; let u := (u.drop 2).toString
       if w != p then (st, s!"JUDGE C04 pattern matches of the whole stream differ from the union of per-key runs (same program)")
       else if w != u then (st, s!"JUDGE C04 pattern matches of the whole stream differ from the union of per-key runs (program without partition_by)")
       else
         -- the whole-stream matches against the SASE model (to which `Props.C04.partitioned_patterns_*` apply)
         (match st.sasePat with
          | some pat => (st, verdict ("W:" ++ saseModel pat st.saseEvs) ("W:" ++ w))
          | none => (st, "ok"))
     | _ => (st, "BADLINE"))
  | ws =>
    if st.mode == "agg" then
      match ws with
      | ["add", id, ts, key] =>
        (match id.toNat?, ts.toInt?, parseKey key with
         | some id, some ts, some key =>
           let r := (count st.aggN).step st.aggWin (.add ⟨id, ts, key⟩)
           let model := match r.2 with
             | [batch] => fmtAggRes (aggExpected batch)
             | _ => "-"
           -- the model's answer is the proved per-key aggregate (`Props.C04.partitioned_aggregate`): a
           -- different answer is a failing input, not only a broken tie
           ({ st with aggWin := r.1 }, if model == impl then "ok" else
             s!"JUDGE C04 aggregate per key is not the aggregate of that key's events of the batch (expected {model})")
         | _, _, _ => (st, "BADLINE"))
      | [] => (st, "")
      | _ => (st, "BADLINE")
    else
      let (w, v) := WindowD.step st.win line
      ({ st with win := w }, v)

--! vmodel: partition => Varpulis.Driver.PartitionD.driver
def driver : Prop' St := { init := {}, step := step }

end Varpulis.Driver.PartitionD
