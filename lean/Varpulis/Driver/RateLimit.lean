import Varpulis.Model.RateLimit
import Varpulis.Driver.Util
/-! `vmodel ratelimit`: replays the C30 request lines on the limiter model (times are ticks of
1/512 s), compares results, and judges the implementation's own admissions against the bound. -/
namespace Varpulis.Driver.RateLimitD
open Varpulis.RateLimit Varpulis.Driver

structure St where
  lim : Limiter := Limiter.new { rate := 0, burst := 0, cap := 0 }
  /-- per tracked client: the ticks of its admitted requests (newest first), as reported by the implementation -/
  hist : List (Nat × List Nat) := []

def secs (tick : Nat) : Rat := (tick : Rat) / 512

def parseSet (s : String) : Option (List Nat) :=
  if s == "-" then some [] else (s.splitOn ",").mapM String.toNat?

def field (ws : List String) (key : String) : Option String :=
  (ws.find? (·.startsWith key)).map fun w => (w.drop key.length).toString

def fmtSet (l : List Nat) : String := if l.isEmpty then "-" else ",".intercalate (l.map toString)

def sortNat (l : List Nat) : List Nat := (l.toArray.qsort (· < ·)).toList

/-- nanoseconds (exact) of a duration in seconds -/
def nanos (d : Rat) : Rat := d * 1000000000

def closeNs (impl : Nat) (d : Rat) : Bool :=
  let x := nanos d
  (impl : Rat) - x ≤ 2 && x - (impl : Rat) ≤ 2

def fmtRes (r : Result) : String :=
  match r with
  | .allowed rem d => s!"A {rem} {(nanos d).floor}"
  | .limited d => s!"L {(nanos d).floor}"

/-- the property's oracle on the implementation's own answers: with the newest admission at the head of
`h`, every window `[t_i, t_0]` ending there holds at most `burst + rate·(t_0 − t_i)` admissions -/
def boundOk (cfg : Config) (h : List Nat) : Bool :=
  match h with
  | [] => true
  | t0 :: _ =>
    (List.range h.length).all fun i =>
      match h[i]? with
      | some ti => ((i + 1 : Nat) : Rat) ≤ (cfg.burst : Rat) + (cfg.rate : Rat) * (secs t0 - secs ti)
      | none => true

/-- the same oracle for clock readings in nanoseconds, with a tolerance of 10⁻⁶ token for the f64
rounding of the refill (off the dyadic grid the implementation's sums are not exact) -/
def boundOkNs (cfg : Config) (h : List Nat) : Bool :=
  match h with
  | [] => true
  | t0 :: _ =>
    (List.range h.length).all fun i =>
      match h[i]? with
      | some ti => ((i + 1 : Nat) : Rat) ≤ (cfg.burst : Rat) + (cfg.rate : Rat) * (((t0 - ti : Nat) : Rat) / 1000000000) + 1 / 1000000
      | none => true

def step (st : St) (line : String) : St × String :=
  let (op, impl?) := splitCase line
  let impl := impl?.getD ""
  let iw := words impl
  match words op with
  | ["new", en, rate, burst, cap] =>
    match rate.toNat?, burst.toNat?, cap.toNat? with
    | some r, some b, some c => ({ lim := Limiter.new { enabled := en == "1", rate := r, burst := b, cap := c }, hist := [] }, "")
    | _, _, _ => (st, "BADLINE")
  | ["check", c, tick] =>
    match c.toNat?, tick.toNat?, (field iw "ev=").bind parseSet, (field iw "tr=").bind parseSet with
    | some c, some tick, some ev, some tr =>
      let now := secs tick
      let l := st.lim
      let victim := ev.head?
      let evictExpected := l.cfg.enabled && (lookup l.buckets c).isNone && decide (l.cfg.cap ≤ l.buckets.length)
        && !l.buckets.isEmpty
      let valid := minLastKeys l.buckets
      let victimOk := if evictExpected then (match victim with | some v => valid.contains v && ev.length == 1 | none => false)
                      else ev.isEmpty
      let (l', o) := l.checkWith c now victim
      let keys := sortNat (l'.buckets.map (·.1))
      -- the implementation's own admissions, for the bound judge
      let admitted := iw.head? == some "A"
      let hist0 := st.hist.filter fun (k, _) => tr.contains k
      let hc := ((hist0.lookup c).getD [])
      let hc' := if admitted then tick :: hc else hc
      let hist' := (c, hc') :: hist0.filter (·.1 ≠ c)
      let st' : St := { lim := l', hist := if tr.contains c then hist' else hist0 }
      if iw.head? == some "panic" then
        (st', "JUDGE C30 check panicked (config " ++ s!"rate={l.cfg.rate} burst={l.cfg.burst} cap={l.cfg.cap})")
      else if l.cfg.enabled && admitted && !boundOk l.cfg hc' then
        (st', s!"JUDGE C30 client {c} admitted more than burst + rate*T in a window ending at tick {tick}: admitted ticks {hc'}")
      else if !victimOk then
        (st', s!"DIFF model=evict one of {valid} expected={evictExpected}")
      else
        match o with
        | .panic => (st', "DIFF model=panic")
        | .ok res =>
          let same := match res, iw with
            | .allowed rem d, "A" :: r :: ns :: _ => r.toNat? == some rem && (match ns.toNat? with | some n => closeNs n d | none => false)
            | .limited d, "L" :: ns :: _ => (match ns.toNat? with | some n => closeNs n d | none => false)
            | _, _ => false
          if same && keys == tr then (st', "ok")
          else (st', s!"DIFF model={fmtRes res} ev={fmtSet ev} tr={fmtSet keys}")
    | _, _, _, _ => (st, "BADLINE")
  | ["checkns", c, ns] =>
    match c.toNat?, ns.toNat?, (field iw "tr=").bind parseSet with
    | some c, some ns, some tr =>
      let admitted := iw.head? == some "A"
      let hist0 := st.hist.filter fun (k, _) => tr.contains k
      let hc := ((hist0.lookup c).getD [])
      let hc' := if admitted then ns :: hc else hc
      let hist' := (c, hc') :: hist0.filter (·.1 ≠ c)
      let st' : St := { st with hist := if tr.contains c then hist' else hist0 }
      if iw.head? == some "panic" then
        (st', s!"JUDGE C30 check panicked (config rate={st.lim.cfg.rate} burst={st.lim.cfg.burst} cap={st.lim.cfg.cap})")
      else if admitted && !boundOkNs st.lim.cfg hc' then
        (st', s!"JUDGE C30 client {c} admitted more than burst + rate*T (+1e-6) in a window ending at {ns} ns: admitted at {hc'}")
      else (st', "ok")
    | _, _, _ => (st, "BADLINE")
  | ["cleanup", tick, age] =>
    match tick.toNat?, age.toNat?, (field iw "tr=").bind parseSet with
    | some tick, some age, some tr =>
      let l' := st.lim.cleanup (secs tick) (secs age)
      let keys := sortNat (l'.buckets.map (·.1))
      let st' : St := { lim := l', hist := st.hist.filter fun (k, _) => tr.contains k }
      (st', if keys == tr then "ok" else s!"DIFF model=tr={fmtSet keys}")
    | _, _, _ => (st, "BADLINE")
  | [] => (st, "")
  | _ => (st, "BADLINE")

--! vmodel: ratelimit => Varpulis.Driver.RateLimitD.driver
def driver : Prop' St := { init := {}, step := step }

end Varpulis.Driver.RateLimitD
