import Varpulis.Model.Join
import Varpulis.Driver.Util
/-! `vmodel join`: replays C15 `add_event` sequences on the `JoinBuffer` model, compares result and
buffer sizes, and judges the implementation's own result against the specification `specJoin`
(join iff every source has a same-key event within the window; fields from the most recently
arrived one). The mirrored code's answer is compared *exactly* on every line, also after the cap was
hit or the GC ran. Only a difference between oracle and mirror — the implementation agreeing with the
mirror — may be classified under the two known, narrow guards (an in-window candidate was evicted by
the per-key cap / may have been expired because the arriving event is more than a window behind an
earlier arrival); an implementation result that differs from both oracle and mirror is a `JUDGE`. -/
namespace Varpulis.Driver.JoinD
open Varpulis.Join Varpulis.Driver

structure St where
  cfg : Cfg := { sources := [], window := 0, maxPerKey := 1000 }
  st : Join.St := Join.St.init
  hist : List Arr := []
  evicted : List Nat := []
  legacy : Bool := false
  stats : Bool := true

def fmtRes (r : Option (List (Nat × Ev))) : String :=
  match r with
  | none => "none"
  | some l =>
    let ts := l.foldl (fun (m : Option Int) (p : Nat × Ev) => match m with
      | some x => some (if p.2.ts > x then p.2.ts else x) | none => some p.2.ts) none
    s!"join ts={(ts.map toString).getD "-"} ids={",".intercalate (l.map fun p => toString p.2.id)}"

def countSrc (b : List (SK × List Ev)) (src : Nat) : Nat :=
  (((b.map (·.1)).eraseDups).filter (·.1 == src)).foldl (fun n sk => n + (get b sk).length) 0

def fmtStats (c : Cfg) (s : Join.St) : String :=
  ",".intercalate (c.sources.map fun src => toString (countSrc s.bufs src))

def kv (w : String) (k : String) : Option String :=
  if w.startsWith (k ++ "=") then some (w.drop (k.length + 1)).toString else none

def parseNew (ws : List String) : Option St :=
  match ws with
  | s :: w :: m :: rest => do
    let srcs ← (← kv s "src").splitOn "," |>.mapM String.toNat?
    let win ← (← kv w "win").toInt?
    let max ← (← kv m "max").toNat?
    pure { cfg := { sources := srcs, window := win, maxPerKey := max }, legacy := rest.contains "legacy",
           stats := !rest.contains "nostats" }
  | _ => none

def step (st : St) (line : String) : St × String :=
  let (op, impl?) := splitCase line
  let impl := impl?.getD ""
  match words op with
  | "new" :: "join" :: ws =>
    match parseNew ws with
    | some s => (s, "")
    | none => (st, "BADLINE")
  | ["add", src, key, ts, id] =>
    match src.toNat?, ts.toInt?, id.toNat? with
    | some src, some ts, some id =>
      if key == "-" then
        -- event without the join-key field: ignored, no state change
        let m := "none" ++ (if st.stats then s!" n={fmtStats st.cfg st.st}" else "")
        (st, verdict m impl)
      else match key.toNat? with
      | none => (st, "BADLINE")
      | some key =>
        let a : Arr := { src := src, key := key, ev := { ts := ts, id := id } }
        let c := st.cfg
        let act := if st.legacy then expireVecLegacy else expireVec
        -- cap evictions of this push (per model)
        let s1 := cleanupWith act c st.st ts
        let v := get s1.bufs (src, key)
        let ev := if c.sources.contains src then (v.take (v.length + 1 - c.maxPerKey)).map (·.id) else []
        let (s2, r) := addWith act c st.st a
        -- arrivals of unknown sources are kept too: they run the GC (and `histOf` filters by source)
        let hist := st.hist ++ [a]
        let st' := { st with st := s2, hist := hist, evicted := st.evicted ++ ev }
        let m := fmtRes r ++ (if st.stats then s!" n={fmtStats c s2}" else "")
        let implRes := (impl.splitOn " n=").headD ""
        if !c.sources.contains src then (st', verdict m impl)
        else
          let spec := specJoin c hist key ts
          let implOk := fmtRes spec == implRes          -- implementation = oracle
          let mirrorRes := fmtRes r                     -- what the mirrored code answers
          if implOk then (st', verdict m impl)
          else if implRes != mirrorRes then
            -- the implementation deviates from the oracle in a way the mirrored code does not:
            -- never covered by a known finding, whatever happened to the cap or the GC before
            (st', s!"JUDGE C15 expected {fmtRes spec} (every source's most recent in-window same-key event), got {implRes}; the modelled add_event/try_correlate/cleanup_expired gives {mirrorRes}")
          else
            -- implementation = mirror ≠ oracle: only this difference may fall under a known finding
            let cands := c.sources.flatMap fun s =>
              (histOf hist s key).filter fun e => decide (e.ts ≥ ts - c.window)
            let known :=
              if cands.any fun e => st'.evicted.contains e.id then some "C15-cap-evicts-in-window"
              else if cands.any fun e => expirable c.window hist e then some "C15-late-arrival-after-gc"
              else none
            match known with
            | none => (st', s!"JUDGE C15 expected {fmtRes spec} (every source's most recent in-window same-key event), got {implRes}")
            | some k =>
              -- the buffer sizes must still correspond exactly
              if m == impl then (st', s!"KNOWN[{k}] expected {fmtRes spec}")
              else (st', verdict m impl)
    | _, _, _ => (st, "BADLINE")
  | [] => (st, "")
  | _ => (st, "BADLINE")

--! vmodel: join => Varpulis.Driver.JoinD.driver
def driver : Prop' St := { init := {}, step := step }

end Varpulis.Driver.JoinD
