import Varpulis.Model.TenantStore
import Varpulis.Driver.Util
/-! `vmodel tenantstore`: replays C22 histories; judges the recovered metadata. -/
namespace Varpulis.Driver.TenantStoreD
open Varpulis.TenantStore Varpulis.Driver

def insertSortedBy {α} (k : α → Nat) (x : α) : List α → List α
  | [] => [x]
  | y :: ys => if k x ≤ k y then x :: y :: ys else y :: insertSortedBy k x ys

def sortBy {α} (k : α → Nat) (l : List α) : List α := l.foldr (insertSortedBy k) []

def fmtTenant (e : Nat × Tenant) : String :=
  let ps := (sortBy (·.1) e.2.pipes).map fun p => s!"P{p.1}:{p.2.name}:{p.2.src}:{p.2.status}"
  s!"T{e.1}:{e.2.name}:{e.2.key}:k[{",".intercalate ps}]"

/-- canonical listing of a tenant map (first binding of each id wins, ascending ids) -/
def fmtMap (m : TMap) : String :=
  let keys := (sortBy id (m.map (·.1))).eraseDups
  let l := keys.filterMap fun t => (m.lookup t).map fun x => fmtTenant (t, x)
  if l.isEmpty then "-" else " ".intercalate l

def parseOp (ws : List String) : Option Op :=
  match ws with
  | ["create", t, n, k] => do pure (.createTenant (← t.toNat?) (← n.toNat?) (← k.toNat?))
  | ["remove", t] => do pure (.removeTenant (← t.toNat?))
  | ["deploy", t, p, n, s] => do pure (.deploy (← t.toNat?) (← p.toNat?) (← n.toNat?) (← s.toNat?))
  | ["delpipe", t, p] => do pure (.deletePipe (← t.toNat?) (← p.toNat?))
  | ["reload", t, p, s] => do pure (.reload (← t.toNat?) (← p.toNat?) (← s.toNat?))
  | _ => none

def step (s : Sys) (line : String) : Sys × String :=
  let (opS, impl?) := splitCase line
  let impl := impl?.getD ""
  match words opS with
  | ["new"] => ({}, "")
  | [] => (s, "")
  | ws =>
    let (crash?, ws) := match ws with
      | "crash" :: n :: rest => (n.toNat?, rest)
      | _ => (none, ws)
    let ack := ws.getLast? == some "ack=1"
    match parseOp ws.dropLast with
    | none => (s, "BADLINE")
    | some op =>
      match crash? with
      | none =>
        -- an operation the server rejected changes nothing; an acknowledged one must be accepted by the model
        if !ack then
          (s, if fmtMap s.mem == impl then "ok"
              else s!"JUDGE a rejected operation changed what a restarted server recovers: expected {fmtMap s.mem}")
        else match applyMem s.mem op with
          | none => (s, s!"DIFF model rejects an operation the server acknowledged")
          | some _ =>
            let s' := Varpulis.TenantStore.step s op
            -- theorem restart_recovers_acknowledged: recover = mem; the oracle is the acknowledged state
            (s', if fmtMap s'.mem == impl then "ok"
                 else s!"JUDGE a restarted server does not recover the acknowledged state: expected {fmtMap s'.mem}")
      | some n =>
        if !ack then
          (s, if fmtMap s.mem == impl then "ok"
              else s!"JUDGE a rejected operation changed what a restarted server recovers: expected {fmtMap s.mem}")
        else
        -- the process died after n store writes: acknowledged state, or with the in-flight operation applied
        let before := fmtMap s.mem
        let after := match applyMem s.mem op with | some m' => fmtMap m' | none => before
        let cs := crashStore s op n
        let s' : Sys := { mem := recover cs, store := cs }
        if impl == before || impl == after then
          if fmtMap s'.mem == impl then (s', "ok")
          else
            -- allowed by the property but not what the model's crash semantics gives: resynchronise
            let adopt : Sys := if impl == after then Varpulis.TenantStore.step s op else s
            (adopt, s!"DIFF model={fmtMap s'.mem}")
        else (s', s!"JUDGE after a crash the recovered metadata is neither the acknowledged state ({before}) nor that plus the in-flight operation ({after})")

--! vmodel: tenantstore => Varpulis.Driver.TenantStoreD.driver
def driver : Prop' Sys := { init := {}, step := step }

end Varpulis.Driver.TenantStoreD
