import Varpulis.Model.Partition
import Varpulis.Driver.Util
/-! `vmodel window`: replays window API calls / engine events on the step machines of Model/Window.lean
(plain and partitioned) and judges the implementation's own emissions against the C12 / C13 oracles. -/
namespace Varpulis.Driver.WindowD
open Varpulis.Window Varpulis.Driver

/-- a running window of any kind -/
inductive W where
  | t (d : Int) (s : Tumbling)
  | c (n : Nat) (s : Count)
  | se (g : Int) (s : Session)
  | sl (size slide : Int) (s : Sliding)
  | sc (size slide : Nat) (s : SlidingCount)
  | pt (d : Int) (s : PState String Tumbling)
  | pc (n : Nat) (s : PState String Count)
  | ps (g : Int) (s : PState String Session)
  | psl (size slide : Int) (s : PState String Sliding)
  | psc (size slide : Nat) (s : PState String SlidingCount)

def tag (out : List (List Ev)) : List (String × List Ev) := out.map fun w => ("", w)

def W.step : W → Op → W × List (String × List Ev)
  | .t d s, op => let r := (tumbling d).step s op; (.t d r.1, tag r.2)
  | .c n s, op => let r := (count n).step s op; (.c n r.1, tag r.2)
  | .se g s, op => let r := (session g).step s op; (.se g r.1, tag r.2)
  | .sl a b s, op => let r := (sliding a b).step s op; (.sl a b r.1, tag r.2)
  | .sc a b s, op => let r := (slidingCount a b).step s op; (.sc a b r.1, tag r.2)
  | .pt d s, op => let r := (ptumbling d).step s op; (.pt d r.1, r.2)
  | .pc n s, op => let r := (pcount n).step s op; (.pc n r.1, r.2)
  | .ps g s, op => let r := (psession g).step s op; (.ps g r.1, r.2)
  | .psl a b s, op => let r := (psliding a b).step s op; (.psl a b r.1, r.2)
  | .psc a b s, op => let r := (pslidingCount a b).step s op; (.psc a b r.1, r.2)

/-- current buffers per key (for `cur` / `len`) -/
def W.bufs : W → List (String × List Ev)
  | .t _ s => [("", s.buf)]
  | .c _ s => [("", s.buf)]
  | .se _ s => [("", s.buf)]
  | .sl _ _ s => [("", s.evs)]
  | .sc _ _ s => [("", s.evs)]
  | .pt _ s => s.dom.map fun k => (k, (s.sub k).buf)
  | .pc _ s => s.dom.map fun k => (k, (s.sub k).buf)
  | .ps _ s => s.dom.map fun k => (k, (s.sub k).buf)
  | .psl _ _ s => s.dom.map fun k => (k, (s.sub k).evs)
  | .psc _ _ s => s.dom.map fun k => (k, (s.sub k).evs)

inductive Kind where
  | tumbling (d : Int) | count (n : Nat) | session (g : Int) | sliding (size slide : Int) | scount (size slide : Nat)
  deriving Repr

def mkW (k : Kind) (part : Bool) : W :=
  match k, part with
  | .tumbling d, false => .t d (tumbling d).init
  | .count n, false => .c n (count n).init
  | .session g, false => .se g (session g).init
  | .sliding a b, false => .sl a b (sliding a b).init
  | .scount a b, false => .sc a b (slidingCount a b).init
  | .tumbling d, true => .pt d (ptumbling d).init
  | .count n, true => .pc n (pcount n).init
  | .session g, true => .ps g (psession g).init
  | .sliding a b, true => .psl a b (psliding a b).init
  | .scount a b, true => .psc a b (pslidingCount a b).init

/-! ### formatting / parsing -/

def insertBy (le : α → α → Bool) (x : α) : List α → List α
  | [] => [x]
  | y :: ys => if le x y then x :: y :: ys else y :: insertBy le x ys
def sortBy (le : α → α → Bool) (l : List α) : List α := l.foldr (insertBy le) []

def sortTagged (l : List (String × β)) : List (String × β) := sortBy (fun a b => a.1 ≤ b.1) l

def fmtIds (l : List Nat) : String := "[" ++ ",".intercalate (l.map toString) ++ "]"

def fmtOne (p : String × List Nat) : String := if p.1 == "" then fmtIds p.2 else p.1 ++ ":" ++ fmtIds p.2

def fmtTagged (l : List (String × List Nat)) : String :=
  if l.isEmpty then "-" else " ".intercalate ((sortTagged l).map fmtOne)

def idsOf (l : List (String × List Ev)) : List (String × List Nat) := l.map fun p => (p.1, p.2.map (·.id))

def parseIds (s : String) : Option (List Nat) :=
  -- s = "[1,2,3]" or "[]"
  let body := ((s.drop 1).toString.dropEnd 1).toString
  if !(s.startsWith "[" && s.endsWith "]") then none
  else if body.isEmpty then some [] else (body.splitOn ",").mapM String.toNat?

def parseOne (tok : String) : Option (String × List Nat) :=
  if tok.startsWith "[" then (parseIds tok).map fun l => ("", l)
  else match tok.splitOn ":[" with
    | [k, rest] => (parseIds ("[" ++ rest)).map fun l => (k, l)
    | _ => none

def parseTagged (s : String) : Option (List (String × List Nat)) :=
  if s.trimAscii.toString == "-" then some [] else (words s).mapM parseOne

def parseKey (w : String) : Option (Option Val) :=
  if w == "-" then some none
  else if w.startsWith "s:" then some (some (.str (w.drop 2).toString))
  else if w.startsWith "i:" then (w.drop 2).toString.toInt?.map fun i => some (.int i)
  else none

def pow2sum (l : List Nat) : Nat := l.foldl (fun a i => a + 2 ^ i) 0

/-- the aggregate stream of the engine tie: one result per non-empty window (`n: count(), s: sum(v)`, v = 2^id) -/
def fmtAgg (part : Bool) (l : List (String × List Nat)) : String :=
  let l := (sortTagged l).filter fun p => !p.2.isEmpty
  if l.isEmpty then "-" else
  ";".intercalate (l.map fun p =>
    (if part then s!"k={p.1}," else "") ++ s!"n={p.2.length},s={pow2sum p.2}")

/-! ### state -/

structure St where
  w : Option W := none
  kind : Kind := .count 1
  engine : Bool := false
  part : Bool := false
  evs : List Ev := []                         -- adds so far
  ops : List Op := []                         -- operations applied to the window so far
  inorder : Bool := true                      -- is the timeline so far in order?
  lastTime : Option Int := none
  implEm : List (String × List Nat) := []     -- everything the implementation emitted so far
  implLast : List (String × Int) := []        -- per key: time of the implementation's latest emission
  -- engine glue (`PerSourceWatermarkTracker` with sources "ext" and the event type, `last_applied_watermark`)
  ext : Option Int := none
  tmax : Option Int := none
  eff : Option Int := none
  applied : Option Int := none

def keyOf (st : St) (e : Ev) : String := if st.part then e.partKey else ""

def seenOf (st : St) (k : String) : List Ev := st.evs.filter fun e => keyOf st e == k

def isPrefix : List Nat → List Nat → Bool
  | [], _ => true
  | _ :: _, [] => false
  | a :: as, b :: bs => a == b && isPrefix as bs

def distinctKeys (l : List String) : List String := l.foldl (fun acc k => if acc.contains k then acc else acc ++ [k]) []

/-! ### judges: the property, evaluated on the implementation's own emissions -/

/-- C12: per key, what was emitted so far is a prefix of the arrivals of that key (arrival order, nothing
twice, nothing skipped); right after a flush it is all of them -/
def judgeOnce (st : St) (afterFlush : Bool) : String :=
  let keys := distinctKeys ((st.implEm.map (·.1)) ++ st.evs.map (keyOf st))
  let bad := keys.filter fun k =>
    let em := (st.implEm.filter (·.1 == k)).flatMap (·.2)
    let arr := (seenOf st k).map (·.id)
    if afterFlush then em != arr else !isPrefix em arr
  if bad.isEmpty then "" else s!"C12 emitted windows are not the arrivals in order for key(s) {repr bad}"

/-- the events behind a list of ids (as recorded from the `add` lines) -/
def evsOfIds (st : St) (w : List Nat) : List Ev := w.map fun id => (st.evs.find? (·.id == id)).getD ⟨id, 0, none⟩

def lookupLast (st : St) (k : String) : Option Int := (st.implLast.find? (·.1 == k)).map (·.2)

/-- judge one line's emissions (already appended to `st.implEm`; `st.evs` includes the added event) -/
def judgeLine (st : St) (op : Op) (em : List (String × List Nat)) (opTime : Option Int) : String :=
  let once := match st.kind with
    | .sliding _ _ => ""
    | .scount _ _ => ""
    | _ => judgeOnce st (match op with | .flush => !st.engine | _ => false)
  if once != "" then once else
  match st.kind with
  | .count n =>
    (match op with
     | .add _ => if em.all (fun p => p.2.length == n) then "" else s!"C12 count window closed with a size other than {n}"
     | _ => "")
  | .tumbling d =>
    if st.inorder && !(em.all fun p => tumblingOkB d (evsOfIds st p.2)) then
      "C12 in-order tumbling window holds an event not earlier than first + duration (or out of order)" else ""
  | .session g =>
    if st.inorder && !(em.all fun p => sessionOkB g (evsOfIds st p.2)) then
      "C12 in-order session window holds a gap larger than the session gap" else ""
  | .sliding size slide =>
    if !st.inorder then "" else
    match opTime with
    | none => ""
    | some _ =>
      -- expected per key from the oracle `slidingExpected`, with the implementation's own previous emission time
      let keys := match op with
        | .add e => [keyOf st e]
        | _ => distinctKeys (st.evs.map (keyOf st))
      let bad := keys.filter fun k =>
        let seen := match op with
          | .add e => (seenOf st k).filter (·.id != e.id)
          | _ => seenOf st k
        let exp := (slidingExpected size slide (lookupLast st k) seen op).map fun w => w.map (·.id)
        let exp := if st.engine then exp.filter (!·.isEmpty) else exp
        let got := (em.filter (·.1 == k)).map (·.2)
        exp != got
      if bad.isEmpty then "" else s!"C13 time-sliding emission is not the events in range / not due, key(s) {repr bad}"
  | .scount size slide =>
    (match op with
     | .add e =>
       let k := keyOf st e
       let seen := (seenOf st k).filter (·.id != e.id)
       let exp := (slidingCountExpected size slide seen op).map fun w => w.map (·.id)
       let got := (em.filter (·.1 == k)).map (·.2)
       if exp != got then "C13 count-sliding emission is not the last N at size + k*slide" else ""
     | _ => "")

/-! ### stepping -/

def parseKind (ws : List String) : Option Kind :=
  match ws with
  | ["tumbling", d] => d.toInt?.map .tumbling
  | ["count", n] => n.toNat?.map .count
  | ["session", g] => g.toInt?.map .session
  | ["sliding", a, b] => do pure (.sliding (← a.toInt?) (← b.toInt?))
  | ["scount", a, b] => do pure (.scount (← a.toNat?) (← b.toNat?))
  | _ => none

def optMin (a b : Option Int) : Option Int :=
  match a, b with
  | some x, some y => some (min x y)
  | some x, none => some x
  | none, some y => some y
  | none, none => none

/-- `recompute_effective`: min over the sources that have a watermark; unchanged if none has -/
def recompute (st : St) : St :=
  match optMin st.ext st.tmax with
  | some m => { st with eff := some m }
  | none => st

def isNewer (applied : Option Int) (w : Int) : Bool :=
  match applied with | none => true | some a => w > a

/-- run one window operation on the model, compare with the implementation's answer, judge it -/
def runOp (st : St) (w : W) (op : Op) (opTime : Option Int) (impl : String) (fmtModel : List (String × List Nat) → String)
    (parseImpl : String → Option (List (String × List Nat))) : St × String :=
  let (w', out) := w.step op
  let model := idsOf out
  let model := if st.engine then model.filter (fun p => !p.2.isEmpty) else model
  let evs := match op with | .add e => st.evs ++ [e] | _ => st.evs
  let st := { st with ops := st.ops ++ [op] }
  let inorder := st.inorder && (match opTime, st.lastTime with | some t, some l => l ≤ t | _, _ => true)
  let lastTime := match opTime with | some t => some t | none => st.lastTime
  match parseImpl impl with
  | none => ({ st with w := some w', evs := evs, inorder := inorder, lastTime := lastTime }, "DIFF model=" ++ fmtModel model ++ " (unparsable implementation answer)")
  | some em =>
    let st1 := { st with w := some w', evs := evs, inorder := inorder, lastTime := lastTime, implEm := st.implEm ++ em }
    let j := judgeLine st1 op em opTime
    let implLast := match opTime with
      | some t => em.foldl (fun acc p => (p.1, t) :: acc.filter (·.1 != p.1)) st1.implLast
      | none => st1.implLast
    let st2 := { st1 with implLast := implLast }
    (st2, if j != "" then "JUDGE " ++ j else verdict (fmtModel model) impl)

def engineFmt (part : Bool) (m : List (String × List Nat)) : String := fmtTagged m ++ " | " ++ fmtAgg part m

def engineParse (s : String) : Option (List (String × List Nat)) :=
  match s.splitOn " | " with
  | [a, _] => parseTagged a
  | _ => none

/-- the aggregate half of an engine answer must describe the same windows as the content half -/
def aggConsistent (part : Bool) (s : String) : Bool :=
  match s.splitOn " | " with
  | [a, b] => (match parseTagged a with | some m => fmtAgg part m == b | none => false)
  | _ => false

def step (st : St) (line : String) : St × String :=
  let (op, impl?) := splitCase line
  let impl := impl?.getD ""
  match words op with
  | "new" :: mode :: rest =>
    let part := rest.contains "part"
    let kindWs := rest.filter fun w => w != "part" && w != "plain"
    (match parseKind kindWs with
     | some k => ({ w := some (mkW k part), kind := k, engine := mode == "engine", part := part }, "")
     | none => (st, "BADLINE"))
  | "vpl" :: _ => (st, "")
  | [] => (st, "")
  | ws =>
    match st.w with
    | none => (st, "BADLINE")
    | some w =>
      if st.engine then
        match ws with
        | ["add", id, ts, key] =>
          (match id.toNat?, ts.toInt?, parseKey key with
           | some id, some ts, some key =>
             -- `process_inner`: observe the event in the tracker (no window watermark is applied here)
             let st := recompute { st with tmax := some (match st.tmax with | some m => max m ts | none => ts) }
             let st := match st.eff with
               | some e => if isNewer st.applied e then { st with applied := some e } else st
               | none => st
             let (st', v) := runOp st w (.add ⟨id, ts, key⟩) (some ts) impl (engineFmt st.part) engineParse
             (st', if v == "ok" && !aggConsistent st.part impl then "JUDGE aggregate stream disagrees with the window content stream" else v)
           | _, _, _ => (st, "BADLINE"))
        | ["ewm", t] =>
          (match t.toInt? with
           | some t =>
             -- `advance_external_watermark("ext", t)`
             let st := recompute { st with ext := some (match st.ext with | some e => max e t | none => t) }
             (match st.eff with
              | some e =>
                if isNewer st.applied e then
                  let (st', v) := runOp { st with applied := some e } w (.watermark e) (some e) impl (engineFmt st.part) engineParse
                  (st', if v == "ok" && !aggConsistent st.part impl then "JUDGE aggregate stream disagrees with the window content stream" else v)
                else (st, verdict "- | -" impl)
              | none => (st, verdict "- | -" impl))
           | none => (st, "BADLINE"))
        | _ => (st, "BADLINE")
      else
        match ws with
        | ["add", id, ts, key] =>
          (match id.toNat?, ts.toInt?, parseKey key with
           | some id, some ts, some key => runOp st w (.add ⟨id, ts, key⟩) (some ts) impl fmtTagged parseTagged
           | _, _, _ => (st, "BADLINE"))
        | ["wm", t] => (match t.toInt? with
           | some t => runOp st w (.watermark t) (some t) impl fmtTagged parseTagged
           | none => (st, "BADLINE"))
        | ["expire", t] => (match t.toInt? with
           | some t => runOp st w (.expire t) (some t) impl fmtTagged parseTagged
           | none => (st, "BADLINE"))
        | ["flush"] => runOp st w .flush none impl fmtTagged parseTagged
        | ["cur"] =>
          let m := (idsOf w.bufs).filter fun p => !p.2.isEmpty
          (st, verdict (fmtTagged m) impl)
        | ["len"] =>
          (st, verdict (toString ((w.bufs.map (·.2.length)).foldl (· + ·) 0)) impl)
        | _ => (st, "BADLINE")

--! vmodel: window => Varpulis.Driver.WindowD.driver
def driver : Prop' St := { init := {}, step := step }

end Varpulis.Driver.WindowD
