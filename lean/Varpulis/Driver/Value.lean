import Varpulis.Model.Value
import Varpulis.Driver.Util
/-! `vmodel value`: C40 — replays equality / hashing cases on the `Value` model and judges the
implementation's own answers (reflexivity, symmetry, transitivity, equal ⇒ same hash). -/
namespace Varpulis.Driver.ValueD
open Varpulis.Val Varpulis.Driver

def hexVal (c : Char) : Option Nat :=
  if '0' ≤ c ∧ c ≤ '9' then some (c.toNat - 48)
  else if 'a' ≤ c ∧ c ≤ 'f' then some (c.toNat - 87) else none

def parseHex (s : String) : Option Nat :=
  s.toList.foldlM (fun acc c => (hexVal c).map (acc * 16 + ·)) 0

def hexBytes : List Char → Option (List UInt8)
  | [] => some []
  | a :: b :: r => do
    let x ← hexVal a; let y ← hexVal b; let rest ← hexBytes r
    pure (UInt8.ofNat (x * 16 + y) :: rest)
  | _ => none

def parseHexString (s : String) : Option String := do
  let bs ← hexBytes s.toList
  String.fromUTF8? (ByteArray.mk bs.toArray)

def hexDigit (n : Nat) : Char := if n < 10 then Char.ofNat (48 + n) else Char.ofNat (87 + n)
def hexOfString (s : String) : String :=
  String.ofList (s.toUTF8.toList.flatMap fun b => [hexDigit (b.toNat / 16), hexDigit (b.toNat % 16)])

def rest1 (w : String) : String := (w.drop 1).toString

mutual
/-- one value from a token list (the text the harness prints with `V::text`) -/
partial def parseValue : List String → Option (Value × List String)
  | [] => none
  | w :: ws =>
    if w == "N" then some (.null, ws)
    else if w == "B0" then some (.bool false, ws)
    else if w == "B1" then some (.bool true, ws)
    else if w == "[" then (parseItems ws []).map fun (l, r) => (.array l, r)
    else if w == "{" then (parseEntries ws []).map fun (m, r) => (.map m, r)
    else match w.front with
      | 'I' => (rest1 w).toInt?.map fun n => (.int n, ws)
      | 'F' => (parseHex (rest1 w)).map fun n => (.float ⟨n⟩, ws)
      | 'S' => (parseHexString (rest1 w)).map fun s => (.str s, ws)
      | 'T' => (rest1 w).toInt?.map fun n => (.timestamp n, ws)
      | 'D' => (rest1 w).toNat?.map fun n => (.duration n, ws)
      | _ => none
partial def parseItems : List String → List Value → Option (List Value × List String)
  | [], _ => none
  | w :: ws, acc =>
    if w == "]" then some (acc.reverse, ws)
    else match parseValue (w :: ws) with
      | some (v, r) => parseItems r (v :: acc)
      | none => none
/-- entries are inserted one by one with `insertV` (= `IndexMap::insert`) -/
partial def parseEntries : List String → List (String × Value) → Option (List (String × Value) × List String)
  | [], _ => none
  | w :: ws, acc =>
    if w == "}" then some (acc, ws)
    else if w.front == 'K' then
      match parseHexString (rest1 w), parseValue ws with
      | some k, some (v, r) => parseEntries r (insertV k v acc)
      | _, _ => none
    else none
end

def parseWhole (ws : List String) : Option Value :=
  match parseValue ws with
  | some (v, []) => some v
  | _ => none

def fmtTok : Tok → String
  | .isize n => s!"is:{n}"
  | .u8 n => s!"u8:{n}"
  | .i64 n => s!"i64:{n}"
  | .u64 n => s!"u64:{n}"
  | .usize n => s!"us:{n}"
  | .bytes s => "b:" ++ hexOfString s

def b01 (b : Bool) : String := if b then "1" else "0"

/-- split a token list at the `|` separators -/
def splitBars (ws : List String) : List (List String) :=
  let (cur, acc) := ws.foldl (fun (cur, acc) w => if w == "|" then ([], cur.reverse :: acc) else (w :: cur, acc)) ([], [])
  (cur.reverse :: acc).reverse

def step (st : Unit) (line : String) : Unit × String :=
  let (op, impl?) := splitCase line
  let impl := impl?.getD ""
  match words op with
  | [] => (st, "")
  | ["new", _] => (st, "")
  | "hash" :: ws =>
    match parseWhole ws with
    | some v => (st, verdict (" ".intercalate ((hashToks v).map fmtTok)) impl)
    | none => (st, "BADLINE")
  | "eq" :: ws =>
    match splitBars ws, words impl with
    | [ta, tb], [ab, ba, hd, ht] =>
      match parseWhole ta, parseWhole tb with
      | some a, some b =>
        if ab != ba then (st, "JUDGE C40 symmetry: a == b and b == a differ")
        else if ta == tb && ab == "0" then (st, "JUDGE C40 reflexivity: a value built twice from the same description is unequal to itself")
        else if ab == "1" && (hd == "0" || ht == "0") then (st, "JUDGE C40 equal values with different hashes (DefaultHasher differs or the hasher sees different writes)")
        else
          let m := veq a b
          let mt := hashToks a == hashToks b
          let model := s!"{b01 m} {b01 (veq b a)} {if mt then "1" else hd} {b01 mt}"
          (st, verdict model impl)
      | _, _ => (st, "BADLINE")
    | _, _ => (st, "BADLINE")
  | "trans" :: ws =>
    match splitBars ws, words impl with
    | [ta, tb, tc], [ab, bc, ac] =>
      match parseWhole ta, parseWhole tb, parseWhole tc with
      | some a, some b, some c =>
        if ab == "1" && bc == "1" && ac == "0" then (st, "JUDGE C40 transitivity: a == b, b == c but a != c")
        else (st, verdict s!"{b01 (veq a b)} {b01 (veq b c)} {b01 (veq a c)}" impl)
      | _, _, _ => (st, "BADLINE")
    | _, _ => (st, "BADLINE")
  | _ => (st, "BADLINE")

--! vmodel: value => Varpulis.Driver.ValueD.driver
def driver : Prop' Unit := { init := (), step := step }

end Varpulis.Driver.ValueD
