import Varpulis.Model.EngineRoute
import Varpulis.Driver.Util
/-! `vmodel route`: replays the engine's routing / queue logic (C16, C17, C23) with the recorded
results of the real streams as the abstract step functions, and judges the comparison lines. -/
namespace Varpulis.Driver.RouteD
open Varpulis.EngineRoute Varpulis.Driver

/-- one recorded stream invocation -/
structure Call where
  stream : Ty
  depth : Nat
  input : Ev
  outs : List Ev
  emitted : List Ev

/-- declaration line (without behaviour) -/
structure Decl where
  name : Ty
  subs : List Ty
  prim : List Ty
  isJoin : Bool
  hasProcess : Bool
  nops : Nat
  defId : Nat
  refs : List Ty
  resolved : List Bool

structure St where
  decls : List Decl := []
  decls2 : List Decl := []
  traces : List (String × List Call) := []

def parseEv (w : String) : Option Ev :=
  match w.splitOn "." with
  | [t, p] => do pure { ty := ← t.toNat?, pl := ← p.toNat? }
  | _ => none

def parseEvs (w : String) : Option (List Ev) :=
  if w == "-" then some [] else (w.splitOn ",").mapM parseEv

def parseNats (w : String) : Option (List Nat) :=
  if w == "-" then some [] else (w.splitOn ",").mapM String.toNat?

def fmtEv (e : Ev) : String := s!"{e.ty}.{e.pl}"
def fmtEvs (l : List Ev) : String := if l.isEmpty then "-" else ",".intercalate (l.map fmtEv)

def kv (w : String) (k : String) : Option String :=
  if w.startsWith (k ++ "=") then some (w.drop (k.length + 1)).toString else none

def parseDecl (ws : List String) : Option Decl :=
  match ws with
  | [id, subs, prim, join, proc, nops, defId, refs, res] => do
    pure { name := ← id.toNat?
           subs := ← parseNats (← kv subs "subs")
           prim := ← parseNats (← kv prim "prim")
           isJoin := (← kv join "join") == "1"
           hasProcess := (← kv proc "proc") == "1"
           nops := ← (← kv nops "nops").toNat?
           defId := ← (← kv defId "def").toNat?
           refs := ← parseNats (← kv refs "refs")
           resolved := (← parseNats (← kv res "res")).map (· == 1) }
  | _ => none

/-- `s@d:in>outs|emitted` -/
def parseCall (w : String) : Option Call :=
  match w.splitOn ":" with
  | [sd, rest] =>
    match sd.splitOn "@", rest.splitOn ">" with
    | [s, d], [i, oe] =>
      match oe.splitOn "|" with
      | [o, m] => do
        pure { stream := ← s.toNat?, depth := ← d.toNat?, input := ← parseEv i, outs := ← parseEvs o, emitted := ← parseEvs m }
      | _ => none
    | _, _ => none
  | _ => none

def parseCalls (w : String) : Option (List Call) :=
  if w == "-" then some [] else (w.splitOn ";").mapM parseCall

/-- the recorded results of stream `s`, as a step function of the history: the `k`-th invocation
answers what the real stream answered at its `k`-th invocation (and nothing if the real stream was
handed a different event, or was not invoked that often — the hand-off comparison then fails). -/
def respOf (calls : List Call) (s : Ty) (skip : Nat) : List Ev → Ev → Res :=
  let mine := (calls.filter (fun c => c.stream == s)).drop skip
  fun hist e =>
    match mine[hist.length]? with
    | some c => if c.input = e then { outs := c.outs, emitted := c.emitted } else { outs := [], emitted := [] }
    | none => { outs := [], emitted := [] }

def mkDef (calls : List Call) (skip : Ty → Nat) (d : Decl) : SDef :=
  { name := d.name, subs := d.subs, prim := d.prim, isJoin := d.isJoin, hasProcess := d.hasProcess,
    nops := d.nops, defId := d.defId, refs := d.refs, resolved := d.resolved, resp := respOf calls d.name (skip d.name) }

def chunks (evs : List Ev) : List Nat → List (List Ev)
  | [] => []
  | n :: ns => evs.take n :: chunks (evs.drop n) ns

def runPath (path : String) (E : Eng) (evs : List Ev) (sizes : List Nat) : Option RunOut :=
  match path with
  | "event" => some (perEvent E evs)
  | "batch" => some (batch E (chunks evs sizes))
  | "shared" => some (batch E (chunks evs sizes))
  | "sync" => some (batchSync E (chunks evs sizes))
  | _ => none

def fmtHanded (decls : List Decl) (h : Ty → List Ev) : String :=
  " ".intercalate (decls.map fun d => s!"{d.name}:{fmtEvs (h d.name)}")

def insertSorted (x : String) : List String → List String
  | [] => [x]
  | y :: ys => if x < y then x :: y :: ys else y :: insertSorted x ys

def fmtRouter (r : Router) : String :=
  let items := r.map fun (t, ss) => s!"{t}:{",".intercalate (ss.map toString)}"
  let sorted := items.foldr insertSorted []
  if sorted.isEmpty then "-" else " ".intercalate sorted

/-- `agree`: the property's own verdict on the implementation's outputs -/
def judgeAgree (impl : String) : String :=
  let parts := (impl.splitOn " / ").map fun p => match p.splitOn "=" with
    | [n, o] => (n, o)
    | _ => ("?", p)
  match parts with
  | [] => "BADLINE"
  | (_, o0) :: rest =>
    match rest.find? (fun p => p.2 != o0) with
    | none => "ok"
    | some (n, _) => s!"JUDGE C16 entry point '{n}' emits a different output sequence than the per-event path"

/-- `a / b` lines: the property's verdict is that both sides are equal -/
def judgeEqual (impl : String) (why : String) : String :=
  match impl.splitOn " / " with
  | [a, b] => if a == b then "ok" else s!"JUDGE {why}"
  | _ => "BADLINE"

/-- programs `P` (behaviour: recorded results before and after the reload, the invocation index running
on) and `P'` (behaviour: the recorded results after the reload, counted from 0) -/
def reloadDefs (st : St) : List SDef × List SDef :=
  let pre := (st.traces.lookup "pre").getD []
  let post := (st.traces.lookup "post").getD []
  (st.decls.map (mkDef (pre ++ post) (fun _ => 0)), st.decls2.map (mkDef post (fun _ => 0)))

/-- `gate`: every entry point must take the same late-data decisions (admit / drop / divert) -/
def judgeGate (impl : String) : String :=
  let parts := (impl.splitOn " / ").map fun p => match p.splitOn "=" with
    | [n, o] => (n, o)
    | _ => ("?", p)
  match parts with
  | [] => "BADLINE"
  | (_, o0) :: rest =>
    match rest.find? (fun p => p.2 != o0) with
    | none => "ok"
    | some (n, _) => s!"JUDGE C16 entry point '{n}' admits / drops other events (late-data gate) than the per-event path"

def step (st : St) (line : String) : St × String :=
  let (op, impl?) := splitCase line
  let impl := impl?.getD ""
  -- drop the human-readable comment of `new` lines
  let opw := words ((op.splitOn " # ").headD "")
  match opw with
  | "new" :: _ => ({}, "")
  | "stream" :: ws => match parseDecl ws with
    | some d => ({ st with decls := st.decls ++ [d] }, "")
    | none => (st, "BADLINE")
  | "rstream" :: ws => match parseDecl ws with
    | some d => ({ st with decls2 := st.decls2 ++ [d] }, "")
    | none => (st, "BADLINE")
  | ["trace", path, calls] => match parseCalls calls with
    | some cs => ({ st with traces := (path, cs) :: st.traces.filter (·.1 != path) }, "")
    | none => (st, "BADLINE")
  | ["router"] =>
    let E := load (st.decls.map (mkDef [] (fun _ => 0)))
    (st, verdict (fmtRouter E.router) impl)
  | ["agree", _] => (st, judgeAgree impl)
  | ["gate", _] => (st, judgeGate impl)
  | ["gatepost", _, _] => (st, judgeEqual impl "C23 after the reload the late-data gate does not decide like a fresh engine of the new program (left: reloaded, right: fresh)")
  | ["rrouter"] =>
    let (d1, d2) := reloadDefs st
    (st, verdict (fmtRouter (reload (load d1) d2).router) impl)
  | ["reload", k, inputs] =>
    match k.toNat?, parseEvs inputs with
    | some k, some evs =>
      let (d1, d2) := reloadDefs st
      let r1 := perEvent (load d1) (evs.take k)
      let E1 := reload r1.eng d2
      let r2 := perEvent E1 (evs.drop k)
      let handed := " ".intercalate (st.decls2.map fun d =>
        s!"{d.name}:{fmtEvs ((r2.eng.hist d.name).drop (E1.hist d.name).length)}")
      (st, verdict s!"{fmtEvs r1.sent} | {fmtEvs r2.sent} | {handed}" impl)
    | _, _ => (st, "BADLINE")
  | ["same", _, _] => (st, judgeEqual impl "C23 reloading the same program changed the outputs (left: reloaded, right: never reloaded)")
  | ["fresh0", _] => (st, judgeEqual impl "C23 reloading before any event differs from a fresh engine of the new program")
  | ["iso", _, sid, chg] =>
    match sid.toNat?, kv chg "changed" with
    | some sid, some c =>
      let (d1, d2) := reloadDefs st
      let modelChanged := !(keeps changed (load d1) (load d2) sid)
      if modelChanged != (c == "1") then (st, s!"DIFF model=changed={if modelChanged then 1 else 0}")
      else if impl == "skip" then (st, "SKIP")
      else if modelChanged then
        (st, judgeEqual impl s!"C23 stream {sid} is new or changed but does not behave like a freshly loaded stream")
      else (st, judgeEqual impl s!"C23 stream {sid} is unchanged but lost its state or definition")
    | _, _ => (st, "BADLINE")
  | [kind, path, sizes, inputs] =>
    if kind != "handed" && kind != "outs" then (st, "BADLINE") else
    match parseNats sizes, parseEvs inputs, st.traces.lookup path with
    | some sizes, some evs, some calls =>
      let E := load (st.decls.map (mkDef calls (fun _ => 0)))
      match runPath path E evs sizes with
      | some r =>
        if kind == "handed" then (st, verdict (fmtHanded st.decls r.eng.hist) impl)
        else (st, verdict (fmtEvs r.sent) impl)
      | none => (st, "BADLINE")
    | _, _, _ => (st, "BADLINE")
  | [] => (st, "")
  | _ => (st, "BADLINE")

--! vmodel: route => Varpulis.Driver.RouteD.driver
def driver : Prop' St := { init := {}, step := step }

end Varpulis.Driver.RouteD
