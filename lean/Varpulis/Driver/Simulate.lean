import Varpulis.Model.Simulate
import Varpulis.Driver.Util
/-! `vmodel simulate`: C18. Per scenario: the program family (`prog …`), the events (`ev k v`), then
one line per run of the real binary: `run <workers> <mode> => emitted=<n> listed=<n> out=<sorted events>`.
The first run (one worker, preload) is the reference; for the modelled families the expected
multiset is computed by the model (single engine — by the C18 theorems also the multi-worker one). -/
namespace Varpulis.Driver.SimulateD
open Varpulis.Simulate Varpulis.Driver

inductive Prog
  | filter (c m : Int)
  | window (n : Nat)
  | both (c m : Int) (n : Nat)
  | opaque
  deriving Repr

structure St where
  prog : Prog := .opaque
  evs : List (String × Int) := []     -- reversed
  single : Option (List String) := none

def fmtFilter (stream : String) (o : String × Int) : String :=
  s!"{stream}: \{\"k\": Str(\"{o.1}\"), \"w\": Int({o.2})}"

def fmtWindow (stream : String) (o : String × Int × Nat) : String :=
  s!"{stream}: \{\"key\": Str(\"{o.1}\"), \"s\": Float({o.2.1}.0), \"c\": Int({o.2.2})}"

def sortStrs (l : List String) : List String := (l.toArray.qsort (· < ·)).toList

/-- the model's single-engine output, rendered as the CLI prints events, sorted -/
def expected (p : Prog) (evs : List (String × Int)) : Option (List String) :=
  match p with
  | .filter c m => some (sortStrs (((filterMap c m).run () evs).map (fmtFilter "Out")))
  | .window n => some (sortStrs (((keyedCountWindow n).run (fun _ => []) evs).map (fmtWindow "Out")))
  | .both c m n => some (sortStrs (((filterMap c m).run () evs).map (fmtFilter "F") ++
      ((keyedCountWindow n).run (fun _ => []) evs).map (fmtWindow "W")))
  | .opaque => none

/-- sub-multiset of sorted lists -/
def subSorted : List String → List String → Bool
  | [], _ => true
  | _ :: _, [] => false
  | x :: xs, r :: rs => if x == r then subSorted xs rs else if r < x then subSorted (x :: xs) rs else false
termination_by a b => a.length + b.length

def field (fs : List String) (k : String) : String :=
  match fs.find? (·.startsWith (k ++ "=")) with
  | some f => (f.drop (k.length + 1)).toString
  | none => ""

def parseOut (impl : String) : List String :=
  match impl.splitOn " out=" with
  | [_, o] => if o == "-" then [] else sortStrs (o.splitOn ";;")
  | _ => []

/-- listed finding `C18-output-listing-loss`: the engines emitted exactly the expected number of
events (`--quiet` counter, which bypasses the output channel) and what stdout lists is a proper
sub-multiset of the expected events — events were lost between the engines and the listing, not by
the distribution over workers -/
def lossGuard (x r : List String) (emitted : String) : Bool :=
  emitted.toNat? == some r.length && x.length < r.length && subSorted x r

def describe (x r : List String) : String :=
  let missing := r.filter fun e => !x.contains e
  let extra := x.filter fun e => !r.contains e
  s!"listed {x.length} expected {r.length}; e.g. missing {missing.head?.getD "-"} extra {extra.head?.getD "-"}"

def step (st : St) (line : String) : St × String :=
  let (op, impl?) := splitCase line
  let impl := impl?.getD ""
  match words op with
  | "new" :: _ => ({}, "")
  | ["prog", "filter", c, m] => match c.toInt?, m.toInt? with
    | some c, some m => ({ st with prog := .filter c m }, "") | _, _ => (st, "BADLINE")
  | ["prog", "window", n] => match n.toNat? with
    | some n => ({ st with prog := .window n }, "") | none => (st, "BADLINE")
  | ["prog", "both", c, m, n] => match c.toInt?, m.toInt?, n.toNat? with
    | some c, some m, some n => ({ st with prog := .both c m n }, "") | _, _, _ => (st, "BADLINE")
  | "prog" :: "opaque" :: _ => ({ st with prog := .opaque }, "")
  | ["ev", k, v] => match v.toInt? with
    | some v => ({ st with evs := (k, v) :: st.evs }, "") | none => (st, "BADLINE")
  | ["run", w, mode] =>
    match w.toNat? with
    | none => (st, "BADLINE")
    | some w =>
      let model := expected st.prog st.evs.reverse
      let isRef := w == 1 && mode == "preload"
      if impl == "error" then
        (st, if w == 1 then "DIFF model=the single-worker run failed" else s!"JUDGE simulate with {w} workers ({mode}) failed")
      else
      let fs := words ((impl.splitOn " out=").headD "")
      let emitted := field fs "emitted"
      let listed := field fs "listed"
      let x := parseOut impl
      if isRef then
        match model with
        | some r =>
          if x == r then ({ st with single := some x }, "ok")
          else if lossGuard x r emitted then (st, s!"KNOWN[C18-output-listing-loss] one worker: {describe x r}")
          else (st, s!"DIFF model={describe x r}")
        | none =>
          if emitted == listed then ({ st with single := some x }, "ok")
          else (st, s!"KNOWN[C18-output-listing-loss] one worker listed {listed} of {emitted} emitted events")
      else
        match (st.single <|> model) with
        | none => (st, "SKIP no complete single-worker reference")
        | some r =>
          if x == r then (st, "ok")
          else if lossGuard x r emitted then (st, s!"KNOWN[C18-output-listing-loss] {w} workers ({mode}): {describe x r}")
          else if w == 1 then (st, s!"DIFF model=single worker, {mode}: {describe x r}")
          else (st, s!"JUDGE {w} workers ({mode}) emit a different multiset than one worker: engines emitted {emitted}, {describe x r}")
  | [] => (st, "")
  | _ => (st, "BADLINE")

--! vmodel: simulate => Varpulis.Driver.SimulateD.driver
def driver : Prop' St := { init := {}, step := step }

end Varpulis.Driver.SimulateD
