import Varpulis.Model.EventPayload
import Varpulis.Driver.Util
/-! `vmodel eventfile`: runs both reader models on the C46 file cases (payload parser = the oracle
table sent by the harness), compares with the real readers, and judges the property itself
(both real readers agree) on the implementation's own output. -/
namespace Varpulis.Driver.EventFileD
open Varpulis.EventFile Varpulis.Driver

structure St where
  /-- payload text ↦ canonical event (`none` = the payload parser returned `Err`) -/
  table : List (String × Option String) := []

def hexVal (c : Char) : Option Nat :=
  if '0' ≤ c && c ≤ '9' then some (c.toNat - 48)
  else if 'a' ≤ c && c ≤ 'f' then some (c.toNat - 87) else none

def unhex (s : String) : Option String :=
  if s == "-" then some "" else
  let rec go (acc : ByteArray) : List Char → Option ByteArray
    | [] => some acc
    | a :: b :: rest => do go (acc.push (UInt8.ofNat ((← hexVal a) * 16 + (← hexVal b)))) rest
    | _ => none
  (go ByteArray.empty s.toList).bind String.fromUTF8?

def hexDigit (n : Nat) : Char := if n < 10 then Char.ofNat (48 + n) else Char.ofNat (87 + n)
def hexOf (s : List Char) : String :=
  if s.isEmpty then "-" else
  String.ofList ((String.ofList s).toUTF8.toList.flatMap fun b => [hexDigit (b.toNat / 16), hexDigit (b.toNat % 16)])

/-- the harness's canonical rendering of a value / event, float values masked as `F` -/
partial def canonVal : Val → String
  | .null => "n"
  | .bool b => if b then "b1" else "b0"
  | .int i => s!"i{i}"
  | .float _ => "F"
  | .str s => "s" ++ hexOf s
  | .arr items => "a(" ++ "/".intercalate (items.map canonVal) ++ ")"

def canonEvt (e : Evt) : String :=
  "T" ++ hexOf e.type ++ String.join (e.fields.map fun (k, v) => ";" ++ hexOf k ++ ":" ++ canonVal v)

/-- mask the bit pattern of float values (`f` + 16 hex digits at a value position) in the
implementation's rendering -/
def maskFloats (s : String) : String :=
  let rec go (atValue : Bool) (skip : Nat) (acc : List Char) : List Char → List Char
    | [] => acc.reverse
    | c :: rest =>
      if skip > 0 then go false (skip - 1) acc rest
      else if atValue && c == 'f' then go false 16 ('F' :: acc) rest
      else go (c == ':' || c == '(' || c == '/' || c == '~') 0 (c :: acc) rest
  String.ofList (go false 0 [] s.toList)

def missing : String := "?MISSING"

def oracle (t : List (String × Option String)) (payload : String) : Option String :=
  match t.lookup payload with
  | some r => r
  | none => some missing

def fmtP (o : Outcome (List (String × Nat))) : String :=
  match o with
  | .ok evs => "ok:" ++ ",".intercalate (evs.map fun (e, off) => s!"{e}@{off}")
  | .reject => "reject"
  | .panic => "panic"

def fmtS (o : Outcome (List String)) : String :=
  match o with
  | .ok evs => "ok:" ++ ",".intercalate evs
  | .reject => "reject"
  | .panic => "panic"

/-- the events of an implementation outcome, offsets dropped; `none` for reject/panic -/
def eventsOf (o : String) : Option (List String) :=
  if o.startsWith "ok:" then
    let body := (o.drop 3).toString
    some (if body.isEmpty then [] else (body.splitOn ",").map fun e => (e.splitOn "@").headD "")
  else none

/-- the property on the implementation's own output -/
def agree (p s : String) : Bool :=
  match eventsOf p, eventsOf s with
  | some a, some b => a == b
  | none, none => p == s
  | _, _ => false

def step (st : St) (line : String) : St × String :=
  let (op, impl?) := splitCase line
  let impl := impl?.getD ""
  match words op with
  | ["new"] => ({ table := [] }, "")
  | ["pl", h] =>
    match unhex h with
    | some payload =>
      let r : Option String := match words impl with
        | ["ok", ev] => some ev
        | _ => none
      let st' := { st with table := (payload, r) :: st.table }
      -- `.evt` payloads: the grammar model must produce the same event (type, field order, values)
      if payload.toList.head? == some '{' || impl == "panic" then (st', "ok")
      else
        let model := match parseEventLine payload.toList with
          | some e => "ok " ++ canonEvt e
          | none => "err"
        (st', verdict model (maskFloats impl))
    | none => (st, "BADLINE")
  | ["file", h] =>
    match unhex h, words impl with
    | some content, [p, s] =>
      if !(p.startsWith "P=" && s.startsWith "S=") then (st, "BADLINE") else
      let p := (p.drop 2).toString
      let s := (s.drop 2).toString
      let lines := splitRaw content
      let mp := fmtP (preloadRead (oracle st.table) lines)
      let ms := fmtS (streamRead (oracle st.table) lines)
      let oversized := lines.any fun l => maxLineLength < l.rawLen
      if !agree p s then
        if oversized then (st, "KNOWN[C46-oversized-line] the streaming reader skipped a line longer than MAX_LINE_LENGTH that the preloading reader read")
        else (st, s!"JUDGE C46 the two readers disagree on this file: preload {p.take 200} / streaming {s.take 200}")
      else if (mp.splitOn missing).length > 1 || (ms.splitOn missing).length > 1 then
        (st, "DIFF model=payload oracle missing for a payload the model reaches")
      else if mp == p && ms == s then (st, "ok")
      else (st, s!"DIFF model=P={mp.take 300} S={ms.take 300}")
    | _, _ => (st, "BADLINE")
  | [] => (st, "")
  | _ => (st, "BADLINE")

--! vmodel: eventfile => Varpulis.Driver.EventFileD.driver
def driver : Prop' St := { init := {}, step := step }

end Varpulis.Driver.EventFileD
