import Varpulis.Model.SaseBounds
import Varpulis.Driver.Util
import Varpulis.Driver.Kleene
/-!
`vmodel bounds` (C05): replays adversarial SASE scenarios (all backpressure strategies, small `max_runs`, small
Kleene caps, optional partitioning) on the engine model, compares run vectors, counters and match counts after
every event, and judges the documented bounds on the implementation's own output.
Line protocol: see `Driver/Kleene.lean` (same `new` / `ev` lines); the answer is
`r=<active> n=<partitions> p=<key:count,…> t=<created>/<dropped>/<evicted>/<completed> m=<matches>
 z=<matches per enumeration> q=<runs per vector: first event/state/stack length/capture size>`
(+ ` w=<warnings> s=<created>/<completed>/<active>` for `process_with_result`).
-/
namespace Varpulis.Driver.BoundsD
open Varpulis.Driver Varpulis.SaseK Varpulis.SaseB Varpulis.Driver.KleeneD

def keyName (k : Option Nat) : String := match k with | some n => toString n | none => "_"

def keyLt (a b : Option Nat) : Bool :=
  match a, b with
  | some x, some y => x < y
  | some _, none => true
  | none, _ => false

def fmtRun (r : Run) : String :=
  let first := match r.stack.head? with | some en => toString en.ev.id | none => "-"
  let kl := match r.kc with | some k => toString k.events.length | none => "-"
  s!"{first}/{r.cur}/{r.stack.length}/{kl}"

def fmtRuns (rs : List Run) : String := ",".intercalate (sortBy (fun (a b : String) => a < b) (rs.map fmtRun))

def fmtState (cfg : Cfg) (s : Eng) (o : Out) : String :=
  let parts := sortBy (fun (a b : Option Nat × List Run) => keyLt a.1 b.1) s.parts
  let p := if parts.isEmpty then "-" else ",".intercalate (parts.map fun (k, v) => s!"{keyName k}:{v.length}")
  let q := if parts.isEmpty then s!"[{fmtRuns s.runs}]" else String.join (parts.map fun (k, v) => s!"{keyName k}[{fmtRuns v}]")
  let nmatch := (o.emitted.map List.length).sum
  let zs := (o.emitted.filter fun g => !g.isEmpty && g.all (·.enum.isSome)).map List.length
  let z := if zs.isEmpty then "-" else ",".intercalate (zs.map toString)
  s!"r={s.active cfg} n={s.parts.length} p={p} t={s.created}/{s.dropped}/{s.evicted}/{s.completed} m={nmatch} z={z} q={q}"

def fmtResult (cfg : Cfg) (before : Eng) (s : Eng) (o : Out) : String :=
  let approaching := 5 * before.active cfg > 4 * cfg.maxRuns
  let w := (if approaching then "L" else "") ++
    (match o.bp with | some .droppedCounted => "D" | some .addedEvicting => "E" | _ => "")
  let w := if w.isEmpty then "-" else w
  let created := match o.bp with | some .added => 1 | some .addedEvicting => 1 | _ => 0
  s!" w={w} s={created}/{(o.emitted.map List.length).sum}/{s.active cfg}"

/-! ### judge: the bounds of C05 on the implementation's own line -/

def field (impl key : String) : Option String :=
  match impl.splitOn (" " ++ key ++ "=") with
  | _ :: rest :: _ => (rest.splitOn " ").head?
  | _ => if impl.startsWith (key ++ "=") then ((impl.drop (key.length + 1)).toString.splitOn " ").head? else none

/-- all `a/b/c/d` run descriptions inside the `q=` field -/
def runsOf (q : String) : List (List String) :=
  let body := q.splitOn "["
  (body.drop 1).flatMap fun (seg : String) =>
    let inner := (seg.splitOn "]").headD ""
    if inner.isEmpty then [] else (inner.splitOn ",").map fun (r : String) => r.splitOn "/"

def judge (sc : Scn) (impl : String) : Option String :=
  if impl == "panic" then some "JUDGE C05 processing panicked" else
  let cfg := sc.cfg
  let counts : List Nat :=
    match field impl "p" with
    | some "-" => ((field impl "r").bind String.toNat?).toList
    | some p => (p.splitOn ",").filterMap fun (kv : String) => ((kv.splitOn ":").getLast?.bind String.toNat?)
    | none => []
  if counts.any (· > cfg.maxRuns) then some s!"JUDGE C05 a run vector holds more than max_runs={cfg.maxRuns} partial matches" else
  let zs : List Nat := match field impl "z" with
    | some "-" => [] | some z => (z.splitOn ",").filterMap String.toNat? | none => []
  if zs.any (· > cfg.lim.maxResults) then some s!"JUDGE C05 a completion emitted more than max_results={cfg.lim.maxResults} matches" else
  let runs := match field impl "q" with | some q => runsOf q | none => []
  let kls := runs.filterMap fun r => (r.getLast?.bind String.toNat?)
  if kls.any (· > cfg.lim.maxEvents) then some s!"JUDGE C05 a capture keeps more than max_kleene_events={cfg.lim.maxEvents} events" else
  let stacks := runs.filterMap fun r => (r[2]?.bind String.toNat?)
  if stacks.any (· > sc.steps.length + cfg.lim.maxEvents) then
    (if (match sc.steps.getLast? with | some s => s.kleene | none => false)
     then some "KNOWN[C05-trailing-all-uncapped] a trailing `all` run keeps more Kleene events than max_kleene_events"
     else some "JUDGE C05 a run keeps more Kleene events on its stack than max_kleene_events")
  else none

def step (sc : Scn) (line : String) : Scn × String :=
  let (op, impl?) := splitCase line
  match words (if impl?.isNone then stripComment op else op) with
  | "new" :: rest =>
    match parseHeader rest with
    | some s => (s, "")
    | none => (sc, "BADLINE")
  | "ev" :: rest =>
    match parseEv sc.evs.length rest, impl? with
    | some e, some impl =>
      let (eng', model) : Eng × String :=
        if sc.dead then (sc.eng, "panic") else
        match SaseB.step sc.nfa sc.cfg sc.eng e with
        | some (s', o) =>
          (s', fmtState sc.cfg s' o ++ (if sc.api == "sasew" then fmtResult sc.cfg sc.eng s' o else ""))
        | none => (sc.eng, "panic")
      let sc' := { sc with eng := eng', evs := sc.evs ++ [e], dead := sc.dead || model == "panic" }
      let v := match judge sc impl with
        | some j => if j.startsWith "KNOWN" && model != impl then verdict model impl else j
        | none => verdict model impl
      (sc', v)
    | _, _ => (sc, "BADLINE")
  | [] => (sc, "")
  | _ => (sc, "BADLINE")

--! vmodel: bounds => Varpulis.Driver.BoundsD.driver
def driver : Prop' Scn := { init := {}, step := step }

end Varpulis.Driver.BoundsD
