import Varpulis.Model.Zdd
import Varpulis.Model.ZddTable
import Varpulis.Model.ZddIter
import Varpulis.Driver.Util
/-! `vmodel zdd`: replays the C06/C07 operation lines on the tree model and judges table dumps. -/
namespace Varpulis.Driver.ZddD
open Varpulis.Zdd Varpulis.ZddT Varpulis.Driver

/-- replay of the TABLE model (Model/ZddTable.lean) next to the tree model: the arena with its caches and
one ref per register, or one standalone `ZddS` per register. `none` = replay switched off for the rest of
the scenario (cache budget exceeded; the association-list caches of the model are quadratic). -/
inductive TM where
  | arena (s : Arena) (regs : List (Nat × Ref))
  | zdd (regs : List (Nat × ZddS))
  | off

structure St where
  arena : Bool := true
  regs : List (Nat × Z) := []
  tm : TM := .off
  /-- first line of the scenario on which the table model's own `describe` (iterator step machine,
  cached and uncached count, `contains`) differed from the implementation's answer; reported at the next `tdump`/`zdump` -/
  tbad : Option String := none

def St.get (s : St) (r : Nat) : Z := (s.regs.lookup r).getD .empty
def St.set (s : St) (r : Nat) (z : Z) : St := { s with regs := (r, z) :: s.regs.filter (·.1 ≠ r) }

def fmtSets (l : List (List Nat)) : String :=
  if l.isEmpty then "-" else String.join (l.map fun m => "{" ++ ",".intercalate (m.map toString) ++ "}")

def subsetOf (i nvars : Nat) : List Nat := (List.range nvars).filter fun b => (i >>> b) % 2 == 1

def hexDigit (n : Nat) : Char := if n < 10 then Char.ofNat (48 + n) else Char.ofNat (87 + n)
partial def toHex (n : Nat) : String :=
  if n < 16 then String.singleton (hexDigit n) else toHex (n / 16) ++ String.singleton (hexDigit (n % 16))

def mask (z : Z) : Nat :=
  (List.range 32).foldl (fun acc i => if contains z (subsetOf i 5) then acc + (1 <<< i) else acc) 0

def describe (z : Z) : String :=
  s!"{fmtSets (sets z)} c={count z} cu={count z} m={toHex (mask z)}"

/-- parse the implementation's family listing `{1,2}{3}{}` (or `-`) back into a tree, to resynchronise after a DIFF -/
def parseFamily (s : String) : Option Z :=
  let w := (words s).headD "-"
  if w == "-" then some .empty else
  let parts := (w.splitOn "}").filter (· ≠ "")
  (parts.mapM fun (p : String) =>
    let body := (p.drop 1).toString
    if body.isEmpty then some [] else (body.splitOn ",").mapM String.toNat?).map
    fun ms => ms.foldl (fun acc m => union acc (fromSet m)) .empty

/-- set the destination register; on disagreement adopt the implementation's family so that later
cases (and the C07 dump judge) are judged on their own merits -/
def setDest (st : List (Nat × Z)) (d : Nat) (z : Z) (impl : String) : List (Nat × Z) × String :=
  let v := verdict (s!"{fmtSets (sets z)} c={count z} cu={count z} m={toHex (mask z)}") impl
  let z' := if v == "ok" then z else (parseFamily impl).getD z
  ((d, z') :: st.filter (·.1 ≠ d), v)

def parseMember (w : String) : Option (List Nat) :=
  if w == "_" then some [] else (w.splitOn ",").mapM String.toNat?

/-! ### C07 judge on a dumped node table
`Ref`, `Node`, `twf`, `treeF`, `judgeTable` live in Model/ZddTable.lean: the judge runs exactly the
functions the theorems (`judge_sound`, Props/C07.lean) speak about; this file only parses and prints. -/

def parseRef (s : String) : Option Ref :=
  if s == "E" then some .E else if s == "B" then some .B
  else if s.startsWith "N" then (s.drop 1).toNat?.map .N else none

def parseTable (s : String) : Option (Array Node) :=
  if s.isEmpty then some #[] else
  ((s.splitOn ",").mapM fun (w : String) => match w.splitOn ":" with
    | [v, lo, hi] => do pure { v := ← v.toNat?, lo := ← parseRef lo, hi := ← parseRef hi : Node }
    | _ => none).map List.toArray

def parseRegs (s : String) : Option (List (Nat × Ref)) :=
  if s.isEmpty then some [] else
  (s.splitOn ",").mapM fun (w : String) => match w.splitOn "=" with
    | [r, x] => do pure (← r.toNat?, ← parseRef x)
    | _ => none

def between (s : String) (a b : String) : Option String :=
  match s.splitOn a with
  | _ :: rest :: _ => (rest.splitOn b).head?
  | _ => none

def judgeDump (st : St) (impl : String) : String :=
  match between impl "T[" "]", between impl "R[" "]" with
  | some ts, some rs =>
    match parseTable ts, parseRegs rs with
    | some t, some regs =>
      match judgeTable t regs st.get with
      | .ok => "ok"
      | .notWF => "JUDGE C07 table not well-formed (duplicate, unreduced or unordered node)"
      | .dangling rs => s!"JUDGE C07 handle of register {rs} dangles (node id beyond the table)"
      | .wrongTree rs => s!"DIFF register {rs} denotes a different tree than the model"
      | .notCanonical => "JUDGE C07 two handles with the same family differ (or conversely)"
    | _, _ => "BADLINE"
  | _, _ => "BADLINE"

/-! ### replay on the table model (`tdump` / `zdump` lines: node-for-node comparison with the real arena)
A disagreement here means the *table model* no longer mirrors `table.rs`/`arena.rs` node for node (ids are
deterministic: nodes are appended in creation order). It is not by itself a violation of C06/C07 — both
properties are decided on the other lines — so these op names are owned by neither property. -/

def setReg {α} (l : List (Nat × α)) (r : Nat) (x : α) : List (Nat × α) := (r, x) :: l.filter (·.1 ≠ r)

def cacheBudget : Nat := 6000

def TM.guard : TM → TM
  | .arena s regs =>
    if s.ucache.length + s.icache.length + s.dcache.length + s.ccache.length > cacheBudget then .off else .arena s regs
  | x => x

def fmtRef : Ref → String
  | .E => "E" | .B => "B" | .N i => s!"N{i}"

def sortRegs {α} (l : List (Nat × α)) : List (Nat × α) :=
  (List.range 64).filterMap fun r => (l.lookup r).map fun x => (r, x)

def fmtArena (s : Arena) (regs : List (Nat × Ref)) : String :=
  let t := ",".intercalate (s.table.toList.map fun nd => s!"{nd.v}:{fmtRef nd.lo}:{fmtRef nd.hi}")
  let r := ",".intercalate ((sortRegs regs).map fun (i, x) => s!"{i}={fmtRef x}")
  s!"T[{t}] R[{r}]"

def fmtZdds (regs : List (Nat × ZddS)) : String :=
  let r := ",".intercalate ((sortRegs regs).map fun (i, z) => s!"{i}={fmtRef z.root}:{z.table.size}")
  s!"R[{r}]"

/-- `op_fam` of the harness: `acc = empty; for m { acc = union(acc, from_set(m)) }`, then `describe` (→ `count`) -/
def tmFam (tm : TM) (d : Nat) (ms : List (List Nat)) : TM :=
  match tm with
  | .arena s regs =>
    let res := ms.foldl (fun (acc : Option (Arena × Ref)) m => do
      let (s, a) ← acc
      let (s, r) := s.fromSet m
      s.union a r) (some (s, .E))
    match res with
    | some (s, a) => match s.count a with
      | some (s, _) => .arena s (setReg regs d a)
      | none => .off
    | none => .off
  | .zdd regs =>
    let res := ms.foldl (fun (acc : Option ZddS) m => do (← acc).union (ZddS.fromSet m)) (some ZddS.empty)
    match res with
    | some z => .zdd (setReg regs d z)
    | none => .off
  | .off => .off

def tmArenaOp (tm : TM) (d : Nat) (f : Arena → List (Nat × Ref) → Option (Arena × Ref)) : TM :=
  match tm with
  | .arena s regs => match f s regs with
    | some (s, r) => match s.count r with
      | some (s, _) => .arena s (setReg regs d r)
      | none => .off
    | none => .off
  | x => x

def tmZddOp (tm : TM) (d : Nat) (f : List (Nat × ZddS) → Option ZddS) : TM :=
  match tm with
  | .zdd regs => match f regs with
    | some z => .zdd (setReg regs d z)
    | none => .off
  | x => x

def rget (regs : List (Nat × Ref)) (r : Nat) : Ref := (regs.lookup r).getD .E
def zget (regs : List (Nat × ZddS)) (r : Nat) : ZddS := (regs.lookup r).getD ZddS.empty

def tmBin (tm : TM) (op : String) (d a b : Nat) : TM :=
  match tm with
  | .arena _ _ => tmArenaOp tm d fun s regs => match op with
    | "union" => s.union (rget regs a) (rget regs b)
    | "inter" => s.inter (rget regs a) (rget regs b)
    | "diff" => s.diff (rget regs a) (rget regs b)
    | "pwo" => s.pwo (rget regs a) b
    | _ => none
  | .zdd _ => tmZddOp tm d fun regs => match op with
    | "union" => (zget regs a).union (zget regs b)
    | "inter" => (zget regs a).inter (zget regs b)
    | "diff" => (zget regs a).diff (zget regs b)
    | "product" => (zget regs a).product (zget regs b)
    | "pwo" => (zget regs a).pwo b
    | _ => none
  | .off => .off

def tmConst (tm : TM) (d : Nat) (kind : String) (v : Nat) : TM :=
  match tm with
  | .arena _ _ => tmArenaOp tm d fun s _ => match kind with
    | "base" => some (s, .B) | "empty" => some (s, .E) | _ => some (s.singleton v)
  | .zdd _ => tmZddOp tm d fun _ => match kind with
    | "base" => some ZddS.base | "empty" => some ZddS.empty | _ => some (ZddS.singleton v)
  | .off => .off

/-- `gc(&hs)`: registers not kept are dropped, the kept ones get the returned handles; `describe` of each kept register -/
def tmGc (tm : TM) (keep : List Nat) : TM :=
  match tm with
  | .arena s regs =>
    match s.gc (keep.map (rget regs)) with
    | some (s, roots) =>
      let regs' := keep.zip roots
      let s? := regs'.foldl (fun (acc : Option Arena) (_, r) => do let (s, _) ← (← acc).count r; pure s) (some s)
      match s? with
      | some s => .arena s regs'
      | none => .off
    | none => .off
  | x => x

def tmGcc : TM → TM
  | .arena s regs => .arena s.gcCachesOnly regs
  | x => x

def tmDump (tm : TM) (impl : String) : String :=
  match tm with
  | .arena s regs => verdict (fmtArena s regs) impl
  | .zdd regs => verdict (fmtZdds regs) impl
  | .off => "SKIP"

/-- `describe` of the harness computed on the TABLE model: iteration by the iterator step machines
(`AIter` = `ArenaIterator`, `ZIter` = `ZddIterator`), `count` through the cache, `count_uncached`, and the
32 membership queries through `contains` -/
def tmDescribe (tm : TM) (d : Nat) : Option String :=
  match tm with
  | .arena s regs => do
    let r := rget regs d
    let ss ← s.iterAll r
    let (s, c) ← s.count r
    let cu ← s.countUncached r
    let m ← (List.range 32).foldlM (fun acc i => do
      let b ← s.contains r (subsetOf i 5)
      pure (if b then acc + (1 <<< i) else acc)) 0
    pure s!"{fmtSets ss} c={c} cu={cu} m={toHex m}"
  | .zdd regs => do
    let z := zget regs d
    let ss ← z.toSets
    let c ← z.count
    let m ← (List.range 32).foldlM (fun acc i => do
      let b ← z.contains (subsetOf i 5)
      pure (if b then acc + (1 <<< i) else acc)) 0
    pure s!"{fmtSets ss} c={c} cu={c} m={toHex m}"
  | .off => none

/-- destination register of an operation line that is followed by `describe` in the harness -/
def destOf (ws : List String) : Option Nat :=
  match ws with
  | "fam" :: d :: _ => d.toNat?
  | ["base", d] => d.toNat?
  | ["empty", d] => d.toNat?
  | ["single", d, _] => d.toNat?
  | "contains" :: _ => none
  | "gc" :: _ => none
  | [_, d, _, _] => d.toNat?
  | _ => none

def tmCheck (tm : TM) (line : String) : Option String :=
  let (op, impl?) := splitCase line
  match tm, destOf (words op), impl? with
  | .off, _, _ => none
  | _, some d, some impl =>
    match tmDescribe tm d with
    | some mine => if mine == impl then none else some s!"[{op}] table model describes {mine}"
    | none => some s!"[{op}] table model iterator/count returned none"
  | _, _, _ => none

def stepTree (st : St) (line : String) : St × String :=
  let (op, impl?) := splitCase line
  let impl := impl?.getD ""
  match words op with
  | ["new", "arena"] => ({ arena := true, regs := [], tm := .arena {} [] }, "")
  | ["new", "zdd"] => ({ arena := false, regs := [], tm := .zdd [] }, "")
  | "fam" :: d :: ms =>
    match d.toNat?, ms.mapM parseMember with
    | some d, some ms =>
      let z := ms.foldl (fun acc m => union acc (fromSet m)) .empty
      (let (r, v) := setDest st.regs d z impl; ({ st with regs := r }, v))
    | _, _ => (st, "BADLINE")
  | ["base", d] => match d.toNat? with
    | some d => (st.set d .base, verdict (describe .base) impl) | none => (st, "BADLINE")
  | ["empty", d] => match d.toNat? with
    | some d => (st.set d .empty, verdict (describe .empty) impl) | none => (st, "BADLINE")
  | ["single", d, v] => match d.toNat?, v.toNat? with
    | some d, some v => let z := singleton v; (st.set d z, verdict (describe z) impl)
    | _, _ => (st, "BADLINE")
  | "contains" :: a :: q =>
    match a.toNat?, natList q with
    | some a, some q => (st, verdict (toString (contains (st.get a) (normalize q))) impl)
    | _, _ => (st, "BADLINE")
  | ["gcc"] => (st, verdict "ok" impl)
  | "gc" :: keep =>
    match natList keep with
    | some keep =>
      -- gc is the identity on the families of the kept handles; the others become invalid
      let st' := { st with regs := st.regs.filter fun (r, _) => keep.contains r }
      let res := keep.map fun r => s!"{r}:{describe (st'.get r)}"
      (st', verdict (" ; ".intercalate res) impl)
    | none => (st, "BADLINE")
  | [bop, d, a, b] =>
    match d.toNat?, a.toNat?, b.toNat? with
    | some d, some a, some b =>
      if bop == "pwo" then
        let z := pwo (st.get a) b; (let (r, v) := setDest st.regs d z impl; ({ st with regs := r }, v))
      else
      let f? : Option (Z → Z → Z) := match bop with
        | "union" => some union | "inter" => some inter | "diff" => some diff
        | "product" => some product | _ => none
      (match f? with
      | some f => let z := f (st.get a) (st.get b); (let (r, v) := setDest st.regs d z impl; ({ st with regs := r }, v))
      | none => (st, "BADLINE"))
    | _, _, _ => (st, "BADLINE")
  | ["dump"] => (st, judgeDump st impl)
  | [] => (st, "")
  | _ => (st, "BADLINE")

/-- the table-model replay runs next to the tree model; it answers only the `tdump`/`zdump` lines -/
def stepTable (tm : TM) (line : String) : TM :=
  let (op, _) := splitCase line
  (match words op with
  | "fam" :: d :: ms => match d.toNat?, ms.mapM parseMember with
    | some d, some ms => tmFam tm d ms
    | _, _ => .off
  | ["base", d] => match d.toNat? with | some d => tmConst tm d "base" 0 | none => .off
  | ["empty", d] => match d.toNat? with | some d => tmConst tm d "empty" 0 | none => .off
  | ["single", d, v] => match d.toNat?, v.toNat? with | some d, some v => tmConst tm d "single" v | _, _ => .off
  | "contains" :: _ => tm
  | ["gcc"] => tmGcc tm
  | "gc" :: keep => match natList keep with | some keep => tmGc tm keep | none => .off
  | [bop, d, a, b] => match d.toNat?, a.toNat?, b.toNat? with
    | some d, some a, some b => tmBin tm bop d a b
    | _, _, _ => tm
  | _ => tm).guard

def step (st : St) (line : String) : St × String :=
  let (op, impl?) := splitCase line
  match words op with
  | ["tdump"] | ["zdump"] =>
    (match st.tbad with
    | some b => ({ st with tbad := none }, s!"DIFF model={b}")
    | none => (st, tmDump st.tm (impl?.getD "")))
  | ("new" :: _) => stepTree st line
  | _ =>
    let (st', v) := stepTree st line
    let tm' := stepTable st.tm line
    let tbad := match st'.tbad with
      | some b => some b
      | none => tmCheck tm' line
    ({ st' with tm := tm', tbad := tbad }, v)

--! vmodel: zdd => Varpulis.Driver.ZddD.driver
def driver : Prop' St := { init := {}, step := step }

end Varpulis.Driver.ZddD
