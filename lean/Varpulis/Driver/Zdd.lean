import Varpulis.Model.Zdd
import Varpulis.Model.ZddTable
import Varpulis.Driver.Util
/-! `vmodel zdd`: replays the C06/C07 operation lines on the tree model and judges table dumps. -/
namespace Varpulis.Driver.ZddD
open Varpulis.Zdd Varpulis.ZddT Varpulis.Driver

structure St where
  arena : Bool := true
  regs : List (Nat × Z) := []

def St.get (s : St) (r : Nat) : Z := (s.regs.lookup r).getD .empty
def St.set (s : St) (r : Nat) (z : Z) : St := { s with regs := (r, z) :: s.regs.filter (·.1 ≠ r) }

def fmtSets (l : List (List Nat)) : String :=
  if l.isEmpty then "-" else String.join (l.map fun m => "{" ++ ",".intercalate (m.map toString) ++ "}")

def subsetOf (i nvars : Nat) : List Nat := (List.range nvars).filter fun b => (i >>> b) % 2 == 1

def hexDigit (n : Nat) : Char := if n < 10 then Char.ofNat (48 + n) else Char.ofNat (87 + n)
partial def toHex (n : Nat) : String :=
  if n < 16 then String.singleton (hexDigit n) else toHex (n / 16) ++ String.singleton (hexDigit (n % 16))

def mask (z : Z) : Nat :=
  (List.range 32).foldl (fun acc i => if contains z (subsetOf i 5) then acc + (1 <<< i) else acc) 0

def describe (z : Z) : String :=
  s!"{fmtSets (sets z)} c={count z} cu={count z} m={toHex (mask z)}"

/-- parse the implementation's family listing `{1,2}{3}{}` (or `-`) back into a tree, to resynchronise after a DIFF -/
def parseFamily (s : String) : Option Z :=
  let w := (words s).headD "-"
  if w == "-" then some .empty else
  let parts := (w.splitOn "}").filter (· ≠ "")
  (parts.mapM fun (p : String) =>
    let body := (p.drop 1).toString
    if body.isEmpty then some [] else (body.splitOn ",").mapM String.toNat?).map
    fun ms => ms.foldl (fun acc m => union acc (fromSet m)) .empty

/-- set the destination register; on disagreement adopt the implementation's family so that later
cases (and the C07 dump judge) are judged on their own merits -/
def setDest (st : List (Nat × Z)) (d : Nat) (z : Z) (impl : String) : List (Nat × Z) × String :=
  let v := verdict (s!"{fmtSets (sets z)} c={count z} cu={count z} m={toHex (mask z)}") impl
  let z' := if v == "ok" then z else (parseFamily impl).getD z
  ((d, z') :: st.filter (·.1 ≠ d), v)

def parseMember (w : String) : Option (List Nat) :=
  if w == "_" then some [] else (w.splitOn ",").mapM String.toNat?

/-! ### C07 judge on a dumped node table
`Ref`, `Node`, `twf`, `treeF`, `judgeTable` live in Model/ZddTable.lean: the judge runs exactly the
functions the theorems (`judge_sound`, Props/C07.lean) speak about; this file only parses and prints. -/

def parseRef (s : String) : Option Ref :=
  if s == "E" then some .E else if s == "B" then some .B
  else if s.startsWith "N" then (s.drop 1).toNat?.map .N else none

def parseTable (s : String) : Option (Array Node) :=
  if s.isEmpty then some #[] else
  ((s.splitOn ",").mapM fun (w : String) => match w.splitOn ":" with
    | [v, lo, hi] => do pure { v := ← v.toNat?, lo := ← parseRef lo, hi := ← parseRef hi : Node }
    | _ => none).map List.toArray

def parseRegs (s : String) : Option (List (Nat × Ref)) :=
  if s.isEmpty then some [] else
  (s.splitOn ",").mapM fun (w : String) => match w.splitOn "=" with
    | [r, x] => do pure (← r.toNat?, ← parseRef x)
    | _ => none

def between (s : String) (a b : String) : Option String :=
  match s.splitOn a with
  | _ :: rest :: _ => (rest.splitOn b).head?
  | _ => none

def judgeDump (st : St) (impl : String) : String :=
  match between impl "T[" "]", between impl "R[" "]" with
  | some ts, some rs =>
    match parseTable ts, parseRegs rs with
    | some t, some regs =>
      match judgeTable t regs st.get with
      | .ok => "ok"
      | .notWF => "JUDGE C07 table not well-formed (duplicate, unreduced or unordered node)"
      | .dangling rs => s!"JUDGE C07 handle of register {rs} dangles (node id beyond the table)"
      | .wrongTree rs => s!"DIFF register {rs} denotes a different tree than the model"
      | .notCanonical => "JUDGE C07 two handles with the same family differ (or conversely)"
    | _, _ => "BADLINE"
  | _, _ => "BADLINE"

def step (st : St) (line : String) : St × String :=
  let (op, impl?) := splitCase line
  let impl := impl?.getD ""
  match words op with
  | ["new", "arena"] => ({ arena := true, regs := [] }, "")
  | ["new", "zdd"] => ({ arena := false, regs := [] }, "")
  | "fam" :: d :: ms =>
    match d.toNat?, ms.mapM parseMember with
    | some d, some ms =>
      let z := ms.foldl (fun acc m => union acc (fromSet m)) .empty
      (let (r, v) := setDest st.regs d z impl; ({ st with regs := r }, v))
    | _, _ => (st, "BADLINE")
  | ["base", d] => match d.toNat? with
    | some d => (st.set d .base, verdict (describe .base) impl) | none => (st, "BADLINE")
  | ["empty", d] => match d.toNat? with
    | some d => (st.set d .empty, verdict (describe .empty) impl) | none => (st, "BADLINE")
  | ["single", d, v] => match d.toNat?, v.toNat? with
    | some d, some v => let z := singleton v; (st.set d z, verdict (describe z) impl)
    | _, _ => (st, "BADLINE")
  | "contains" :: a :: q =>
    match a.toNat?, natList q with
    | some a, some q => (st, verdict (toString (contains (st.get a) (normalize q))) impl)
    | _, _ => (st, "BADLINE")
  | ["gcc"] => (st, verdict "ok" impl)
  | "gc" :: keep =>
    match natList keep with
    | some keep =>
      -- gc is the identity on the families of the kept handles; the others become invalid
      let st' := { st with regs := st.regs.filter fun (r, _) => keep.contains r }
      let res := keep.map fun r => s!"{r}:{describe (st'.get r)}"
      (st', verdict (" ; ".intercalate res) impl)
    | none => (st, "BADLINE")
  | [bop, d, a, b] =>
    match d.toNat?, a.toNat?, b.toNat? with
    | some d, some a, some b =>
      if bop == "pwo" then
        let z := pwo (st.get a) b; (let (r, v) := setDest st.regs d z impl; ({ st with regs := r }, v))
      else
      let f? : Option (Z → Z → Z) := match bop with
        | "union" => some union | "inter" => some inter | "diff" => some diff
        | "product" => some product | _ => none
      (match f? with
      | some f => let z := f (st.get a) (st.get b); (let (r, v) := setDest st.regs d z impl; ({ st with regs := r }, v))
      | none => (st, "BADLINE"))
    | _, _, _ => (st, "BADLINE")
  | ["dump"] => (st, judgeDump st impl)
  | [] => (st, "")
  | _ => (st, "BADLINE")

--! vmodel: zdd => Varpulis.Driver.ZddD.driver
def driver : Prop' St := { init := {}, step := step }

end Varpulis.Driver.ZddD
