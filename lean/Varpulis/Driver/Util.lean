/-! Line-protocol helpers shared by all property drivers (no Mathlib, links into `vmodel`). -/
namespace Varpulis.Driver

def words (s : String) : List String := (s.splitOn " ").filter (· ≠ "")

/-- split a case line `op => result` -/
def splitCase (line : String) : String × Option String :=
  match line.splitOn " => " with
  | [op] => (op, none)
  | op :: rest => (op, some (" => ".intercalate rest))
  | [] => ("", none)

def joinWith (sep : String) (l : List String) : String := sep.intercalate l

def natList (ws : List String) : Option (List Nat) := ws.mapM String.toNat?

/-- A property driver: state, one step per input line, output line (`ok`, `DIFF …`, `JUDGE …`, `SKIP`, or empty). -/
structure Prop' (σ : Type) where
  init : σ
  step : σ → String → σ × String

partial def loopLines {σ : Type} (h : IO.FS.Stream) (out : IO.FS.Stream) (p : Prop' σ) (s : σ) : IO Unit := do
  let line ← h.getLine
  if line.isEmpty then return ()
  let l := (line.dropEndWhile (fun c => c = '\n' || c = '\r')).toString
  let (s', o) := p.step s l
  out.putStrLn o
  loopLines h out p s'

def verdict (model impl : String) : String :=
  if model == impl then "ok" else s!"DIFF model={model}"

end Varpulis.Driver
