import Varpulis.Model.ParserText
import Varpulis.Driver.Expand
/-! `vmodel parsertext`: C41 — mirrors the text stages of `parse` and judges the reported locations. -/
namespace Varpulis.Driver.ParserTextD
open Varpulis.Expand Varpulis.ParserText Varpulis.Driver Varpulis.Driver.ExpandD

def fnv (bs : List UInt8) : String :=
  let h : UInt64 := bs.foldl (fun h b => (h ^^^ b.toUInt64) * 0x100000001b3) 0xcbf29ce484222325
  s!"{bs.length}:{String.ofList (toHexL 17 h.toNat)}"

structure St where
  src : Text := []
  pre : Option (List Nat × List UInt8) := none   -- origins and preprocessed bytes of `src`

def showErr (k : String) : String := "E:" ++ k.replace " " "_"

/-- the `x= i= n=` fields as the model computes them, plus the data for the `m` lines -/
def stagesOf (src : Text) : String × Option (List Nat × List UInt8) :=
  match expandC src with
  | .err k => (s!"x={showErr k} i=- n=-", none)
  | .panic _ => ("x=PANIC i=- n=-", none)
  | .ok (expanded, origins) =>
    match preprocessC expanded with
    | .ok pre =>
      let pb := utf8 pre
      let n := match checkNesting pb with
        | .ok none => "ok"
        | .ok (some p) => toString p
        | _ => "PANIC"
      (s!"x={fnv (utf8 expanded)} i={fnv pb} n={n}", some (origins, pb))
    | _ => (s!"x={fnv (utf8 expanded)} i=PANIC n=-", none)

def natField (kv : List String) (k : String) : Option Nat := (field kv k).bind String.toNat?

/-- the property verdict on what the real `parse` reported -/
def judgeParse (src : Text) (kv : List String) : String :=
  match field kv "r" with
  | some "ok" => "ok"
  | some "timeout" => "JUDGE C41 parse did not finish within its time budget"
  | some "panic" =>
    let at_ := (field kv "at").getD "?"
    -- narrow guard of the listed finding: the panic is raised by `optimize.rs` itself, or it is the
    -- negation overflow of `fold_unary` (`Expr::Int(-a)`, the only integer negation of the parser
    -- crate; the panic location is inside `core::ops::Neg`)
    if at_.startsWith "optimize.rs" || (at_.startsWith "arith.rs" && (field kv "why") == some "attempt_to_negate_with_overflow") then s!"KNOWN[C10-fold-panic] constant folding panicked at {at_} (swallowed by the parser thread)"
    else s!"JUDGE C41 the parser panicked at {at_} (reported as a stack-overflow error at offset 0)"
  | some "err" =>
    let posOk := match natField kv "pos" with
      | some p => posWithin src p
      | none => true
    let lcOk := match natField kv "line", natField kv "col" with
      | some l, some c => locWithin src l c
      | none, none => true
      | _, _ => false
    if !posOk then s!"JUDGE C41 error offset {(field kv "pos").getD "?"} lies beyond the input ({byteLen src} bytes)"
    else if !lcOk then s!"JUDGE C41 error line/column {(field kv "line").getD "?"}:{(field kv "col").getD "?"} does not lie within the input"
    else "ok"
  | _ => "BADLINE r"

/-- what the modelled stages predict about the result (only when they reject the input themselves) -/
def predicted (src : Text) : Option String :=
  match preParse src with
  | .ok (.rejected kind pos) => some s!"k=InvalidToken pos={pos} msg={if kind.startsWith "range" then "range" else kind}"
  | _ => none

def stepP (src : Text) (impl : String) : St × String :=
  let kv := words impl
  let (stages, pre) := stagesOf src
  let st : St := { src := src, pre := pre }
  let j := judgeParse src kv
  if j != "ok" then (st, j)
  else
    let implStages := " ".intercalate (kv.filter fun w => w.startsWith "x=" || w.startsWith "i=" || w.startsWith "n=")
    if implStages != stages then (st, s!"DIFF model={stages}")
    else match predicted src with
      | some p =>
        let implErr := " ".intercalate (kv.filter fun w => w.startsWith "k=" || w.startsWith "pos=" || w.startsWith "msg=")
        if (field kv "r") == some "err" && implErr == p then (st, "ok") else (st, s!"DIFF model=r=err {p}")
      | none => (st, "ok")

def triple (s : String) : Option (Nat × Nat × Nat) :=
  match (s.splitOn ",").mapM String.toNat? with
  | some [a, b, c] => some (a, b, c)
  | _ => none

def stepM (st : St) (ps : List Nat) (impl : String) : String :=
  match st.pre with
  | none => "SKIP"
  | some (origins, pb) =>
    let model := ps.map fun p =>
      match sourceLocation st.src origins pb p with
      | .ok (l, c, o) => s!"{l},{c},{o}"
      | _ => "PANIC"
    let outside := (words impl).filter fun w =>
      match triple w with
      | some (l, c, o) => !(locWithin st.src l c && posWithin st.src o)
      | none => true
    if !outside.isEmpty then s!"JUDGE C41 source_location reports a place outside the input: {outside}"
    else verdict (" ".intercalate model) impl

def stepF (st : St) (ps : List Nat) (impl : String) : String :=
  let model := ps.map fun p => let r := fromPosition st.src p; s!"{r.1},{r.2}"
  let outside := (words impl).filter fun w =>
    match (w.splitOn ",").mapM String.toNat? with
    | some [l, c] => !locWithin st.src l c
    | _ => true
  if !outside.isEmpty then s!"JUDGE C41 from_position reports a place outside the input: {outside}"
  else verdict (" ".intercalate model) impl

def step (st : St) (line : String) : St × String :=
  let (op, impl?) := splitCase line
  match impl? with
  | none => (st, "")
  | some impl =>
    if op.startsWith "p " || op == "p" then stepP (dec (op.drop 2).toString.toList) impl
    else if op.startsWith "m " then
      match natList (words (op.drop 2).toString) with
      | some ps => (st, stepM st ps impl)
      | none => (st, "BADLINE m")
    else if op.startsWith "f " then
      match natList (words (op.drop 2).toString) with
      | some ps => (st, stepF st ps impl)
      | none => (st, "BADLINE f")
    else if op.startsWith "ts " then
      match (words (op.drop 3).toString).map String.toInt? with
      | [some y, some m, some d, some tod, some tz] =>
        let model := match timestampNs y m.toNat d.toNat tod tz with
          | .ok ns => toString ns
          | _ => "PANIC"
        if impl == "PANIC" then (st, "JUDGE C41 parse_timestamp panicked")
        else (st, verdict model impl)
      | _ => (st, "BADLINE ts")
    else if op.startsWith "tt " then
      let lit := dec (op.drop 3).toString.toList
      let model := match timestampText lit with
        | .ok ns => toString ns
        | _ => "PANIC"
      -- a literal of the grammar's shape (time part starts with a one-byte character) must not panic
      if impl == "PANIC" && timePartOk lit then (st, "JUDGE C41 parse_timestamp panicked on a literal of the grammar's shape")
      else (st, verdict model impl)
    else (st, "BADLINE op")

--! vmodel: parsertext => Varpulis.Driver.ParserTextD.driver
def driver : Prop' St := { init := {}, step := step }

end Varpulis.Driver.ParserTextD
