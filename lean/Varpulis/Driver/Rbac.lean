import Varpulis.Model.Rbac
import Varpulis.Generated.Routes
import Varpulis.Driver.Util
/-! `vmodel rbac`: replays the C29 request matrix on M-RBAC over the generated route table.

```
new <cluster|cli> anon=<0|1> anonrole=<role> keys=<k:role;…|-> raft=<+key|-> tenants=<k:tid;…|-> admin=<+key|->
anyadmin <+key|->                                       => ok          (`RbacConfig::any_admin_key`)
req <route#> <method> <path> api=<+key|-> adm=<+key|->  => pass | deny <status> <same|changed> | nomatch <404|405> <same|changed>
```
Verdict order for `req`: (1) JUDGE when the implementation served a request whose *documented*
requirement (openapi.yaml / raft rule) the credential is not granted, or when a refused request
changed state; (2) otherwise the model's decision (dispatch over `codeRoutes` + `handle_rejection`)
must equal the implementation's. -/
namespace Varpulis.Driver.RbacD
open Varpulis.Rbac Varpulis.Generated Varpulis.Driver

structure St where
  app : App := .cluster
  cfg : Cfg := { rbac := { keys := [], allowAnonymous := true, anonymousRole := .admin },
                 raftKey := none, tenantKeys := [], adminKey := none }

def parseRole : String → Option Role
  | "viewer" => some .viewer | "operator" => some .operator | "admin" => some .admin | _ => none

def parseMethod : String → Option Method
  | "get" => some .get | "post" => some .post | "put" => some .put | "delete" => some .delete
  | "patch" => some .patch | "head" => some .head | "options" => some .options | _ => none

/-- `+key` = present (possibly empty), `-` = absent -/
def parseOptKey (s : String) : Option (Option String) :=
  if s == "-" then some none
  else if s.startsWith "+" then some (some (s.drop 1).toString)
  else none

def parsePairs (s : String) : Option (List (String × String)) :=
  if s == "-" then some [] else
  (s.splitOn ";").mapM fun (p : String) => match p.splitOn ":" with
    | [k, v] => some (k, v)
    | _ => none

def field (ws : List String) (name : String) : Option String :=
  ws.findSome? fun (w : String) =>
    if w.startsWith (name ++ "=") then some (w.drop (name.length + 1)).toString else none

def parseCfg (ws : List String) : Option Cfg := do
  let anon ← field ws "anon"
  let anonrole ← (← field ws "anonrole") |> parseRole
  let keys ← (← parsePairs (← field ws "keys")).mapM fun (k, r) => (parseRole r).map fun r => (k, r)
  let raft ← parseOptKey (← field ws "raft")
  let tenants ← parsePairs (← field ws "tenants")
  let admin ← parseOptKey (← field ws "admin")
  pure { rbac := { keys := keys, allowAnonymous := anon == "1", anonymousRole := anonrole },
         raftKey := raft, tenantKeys := tenants, adminKey := admin }

def parsePath (s : String) : List String := (s.splitOn "/").filter (· ≠ "")

def reqText : Req → String
  | .open => "open" | .role .viewer => "viewer" | .role .operator => "operator" | .role .admin => "admin"
  | .raftKey => "raft key" | .tenantKey => "tenant key" | .adminKey => "admin key" | .other => "undocumented"

def stepReq (st : St) (idx : Nat) (m : Method) (path : List String) (cred : Cred) (impl : String) : String :=
  let q : Request := { app := st.app, method := m, path := path, cred := cred }
  let model := match (dispatch st.cfg codeRoutes q).status st.app with
    | none => "pass"
    | some s => if s == 404 || s == 405 then s!"nomatch {s} same" else s!"deny {s} same"
  let intended := match codeRoutes[idx]? with
    | some r => r.app == st.app && r.method == m && matchPath r.path path
    | none => false
  if !intended then "DIFF model=route-table-mismatch (the request does not match the extracted route it was generated from)"
  else
  let iw := words impl
  if iw.head? == some "pass" then
    match docReqOfRequest docRoutes q with
    | some req =>
      if grants (authenticate st.cfg cred) req then verdict model impl
      else s!"JUDGE C29 served although the credential is not granted the documented requirement ({reqText req})"
    | none => "JUDGE C29 served a request for which nothing is documented"
  else if (iw.head? == some "deny" || iw.head? == some "nomatch") && iw.getLast? == some "changed" then
    "JUDGE C29 a refused request changed coordinator/tenant/raft state"
  else verdict model impl

def step (st : St) (line : String) : St × String :=
  let (op, impl?) := splitCase line
  let impl := impl?.getD ""
  match words op with
  | "new" :: app :: rest =>
    let a? : Option App := if app == "cluster" then some .cluster else if app == "cli" then some .cli else none
    (match a?, parseCfg rest with
    | some a, some cfg => ({ app := a, cfg := cfg }, "")
    | _, _ => (st, "BADLINE"))
  | ["anyadmin", k] =>
    (match parseOptKey k with
    | some k => (st, if st.cfg.rbac.anyAdminKeyOk k then verdict "ok" impl else "DIFF model=not-an-admin-key-of-the-configuration")
    | none => (st, "BADLINE"))
  | ["req", idx, m, path, apiW, admW] =>
    (match idx.toNat?, parseMethod m, parseOptKey (apiW.drop 4).toString, parseOptKey (admW.drop 4).toString with
    | some idx, some m, some api, some adm =>
      if apiW.startsWith "api=" && admW.startsWith "adm=" then
        (st, stepReq st idx m (parsePath path) { apiKey := api, adminKey := adm } impl)
      else (st, "BADLINE")
    | _, _, _, _ => (st, "BADLINE"))
  | [] => (st, "")
  | _ => (st, "BADLINE")

--! vmodel: rbac => Varpulis.Driver.RbacD.driver
def driver : Prop' St := { init := {}, step := step }

end Varpulis.Driver.RbacD
