import Varpulis.Model.Trend
import Varpulis.Driver.Util
/-! `vmodel trend`: C25 scenarios (`new <queries> | <stream>`, then one line per way of running it).

Per line three things are computed: the *oracle* (number of trends, `dpCount`, proved equal to the
brute-force enumeration `Spec.count` in `Props/C25.lean`), the *mirror model* of the code that was
run (`Hamlet.run`, `GretaImpl.run`, `EngineImpl.run`), and the property verdict on the
implementation's own reports:

* every reported value must be the number of trends of that query in the events seen so far,
  the `flush()` value (absent = 0) the number of trends in the whole stream; for the engine, which
  never flushes, the last reported value (none = 0) must be the number of trends in the whole stream;
* the reports of a query run alongside the others must equal its reports when run alone.

A failure is `KNOWN[id]` only if it lies inside the finding's input guard *and* the implementation
still shows exactly the documented behaviour (= the mirror model's answer); otherwise `JUDGE`.
No failure but a different answer than the mirror model: `DIFF`. -/
namespace Varpulis.Driver.TrendD
open Varpulis.Trend Varpulis.Driver

/-- incremental reports `(event index, query, value)`, flush reports `(window, query, value)` -/
abbrev Reports := List (Nat × Nat × Nat) × List (Nat × Nat × Nat)

structure Stored where
  reports : Reports := ([], [])
  asModel : Bool := false
  present : Bool := false
  deriving Inhabited

structure St where
  qs : List Query := []
  /-- the windows (separated by `/` = `flush()`), and all events in one list -/
  wins : List (List Ty) := [[]]
  evs : List Ty := []
  hamShared : Stored := {}
  hamNonShared : Stored := {}
  gretaAll : Stored := {}
  engineAll : Stored := {}
  deriving Inhabited

def parseStep (s : String) : Option Step :=
  if s.endsWith "+" then (s.dropEnd 1).toString.toNat?.map (⟨·, true⟩) else s.toNat?.map (⟨·, false⟩)

def parseQuery (s : String) : Option Query := (s.splitOn ",").mapM parseStep

def parseNew (rest : String) : Option (List Query × List (List Ty)) :=
  match rest.splitOn "|" with
  | [qs, evs] => do
    let qs ← ((words qs).flatMap (·.splitOn ";")).mapM parseQuery
    let wins ← (evs.splitOn "/").mapM fun w => (words w).mapM String.toNat?
    pure (qs, wins)
  | _ => none

def lt3 (a b : Nat × Nat × Nat) : Bool :=
  a.1 < b.1 || (a.1 == b.1 && (a.2.1 < b.2.1 || (a.2.1 == b.2.1 && a.2.2 ≤ b.2.2)))

def fmt (r : Reports) : String :=
  let inc := r.1.mergeSort lt3
  let fl := r.2.mergeSort lt3
  "i=" ++ ",".intercalate (inc.map fun (k, q, v) => s!"{k}:{q}:{v}") ++
  " f=" ++ ",".intercalate (fl.map fun (w, q, v) => s!"{w}:{q}:{v}")

def parseTriples (s : String) : Option (List (Nat × Nat × Nat)) :=
  if s.isEmpty then some [] else
  (s.splitOn ",").mapM fun t => match (t.splitOn ":").mapM String.toNat? with
    | some [a, b, c] => some (a, b, c)
    | _ => none

def parsePairs (s : String) : Option (List (Nat × Nat)) :=
  if s.isEmpty then some [] else
  (s.splitOn ",").mapM fun t => match (t.splitOn ":").mapM String.toNat? with
    | some [a, b] => some (a, b)
    | _ => none

/-- `i=… f=…` → reports; `none` if the answer is not of that form (e.g. `panic`, `1!`) -/
def parseImpl (s : String) : Option Reports :=
  match words s with
  | [i, f] =>
    if i.startsWith "i=" && f.startsWith "f=" then do
      let a ← parseTriples (i.drop 2).toString
      let b ← parseTriples (f.drop 2).toString
      pure (a, b)
    else none
  | _ => none

/-- the reports about query `q`, renumbered to `as` -/
def project (r : Reports) (q as : Nat) : Reports :=
  ((r.1.filter (·.2.1 == q)).map (fun (k, _, v) => (k, as, v)),
   (r.2.filter (·.2.1 == q)).map (fun (w, _, v) => (w, as, v)))

def hasStart (q : Query) (evs : List Ty) : Bool :=
  match q.head? with | some s => evs.contains s.ty | none => false

/-- another query of the set has `t` as a Kleene type as well -/
def sharesKleene (qs : List Query) (i : Nat) : Bool :=
  let mine := ((qs[i]!).filter (·.kleene)).map (·.ty)
  (qs.zipIdx).any fun (q, j) => j != i && q.any fun s => s.kleene && mine.contains s.ty

/-- the stream contains an event type that query `i` does not use but another query of the set
does: such an event closes the current graphlet when the queries run together and is invisible
(unknown type) when query `i` runs alone -/
def foreignType (qs : List Query) (i : Nat) (evs : List Ty) : Bool :=
  let mine := (qs[i]!).types
  evs.any fun t => !mine.contains t && (qs.zipIdx).any fun (q, j) => j != i && q.types.contains t

def sharesType (qs : List Query) (i : Nat) : Bool :=
  let mine := (qs[i]!).types
  (qs.zipIdx).any fun (q, j) => j != i && q.any fun s => mine.contains s.ty

/-- count failures of the reports about query `qid` (pattern `q`), window by window (every window is
judged on its own: `flush()` ends it): `(events of the window, what)` -/
def countFailures (q : Query) (qid : Nat) (wins : List (List Ty)) (r : Reports) (flushed : Bool) :
    List (List Ty × String) :=
  let inc := r.1.filter (·.2.1 == qid)
  (wins.zipIdx.foldl (fun (acc : Nat × List (List Ty × String)) (evs, w) =>
    let off := acc.1
    let mine := (inc.filter fun (k, _, _) => off ≤ k && k < off + evs.length).mergeSort lt3
    let bad := mine.filter fun (k, _, v) => v != dpCount q (evs.take (k - off + 1))
    let total := dpCount q evs
    let fin : Nat :=
      if flushed then (((r.2.find? fun (w', q', _) => w' == w && q' == qid).map (·.2.2)).getD 0)
      else ((mine.getLast?).map (·.2.2)).getD 0
    (off + evs.length, acc.2 ++
      (bad.map fun (k, _, v) => (evs, s!"query {qid} reported {v} after event {k}, trends so far in window {w}: {dpCount q (evs.take (k - off + 1))}")) ++
      (if fin != total then
        [(evs, s!"query {qid} {if flushed then "flush() reported" else "last reported"} {fin} for window {w}, trends in that window: {total}")] else [])))
    (0, [])).2 ++
  -- reports that belong to no window / no event
  ((r.2.filter fun (w, q', _) => q' == qid && w ≥ wins.length).map fun (w, _, v) => ([], s!"query {qid}: flush report {v} for a window {w} that does not exist")) ++
  ((inc.filter fun (k, _, _) => k ≥ (wins.map (·.length)).sum).map fun (k, _, v) => ([], s!"query {qid}: report {v} for an event {k} that does not exist"))

inductive Kind | hamlet | greta | engine
  deriving DecidableEq

/-- verdict from the failures `(known id or "", guard, text)` -/
def conclude (fails : List (String × Bool × String)) (asModel : Bool) (model impl : String) : String :=
  match fails with
  | [] => if asModel then "ok" else s!"DIFF model={model}"
  | (id, _, txt) :: _ =>
    match fails.find? (fun f => f.1 == "" || !f.2.1) with
    | some (_, _, t) => s!"JUDGE {t}"
    | none =>
      if asModel then s!"KNOWN[{id}] {txt}"
      else s!"JUDGE {txt} — and not the documented behaviour ({model}) but {impl}"

def step (st : St) (line : String) : St × String :=
  let (op, impl?) := splitCase line
  let impl := impl?.getD ""
  match words op with
  | [] => (st, "")
  | "new" :: _ =>
    match parseNew (op.drop 3).toString with
    | some (qs, wins) => ({ qs, wins, evs := wins.flatten }, "")
    | none => (st, "BADLINE")
  | [kind, which] =>
    let n := st.qs.length
    let k? : Option Kind := match kind with
      | "hamlet" => some .hamlet | "greta" => some .greta | "engine" => some .engine | _ => none
    match k? with
    | none => (st, "BADLINE")
    | some k =>
    -- which queries run, under which ids
    let alone? : Option Nat := if which.startsWith "alone" then (which.drop 5).toString.toNat? else none
    let multi := st.wins.length > 1
    let okWhich := !(multi && k == .engine) && match alone? with
      | some i => i < n
      | none => (k == .hamlet && (which == "shared" || which == "nonshared")) || (k != .hamlet && which == "all")
    if !okWhich then (st, "BADLINE") else
    let runQs : List Query := match alone? with | some i => [st.qs[i]!] | none => st.qs
    let known : Ty → Bool := fun t => t < 3
    let model : Reports := match k with
      | .hamlet => Hamlet.runWindows runQs (if which == "nonshared" then 1000 else 2) st.wins
      | .greta => GretaImpl.runWindows runQs st.wins known
      | .engine => (EngineImpl.run runQs st.evs, [])
    let modelS := fmt model
    match parseImpl impl with
    | none => (st, s!"JUDGE unreadable answer ({impl}); documented behaviour: {modelS}")
    | some r =>
    let asModel := fmt r == modelS && impl == modelS
    let flushed := k != .engine
    -- 1. counts
    let cf : List (String × Bool × String) := (runQs.zipIdx).flatMap fun (q, j) =>
      let orig := alone?.getD j
      (countFailures q j st.wins r flushed).map fun (wevs, txt) =>
        match k with
        | .hamlet =>
          if hasStart q wevs then ("C25-hamlet-count", true, txt)
          else ("C25-hamlet-sharing", which == "shared" && sharesKleene st.qs orig, txt)
        | .greta =>
          if dpCount q wevs > 0 then ("C25-greta-accumulates", true, txt)
          else ("C25-greta-shared-edges", alone?.isNone && sharesType st.qs orig, txt)
        | .engine =>
          if alone?.isNone && EngineImpl.silenced st.qs orig then ("C25-engine-sharing", true, txt)
          else ("C25-engine-count", hasStart q wevs, txt)
    -- 2. alone vs alongside
    let sf : List (String × Bool × String) := match alone? with
      | none => []
      | some i =>
        let cmp := fun (name : String) (s : Stored) (id : String) (guard : Bool) =>
          if s.present && fmt (project s.reports i 0) != fmt r then
            [(id, guard && s.asModel, s!"query {i} alone: {fmt r}; alongside the others ({name}): {fmt (project s.reports i 0)}")]
          else []
        match k with
        | .hamlet => cmp "shared mode" st.hamShared "C25-hamlet-sharing" (sharesKleene st.qs i || foreignType st.qs i st.evs) ++
                     cmp "non-shared mode" st.hamNonShared "C25-hamlet-sharing" (foreignType st.qs i st.evs)
        | .greta => cmp "one executor" st.gretaAll "C25-greta-shared-edges" (sharesType st.qs i)
        | .engine => cmp "one program" st.engineAll "C25-engine-sharing" (EngineImpl.silenced st.qs i)
    let verdict := conclude (cf ++ sf) asModel modelS impl
    let stored : Stored := { reports := r, asModel, present := true }
    let st := match k, which with
      | .hamlet, "shared" => { st with hamShared := stored }
      | .hamlet, "nonshared" => { st with hamNonShared := stored }
      | .greta, "all" => { st with gretaAll := stored }
      | .engine, "all" => { st with engineAll := stored }
      | _, _ => st
    (st, verdict)
  | ["enginegap", which, gap] =>
    -- one query alone through the engine, events `gap` seconds apart, `.within(1m)`
    match (if which.startsWith "alone" then (which.drop 5).toString.toNat? else none), gap.toNat? with
    | some i, some g =>
      if i ≥ st.qs.length then (st, "BADLINE") else
      let q := st.qs[i]!
      let model : Reports := (EngineImpl.run [q] st.evs, [])
      let modelS := fmt model
      match parseImpl impl with
      | none => (st, s!"JUDGE unreadable answer ({impl}); documented behaviour: {modelS}")
      | some r =>
        let asModel := impl == modelS
        let timed : List (Ty × Nat) := st.evs.zipIdx.map fun (t, k) => (t, g * k)
        let oracle := fun (n : Nat) => (Spec.trendsW q 60 (timed.take n)).length
        let inc := r.1.filter (·.2.1 == 0)
        let bad := inc.filter fun (k, _, v) => v != oracle (k + 1)
        let fin := (((inc.mergeSort lt3).getLast?).map (·.2.2)).getD 0
        let spanOver : Bool := g * (st.evs.length - 1) > 60
        let cls : Nat → Nat → String → String × Bool × String := fun v unwindowed txt =>
          if v == unwindowed then ("C25-window-ignored", spanOver, txt) else ("C25-engine-count", hasStart q st.evs, txt)
        let fails := (bad.map fun (k, _, v) =>
            cls v (dpCount q (st.evs.take (k + 1))) s!"query reported {v} after event {k}, trends within 60 s so far: {oracle (k + 1)}") ++
          (if fin != oracle st.evs.length then
            [cls fin (dpCount q st.evs) s!"query last reported {fin}, trends within the 60 s window: {oracle st.evs.length}"] else [])
        (st, conclude fails asModel modelS impl)
    | _, _ => (st, "BADLINE")
  | _ => (st, "BADLINE")

--! vmodel: trend => Varpulis.Driver.TrendD.driver
def driver : Prop' St := { init := {}, step := step }

end Varpulis.Driver.TrendD
