import Varpulis.Model.Ctx
import Varpulis.Driver.Util
/-! `vmodel ctx`: trace validation of the real `ContextOrchestrator` against M-CTX (Model/Ctx.lean)
and the property judges of C26 / C27.

Every record of an implementation trace is one line; the driver performs the corresponding step of
the model through its successor function `next` and compares what the model says happened
(the new history entry) with what the implementation recorded. The engine is abstract: a `recv`
line carries the events the real engine emitted for that message. -/
namespace Varpulis.Driver.CtxD
open Varpulis.Ctx Varpulis.Driver

structure DSt where
  n : Nat := 0
  cap : Nat := 0
  /-- (name, source type, context) in program order -/
  streams : List (SDecl String) := []
  /-- streams whose source is not a bare identifier (`X as x`, sequence steps): the second routing
  pass of `build_with_checkpoint` does not see them -/
  aliased : List (SDecl String) := []
  st : St Unit String := init [] (fun _ => ())
  /-- records that must come next (sub-steps of one model step) -/
  expect : List String := []
  /-- types of the events whose forwarding `try_send` failed in this scenario -/
  dropped : List String := []
  /-- some line of this scenario was not a step of the model -/
  broken : Bool := false
  /-- current/last checkpoint window: network quiescent at its first injection, nothing fed since -/
  quiet : Bool := true
  /-- verdict about the last completed checkpoint: (consistent, quiet) -/
  lastCut : Option (Bool × Bool) := none

def tyOf (key : String) : String := (key.splitOn "#").headD ""

def routeOf (streams : List (SDecl String)) (key : String) : Option Nat :=
  routeTy streams (tyOf key)

/-- The declarations in the order in which `build_with_checkpoint` inserts their routes (the model's
`routeTy` lets the last consumer in the list win): pass 1 takes every source in program order;
pass 2 then re-inserts, in program order, the bare-identifier sources that name a stream — so those
come last. -/
def routeOrder (d : DSt) : List (SDecl String) :=
  let second (s : SDecl String) : Bool := !d.aliased.contains s && (ownerOf d.streams s.src).isSome
  d.streams.filter (fun s => !second s) ++ d.streams.filter second

def mkNet (d : DSt) (outs : List String) : Net Unit String :=
  { n := d.n, cap := d.cap, blocking := false, route := routeOf (routeOrder d), dflt := 0,
    proc := fun _ _ _ => ((), outs) }

def fmtSrcless (o : Obs String) : String :=
  match o with
  | .fed _ q ok => s!"{q} {if ok then "ok" else "full"}"
  | .got _ _ e => s!"ev {e}"
  | .gotBar _ k => s!"bar {k}"
  | .fwd _ e none _ => s!"{e} - - ok"
  | .fwd _ e (some q) ok => s!"{e} {q} {if ok then "ok" else "full"} ok"
  | .start k => s!"start {k}"
  | .injected k _ ok => s!"{k} {if ok then "ok" else "full"}"
  | .collected _ k _ => s!"{k}"

/-- one model step through the successor function; `none` = the label is not enabled -/
def doStep (net : Net Unit String) (s : St Unit String) (l : Label) : Option (St Unit String) :=
  ((next net s).find? (fun p => p.1 == l)).map (·.2)

def cutConsistentB (parts : List (Snap Unit String)) : Bool :=
  parts.all fun a => parts.all fun b => enq a.hist (.ctx a.ctx) b.ctx == cons b.hist (.ctx a.ctx) b.ctx

def quiescentB (d : DSt) : Bool :=
  (List.range d.n).all fun c => (d.st.inbox c).isEmpty && (d.st.pend c).isEmpty

def splitList (s : String) : List String := if s == "-" || s == "" then [] else s.splitOn ","

/-- per-stream outputs `S0:a,b S1:-` -/
def parseStreams (ws : List String) : List (String × List String) :=
  ws.map fun w => match w.splitOn ":" with
    | name :: rest => (name, splitList (":".intercalate rest))
    | [] => ("", [])

/-- edge record `u@p>q:attempts;received;produced`: stream type `u` of context `p`, context `q`;
attempts carry a suffix (`+` enqueued into `q`, `-` try_send into `q` failed, `!` not sent to `q`);
`produced` is the engine's production order. Exactly once, in production order: the attempts must be
the produced events in that order, and `q` must have received them in that order. A reported failed
`try_send` counts only if the model agrees that the inbox was full; a missing route counts as the
known one-context-per-type finding only if the model's routing table starves the consumer. -/
def judgeEdge (streams : List (SDecl String)) (log : List (Obs String)) (w : String) : String :=
  match w.splitOn ":" with
  | [edge, body] =>
    match body.splitOn ";", edge.splitOn ">" with
    | [att, got, prod], [up, q] =>
      let u := (up.splitOn "@").headD ""
      let p := (((up.splitOn "@").drop 1).headD "").toNat?.getD 0
      let qn := q.toNat?.getD 0
      let attempts := splitList att
      let recvd := splitList got
      let produced := splitList prod
      let sent := attempts.map (fun a => (a.dropEnd 1).toString)
      let enqd := (attempts.filter (fun a => a.endsWith "+")).map (fun a => (a.dropEnd 1).toString)
      let dropd := (attempts.filter (fun a => a.endsWith "-")).map (fun a => (a.dropEnd 1).toString)
      let unrouted := (attempts.filter (fun a => a.endsWith "!")).map (fun a => (a.dropEnd 1).toString)
      let consumers := streams.filter (fun s => s.src == u && s.ctx == qn)
      let modelDrops := (drops log p qn).filter (fun k => tyOf k == u)
      if sent != produced then
        s!"JUDGE edge {edge}: engine produced {produced} but the context forwarded {sent} (order inside a drained batch / missing forward)"
      else if recvd == sent then "ok"
      else if !unrouted.isEmpty then
        if consumers.isEmpty then
          (if recvd.isEmpty then "ok" else s!"JUDGE edge {edge}: context {q} received {recvd} which was never sent to it")
        else if consumers.all (starved streams) && recvd.isEmpty then "KNOWN-ROUTE"
        else s!"JUDGE edge {edge}: {unrouted} produced for a stream in context {q} but not routed there (received {recvd})"
      else if dropd != modelDrops then
        s!"JUDGE edge {edge}: forwarding of {dropd} reported as failed, the inbox was full only for {modelDrops}; produced {sent}, received {recvd}"
      else if recvd == enqd then "KNOWN-DROP"
      else s!"JUDGE edge {edge}: produced {sent}, of which enqueued {enqd}, but received {recvd}"
    | _, _ => "BADLINE"
  | _ => "BADLINE"

def diffOr (model impl : String) : String := if model == impl then "ok" else s!"DIFF model={model}"

def lastObs (s : St Unit String) : String := match s.log.getLast? with
  | some o => fmtSrcless o
  | none => "?"

def step (d : DSt) (line : String) : DSt × String :=
  let (op, impl?) := splitCase line
  let impl := impl?.getD ""
  let notModel (why : String) : DSt × String := ({ d with broken := true }, s!"DIFF model={why}")
  match words op with
  | "new" :: n :: cap :: _ =>
    ({ n := n.toNat?.getD 0, cap := cap.toNat?.getD 0 }, "")
  | ["stream", name, src, c] =>
    ({ d with streams := d.streams ++ [{ name := name, src := src, ctx := c.toNat?.getD 0 }] }, "")
  | ["stream", name, src, c, "alias"] =>
    let sd : SDecl String := { name := name, src := src, ctx := c.toNat?.getD 0 }
    ({ d with streams := d.streams ++ [sd], aliased := d.aliased ++ [sd] }, "")
  | [] => (d, "")
  | ws =>
    -- sub-records of a model step (snapshot, ack, completion) must come exactly when expected
    match d.expect with
    | e :: rest =>
      if s!"{op} {impl}" == e then
        if (words op).head? == some "complete" then
          match d.lastCut with
          | some (true, _) => ({ d with expect := rest }, "ok")
          | some (false, false) =>
            ({ d with expect := rest }, "KNOWN[C27-barrier-overtakes-data] completed checkpoint is not a consistent cut (barriers were injected while events were queued or being fed)")
          | some (false, true) =>
            ({ d with expect := rest }, "JUDGE completed checkpoint taken on a quiescent network is not a consistent cut")
          | none => ({ d with expect := rest }, "ok")
        else ({ d with expect := rest }, "ok")
      else notModel s!"expected record '{e}'"
    | [] =>
    match ws with
    | ["feed", key] =>
      let s0 := { d.st with todo := [key] }
      match doStep (mkNet d []) s0 .feed with
      | some s' => ({ d with st := s', quiet := false }, diffOr (lastObs s') impl)
      | none => notModel "feed not enabled"
    | ["recv", c, outs] =>
      match c.toNat? with
      | none => (d, "BADLINE")
      | some c =>
        match doStep (mkNet d (splitList outs)) d.st (.recv c) with
        | some s' =>
          let o := lastObs s'
          let exp := match s'.log.getLast? with
            | some (.gotBar c k) => [s!"snap {c} {k}", s!"ack {c} {k}"]
            | _ => []
          ({ d with st := s', expect := exp }, diffOr o impl)
        | none => notModel s!"context {c} cannot receive (inbox empty or outputs pending)"
    | ["fwd", c] =>
      match c.toNat? with
      | none => (d, "BADLINE")
      | some c =>
        match doStep (mkNet d []) d.st (.fwd c) with
        | some s' =>
          let dr := match s'.log.getLast? with
            | some (.fwd _ e (some _) false) => [tyOf e]
            | _ => []
          ({ d with st := s', dropped := d.dropped ++ dr }, diffOr (lastObs s') impl)
        | none => notModel s!"context {c} has nothing to forward"
    | ["inject", c] =>
      match c.toNat? with
      | none => (d, "BADLINE")
      | some c =>
        let net := mkNet d []
        -- `initiate` starts a checkpoint when none is pending
        let (s1, q) := match d.st.pending with
          | none => match doStep net d.st .start with
            | some s' => (s', quiescentB d && d.st.acks.isEmpty)
            | none => (d.st, false)
          | some _ => (d.st, d.quiet)
        match doStep net s1 (.inject c) with
        | some s' => ({ d with st := s', quiet := q }, diffOr (lastObs s') impl)
        | none => notModel s!"barrier injection into {c} not enabled"
    | ["collect", c] =>
      match doStep (mkNet d []) d.st .collect with
      | some s' =>
        match s'.log.getLast? with
        | some (.collected c' k completed) =>
          if s!"{c'}" != c then notModel s!"ack of context {c'} is next in the ack channel"
          else if completed then
            let parts := match s'.done.getLast? with | some ck => ck.2 | none => []
            ({ d with st := s', expect := [s!"complete {k}"], lastCut := some (cutConsistentB parts, d.quiet) },
              diffOr s!"{k}" impl)
          else ({ d with st := s' }, diffOr s!"{k}" impl)
        | _ => notModel "collect"
      | none => notModel "no ack to collect"
    | ["out"] =>
      let m := if d.st.out.isEmpty then "-" else ",".intercalate d.st.out
      (d, if d.broken then "SKIP" else diffOr m impl)
    | "edges" :: es =>
      let vs := es.map (judgeEdge (routeOrder d) d.st.log)
      match vs.find? (fun v => v.startsWith "JUDGE" || v == "BADLINE") with
      | some v => (d, v)
      | none =>
        if vs.contains "KNOWN-DROP" then
          (d, "KNOWN[C26-try-send-drop] an event produced for a stream in another context was never delivered: its try_send into the full inbox failed and the result is ignored")
        else if vs.contains "KNOWN-ROUTE" then
          (d, "KNOWN[C26-one-context-per-type] events produced for a stream in another context are never delivered: the routing table sends their type to one other context only")
        else (d, "ok")
    | "same" :: ref =>
      let want := parseStreams ref
      let got := parseStreams (words impl)
      let gotOf (n : String) : List String := ((got.find? (fun g => g.1 == n)).map (·.2)).getD []
      let bad := want.filter (fun w => gotOf w.1 != w.2)
      if bad.isEmpty && want.length == got.length then (d, "ok")
      else
        let show1 := match bad.head? with
          | some w => s!"stream {w.1}: without contexts {w.2}, with contexts {gotOf w.1}"
          | none => "stream sets differ"
        -- streams that the single-context-per-type routing starves, and everything downstream
        let starvedCl := downstream d.streams ((d.streams.filter (starved (routeOrder d))).map (·.name))
        -- streams that consume a type of which an event was dropped, and everything downstream
        let dropCl := downstream d.streams ((d.streams.filter (fun s => d.dropped.contains s.src)).map (·.name))
        let isStarved (w : String × List String) : Bool := starvedCl.contains w.1 && gotOf w.1 == []
        if want.length != got.length then (d, s!"JUDGE {show1}")
        else if bad.all isStarved then
          (d, s!"KNOWN[C26-one-context-per-type] a type consumed in two contexts is routed to one of them only, the other consumer never sees an event; {show1}")
        else if bad.all (fun w => isStarved w || dropCl.contains w.1) then
          (d, s!"KNOWN[C26-try-send-drop] outputs differ from the context-free run downstream of a dropped cross-context event; {show1}")
        else (d, s!"JUDGE outputs differ from the same program without contexts; {show1}")
    | "restore" :: ref =>
      let want := parseStreams ref
      let got := parseStreams (words impl)
      let gotOf (n : String) : List String := ((got.find? (fun g => g.1 == n)).map (·.2)).getD []
      -- streams downstream of an event dropped by a failed try_send are C26's subject, not C27's
      let dropCl := downstream d.streams ((d.streams.filter (fun s => d.dropped.contains s.src)).map (·.name))
      let bad := want.filter (fun w => gotOf w.1 != w.2 && !dropCl.contains w.1)
      if want.length != got.length then (d, "JUDGE restore: stream sets differ")
      else if bad.isEmpty then (d, if dropCl.isEmpty then "ok" else "SKIP")
      else
        let show1 := match bad.head? with
          | some w => s!"stream {w.1}: uninterrupted {w.2}, before the cut ++ after restore and replay {gotOf w.1}"
          | none => ""
        match d.lastCut with
        | some (false, false) =>
          (d, s!"KNOWN[C27-barrier-overtakes-data] restore + replay loses or duplicates events of an inconsistent cut; {show1}")
        | _ => (d, s!"JUDGE restore + replay differs from the uninterrupted run; {show1}")
    | ["end"] =>
      -- the scenario ran until nothing could move: a started checkpoint has completed unless one of
      -- its barriers did not fit into a full inbox
      let m := match d.st.pending with
        | none => "complete"
        | some p =>
          if d.st.log.any (fun o => match o with | .injected k _ false => k == p.id | _ => false) then "incomplete"
          else if p.toInject.isEmpty then "incomplete-although-every-barrier-was-delivered"
          else s!"incomplete-barrier-never-injected-into-{p.toInject}"
      (d, if d.broken then "SKIP" else diffOr m impl)
    | "snap" :: _ => notModel "no snapshot expected here"
    | "ack" :: _ => notModel "no ack expected here"
    | "complete" :: _ => notModel "checkpoint not complete in the model"
    | "unknown" :: _ => notModel "unknown record"
    | _ => (d, "BADLINE")

--! vmodel: ctx => Varpulis.Driver.CtxD.driver
def driver : Prop' DSt := { init := {}, step := step }

end Varpulis.Driver.CtxD
