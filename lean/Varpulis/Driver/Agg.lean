import Varpulis.Model.Agg
import Varpulis.Driver.Util
/-! `vmodel agg`: evaluates every aggregate of C14 on the model (exact rationals) and compares with
the implementation's results on all paths. `f64` results arrive as IEEE-754 bit patterns and are
decoded to exact rationals here: sum/min/max/count/count_distinct/first/last must be *equal*,
avg/stddev/ema must lie within an explicit relative tolerance of 1e-9 (stddev: on the variance,
relative to Σx²/(n−1); ema: relative to the EMA of the absolute values — both bound the magnitude
of the intermediate terms, so cancellation cannot cause a false alarm). All paths must print the
same token (the property's "same result on every path"). -/
namespace Varpulis.Driver.AggD
open Varpulis.Agg Varpulis.Driver

def pow2 (k : Nat) : Rat := ((2 ^ k : Nat) : Rat)

def parseVal (w : String) : Option Val :=
  if w == "M" then some .missing
  else if w == "N" then some .nan
  else if w == "P" then some (.inf false)
  else if w == "Q" then some (.inf true)
  else if w == "Z" then some .negZero
  else if w.startsWith "X" then (w.drop 1).toNat?.map .nonNum
  else if w.startsWith "I" then (w.drop 1).toInt?.map .int
  else if w.startsWith "D" then
    match (w.drop 1).toString.splitOn "/" with
    | [n, k] => do
      let n ← n.toInt?
      let k ← k.toNat?
      pure (.flt ((n : Rat) / pow2 k))
    | _ => none
  else none

def hexVal (c : Char) : Option Nat :=
  if '0' ≤ c && c ≤ '9' then some (c.toNat - '0'.toNat)
  else if 'a' ≤ c && c ≤ 'f' then some (c.toNat - 'a'.toNat + 10)
  else none

def hexToNat (s : String) : Option Nat :=
  s.toList.foldl (fun acc c => do pure ((← acc) * 16 + (← hexVal c))) (some 0)

/-- exact value of a finite IEEE-754 binary64 bit pattern -/
def f64ToRat (bits : Nat) : Option Rat :=
  let sign : Nat := bits >>> 63
  let e : Nat := (bits >>> 52) % 2048
  let m : Nat := bits % (2 ^ 52)
  let full : Nat := 2 ^ 52 + m
  if e == 2047 then none
  else
    let mag : Rat := if e == 0 then (m : Rat) / pow2 1074 else (full : Rat) * pow2 e / pow2 1075
    some (if sign == 1 then -mag else mag)

/-- implementation result tokens -/
inductive Tok
  | null | int (i : Int) | nan | num (q : Rat) | x (tag : Nat) | inf (neg : Bool) | negZero | bad

def parseTok (w : String) : Tok :=
  if w == "null" then .null
  else if w == "Fnan" then .nan
  else if w == "F7ff0000000000000" then .inf false
  else if w == "Ffff0000000000000" then .inf true
  else if w == "F8000000000000000" then .negZero
  else if w.startsWith "I" then (match (w.drop 1).toInt? with | some i => .int i | none => .bad)
  else if w.startsWith "X" then (match (w.drop 1).toNat? with | some t => .x t | none => .bad)
  else if w.startsWith "F" then
    (match (hexToNat (w.drop 1).toString).bind f64ToRat with | some q => .num q | none => .bad)
  else .bad

def eps : Rat := 1 / 1000000000
def absR (q : Rat) : Rat := if q < 0 then -q else q

/-- how a model result is compared with an implementation token -/
inductive Cmp
  | exact
  /-- |impl − model| ≤ eps · scale -/
  | tol (scale : Rat)
  /-- the implementation prints a standard deviation, the model a variance -/
  | sqTol (scale : Rat)

def agrees (m : Res) (t : Tok) (c : Cmp) : Bool :=
  match m, t with
  | .null, .null => true
  | .val (.nonNum 0), .null => true          -- a present `Null` value reads back as null
  | .int i, .int j => i == j
  | .val (.int i), .int j => i == j
  | .val (.nonNum a), .x b => a == b
  | .val .nan, .nan => true
  | .flt .nan, .nan => true
  | .val (.inf a), .inf b => a == b
  | .flt (.inf a), .inf b => a == b
  | .val .negZero, .negZero => true             -- first/last hand the value through, sign included
  | .flt (.num q), .negZero => q == 0           -- sign of a computed zero is not modelled
  | .val (.flt q), .num r => q == r
  | .flt (.num q), .num r =>
    (match c with
     | .exact => q == r
     | .tol scale => absR (r - q) ≤ eps * scale
     | .sqTol scale => r ≥ 0 && absR (r * r - q) ≤ eps * scale)
  | _, _ => false

def fmtRat (q : Rat) : String := if q.den == 1 then toString q.num else s!"{q.num}/{q.den}"

def fmtRes : Res → String
  | .null => "null"
  | .int i => s!"I{i}"
  | .flt .nan => "Fnan"
  | .flt (.inf s) => if s then "F-inf" else "F+inf"
  | .flt (.num q) => s!"F({fmtRat q})"
  | .val .missing => "null"
  | .val (.nonNum t) => if t == 0 then "null" else s!"X{t}"
  | .val .nan => "Fnan"
  | .val (.inf s) => if s then "F-inf" else "F+inf"
  | .val .negZero => "F(-0)"
  | .val (.int i) => s!"I{i}"
  | .val (.flt q) => s!"F({fmtRat q})"

def parseFunc (w : String) : Option Func :=
  match w with
  | "count" => some .count | "sum" => some .sum | "avg" => some .avg | "min" => some .min
  | "max" => some .max | "stddev" => some .stddev | "first" => some .first | "last" => some .last
  | "cdist" => some .countDistinct
  | _ => if w.startsWith "ema" then (w.drop 3).toNat?.map .ema else none

def cmpOf (f : Func) (vs : List Val) : Cmp :=
  match f with
  | .avg => let v := valid vs; .tol (absR (sum v / ((v.length : Nat) : Rat)))
  | .stddev =>
    let v := valid vs
    .sqTol (sum (v.map fun x => x * x) / (((v.length - 1 : Nat)) : Rat))
  | .ema p =>
    let v := (valid vs).map absR
    .tol ((emaClosed (emaK p) v).getD 0)
  | _ => .exact

def pathOf (k : String) : Option Path :=
  match k with
  | "row" => some .row | "refs" => some .shared | "shared" => some .shared | "col" => some .columnar
  | "eng" => some .shared
  | "ag_row" => some .row | "ag_sh" => some .shared | "ag_col" => some .columnar
  | _ => none

def step (st : Unit) (line : String) : Unit × String :=
  let (op, impl?) := splitCase line
  let impl := impl?.getD ""
  match words op with
  | "new" :: _ => (st, "")
  | "agg" :: f :: toks =>
    match parseFunc f, toks.mapM parseVal with
    | some f, some vs =>
      let cmp := cmpOf f vs
      let results := (words impl).map fun w => match w.splitOn "=" with
        | [k, v] => (k, v)
        | _ => ("?", w)
      if results.isEmpty then (st, "BADLINE") else
      let bad := results.filter fun (k, v) => match pathOf k with
        | some p => !(agrees (apply f p vs) (parseTok v) cmp)
        | none => true
      let toks := (results.map (·.2)).eraseDups
      if toks.length > 1 then
        (st, s!"JUDGE C14 the execution paths return different results: {impl}")
      else if results.any fun (k, _) => (pathOf k).isNone then (st, "BADLINE")
      else if bad.isEmpty then (st, "ok")
      else
        let k := (bad.headD ("row", "")).1
        (st, s!"DIFF model={fmtRes (apply f ((pathOf k).getD .row) vs)} (path {k})")
    | _, _ => (st, "BADLINE")
  | [] => (st, "")
  | _ => (st, "BADLINE")

--! vmodel: agg => Varpulis.Driver.AggD.driver
def driver : Prop' Unit := { init := (), step := step }

end Varpulis.Driver.AggD
