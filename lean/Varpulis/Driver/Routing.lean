import Varpulis.Model.Routing
import Varpulis.Driver.Util
/-! `vmodel routing`: replays the C34 lines (group set-up, single and batch injections) on the routing model,
predicts every target exactly (hash values of the canonical key strings come from the harness as an oracle
table `H`) and judges the property on the implementation's own answers (first-match routing, stickiness of
hash partitioning across both injection paths, round-robin balance on every window). -/
namespace Varpulis.Driver.RoutingD
open Varpulis.Routing Varpulis.Driver

/-- driver instance of the float type: eighths (`n/8`), exact for the generator's dyadic keys -/
def fracDigits : Nat → String
  | 0 => "0" | 1 => "125" | 2 => "25" | 3 => "375" | 4 => "5" | 5 => "625" | 6 => "75" | _ => "875"

def fmtEighths (n : Int) : Str :=
  let a := n.natAbs
  ((if n < 0 then "-" else "") ++ toString (a / 8) ++ "." ++ fracDigits (a % 8)).toList

def fm : Fmt Int := { fmtF := fmtEighths, ofInt := fun i => 8 * i }

structure PipeSpec where
  name : Str
  n : Nat
  field : Option Str

structure St where
  pipes : List PipeSpec := []
  routes : List Route := []
  failed : List Str := []
  g : Group := { pipelines := [], routes := [], rgs := [], placements := [] }
  running : List Str := []
  cs : Counters := []
  hs : List (Str × Nat) := []
  /-- (logical pipeline, key token) ↦ replica chosen by the implementation (hash groups) -/
  seen : List ((Str × String) × String) := []
  /-- logical pipeline ↦ the implementation's round-robin picks, newest first -/
  rrLog : List (Str × List String) := []

def sOf (s : Str) : String := String.ofList s

def decodeCodes (w : String) : Option Str :=
  if w == "-" then some [] else (w.splitOn ".").mapM fun c => c.toNat?.map Char.ofNat

def parseKey (w : String) : Option (Key Int) :=
  if w == "m" then some .missing
  else if w.startsWith "i:" then (w.drop 2).toString.toInt?.map .int
  else if w.startsWith "f:" then (w.drop 2).toString.toInt?.map .float
  else if w.startsWith "s:" then (decodeCodes (w.drop 2).toString).map .str
  else none

def replicaNames (p : PipeSpec) : List Str :=
  let c := max p.n 1
  if c > 1 then (List.range c).map fun i => p.name ++ ('#' :: (toString i).toList) else [p.name]

/-- `commit_deploy_group`: placements for every task, replica groups from the successful replicas -/
def commit (st : St) : St :=
  let all := st.pipes.flatMap replicaNames
  let rgs := st.pipes.filterMap fun p =>
    if max p.n 1 > 1 then
      let ok := (replicaNames p).filter fun r => !st.failed.contains r
      if ok.isEmpty then none
      else some { name := p.name, replicas := ok,
                  strat := match p.field with | some f => .hashKey f | none => .roundRobin : RG }
    else none
  { st with g := { pipelines := st.pipes.map (·.name), routes := st.routes, rgs := rgs, placements := all },
            running := all.filter fun r => !st.failed.contains r }

def renderableS : Key Int → Bool
  | .int i => decide (i64Min ≤ i) && decide (i ≤ u64Max)
  | _ => true
def renderableB : Key Int → Bool
  | .int i => decide (i64Min ≤ i) && decide (i ≤ i64Max)
  | _ => true

def fieldsOf (s : Option Str) : Fields := fun _ => s

def logicalOf (name : String) : String :=
  match (name.splitOn "#").reverse with
  | _ :: (r :: rs) => "#".intercalate (r :: rs).reverse
  | _ => name

/-- spec-level oracle of `find_target`: first route hit, else first pipeline -/
def specTarget (g : Group) (ty : Str) : Option Str :=
  match g.routes.find? (fun r => r.pats.any (matchesPat ty)) with
  | some r => some r.to
  | none => g.pipelines.head?

def windowsBalanced (reps : List String) (picks : List String) : Bool :=
  -- picks newest first: every prefix of `picks` is a window ending at the newest selection
  (List.range (picks.length + 1)).all fun k =>
    let w := picks.take k
    reps.all fun a => reps.all fun b => w.count a ≤ w.count b + 1

def implName (impl : String) : Option String :=
  if impl.startsWith "to:" then some (impl.drop 3).toString
  else if impl.startsWith "err:" || impl == "lost" then none
  else some impl

/-- property verdict on the implementation's own answer; returns (new state, verdict or "") -/
def judge (st : St) (ty : Str) (keyTok : String) (key : Key Int) (impl : String) : St × String :=
  match implName impl with
  | none => (st, "")
  | some name =>
    let logical := logicalOf name
    let spec := (specTarget st.g ty).map sOf
    if spec != some logical && !(spec == none && logical == "default") then
      (st, s!"JUDGE event type routed to {logical} but the first matching route / first pipeline is {spec}")
    else
    match st.g.rg? logical.toList with
    | none => (st, "")
    | some rg =>
      match rg.strat with
      | .hashKey _ =>
        let k := (logical.toList, keyTok)
        match st.seen.lookup k with
        | some r' =>
          if r' == name then (st, "")
          else if key.u64Only then
            (st, s!"KNOWN[C34-u64-key] integer key in (i64::MAX, u64::MAX] reaches {name} here and {r'} on the other injection path")
          else (st, s!"JUDGE same key value reached replica {r'} before and {name} now")
        | none => ({ st with seen := (k, name) :: st.seen }, "")
      | .roundRobin =>
        let picks := name :: ((st.rrLog.lookup logical.toList).getD [])
        let st' := { st with rrLog := (logical.toList, picks) :: st.rrLog.filter (·.1 ≠ logical.toList) }
        if windowsBalanced (rg.replicas.map sOf) picks then (st', "")
        else (st', s!"JUDGE round-robin loads differ by more than one over a run ending here: {picks}")

def keyStrOpt (single : Bool) (key : Key Int) : Option Str :=
  match (if single then (singleJson fm key).map (·.render fm) else (batchValue fm key).map fun v => (toJson v).render fm) with
  | some s => some s
  | none => none

def usesHash (st : St) (ty : Str) (single : Bool) : Bool :=
  let l := if single then findTarget st.g.routes st.g.pipelines ty
           else some ((findTarget st.g.routes st.g.pipelines ty).getD "default".toList)
  match l.bind st.g.rg? with
  | some rg => match rg.strat with | .hashKey _ => true | _ => false
  | none => false

def stepInject (st : St) (single : Bool) (tyW keyW impl : String) : St × String :=
  match parseKey keyW with
  | none => (st, "BADLINE")
  | some key =>
    let ty := tyW.toList
    let (st1, jv) := judge st ty keyW key impl
    let hashed := usesHash st ty single
    let renderable := if single then renderableS key else renderableB key
    let ks := keyStrOpt single key
    -- oracle lookup of the canonical string
    let missingOracle := hashed && renderable && (st.hs.lookup (ks.getD [])).isNone
    let h : Str → Nat := fun s => (st.hs.lookup s).getD 0
    let fields := fieldsOf ks
    let (model, cs') :=
      if single then
        let (r, cs') := resolveSingle h st.g st.cs ty fields
        ((match r with
          | .to t => s!"to:{sOf t}"
          | .noRoute => "err:noroute"
          | .notDeployed t => s!"err:notdeployed:{sOf t}"), cs')
      else
        let (t, cs') := resolveBatch h st.g st.cs ty fields
        ((if st.running.contains t then sOf t else "lost"), cs')
    let st2 := { st1 with cs := cs' }
    if jv != "" then (st2, jv)
    else if hashed && !renderable then (st2, "ok")
    else if missingOracle then (st2, s!"DIFF model key string {sOf (ks.getD [])} has no oracle hash (canonical strings disagree)")
    else (st2, verdict model impl)

def step (st : St) (line : String) : St × String :=
  let (op, impl?) := splitCase line
  let impl := impl?.getD ""
  match words op with
  | "new" :: _ => ({}, "")
  | ["pipe", name, n, fld] =>
    match n.toNat? with
    | some n => ({ st with pipes := st.pipes ++ [{ name := name.toList, n := n, field := if fld == "-" then none else some fld.toList }] }, "")
    | none => (st, "BADLINE")
  | "route" :: to :: pats => ({ st with routes := st.routes ++ [{ to := to.toList, pats := pats.map String.toList }] }, "")
  | ["fail", r] => ({ st with failed := r.toList :: st.failed }, "")
  | ["commit"] => (commit st, "")
  | ["H", codes, hv] =>
    match decodeCodes codes, hv.toNat? with
    | some s, some v => ({ st with hs := (s, v) :: st.hs }, "")
    | _, _ => (st, "BADLINE")
  | ["fkey", _lit] =>
    -- float literal probe (full strength since serde_json `float_roundtrip` is on): the same literal, any number of
    -- digits, must reach the same replica through both paths
    (match impl.splitOn "," with
     | [a, b] =>
       (st, if a == b then "ok"
            else s!"JUDGE the same float literal reached {a} when injected singly and {b} in a batch")
     | _ => (st, "BADLINE"))
  | ["inj", ty, key] => stepInject st true ty key impl
  | ["bat", ty, key] => stepInject st false ty key impl
  | [] => (st, "")
  | _ => (st, "BADLINE")

--! vmodel: routing => Varpulis.Driver.RoutingD.driver
def driver : Prop' St := { init := {}, step := step }

end Varpulis.Driver.RoutingD
