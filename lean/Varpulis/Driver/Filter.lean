import Varpulis.Model.Filter
import Varpulis.Driver.Value
/-! `vmodel filter`: C09 — replays `flt <expr> | <event> => w s dw ds s2` (accepted by the `.where`
stream / by the sequence step through the engine; by the VPL evaluator / by `eval_predicate`
directly; by a step on the derived stream `F = T.where(e)`), compares with the model and classifies failing inputs (`w ≠ s`) under the guards of the
known findings. -/
namespace Varpulis.Driver.FilterD
open Varpulis.Val Varpulis.Filter Varpulis.Driver Varpulis.Driver.ValueD

def parseLit (w : String) : Option Lit :=
  if w == "N" then some .null
  else if w == "B0" then some (.bool false)
  else if w == "B1" then some (.bool true)
  else match w.front with
    | 'I' => (rest1 w).toInt?.map .int
    | 'F' => (parseHex (rest1 w)).map fun n => .float ⟨n⟩
    | 'S' => (parseHexString (rest1 w)).map .str
    | _ => none

def parseOperand (w : String) : Option Operand :=
  if w.startsWith "f:" then some (.field (w.drop 2).toString) else (parseLit w).map .lit

def parseOp (w : String) : Option CmpOp :=
  match w with
  | "eq" => some .eq | "ne" => some .ne | "lt" => some .lt | "le" => some .le | "gt" => some .gt | "ge" => some .ge
  | _ => none

def parseOther (w : String) : Option OtherOp :=
  match w with
  | "in" => some .isIn | "nin" => some .notIn | "is" => some .is
  | _ => none

/-- prefix notation: `cmp <op> <l> <r>` | `oth <in|nin|is> <l> <r>` | `atom <o>` | `and A B` | `or A B` | `not A` -/
partial def parseExpr : List String → Option (FExpr × List String)
  | "cmp" :: op :: l :: r :: ws => do
    let op ← parseOp op; let l ← parseOperand l; let r ← parseOperand r
    pure (.cmp op l r, ws)
  | "oth" :: op :: l :: r :: ws => do
    let op ← parseOther op; let l ← parseOperand l; let r ← parseOperand r
    pure (.other op l r, ws)
  | "atom" :: o :: ws => (parseOperand o).map fun o => (.atom o, ws)
  | "and" :: ws => do
    let (a, ws) ← parseExpr ws; let (b, ws) ← parseExpr ws
    pure (.and a b, ws)
  | "or" :: ws => do
    let (a, ws) ← parseExpr ws; let (b, ws) ← parseExpr ws
    pure (.or a b, ws)
  | "not" :: ws => do
    let (a, ws) ← parseExpr ws
    pure (.not a, ws)
  | _ => none

/-- a field value: a scalar token, or a flat array `A(tok,tok,…)` / `A()` -/
def parseFieldValue (v : String) : Option Value :=
  if v.startsWith "A(" && v.endsWith ")" then
    let inner := ((v.drop 2).dropEnd 1).toString
    if inner.isEmpty then some (.array [])
    else ((inner.splitOn ",").mapM parseLit).map fun ls => .array (ls.map Lit.toValue)
  else (parseLit v).map Lit.toValue

def parseEvent (ws : List String) : Option Event :=
  if ws == ["-"] then some [] else
  ws.mapM fun w => match w.splitOn "=" with
    | [k, v] => (parseFieldValue v).map fun x => (k, x)
    | _ => none

def findingId : Finding → String
  | .eqEpsilon => "C09-eq-epsilon"
  | .errorOperand => "C09-error-operand"

def findingWhy : Finding → String
  | .eqEpsilon => "== / != of a field with a numeric literal: exact Value equality in .where, epsilon equality with int/float mixing in the step"
  | .errorOperand => "operand of or / not without a boolean value in the VPL evaluator (missing field, incomparable types): .where drops the event, the step takes the operand as false"

def step (st : Unit) (line : String) : Unit × String :=
  let (op, impl?) := splitCase line
  let impl := impl?.getD ""
  match words op with
  | [] => (st, "")
  | ["new", _] => (st, "")
  | "flt" :: ws =>
    match splitBars ws, words impl with
    | [te, tv], [w, s, _dw, _ds, s2] =>
      match parseExpr te, parseEvent tv with
      | some (e, []), some ev =>
        let mw := whereAccepts e ev
        let ms := stepAccepts e ev
        let model := s!"{b01 mw} {b01 ms} {b01 mw} {b01 ms} {b01 ms}"
        if w != s || w != s2 then
          -- a failing input of C09; by `where_step_agree_partial` the guard fails, and says why
          match whyWeak e ev with
          | none => (st, s!"JUDGE C09 the filter selects differently (where={w} step={s} derived-stream step={s2}) outside every listed guard")
          | some f =>
            if model != impl then (st, s!"DIFF model={model}")
            else (st, s!"KNOWN[{findingId f}] where={w} step={s}: {findingWhy f}")
        else if model != impl then (st, s!"DIFF model={model}")
        else (st, "ok")
      | _, _ => (st, "BADLINE")
    | _, _ => (st, "BADLINE")
  | _ => (st, "BADLINE")

--! vmodel: filter => Varpulis.Driver.FilterD.driver
def driver : Prop' Unit := { init := (), step := step }

end Varpulis.Driver.FilterD
