import Varpulis.Model.Filter
import Varpulis.Driver.Value
/-! `vmodel filter`: C09 — replays `flt <expr> | <event> => w s dw ds s2` (accepted by the `.where`
stream / by the sequence step through the engine; by the VPL evaluator / by `eval_predicate`
directly; by a step on the derived stream `F = T.where(e)`), compares with the model and classifies failing inputs (`w ≠ s`) under the guards of the
known findings. -/
namespace Varpulis.Driver.FilterD
open Varpulis.Val Varpulis.Filter Varpulis.Driver Varpulis.Driver.ValueD

def parseLit (w : String) : Option Lit :=
  if w == "N" then some .null
  else if w == "B0" then some (.bool false)
  else if w == "B1" then some (.bool true)
  else match w.front with
    | 'I' => (rest1 w).toInt?.map .int
    | 'F' => (parseHex (rest1 w)).map fun n => .float ⟨n⟩
    | 'S' => (parseHexString (rest1 w)).map .str
    | _ => none

def parseArith (w : String) : Option ArithOp :=
  match w with
  | "add" => some .add | "sub" => some .sub | "mul" => some .mul | "div" => some .div
  | _ => none

/-- an operand: `f:<name>` | a literal token | `ar <add|sub|mul|div> <operand> <operand>` -/
partial def parseOperand : List String → Option (Operand × List String)
  | "ar" :: op :: ws => do
    let op ← parseArith op
    let (a, ws) ← parseOperand ws
    let (b, ws) ← parseOperand ws
    pure (.arith op a b, ws)
  | w :: ws =>
    if w.startsWith "f:" then some (.field (w.drop 2).toString, ws) else (parseLit w).map fun l => (.lit l, ws)
  | [] => none

def parseOp (w : String) : Option CmpOp :=
  match w with
  | "eq" => some .eq | "ne" => some .ne | "lt" => some .lt | "le" => some .le | "gt" => some .gt | "ge" => some .ge
  | _ => none

def parseOther (w : String) : Option OtherOp :=
  match w with
  | "in" => some .isIn | "nin" => some .notIn | "is" => some .is
  | _ => none

/-- prefix notation: `cmp <op> <l> <r>` | `oth <in|nin|is> <l> <r>` | `atom <o>` | `and A B` | `or A B` | `not A` -/
partial def parseExpr : List String → Option (FExpr × List String)
  | "cmp" :: op :: ws => do
    let op ← parseOp op; let (l, ws) ← parseOperand ws; let (r, ws) ← parseOperand ws
    pure (.cmp op l r, ws)
  | "oth" :: op :: ws => do
    let op ← parseOther op; let (l, ws) ← parseOperand ws; let (r, ws) ← parseOperand ws
    pure (.other op l r, ws)
  | "atom" :: ws => (parseOperand ws).map fun (o, ws) => (.atom o, ws)
  | "and" :: ws => do
    let (a, ws) ← parseExpr ws; let (b, ws) ← parseExpr ws
    pure (.and a b, ws)
  | "or" :: ws => do
    let (a, ws) ← parseExpr ws; let (b, ws) ← parseExpr ws
    pure (.or a b, ws)
  | "not" :: ws => do
    let (a, ws) ← parseExpr ws
    pure (.not a, ws)
  | _ => none

/-- a field value: a scalar token, or a flat array `A(tok,tok,…)` / `A()` -/
def parseFieldValue (v : String) : Option Value :=
  if v.startsWith "A(" && v.endsWith ")" then
    let inner := ((v.drop 2).dropEnd 1).toString
    if inner.isEmpty then some (.array [])
    else ((inner.splitOn ",").mapM parseLit).map fun ls => .array (ls.map Lit.toValue)
  else (parseLit v).map Lit.toValue

def parseEvent (ws : List String) : Option Event :=
  if ws == ["-"] then some [] else
  ws.mapM fun w => match w.splitOn "=" with
    | [k, v] => (parseFieldValue v).map fun x => (k, x)
    | _ => none

def findingId : Finding → String
  | .eqEpsilon => "C09-eq-epsilon"
  | .errorOperand => "C09-error-operand"

def findingWhy : Finding → String
  | .eqEpsilon => "== / != of a field with a numeric literal: exact Value equality in .where, epsilon equality with int/float mixing in the step"
  | .errorOperand => "operand of or / not without a boolean value in the VPL evaluator (missing field, incomparable types): .where drops the event, the step takes the operand as false"

def step (st : Unit) (line : String) : Unit × String :=
  let (op, impl?) := splitCase line
  let impl := impl?.getD ""
  match words op with
  | [] => (st, "")
  | ["new", _] => (st, "")
  | "flt" :: ws =>
    match splitBars ws, words impl with
    | [te, tv], [w, s, _dw, _ds, s2] =>
      match parseExpr te, parseEvent tv with
      | some (e, []), some ev =>
        -- through the engine `.where` (and the derived stream's `.where`) sees the folded expression,
        -- the step filter the expression as written; the direct calls get the expression as written
        let fe := foldE e
        let mw := whereAccepts fe ev
        let ms := stepAccepts e ev
        let ms2 := stepAccepts fe ev
        let model := s!"{b01 mw} {b01 ms} {b01 (whereAccepts e ev)} {b01 ms} {b01 ms2}"
        if w != s || w != s2 then
          -- a failing input of C09; by `where_step_agree_frontend` / `where_step_agree_partial` a guard fails, and says why
          let reason : Option (String × String) :=
            if !identFree e then some ("C09-fold-identity", "the parser applies its type-blind identity rewrites (x*1, x+0, x-0, x/1 -> x; x*0 -> 0) to .where but not to the step filter")
            else match orElse (whyWeak e ev) (whyWeak fe ev) with
              | some f => some (findingId f, findingWhy f)
              | none => none
          match reason with
          | none => (st, s!"JUDGE C09 the filter selects differently (where={w} step={s} derived-stream step={s2}) outside every listed guard")
          | some (id, why) =>
            if model != impl then (st, s!"DIFF model={model}")
            else (st, s!"KNOWN[{id}] where={w} step={s} derived-stream step={s2}: {why}")
        else if model != impl then (st, s!"DIFF model={model}")
        else (st, "ok")
      | _, _ => (st, "BADLINE")
    | _, _ => (st, "BADLINE")
  | _ => (st, "BADLINE")

--! vmodel: filter => Varpulis.Driver.FilterD.driver
def driver : Prop' Unit := { init := (), step := step }

end Varpulis.Driver.FilterD
