/-!
# M-TENANT — the tenant API as key-indexed operations (C28)

Mirrors `crates/varpulis-runtime/src/tenant.rs` (`TenantManager`: `tenants`, `api_key_index`,
`get_tenant_by_api_key`, `get_tenant`, `get_tenant_mut`, `deploy_pipeline_on_tenant`; `Tenant`:
`deploy_pipeline_with_metrics`, `remove_pipeline`, `process_event`, `checkpoint_pipeline`,
`restore_pipeline`, `reload_pipeline`, `subscribe_pipeline_logs`, `usage`) and the twelve pipeline
handlers of `crates/varpulis-cli/src/api.rs` (`handle_deploy`, `handle_list`, `handle_get`,
`handle_delete`, `handle_inject`, `handle_inject_batch`, `handle_checkpoint`, `handle_restore`,
`handle_metrics`, `handle_reload`, `handle_usage`, `handle_logs`).

Every handler has the same skeleton, which the model keeps explicit:
`key ↦ get_tenant_by_api_key ↦ tenant id ↦ get_tenant(_mut) ↦ operation on THAT tenant`.
The engine behind a pipeline is abstract (`EngineOps`): the theorems hold whatever the engine does.
Not modelled: the one-second rate window of `TenantUsage::record_event` (the quotas used by the
tie are never reached), Prometheus metrics, the optional state store, connectors.
-/
namespace Varpulis.TenantApi

/-- what the tenant layer needs from an engine; `ε` = engine state, `ι` = injected event,
`ο` = output event, `κ` = checkpoint -/
structure EngineOps (ε ι ο κ : Type) where
  /-- `varpulis_parser::parse` succeeds? (`TenantError::ParseError` otherwise) -/
  parses : String → Bool
  /-- `Engine::new` + `load` (`None` = `TenantError::EngineError`) -/
  load : String → Option ε
  /-- `Engine::process` + draining `output_rx` (`None` = `TenantError::EngineError`) -/
  process : ε → ι → Option (ε × List ο)
  checkpoint : ε → κ
  restore : ε → κ → Option ε
  reload : ε → String → Option ε

structure Pipeline (ε : Type) where
  id : String
  name : String
  source : String
  running : Bool
  engine : ε

/-- `TenantUsage` (without the rate window) -/
structure Usage where
  eventsProcessed : Nat
  outputEventsEmitted : Nat
  activePipelines : Nat
  deriving DecidableEq, Repr

structure Tenant (ε : Type) where
  id : String
  name : String
  apiKey : String
  maxPipelines : Nat
  usage : Usage
  /-- `HashMap<String, Pipeline>`; most recent insertion first, lookups take the first match -/
  pipelines : List (Pipeline ε)

/-- `TenantManager` -/
structure Manager (ε : Type) where
  tenants : List (Tenant ε)
  /-- `api_key_index` -/
  index : List (String × String)

section
variable {ε ι ο κ : Type}

/-- `get_tenant_by_api_key` -/
def Manager.tenantByKey (m : Manager ε) (key : String) : Option String := m.index.lookup key

/-- `get_tenant` -/
def Manager.getTenant (m : Manager ε) (tid : String) : Option (Tenant ε) := m.tenants.find? (·.id == tid)

/-- write-back of what a handler did through `get_tenant_mut` -/
def Manager.setTenant (m : Manager ε) (tid : String) (t : Tenant ε) : Manager ε :=
  { m with tenants := m.tenants.map fun u => if u.id == tid then t else u }

def Tenant.getPipeline (t : Tenant ε) (pid : String) : Option (Pipeline ε) := t.pipelines.find? (·.id == pid)

def Tenant.setPipeline (t : Tenant ε) (pid : String) (p : Pipeline ε) : Tenant ε :=
  { t with pipelines := t.pipelines.map fun q => if q.id == pid then p else q }

/-! ## requests and responses -/

inductive Op (ι κ : Type)
  | deploy (name source newId : String)   -- `newId`: the UUID `deploy_pipeline` draws
  | list
  | get (pid : String)
  | delete (pid : String)
  | inject (pid : String) (ev : ι)
  | injectBatch (pid : String) (evs : List ι)
  | checkpoint (pid : String)
  | restore (pid : String) (ck : κ)
  | metrics (pid : String)
  | reload (pid source : String)
  | usage
  | logs (pid : String)

structure PipelineInfo where
  id : String
  name : String
  status : String
  source : String
  deriving DecidableEq, Repr

inductive Resp (ο κ : Type)
  | unauthorized                       -- 401 invalid_api_key
  | tenantNotFound                     -- 404 tenant_not_found
  | pipelineNotFound                   -- 404 pipeline_not_found
  | quotaExceeded                      -- 429
  | parseError                         -- 400
  | engineError                        -- 500
  | deployed (id name : String)        -- 201
  | pipelines (l : List PipelineInfo)  -- 200
  | pipeline (i : PipelineInfo)
  | deleted
  | injected (out : List ο)
  | batch (accepted : Nat) (out : List ο)
  | checkpointed (pid : String) (ck : κ)
  | restored (pid : String)
  | metrics (pid : String) (eventsProcessed outputEventsEmitted : Nat)
  | reloaded
  | usage (tenantId : String) (u : Usage) (maxPipelines : Nat)
  | logStream                          -- 200, SSE subscription to the pipeline's broadcast

def Pipeline.info (p : Pipeline ε) : PipelineInfo :=
  { id := p.id, name := p.name, status := if p.running then "running" else "stopped", source := p.source }

/-! ## operations on ONE tenant (`impl Tenant`) -/

/-- `Tenant::process_event`: the event is counted before the pipeline is looked up -/
def Tenant.processEvent (ops : EngineOps ε ι ο κ) (t : Tenant ε) (pid : String) (ev : ι) :
    Tenant ε × Except (Resp ο κ) (List ο) :=
  let t1 := { t with usage := { t.usage with eventsProcessed := t.usage.eventsProcessed + 1 } }
  match t1.getPipeline pid with
  | none => (t1, .error .pipelineNotFound)
  | some p =>
    if !p.running then (t1, .error .engineError)
    else match ops.process p.engine ev with
      | none => (t1, .error .engineError)
      | some (e', out) => (t1.setPipeline pid { p with engine := e' }, .ok out)

/-- the loop of `handle_inject_batch`: failed events are skipped silently -/
def Tenant.processBatch (ops : EngineOps ε ι ο κ) (pid : String) :
    List ι → Tenant ε → Nat → List ο → Tenant ε × Nat × List ο
  | [], t, acc, out => (t, acc, out)
  | ev :: evs, t, acc, out =>
    match t.processEvent ops pid ev with
    | (t', .ok o) => Tenant.processBatch ops pid evs t' (acc + 1) (out ++ o)
    | (t', .error _) => Tenant.processBatch ops pid evs t' acc out

/-- the body of a handler once the tenant is in hand: new tenant state and reply -/
def Tenant.apply (ops : EngineOps ε ι ο κ) (t : Tenant ε) : Op ι κ → Tenant ε × Resp ο κ
  | .deploy name source newId =>          -- deploy_pipeline_with_metrics
    if t.pipelines.length ≥ t.maxPipelines then (t, .quotaExceeded)
    else if !ops.parses source then (t, .parseError)
    else match ops.load source with
      | none => (t, .engineError)
      | some e =>
        let ps := { id := newId, name := name, source := source, running := true, engine := e } ::
          t.pipelines.filter (·.id != newId)
        ({ t with pipelines := ps, usage := { t.usage with activePipelines := ps.length } }, .deployed newId name)
  | .list => (t, .pipelines (t.pipelines.map Pipeline.info))
  | .get pid =>
    match t.getPipeline pid with
    | some p => (t, .pipeline p.info)
    | none => (t, .pipelineNotFound)
  | .delete pid =>                          -- remove_pipeline
    match t.getPipeline pid with
    | none => (t, .pipelineNotFound)
    | some _ =>
      let ps := t.pipelines.filter (·.id != pid)
      ({ t with pipelines := ps, usage := { t.usage with activePipelines := ps.length } }, .deleted)
  | .inject pid ev =>
    match t.processEvent ops pid ev with
    | (t', .ok out) => (t', .injected out)
    | (t', .error r) => (t', r)
  | .injectBatch pid evs =>
    let (t', acc, out) := Tenant.processBatch ops pid evs t 0 []
    (t', .batch acc out)
  | .checkpoint pid =>
    match t.getPipeline pid with
    | some p => (t, .checkpointed pid (ops.checkpoint p.engine))
    | none => (t, .pipelineNotFound)
  | .restore pid ck =>
    match t.getPipeline pid with
    | none => (t, .pipelineNotFound)
    | some p =>
      match ops.restore p.engine ck with
      | some e' => (t.setPipeline pid { p with engine := e' }, .restored pid)
      | none => (t, .engineError)
  | .metrics pid =>
    match t.getPipeline pid with
    | some _ => (t, .metrics pid t.usage.eventsProcessed t.usage.outputEventsEmitted)
    | none => (t, .pipelineNotFound)
  | .reload pid source =>                   -- reload_pipeline: parse first, then look the pipeline up
    if !ops.parses source then (t, .parseError)
    else match t.getPipeline pid with
      | none => (t, .pipelineNotFound)
      | some p =>
        match ops.reload p.engine source with
        | some e' => (t.setPipeline pid { p with engine := e', source := source }, .reloaded)
        | none => (t, .engineError)
  | .usage => (t, .usage t.id t.usage t.maxPipelines)
  | .logs pid =>
    match t.getPipeline pid with
    | some _ => (t, .logStream)
    | none => (t, .pipelineNotFound)

/-! ## the handlers: `(state, key, args) ↦ (state, reply)` -/

/-- every pipeline handler of cli/api.rs: key → tenant id → tenant → operation on that tenant -/
def handle (ops : EngineOps ε ι ο κ) (m : Manager ε) (key : String) (op : Op ι κ) : Manager ε × Resp ο κ :=
  match m.tenantByKey key with
  | none => (m, .unauthorized)
  | some tid =>
    match m.getTenant tid with
    | none => (m, .tenantNotFound)
    | some t =>
      let (t', r) := t.apply ops op
      (m.setTenant tid t', r)

structure Request (ι κ : Type) where
  key : String
  op : Op ι κ

/-- a request sequence: final state and the replies in order -/
def run (ops : EngineOps ε ι ο κ) : Manager ε → List (Request ι κ) → Manager ε × List (Resp ο κ)
  | m, [] => (m, [])
  | m, q :: qs =>
    let (m1, r) := handle ops m q.key q.op
    let (m2, rs) := run ops m1 qs
    (m2, r :: rs)

/-- the replies to the requests that carry a key of tenant `tid` -/
def repliesFor (ops : EngineOps ε ι ο κ) (tid : String) : Manager ε → List (Request ι κ) → List (Resp ο κ)
  | _, [] => []
  | m, q :: qs =>
    let (m1, r) := handle ops m q.key q.op
    if m.tenantByKey q.key == some tid then r :: repliesFor ops tid m1 qs else repliesFor ops tid m1 qs

end

/-! ## the concrete engine the tie uses

Pipelines of the form `stream Out = E .where(x > thr) .emit(x: x)`; events `E { x: <int> }`.
Source token `<thr>` stands for that program, any other token for a text the parser rejects. -/

structure ThrEngine where
  thr : Int
  processed : Nat
  deriving DecidableEq, Repr

def thrOps : EngineOps ThrEngine Int Int Nat where
  parses s := s.toInt?.isSome
  load s := s.toInt?.map fun t => { thr := t, processed := 0 }
  process e x := some ({ e with processed := e.processed + 1 }, if x > e.thr then [x] else [])
  checkpoint e := e.processed
  restore e ck := some { e with processed := ck }
  -- `Engine::reload` (since the repairs d12ab68 / 0e9b4cf in /repo: declarations are compared
  -- structurally) applies an edited predicate although the stream's shape is unchanged; the engine's
  -- event counter is kept
  reload e s := s.toInt?.map fun t => { e with thr := t }

end Varpulis.TenantApi
