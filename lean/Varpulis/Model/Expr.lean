/-!
# M-EXPR — expression evaluation, numeric comparison, constant folding

Mirrors (crates/varpulis-runtime/src/engine/evaluator.rs, crates/varpulis-parser/src/optimize.rs,
crates/varpulis-runtime/src/sase.rs, crates/varpulis-core/src/value.rs):
`eval_expr_with_functions`, `eval_builtin_function`, `eval_binary_op`, `cmp_int_float`,
`fold_expr`/`fold_binary`/`fold_unary`, `compare_values`/`values_compare`, `Value::eq`.

Numbers are exact: `i64` is Lean's `Int64` (two's complement, wrapping operators), a finite `f64`
is the dyadic rational `±m·2^e` it denotes (`F.fin`), with explicit tokens for NaN and ±∞; `-0.0`
is `fin true 0 _`. Everything that is *exact* in IEEE-754 (comparison, negation, abs, trunc, floor,
ceil, round, the saturating cast `as i64`, the rounding cast `i64 as f64`) is defined here on the
exact values. Everything that *rounds* (`+ - * / %`, `powi`, `powf`, `sqrt`, `ln`, …) is a parameter
(`FOps`): theorems hold for every such arithmetic, the driver plugs in the hardware's.

`Mode.old` is the unchanged tree in the debug profile (checked `+ - *`, unary minus, `abs`,
`MIN / -1`; missing `<=`/`>=` mixed arms; lossy `i64 as f64` comparisons; the self-recursive
catch-all arm). `Mode.fixed` is the tree after the `fix:` commits — the code the checks run against.
-/
namespace Varpulis.Expr

/-! ## f64 as exact values -/

/-- an `f64`: NaN, ±∞, or the finite value `(-1)^neg · m · 2^e` (`m = 0`: ±0.0) -/
inductive F where
  /-- NaN; only its sign bit is kept (the payload is never observable here) -/
  | nan (neg : Bool)
  | inf (neg : Bool)
  | fin (neg : Bool) (m : Nat) (e : Int)
  deriving DecidableEq, Repr, Inhabited

/-- three-way comparison of integers -/
def icmp (a b : Int) : Ordering := if a < b then .lt else if a = b then .eq else .gt

/-- a dyadic rational `num · 2^exp` -/
structure Dy where
  num : Int
  exp : Int
  deriving Repr

/-- the rational number a dyadic `num · 2^exp` denotes -/
def Dy.toRat (d : Dy) : Rat := (d.num : Rat) * (2 : Rat) ^ d.exp

/-- `x` expressed in units of `2^m` (for `m ≤ x.exp`): an integer -/
def Dy.scaled (x : Dy) (m : Int) : Int := x.num * 2 ^ (x.exp - m).toNat

/-- the mathematical order of two dyadic rationals: compare them in units of the smaller exponent -/
def Dy.cmp (x y : Dy) : Ordering :=
  icmp (x.scaled (min x.exp y.exp)) (y.scaled (min x.exp y.exp))

/-- extended reals restricted to what `i64` and non-NaN `f64` denote -/
inductive Ext where
  | ninf
  | fin (d : Dy)
  | pinf
  deriving Repr

/-- the mathematical order on `Ext` -/
def Ext.cmp : Ext → Ext → Ordering
  | .ninf, .ninf => .eq
  | .ninf, .fin _ => .lt
  | .ninf, .pinf => .lt
  | .fin _, .ninf => .gt
  | .fin x, .fin y => Dy.cmp x y
  | .fin _, .pinf => .lt
  | .pinf, .ninf => .gt
  | .pinf, .fin _ => .gt
  | .pinf, .pinf => .eq

def Ordering.rev : Ordering → Ordering
  | .lt => .gt | .eq => .eq | .gt => .lt

namespace F

def isNan : F → Bool
  | .nan _ => true | _ => false

def snum (neg : Bool) (m : Nat) : Int := if neg then -(m : Int) else (m : Int)

/-- the value denoted (none for NaN) -/
def ext : F → Option Ext
  | .nan _ => none
  | .inf true => some .ninf
  | .inf false => some .pinf
  | .fin s m e => some (.fin ⟨snum s m, e⟩)

/-- `f64::partial_cmp` — IEEE comparison is exact: the order of the denoted values, none with NaN -/
def cmp (a b : F) : Option Ordering :=
  match a.ext, b.ext with
  | some x, some y => some (Ext.cmp x y)
  | _, _ => none

def lt (a b : F) : Bool := cmp a b == some .lt
def le (a b : F) : Bool := cmp a b == some .lt || cmp a b == some .eq
def gt (a b : F) : Bool := cmp a b == some .gt
def ge (a b : F) : Bool := cmp a b == some .gt || cmp a b == some .eq
/-- IEEE `==` -/
def eqIeee (a b : F) : Bool := cmp a b == some .eq

def isZero : F → Bool
  | .fin _ 0 _ => true | _ => false

/-- value.rs `float_eq`: NaN = NaN, -0.0 = 0.0, otherwise IEEE `==` -/
def floatEq (a b : F) : Bool :=
  if a.isNan && b.isNan then true
  else if a.isZero && b.isZero then true
  else eqIeee a b

def neg : F → F
  | .nan s => .nan (!s)
  | .inf s => .inf (!s)
  | .fin s m e => .fin (!s) m e

def abs : F → F
  | .nan _ => .nan false
  | .inf _ => .inf false
  | .fin _ m e => .fin false m e

/-- `f64::trunc` -/
def trunc : F → F
  | .fin s m e => if 0 ≤ e then .fin s m e else .fin s (m / 2 ^ (-e).toNat) 0
  | x => x

/-- `f64::floor` -/
def floor : F → F
  | .fin s m e =>
    if 0 ≤ e then .fin s m e
    else
      let p := 2 ^ (-e).toNat
      if s && m % p != 0 then .fin s (m / p + 1) 0 else .fin s (m / p) 0
  | x => x

/-- `f64::ceil` -/
def ceil : F → F
  | .fin s m e =>
    if 0 ≤ e then .fin s m e
    else
      let p := 2 ^ (-e).toNat
      if !s && m % p != 0 then .fin s (m / p + 1) 0 else .fin s (m / p) 0
  | x => x

/-- `f64::round` (half away from zero) -/
def round : F → F
  | .fin s m e =>
    if 0 ≤ e then .fin s m e
    else
      let p := 2 ^ (-e).toNat
      if p ≤ 2 * (m % p) then .fin s (m / p + 1) 0 else .fin s (m / p) 0
  | x => x

/-- saturate an integer into `i64` -/
def sat (v : Int) : Int64 :=
  if v < -(2 ^ 63) then Int64.minValue
  else if 2 ^ 63 - 1 < v then Int64.maxValue
  else Int64.ofInt v

/-- the integer part (toward zero) of a finite value -/
def truncInt (s : Bool) (m : Nat) (e : Int) : Int :=
  if 0 ≤ e then snum s (m * 2 ^ e.toNat) else snum s (m / 2 ^ (-e).toNat)

/-- Rust `f as i64`: NaN → 0, saturating, toward zero -/
def toI64 : F → Int64
  | .nan _ => 0
  | .inf true => Int64.minValue
  | .inf false => Int64.maxValue
  | .fin s m e => sat (truncInt s m e)

/-- round a natural number to 53 significant bits, ties to even: `(mantissa, shift)` with
value `mantissa · 2^shift` -/
def round53 (n : Nat) : Nat × Nat :=
  if n < 2 ^ 53 then (n, 0)
  else
    let sh := n.log2 + 1 - 53
    let q := n / 2 ^ sh
    let r := n % 2 ^ sh
    let half := 2 ^ (sh - 1)
    if half < r || (r == half && q % 2 == 1) then (q + 1, sh) else (q, sh)

/-- Rust `n as f64` for `i64` (round to nearest, ties to even) -/
def ofI64 (a : Int64) : F :=
  let (m, sh) := round53 a.toInt.natAbs
  .fin (decide (a.toInt < 0)) m sh

/-- Rust `n as f64` for `usize` -/
def ofNat (n : Nat) : F :=
  let (m, sh) := round53 n
  .fin false m sh

/-- `f64::min`: a NaN operand is ignored -/
def min (a b : F) : F :=
  if a.isNan then b else if b.isNan then a else if lt b a then b else a

/-- `f64::max` -/
def max (a b : F) : F :=
  if a.isNan then b else if b.isNan then a else if lt a b then b else a

/-- position of the class of a float in `f64::total_cmp`: -NaN < -inf < finite < +inf < +NaN -/
def cls : F → Nat
  | .nan true => 0 | .inf true => 1 | .fin _ _ _ => 2 | .inf false => 3 | .nan false => 4

/-- `f64::total_cmp` up to NaN payloads: by class, finite values by value, `-0.0 < +0.0` -/
def totalCmp (a b : F) : Ordering :=
  match a, b with
  | .fin s1 m1 e1, .fin s2 m2 e2 =>
    match Dy.cmp ⟨snum s1 m1, e1⟩ ⟨snum s2 m2, e2⟩ with
    | .eq => icmp (if s1 then 0 else 1) (if s2 then 0 else 1)
    | o => o
  | _, _ => icmp (cls a) (cls b)

def isInf : F → Bool
  | .inf _ => true | _ => false

def zero : F := .fin false 0 0
def negZero : F := .fin true 0 0
def two63 : F := .fin false 1 63
def negTwo63 : F := .fin true 1 63

end F

/-- the rounding operations of the hardware: a parameter of the model -/
structure FOps where
  add : F → F → F
  sub : F → F → F
  mul : F → F → F
  div : F → F → F
  rem : F → F → F
  /-- `f64::powi(x, n as i32)` -/
  powi : F → Int → F
  powf : F → F → F
  /-- `sqrt`, `ln`, `log10`, `exp`, `sin`, `cos`, `tan` by name -/
  fn1 : String → F → F
  /-- `str::to_lowercase` / `to_uppercase` (full Unicode case mapping) -/
  lower : String → String
  upper : String → String
  /-- `Display` of an `f64` (shortest round-trip decimal) and of a timestamp (chrono) -/
  fmtFloat : F → String
  fmtTs : Int64 → String

/-! ## i64 -/

def i64cmp (a b : Int64) : Ordering := icmp a.toInt b.toInt

/-- Rust `n as i32` then widened: the exponent handed to `powi` -/
def asI32 (b : Int64) : Int := b.toInt32.toInt

/-- Rust `n as usize` for an `i64` -/
def asUsize (b : Int64) : Nat := b.toUInt64.toNat

/-- `cmp_int_float` (evaluator.rs, added by the C08 repair): the exact order of an `i64` and an
`f64`, computed with exact float operations only (`>=`, `<`, `trunc`, `as i64`, `partial_cmp`). -/
def cmpIntFloat (a : Int64) (b : F) : Option Ordering :=
  if b.isNan then none
  else if F.ge b F.two63 then some .lt
  else if F.lt b F.negTwo63 then some .gt
  else
    let t := b.trunc
    match i64cmp a t.toI64 with
    | .eq => F.cmp t b
    | o => some o

/-! ## Values -/

inductive Value where
  | null
  | bool (b : Bool)
  | int (n : Int64)
  | float (f : F)
  | str (s : String)
  | ts (n : Int64)
  | dur (n : Nat)
  | arr (xs : List Value)
  | map (kvs : List (String × Value))
  deriving Repr, Inhabited

mutual
/-- `impl PartialEq for Value` (maps compare order-independently, as `IndexMap` does) -/
def Value.eq : Value → Value → Bool
  | .null, .null => true
  | .bool a, .bool b => a == b
  | .int a, .int b => a == b
  | .float a, .float b => F.floatEq a b
  | .str a, .str b => a == b
  | .ts a, .ts b => a == b
  | .dur a, .dur b => a == b
  | .arr a, .arr b => Value.eqList a b
  | .map a, .map b => a.length == b.length && Value.subMap a b
  | _, _ => false
def Value.eqList : List Value → List Value → Bool
  | [], [] => true
  | x :: xs, y :: ys => Value.eq x y && Value.eqList xs ys
  | _, _ => false
def Value.subMap : List (String × Value) → List (String × Value) → Bool
  | [], _ => true
  | (k, v) :: rest, b =>
    (match b.lookup k with
     | some w => Value.eq v w
     | none => false) && Value.subMap rest b
end

def Value.asBool : Value → Option Bool
  | .bool b => some b | _ => none

/-- `Value::as_int` (floats are cast) -/
def Value.asInt : Value → Option Int64
  | .int n => some n
  | .float f => some f.toI64
  | _ => none

/-- `arr.contains(v)` -/
def containsVal (xs : List Value) (v : Value) : Bool := xs.any fun x => Value.eq x v

/-- `IndexMap::insert`: replace in place or append -/
def mapInsert (kvs : List (String × Value)) (k : String) (v : Value) : List (String × Value) :=
  if kvs.any (·.1 == k) then kvs.map fun (k', v') => if k' == k then (k', v) else (k', v')
  else kvs ++ [(k, v)]

/-- `str::contains(sub)` -/
def strContains (s sub : String) : Bool := sub.isEmpty || (s.splitOn sub).length > 1

/-! ## Expressions (varpulis_core::ast::Expr) -/

inductive BinOp where
  | add | sub | mul | div | mod | pow
  | eq | ne | lt | le | gt | ge | inn | notIn | is
  | and | or | xor
  | followedBy | bitAnd | bitOr | bitXor | shl | shr
  deriving DecidableEq, Repr

inductive UnOp where
  | neg | not | bitNot
  deriving DecidableEq, Repr

inductive Expr where
  | null
  | bool (b : Bool)
  | int (n : Int64)
  | float (f : F)
  | str (s : String)
  | dur (n : Nat)
  | ts (n : Int64)
  | arr (xs : List Expr)
  | map (keys : List String) (vals : List Expr)
  | ident (x : String)
  | bin (op : BinOp) (l r : Expr)
  | un (op : UnOp) (e : Expr)
  | member (e : Expr) (m : String)
  | optMember (e : Expr) (m : String)
  | index (e i : Expr)
  | slice (e : Expr) (s : Option Expr) (en : Option Expr)
  /-- `Arg::Positional(e)` and `Arg::Named(_, e)` are evaluated alike; only the expressions are kept -/
  | call (f : Expr) (args : List Expr)
  | lambda (params : List String) (body : Expr)
  | ite (c t e : Expr)
  | coalesce (e d : Expr)
  | range (s e : Expr) (incl : Bool)
  | block (names : List String) (vals : List Expr) (res : Expr)
  deriving Repr, Inhabited

/-! ## Evaluation -/

inductive Mode where
  | old
  | fixed
  deriving DecidableEq, Repr

/-- outcome of an evaluation: `Some(v)`, `None`, a panic, or unbounded recursion -/
inductive Res where
  | val (v : Value)
  | none
  | panic
  | diverge
  deriving Repr, Inhabited

/-- neither a panic nor unbounded recursion -/
def Res.safe : Res → Prop
  | .panic => False
  | .diverge => False
  | _ => True

/-- the `?` operator -/
def Res.bind (r : Res) (k : Value → Res) : Res :=
  match r with
  | .val v => k v
  | .none => .none
  | .panic => .panic
  | .diverge => .diverge

def Res.ofOption : Option Value → Res
  | some v => .val v
  | Option.none => .none

structure Env where
  etype : String
  fields : List (String × Value)
  binds : List (String × Value) := []
  captured : List (String × List (String × Value)) := []
  deriving Repr, Inhabited

/-- outcome of evaluating a list of expressions with `filter_map`: the values of those that
evaluate, unless one of them fails first -/
inductive LRes where
  | vals (vs : List Value)
  | panic
  | diverge

def collect : List Res → LRes
  | [] => .vals []
  | r :: rs =>
    match r with
    | .panic => .panic
    | .diverge => .diverge
    | .none => collect rs
    | .val v =>
      match collect rs with
      | .vals vs => .vals (v :: vs)
      | o => o

/-- map literal: evaluate the values in order, skip the missing ones, later keys overwrite -/
def collectMap : List String → List Res → List (String × Value) → Res
  | k :: ks, r :: rs, acc =>
    match r with
    | .panic => .panic
    | .diverge => .diverge
    | .none => collectMap ks rs acc
    | .val v => collectMap ks rs (mapInsert acc k v)
  | _, _, acc => .val (.map acc)

/-! ### integer arithmetic -/

def inI64 (v : Int) : Bool := decide (-(2 ^ 63) ≤ v) && decide (v ≤ 2 ^ 63 - 1)

/-- `a + b` on `i64`: checked in the debug profile (old), `wrapping_add` (fixed) -/
def iadd (md : Mode) (a b : Int64) : Res :=
  if md == .old && !inI64 (a.toInt + b.toInt) then .panic else .val (.int (a + b))
def isub (md : Mode) (a b : Int64) : Res :=
  if md == .old && !inI64 (a.toInt - b.toInt) then .panic else .val (.int (a - b))
def imul (md : Mode) (a b : Int64) : Res :=
  if md == .old && !inI64 (a.toInt * b.toInt) then .panic else .val (.int (a * b))
def ineg (md : Mode) (a : Int64) : Res :=
  if md == .old && a == Int64.minValue then .panic else .val (.int (-a))
/-- Rust `/` and `wrapping_div` both panic on a zero divisor; `/` also on `MIN / -1` -/
def idiv (md : Mode) (a b : Int64) : Res :=
  if b == 0 then .panic
  else if md == .old && a == Int64.minValue && b == -1 then .panic
  else .val (.int (a / b))
def irem (md : Mode) (a b : Int64) : Res :=
  if b == 0 then .panic
  else if md == .old && a == Int64.minValue && b == -1 then .panic
  else .val (.int (a % b))
/-- `i64::abs` (checked in debug) / `wrapping_abs` -/
def iabs (md : Mode) (a : Int64) : Res :=
  if a < 0 then ineg md a else .val (.int a)

/-- `(a as f64).powi(b as i32) as i64` -/
def ipow (fo : FOps) (a b : Int64) : Int64 := (fo.powi (F.ofI64 a) (asI32 b)).toI64

/-! ### comparisons -/

inductive CmpOp where
  | lt | le | gt | ge
  deriving DecidableEq, Repr

/-- does an ordering satisfy the operator (`None`, i.e. NaN, satisfies none) -/
def CmpOp.holds : CmpOp → Option Ordering → Bool
  | .lt, some .lt => true
  | .le, some .lt => true
  | .le, some .eq => true
  | .gt, some .gt => true
  | .ge, some .gt => true
  | .ge, some .eq => true
  | _, _ => false

/-- the `Lt/Le/Gt/Ge` arms of `eval_expr_with_functions` and of `eval_binary_op` (identical) -/
def cmpVals (md : Mode) (op : CmpOp) (l r : Value) : Res :=
  match l, r with
  | .int a, .int b => .val (.bool (op.holds (some (i64cmp a b))))
  | .float a, .float b => .val (.bool (op.holds (F.cmp a b)))
  | .int a, .float b =>
    match md with
    | .fixed => .val (.bool (op.holds (cmpIntFloat a b)))
    | .old =>
      if op == .lt || op == .gt then .val (.bool (op.holds (F.cmp (F.ofI64 a) b))) else .none
  | .float a, .int b =>
    match md with
    | .fixed => .val (.bool (op.holds ((cmpIntFloat b a).map Ordering.rev)))
    | .old =>
      if op == .lt || op == .gt then .val (.bool (op.holds (F.cmp a (F.ofI64 b)))) else .none
  | _, _ => .none

def strCmp (a b : String) : Ordering := if a < b then .lt else if a == b then .eq else .gt

/-- the `Lt/Le/Gt/Ge` arms of `eval_expr_with_functions`: the numeric arms plus Str × Str (bytewise
= code-point order) -/
def cmpValsExpr (md : Mode) (op : CmpOp) (l r : Value) : Res :=
  match md, l, r with
  | .fixed, .str a, .str b => .val (.bool (op.holds (some (strCmp a b))))
  | _, _, _ => cmpVals md op l r

/-- sase.rs `values_compare` (strings compare bytewise; only the numeric arms matter for C08) -/
def saseCompare (md : Mode) (l r : Value) : Option Ordering :=
  match l, r with
  | .int a, .int b => some (i64cmp a b)
  | .float a, .float b => F.cmp a b
  | .int a, .float b =>
    match md with
    | .fixed => cmpIntFloat a b
    | .old => F.cmp (F.ofI64 a) b
  | .float a, .int b =>
    match md with
    | .fixed => (cmpIntFloat b a).map Ordering.rev
    | .old => F.cmp a (F.ofI64 b)
  | .str a, .str b => some (strCmp a b)
  | _, _ => none

/-- sase.rs `compare_values` for `Lt/Le/Gt/Ge` -/
def saseCmp (md : Mode) (op : CmpOp) (l r : Value) : Bool := op.holds (saseCompare md l r)

/-! ### the property's oracle and the evaluation contexts (C08) -/

/-- the value an `i64` denotes -/
def intExt (a : Int64) : Ext := .fin ⟨a.toInt, 0⟩

/-- the number a numeric operand denotes (none for NaN and for non-numbers) -/
def numExt : Value → Option Ext
  | .int a => some (intExt a)
  | .float f => f.ext
  | _ => none

/-- the mathematical truth of `x op y` -/
def mathCmp (op : CmpOp) (x y : Ext) : Bool := op.holds (some (Ext.cmp x y))

def CmpOp.toBinOp : CmpOp → BinOp
  | .lt => .lt | .le => .le | .gt => .gt | .ge => .ge

/-! ### binary operators -/

def toCmpOp : BinOp → Option CmpOp
  | .lt => some .lt | .le => some .le | .gt => some .gt | .ge => some .ge | _ => none

/-- float operand of a mixed arithmetic arm -/
def numF : Value → Option F
  | .int a => some (F.ofI64 a)
  | .float f => some f
  | _ => none

def isZeroNum : Value → Bool
  | .int b => b == 0
  | .float b => F.eqIeee b F.zero
  | _ => false

/-- the `Binary` arm of `eval_expr_with_functions` once both operands are values -/
def binop (fo : FOps) (md : Mode) (op : BinOp) (l r : Value) : Res :=
  match op with
  | .add =>
    match l, r with
    | .int a, .int b => iadd md a b
    | .float a, .float b => .val (.float (fo.add a b))
    | .int a, .float b => .val (.float (fo.add (F.ofI64 a) b))
    | .float a, .int b => .val (.float (fo.add a (F.ofI64 b)))
    | .str a, .str b => .val (.str (a ++ b))
    | _, _ => .none
  | .sub =>
    match l, r with
    | .int a, .int b => isub md a b
    | .float a, .float b => .val (.float (fo.sub a b))
    | .int a, .float b => .val (.float (fo.sub (F.ofI64 a) b))
    | .float a, .int b => .val (.float (fo.sub a (F.ofI64 b)))
    | _, _ => .none
  | .mul =>
    match l, r with
    | .int a, .int b => imul md a b
    | .float a, .float b => .val (.float (fo.mul a b))
    | .int a, .float b => .val (.float (fo.mul (F.ofI64 a) b))
    | .float a, .int b => .val (.float (fo.mul a (F.ofI64 b)))
    | _, _ => .none
  | .div =>
    match l, r with
    | .int a, .int b => if b != 0 then idiv md a b else .none
    | .float a, .float b => if !F.eqIeee b F.zero then .val (.float (fo.div a b)) else .none
    | .int a, .float b => if !F.eqIeee b F.zero then .val (.float (fo.div (F.ofI64 a) b)) else .none
    | .float a, .int b => if b != 0 then .val (.float (fo.div a (F.ofI64 b))) else .none
    | _, _ => .none
  | .mod =>
    match l, r with
    | .int a, .int b => if b != 0 then irem md a b else .none
    | .float a, .float b => if !F.eqIeee b F.zero then .val (.float (fo.rem a b)) else .none
    | .int a, .float b => if !F.eqIeee b F.zero then .val (.float (fo.rem (F.ofI64 a) b)) else .none
    | .float a, .int b => if b != 0 then .val (.float (fo.rem a (F.ofI64 b))) else .none
    | _, _ => .none
  | .pow =>
    match l, r with
    | .int a, .int b => .val (.int (ipow fo a b))
    | .float a, .int b => .val (.float (fo.powi a (asI32 b)))
    | .float a, .float b => .val (.float (fo.powf a b))
    | .int a, .float b => .val (.float (fo.powf (F.ofI64 a) b))
    | _, _ => .none
  | .eq => .val (.bool (Value.eq l r))
  | .ne => .val (.bool (!Value.eq l r))
  | .lt => cmpValsExpr md .lt l r
  | .le => cmpValsExpr md .le l r
  | .gt => cmpValsExpr md .gt l r
  | .ge => cmpValsExpr md .ge l r
  | .inn =>
    match l, r with
    | v, .arr xs => .val (.bool (containsVal xs v))
    | .str k, .map kvs => .val (.bool (kvs.any (·.1 == k)))
    | .str sub, .str s => .val (.bool (strContains s sub))
    | _, _ => .none
  | .notIn =>
    match l, r with
    | v, .arr xs => .val (.bool (!containsVal xs v))
    | .str k, .map kvs => .val (.bool (!kvs.any (·.1 == k)))
    | .str sub, .str s => .val (.bool (!strContains s sub))
    | _, _ => .none
  | .and =>
    match l.asBool, r.asBool with
    | some a, some b => .val (.bool (a && b))
    | _, _ => .none
  | .or =>
    match l.asBool, r.asBool with
    | some a, some b => .val (.bool (a || b))
    | _, _ => .none
  | .xor =>
    match l.asBool, r.asBool with
    | some a, some b => .val (.bool (a != b))
    | _, _ => .none
  | _ => .none

/-- the `Ge`/`Le` arms of `eval_binary_op`: Int × Int and Float × Float only — the mixed arms are
still missing there (tests/evaluator_pattern_tests.rs pins `None`), see the known finding of C08 -/
def cmpValsSameKind (op : CmpOp) (l r : Value) : Res :=
  match l, r with
  | .int a, .int b => .val (.bool (op.holds (some (i64cmp a b))))
  | .float a, .float b => .val (.bool (op.holds (F.cmp a b)))
  | _, _ => .none

/-- `eval_binary_op` (pattern expressions): `<`/`>` as above, `<=`/`>=` without mixed arms,
`==`/`!=`, lenient `and`/`or` -/
def patternBinop (md : Mode) (op : BinOp) (l r : Value) : Res :=
  match op with
  | .gt => cmpVals md .gt l r
  | .lt => cmpVals md .lt l r
  | .ge => cmpValsSameKind .ge l r
  | .le => cmpValsSameKind .le l r
  | .eq => .val (.bool (Value.eq l r))
  | .ne => .val (.bool (!Value.eq l r))
  | .and => .val (.bool ((l.asBool.getD false) && (r.asBool.getD false)))
  | .or => .val (.bool ((l.asBool.getD false) || (r.asBool.getD false)))
  | _ => .none

def unop (md : Mode) (op : UnOp) (v : Value) : Res :=
  match op, v with
  | .neg, .int n => ineg md n
  | .neg, .float f => .val (.float f.neg)
  | .not, .bool b => .val (.bool (!b))
  | _, _ => .none

/-- where a comparison is evaluated: `.where`/`.having`/`.emit` (`eval_expr_with_functions`),
`.pattern` lambdas (`eval_binary_op`), sequence-step filters (sase.rs `compare_values`) -/
inductive Ctx where
  | expr | pattern | sase
  deriving DecidableEq, Repr

/-- the truth value a comparison of two values produces in a context (none: no value) -/
def evalCmp (fo : FOps) (md : Mode) (ctx : Ctx) (op : CmpOp) (l r : Value) : Option Bool :=
  match ctx with
  | .expr =>
    match binop fo md op.toBinOp l r with
    | .val (.bool b) => some b
    | _ => none
  | .pattern =>
    match patternBinop md op.toBinOp l r with
    | .val (.bool b) => some b
    | _ => none
  | .sase => some (saseCmp md op l r)

/-- one operand an integer, the other a float -/
def mixedKinds (l r : Value) : Bool :=
  match l, r with
  | .int _, .float _ => true
  | .float _, .int _ => true
  | _, _ => false

/-- the gap left in `.pattern` lambdas: `<=`/`>=` between an integer and a float (known finding
`C08-pattern-le-ge-mixed`) -/
def patternGap (ctx : Ctx) (op : CmpOp) (l r : Value) : Bool :=
  ctx == .pattern && (op == .le || op == .ge) && mixedKinds l r

/-! ### indexing and slicing -/

/-- `&xs[s..e]`: Rust panics unless `s ≤ e ≤ len` -/
def sliceP {α : Type} (xs : List α) (s e : Nat) : Option (List α) :=
  if s ≤ e ∧ e ≤ xs.length then some ((xs.drop s).take (e - s)) else none

/-- index normalisation of `Expr::Index`: negative counts from the end (`(len as i64 + idx) as usize`) -/
def normIndex (len : Nat) (idx : Int64) : Nat :=
  if idx < 0 then asUsize (Int64.ofInt (len : Int) + idx) else asUsize idx

def charStr (c : Char) : Value := .str (String.singleton c)

def indexVal (c i : Value) : Res :=
  match c, i with
  | .arr xs, .int idx => Res.ofOption (xs[normIndex xs.length idx]?)
  | .map kvs, .str k => Res.ofOption (kvs.lookup k)
  | .str s, .int idx => Res.ofOption ((s.toList[normIndex s.length idx]?).map charStr)
  | _, _ => .none

/-- a slice bound: `.and_then(eval).and_then(as_int).unwrap_or(default) as usize` -/
def boundOf (r : Option Res) (dflt : Nat) : Res ⊕ Nat :=
  match r with
  | Option.none => .inr dflt
  | some (.val v) =>
    match v.asInt with
    | some n => .inr (asUsize n)
    | Option.none => .inr dflt
  | some .none => .inr dflt
  | some .panic => .inl .panic
  | some .diverge => .inl .diverge

/-- `xs[start..min(end, len)]` of `Expr::Slice`; the range indexing can panic in Rust, the guard
`start ≤ min(end, len)` is what prevents it -/
def sliceCore {α : Type} (xs : List α) (start : Nat) (endB : Nat → Res ⊕ Nat) (mk : List α → Value) : Res :=
  match endB xs.length with
  | .inl r => r
  | .inr e0 =>
    if start ≤ Nat.min e0 xs.length then
      match sliceP xs start (Nat.min e0 xs.length) with
      | some ys => .val (mk ys)
      | Option.none => .panic
    else .val (mk [])

/-- body of `Expr::Slice` after the container and the start bound are known -/
def sliceVal (c : Value) (start : Nat) (endB : Nat → Res ⊕ Nat) : Res :=
  match c with
  | .arr xs => sliceCore xs start endB Value.arr
  | .str s => sliceCore s.toList start endB (fun ys => .str (String.ofList ys))
  | _ => .none

/-! ### built-in functions -/

def typeName : Value → String
  | .int _ => "int" | .float _ => "float" | .str _ => "string" | .bool _ => "bool"
  | .arr _ => "array" | .map _ => "map" | .null => "null" | .dur _ => "duration" | .ts _ => "timestamp"

/-- `str::parse::<i64>`: optional sign, at least one ASCII digit, in range -/
def parseI64 (s : String) : Option Int64 :=
  let cs := s.toList
  let (neg, ds) := match cs with
    | '-' :: r => (true, r)
    | '+' :: r => (false, r)
    | r => (false, r)
  if ds.isEmpty || !ds.all Char.isDigit then none
  else
    let n : Nat := ds.foldl (fun acc c => acc * 10 + (c.toNat - 48)) 0
    let v : Int := if neg then -(n : Int) else n
    if inI64 v then some (Int64.ofInt v) else none

/-- the numbers of an array as floats (`filter_map` of `sum`/`avg`) -/
def numsOf (xs : List Value) : List F := xs.filterMap numF

/-- `iter().sum::<f64>()`: left fold from `-0.0` -/
def fsum (fo : FOps) (fs : List F) : F := fs.foldl fo.add F.negZero

/-! Each `b…` below is one arm of `eval_builtin_function` (argument list → result). -/

def bAbs (md : Mode) : List Value → Res
  | .int n :: _ => iabs md n
  | .float f :: _ => .val (.float f.abs)
  | _ => .none
/-- `sqrt`, `log` (= ln), `log10`, `exp`, `sin`, `cos`, `tan`: integers are cast first -/
def bFn1 (fo : FOps) (name : String) : List Value → Res
  | .int n :: _ => .val (.float (fo.fn1 name (F.ofI64 n)))
  | .float f :: _ => .val (.float (fo.fn1 name f))
  | _ => .none
def bFloor : List Value → Res
  | .float f :: _ => .val (.int f.floor.toI64)
  | .int n :: _ => .val (.int n)
  | _ => .none
def bCeil : List Value → Res
  | .float f :: _ => .val (.int f.ceil.toI64)
  | .int n :: _ => .val (.int n)
  | _ => .none
def bRound : List Value → Res
  | .float f :: _ => .val (.int f.round.toI64)
  | .int n :: _ => .val (.int n)
  | _ => .none
def bPow (fo : FOps) : List Value → Res
  | [.int a, .int b] => .val (.int (ipow fo a b))
  | [.float a, .int b] => .val (.float (fo.powi a (asI32 b)))
  | [.float a, .float b] => .val (.float (fo.powf a b))
  | [.int a, .float b] => .val (.float (fo.powf (F.ofI64 a) b))
  | _ => .none
def bMin : List Value → Res
  | [.int a, .int b] => .val (.int (if b < a then b else a))
  | [.float a, .float b] => .val (.float (F.min a b))
  | [.int a, .float b] => .val (.float (F.min (F.ofI64 a) b))
  | [.float a, .int b] => .val (.float (F.min a (F.ofI64 b)))
  | _ => .none
def bMax : List Value → Res
  | [.int a, .int b] => .val (.int (if a < b then b else a))
  | [.float a, .float b] => .val (.float (F.max a b))
  | [.int a, .float b] => .val (.float (F.max (F.ofI64 a) b))
  | [.float a, .int b] => .val (.float (F.max a (F.ofI64 b)))
  | _ => .none
def bLen : List Value → Res
  | .str s :: _ => .val (.int (Int64.ofNat s.utf8ByteSize))
  | .arr xs :: _ => .val (.int (Int64.ofNat xs.length))
  | .map kvs :: _ => .val (.int (Int64.ofNat kvs.length))
  | _ => .none
def bFirst : List Value → Res
  | .arr xs :: _ => Res.ofOption xs.head?
  | _ => .none
def bLast : List Value → Res
  | .arr xs :: _ => Res.ofOption xs.getLast?
  | _ => .none
def bPush : List Value → Res
  | [.arr xs, v] => .val (.arr (xs ++ [v]))
  | _ => .none
def bPop : List Value → Res
  | .arr xs :: _ => if xs.isEmpty then .none else .val (.arr xs.dropLast)
  | _ => .none
def bReverse : List Value → Res
  | .arr xs :: _ => .val (.arr xs.reverse)
  | .str s :: _ => .val (.str (String.ofList s.toList.reverse))
  | _ => .none
def bContains : List Value → Res
  | [.arr xs, v] => .val (.bool (containsVal xs v))
  | [.str s, .str sub] => .val (.bool (strContains s sub))
  | [.map kvs, .str k] => .val (.bool (kvs.any (·.1 == k)))
  | _ => .none
def bKeys : List Value → Res
  | .map kvs :: _ => .val (.arr (kvs.map fun kv => .str kv.1))
  | _ => .none
def bValues : List Value → Res
  | .map kvs :: _ => .val (.arr (kvs.map (·.2)))
  | _ => .none
def bGet : List Value → Res
  | [.arr xs, .int idx] => Res.ofOption (xs[asUsize idx]?)
  | [.map kvs, .str k] => Res.ofOption (kvs.lookup k)
  | _ => .none
/-- `arr[idx] = val` would panic out of bounds; guarded by `idx < arr.len()` -/
def setP (xs : List Value) (i : Nat) (v : Value) : Res :=
  if i < xs.length then .val (.arr (xs.set i v)) else .panic
def bSet : List Value → Res
  | [.arr xs, .int idx, v] => if asUsize idx < xs.length then setP xs (asUsize idx) v else .val (.arr xs)
  | [.map kvs, .str k, v] => .val (.map (mapInsert kvs k v))
  | _ => .none
def bSum (fo : FOps) : List Value → Res
  | .arr xs :: _ => .val (.float (fsum fo (numsOf xs)))
  | _ => .none
def bAvg (fo : FOps) : List Value → Res
  | .arr xs :: _ =>
    if (numsOf xs).isEmpty then .val (.float F.zero)
    else .val (.float (fo.div (fsum fo (numsOf xs)) (F.ofNat (numsOf xs).length)))
  | _ => .none
def bToInt : List Value → Res
  | .int n :: _ => .val (.int n)
  | .float f :: _ => .val (.int f.toI64)
  | .str s :: _ => Res.ofOption ((parseI64 s).map Value.int)
  | .bool b :: _ => .val (.int (if b then 1 else 0))
  | _ => .none
/-- (`Str` arguments — float parsing — are outside the model) -/
def bToFloat : List Value → Res
  | .int n :: _ => .val (.float (F.ofI64 n))
  | .float f :: _ => .val (.float f)
  | _ => .none
def bStartsWith : List Value → Res
  | [.str s, .str p] => .val (.bool (s.startsWith p))
  | _ => .none
def bEndsWith : List Value → Res
  | [.str s, .str p] => .val (.bool (s.endsWith p))
  | _ => .none
/-- `chars[start..end]` would panic; guarded by `start <= end && end <= chars.len()` -/
def substrCore (s : String) (start en : Nat) : Res :=
  if start ≤ en ∧ en ≤ s.toList.length then
    match sliceP s.toList start en with
    | some ys => .val (.str (String.ofList ys))
    | Option.none => .panic
  else .none
def bSubstring : List Value → Res
  | [.str s, .int st] => substrCore s (asUsize st) s.utf8ByteSize
  | .str s :: .int st :: .int en :: _ => substrCore s (asUsize st) (asUsize en)
  | _ => .none
def bTypeOf : List Value → Res
  | v :: _ => .val (.str (typeName v))
  | _ => .none
def bIs (p : Value → Bool) : List Value → Res
  | v :: _ => .val (.bool (p v))
  | _ => .none

/-! #### strings, formatting, sorting -/

/-- Unicode `White_Space` (what `str::trim` strips) -/
def isWs (c : Char) : Bool :=
  let n := c.toNat
  (9 ≤ n && n ≤ 13) || n == 32 || n == 0x85 || n == 0xA0 || n == 0x1680 || (0x2000 ≤ n && n ≤ 0x200A) ||
    n == 0x2028 || n == 0x2029 || n == 0x202F || n == 0x205F || n == 0x3000

def trimChars (cs : List Char) : List Char :=
  ((cs.dropWhile isWs).reverse.dropWhile isWs).reverse

/-- `str::split(sep)` for a non-empty separator: leftmost non-overlapping matches -/
def splitGo (sep : List Char) : Nat → List Char → List Char → List (List Char)
  | 0, _, cur => [cur.reverse]
  | _ + 1, [], cur => [cur.reverse]
  | fuel + 1, c :: rest, cur =>
    if sep.isPrefixOf (c :: rest) then cur.reverse :: splitGo sep fuel ((c :: rest).drop sep.length) []
    else splitGo sep fuel rest (c :: cur)

/-- `str::split(sep)`; the empty separator matches at every boundary, ends included -/
def splitChars (s sep : List Char) : List (List Char) :=
  if sep.isEmpty then [[]] ++ s.map (fun c => [c]) ++ [[]]
  else splitGo sep (s.length + 1) s []

def joinChars (sep : List Char) : List (List Char) → List Char
  | [] => []
  | [x] => x
  | x :: xs => x ++ sep ++ joinChars sep xs

/-- `Display for Value::Duration` -/
def showDur (n : Nat) : String :=
  let secs := n / 1000000000
  if secs ≥ 86400 then toString (secs / 86400) ++ "d"
  else if secs ≥ 3600 then toString (secs / 3600) ++ "h"
  else if secs ≥ 60 then toString (secs / 60) ++ "m"
  else if secs > 0 then toString secs ++ "s"
  else if n / 1000000 > 0 then toString (n / 1000000) ++ "ms"
  else toString (n / 1000) ++ "us"

mutual
/-- `impl Display for Value` (`format!("{}", v)`) -/
def Value.show (fo : FOps) : Value → String
  | .null => "null"
  | .bool b => if b then "true" else "false"
  | .int n => toString n.toInt
  | .float f => fo.fmtFloat f
  | .str s => "\"" ++ s ++ "\""
  | .ts n => fo.fmtTs n
  | .dur n => showDur n
  | .arr xs => "[" ++ Value.showList fo xs ++ "]"
  | .map kvs => "{" ++ Value.showMap fo kvs ++ "}"
def Value.showList (fo : FOps) : List Value → String
  | [] => ""
  | [x] => Value.show fo x
  | x :: y :: xs => Value.show fo x ++ ", " ++ Value.showList fo (y :: xs)
def Value.showMap (fo : FOps) : List (String × Value) → String
  | [] => ""
  | [(k, v)] => k ++ ": " ++ Value.show fo v
  | (k, v) :: p :: rest => k ++ ": " ++ Value.show fo v ++ ", " ++ Value.showMap fo (p :: rest)
end

/-- the kind rank of the repaired `sort` comparator -/
def sortKind : Value → Nat
  | .int _ => 0 | .float _ => 1 | .str _ => 2 | _ => 3

/-- the comparator of `sort` (after 8cbc5cc): a total preorder -/
def sortCmp (a b : Value) : Ordering :=
  match a, b with
  | .int x, .int y => i64cmp x y
  | .float x, .float y => F.totalCmp x y
  | .str x, .str y => strCmp x y
  | _, _ => icmp (sortKind a) (sortKind b)

/-- insert behind every element that is not greater (stable) -/
def insertBy (x : Value) : List Value → List Value
  | [] => [x]
  | y :: ys => if sortCmp x y == .lt then x :: y :: ys else y :: insertBy x ys

/-- `slice::sort_by` is a stable sort; for a total preorder every stable sort yields this list -/
def stableSort (xs : List Value) : List Value := xs.foldl (fun acc x => insertBy x acc) []

def bSort : List Value → Res
  | .arr xs :: _ => .val (.arr (stableSort xs))
  | _ => .none
def bToString (fo : FOps) : List Value → Res
  | v :: _ => .val (.str (Value.show fo v))
  | _ => .none
def bTrim : List Value → Res
  | .str s :: _ => .val (.str (String.ofList (trimChars s.toList)))
  | _ => .none
def bLower (fo : FOps) : List Value → Res
  | .str s :: _ => .val (.str (fo.lower s))
  | _ => .none
def bUpper (fo : FOps) : List Value → Res
  | .str s :: _ => .val (.str (fo.upper s))
  | _ => .none
def bSplit : List Value → Res
  | [.str s, .str sep] => .val (.arr ((splitChars s.toList sep.toList).map fun p => .str (String.ofList p)))
  | _ => .none
def bJoin (fo : FOps) : List Value → Res
  | [.arr xs, .str sep] => .val (.str (sep.intercalate (xs.map (Value.show fo))))
  | _ => .none
/-- `str::replace(from, to)` = split at `from`, join with `to` (also for the empty pattern) -/
def bReplace : List Value → Res
  | [.str s, .str from', .str to] =>
    .val (.str (String.ofList (joinChars to.toList (splitChars s.toList from'.toList))))
  | _ => .none

/-- the modelled subset of `eval_builtin_function` (names outside it are listed in
`unmodelledBuiltins` and are never compared by the correspondence) -/
def builtinTable (fo : FOps) (md : Mode) : List (String × (List Value → Res)) :=
  [("abs", bAbs md), ("sqrt", bFn1 fo "sqrt"), ("log", bFn1 fo "ln"), ("log10", bFn1 fo "log10"),
   ("exp", bFn1 fo "exp"), ("sin", bFn1 fo "sin"), ("cos", bFn1 fo "cos"), ("tan", bFn1 fo "tan"), ("floor", bFloor), ("ceil", bCeil), ("round", bRound),
   ("pow", bPow fo), ("min", bMin), ("max", bMax), ("len", bLen), ("first", bFirst), ("last", bLast),
   ("push", bPush), ("pop", bPop), ("reverse", bReverse), ("contains", bContains), ("keys", bKeys),
   ("values", bValues), ("get", bGet), ("set", bSet), ("sum", bSum fo), ("avg", bAvg fo),
   ("to_int", bToInt), ("to_float", bToFloat), ("starts_with", bStartsWith), ("ends_with", bEndsWith),
   ("substring", bSubstring), ("type_of", bTypeOf),
   ("is_null", bIs fun v => match v with | .null => true | _ => false),
   ("is_int", bIs fun v => match v with | .int _ => true | _ => false),
   ("is_float", bIs fun v => match v with | .float _ => true | _ => false),
   ("is_string", bIs fun v => match v with | .str _ => true | _ => false),
   ("is_bool", bIs fun v => match v with | .bool _ => true | _ => false),
   ("is_array", bIs fun v => match v with | .arr _ => true | _ => false),
   ("is_map", bIs fun v => match v with | .map _ => true | _ => false),
   ("sort", bSort), ("to_string", bToString fo), ("trim", bTrim), ("lower", bLower fo),
   ("lowercase", bLower fo), ("upper", bUpper fo), ("uppercase", bUpper fo), ("split", bSplit),
   ("join", bJoin fo), ("replace", bReplace)]

/-- `eval_builtin_function` -/
def builtin (fo : FOps) (md : Mode) (name : String) (args : List Value) : Res :=
  match (builtinTable fo md).lookup name with
  | some f => f args
  | Option.none => .none

/-- built-ins of `eval_builtin_function` that the model does not cover (float formatting, Unicode
case mapping, float parsing, range sizes, sort's comparator) -/
def unmodelledBuiltins : List String := ["range"]

/-! ### pattern expressions (`.pattern(name: events => …)`) -/


/-- `filter_map` of the numbers of an array, then `fold(INFINITY, f64::min)` -/
def fminAll (fs : List F) : F := fs.foldl F.min (.inf false)
def fmaxAll (fs : List F) : F := fs.foldl F.max (.inf true)

/-- the array aggregates shared by the function form `avg(xs)` and the method form `xs.avg()` -/
def patAgg (fo : FOps) (name : String) (xs : List Value) : Option Res :=
  let ns := numsOf xs
  match name with
  | "sum" => some (.val (.float (fsum fo ns)))
  | "avg" =>
    some (if ns.isEmpty then .val (.float F.zero)
          else .val (.float (fo.div (fsum fo ns) (F.ofNat ns.length))))
  | "min" => some (if (fminAll ns).isInf then .none else .val (.float (fminAll ns)))
  | "max" => some (if (fmaxAll ns).isInf then .none else .val (.float (fmaxAll ns)))
  | "first" => some (Res.ofOption xs.head?)
  | "last" => some (Res.ofOption xs.getLast?)
  | _ => none

def pairs : List Value → List Value
  | a :: b :: rest => .arr [a, b] :: pairs (b :: rest)
  | _ => []

def flattenVals (xs : List Value) : List Value :=
  xs.flatMap fun v => match v with | .arr ys => ys | v => [v]

def resVal? : Res → Option Value
  | .val v => some v
  | _ => none

def paramOr (ps : List String) : String := ps.headD "x"

mutual
/-- `eval_pattern_expr` (`.pattern` lambdas); `vars` = `pattern_vars`, newest binding first -/
def evalPat (fo : FOps) (md : Mode) : List (String × Value) → Expr → Res
  | vars, .block names vals res => evalPat fo md (evalPatLets fo md vars names vals) res
  | vars, .lambda _ body => evalPat fo md vars body
  | vars, .ident x => Res.ofOption (vars.lookup x)
  | _, .int n => .val (.int n)
  | _, .float f => .val (.float f)
  | _, .bool b => .val (.bool b)
  | _, .str s => .val (.str s)
  | vars, .bin op l r =>
    (evalPat fo md vars l).bind fun lv => (evalPat fo md vars r).bind fun rv => patternBinop md op lv rv
  | vars, .member recv m =>
    (evalPat fo md vars recv).bind fun rv =>
      match rv with
      | .map kvs => Res.ofOption (kvs.lookup m)
      | _ => .none
  | vars, .call (.member recv m) args =>
    (evalPat fo md vars recv).bind fun rv =>
      match rv with
      | .arr xs =>
        match m, args with
        | "filter", .lambda ps body :: _ =>
          .val (.arr (xs.filter fun item =>
            match evalPat fo md ((paramOr ps, item) :: vars) body with
            | .val (.bool true) => true
            | _ => false))
        | "map", .lambda ps body :: _ =>
          .val (.arr (xs.filterMap fun item =>
            match ps with
            | p0 :: p1 :: _ =>
              (match item with
               | .arr (a :: b :: _) => resVal? (evalPat fo md ((p1, b) :: (p0, a) :: vars) body)
               | _ => Option.none)
            | _ => resVal? (evalPat fo md ((paramOr ps, item) :: vars) body)))
        | "flatten", _ => .val (.arr (flattenVals xs))
        | "len", _ => .val (.int (Int64.ofNat xs.length))
        | "count", _ => .val (.int (Int64.ofNat xs.length))
        | "sliding_pairs", _ => .val (.arr (pairs xs))
        | name, _ =>
          match patAgg fo name xs with
          | some r => r
          | Option.none => .none
      | _ => .none
  | vars, .call (.ident f) (a :: _) =>
    match evalPat fo md vars a with
    | .val (.arr xs) =>
      if f == "len" then .val (.int (Int64.ofNat xs.length))
      else if f == "variance" then
        let ns := numsOf xs
        if ns.isEmpty then .val (.float F.zero)
        else
          let mean := fo.div (fsum fo ns) (F.ofNat ns.length)
          .val (.float (fo.div (fsum fo (ns.map fun x => fo.powi (fo.sub x mean) 2)) (F.ofNat ns.length)))
      else
        match patAgg fo f xs with
        | some r => r
        | Option.none => .none
    | _ => .none
  | _, _ => .none
/-- the `let` bindings of a block expression, in order; a binding without a value is skipped -/
def evalPatLets (fo : FOps) (md : Mode) : List (String × Value) → List String → List Expr → List (String × Value)
  | vars, n :: ns, v :: vs =>
    match evalPat fo md vars v with
    | .val x => evalPatLets fo md ((n, x) :: vars) ns vs
    | _ => evalPatLets fo md vars ns vs
  | vars, _, _ => vars
end


/-! ### the evaluator -/

/-- `Expr::Member` (only `alias.field` with an identifier on the left is resolved) -/
def evalMember (env : Env) (obj : Expr) (m : String) : Res :=
  match obj with
  | .ident alias =>
    match env.captured.lookup alias with
    | some ev => Res.ofOption (ev.lookup m)
    | Option.none =>
      let fromBind : Option Value := match env.binds.lookup alias with
        | some (.map kvs) => kvs.lookup m
        | _ => Option.none
      match fromBind with
      | some v => .val v
      | Option.none =>
        match env.fields.lookup (alias ++ "." ++ m) with
        | some v => .val v
        | Option.none =>
          match env.fields.lookup (alias ++ "_" ++ m) with
          | some v => .val v
          | Option.none => if alias == env.etype then Res.ofOption (env.fields.lookup m) else .none
  | _ => .none

mutual
/-- `eval_expr_with_functions` without user-defined functions (`eval_filter_expr` is the same
function with empty bindings) -/
def eval (fo : FOps) (md : Mode) (env : Env) : Expr → Res
  | .ident x =>
    match env.binds.lookup x with
    | some v => .val v
    | Option.none => Res.ofOption (env.fields.lookup x)
  | .null => .val .null
  | .int n => .val (.int n)
  | .float f => .val (.float f)
  | .str s => .val (.str s)
  | .bool b => .val (.bool b)
  | .dur n => .val (.dur n)
  | .arr xs =>
    match collect (evalAll fo md env xs) with
    | .vals vs => .val (.arr vs)
    | .panic => .panic
    | .diverge => .diverge
  | .map ks vs => collectMap ks (evalAll fo md env vs) []
  | .index c i =>
    (eval fo md env c).bind fun cv => (eval fo md env i).bind fun iv => indexVal cv iv
  | .slice c s en =>
    (eval fo md env c).bind fun cv =>
      match boundOf (evalOpt fo md env s) 0 with
      | .inl r => r
      | .inr start => sliceVal cv start (fun len => boundOf (evalOpt fo md env en) len)
  | .range s e incl =>
    match ((eval fo md env s).bind fun v => Res.ofOption (v.asInt.map Value.int)) with
    | .val (.int a) =>
      (match ((eval fo md env e).bind fun v => Res.ofOption (v.asInt.map Value.int)) with
       | .val (.int b) =>
         let n := if incl then (b.toInt + 1 - a.toInt).toNat else (b.toInt - a.toInt).toNat
         .val (.arr ((List.range n).map fun (i : Nat) => .int (Int64.ofInt (a.toInt + (i : Int)))))
       | r => r)
    | r => r
  | .coalesce e d =>
    match eval fo md env e with
    | .val .null => eval fo md env d
    | .none => eval fo md env d
    | r => r
  | .member obj m => evalMember env obj m
  | .call f args =>
    match f with
    | .ident name =>
      match collect (evalAll fo md env args) with
      | .vals vs => builtin fo md name vs
      | .panic => .panic
      | .diverge => .diverge
    | _ => .none
  | .bin op l r =>
    (eval fo md env l).bind fun lv => (eval fo md env r).bind fun rv => binop fo md op lv rv
  | .un op e => (eval fo md env e).bind fun v => unop md op v
  | .ite c t e =>
    (eval fo md env c).bind fun cv =>
      if cv.asBool.getD false then eval fo md env t else eval fo md env e
  -- the catch-all arm `_ => eval_filter_expr(expr, event, ctx)`: calls itself with the same
  -- expression (old), returns `None` (fixed)
  | .ts _ => if md == .old then .diverge else .none
  | .optMember _ _ => if md == .old then .diverge else .none
  | .lambda _ _ => if md == .old then .diverge else .none
  | .block _ _ _ => if md == .old then .diverge else .none
def evalAll (fo : FOps) (md : Mode) (env : Env) : List Expr → List Res
  | [] => []
  | e :: es => eval fo md env e :: evalAll fo md env es
def evalOpt (fo : FOps) (md : Mode) (env : Env) : Option Expr → Option Res
  | Option.none => Option.none
  | some e => some (eval fo md env e)
end

/-- `.where` / `.having`: keep the event iff the filter evaluates to `Some(Bool(true))` -/
def keeps (r : Res) : Bool :=
  match r with
  | .val (.bool true) => true
  | _ => false

/-! ## Constant folding (optimize.rs) -/

/-- first stage of `fold_binary`: both operands literal -/
def foldConst (fo : FOps) (op : BinOp) (l r : Expr) : Option Expr :=
  match op, l, r with
  | .add, .int a, .int b => some (.int (a + b))
  | .sub, .int a, .int b => some (.int (a - b))
  | .mul, .int a, .int b => some (.int (a * b))
  | .div, .int a, .int b => if b != 0 then some (.int (a / b)) else none
  | .mod, .int a, .int b => if b != 0 then some (.int (a % b)) else none
  | .pow, .int a, .int b => if 0 ≤ b then some (.int (ipow fo a b)) else none
  | .add, .float a, .float b => some (.float (fo.add a b))
  | .sub, .float a, .float b => some (.float (fo.sub a b))
  | .mul, .float a, .float b => some (.float (fo.mul a b))
  | .div, .float a, .float b => if !F.eqIeee b F.zero then some (.float (fo.div a b)) else none
  | _, _, _ => none

def isInt0 : Expr → Bool
  | .int n => n == 0 | _ => false
def isInt1 : Expr → Bool
  | .int n => n == 1 | _ => false

/-- second stage of `fold_binary`: identity rewrites. Returns the replacement and the operand
whose integer-ness the rewrite silently assumes. -/
def foldIdent (op : BinOp) (l r : Expr) : Option (Expr × Expr) :=
  match op with
  | .mul =>
    if isInt0 r then some (.int 0, l)
    else if isInt0 l then some (.int 0, r)
    else if isInt1 r then some (l, l)
    else if isInt1 l then some (r, r)
    else none
  | .add =>
    if isInt0 r then some (l, l)
    else if isInt0 l then some (r, r)
    else none
  | .sub => if isInt0 r then some (l, l) else none
  | .div => if isInt1 r then some (l, l) else none
  | _ => none

/-- `fold_binary`; `idents = false` is the folder without its identity rewrites -/
def foldBinary (fo : FOps) (idents : Bool) (op : BinOp) (l r : Expr) : Expr :=
  match foldConst fo op l r with
  | some e => e
  | none =>
    if idents then
      match foldIdent op l r with
      | some (e, _) => e
      | none => .bin op l r
    else .bin op l r

/-- `fold_unary` -/
def foldUnary (op : UnOp) (e : Expr) : Expr :=
  match op, e with
  | .neg, .int a => .int (-a)
  | .neg, .float a => .float a.neg
  | _, _ => .un op e

mutual
/-- `fold_expr` -/
def fold (fo : FOps) (idents : Bool) : Expr → Expr
  | .bin op l r => foldBinary fo idents op (fold fo idents l) (fold fo idents r)
  | .un op e => foldUnary op (fold fo idents e)
  | .call f args => .call (fold fo idents f) (foldAll fo idents args)
  | .arr xs => .arr (foldAll fo idents xs)
  | .map ks vs => .map ks (foldAll fo idents vs)
  | .lambda ps b => .lambda ps (fold fo idents b)
  | .ite c t e => .ite (fold fo idents c) (fold fo idents t) (fold fo idents e)
  | .coalesce e d => .coalesce (fold fo idents e) (fold fo idents d)
  | .range s e incl => .range (fold fo idents s) (fold fo idents e) incl
  | .member e m => .member (fold fo idents e) m
  | .optMember e m => .optMember (fold fo idents e) m
  | .index e i => .index (fold fo idents e) (fold fo idents i)
  | .slice e s en => .slice (fold fo idents e) (foldOpt fo idents s) (foldOpt fo idents en)
  | .block ns vs res => .block ns (foldAll fo idents vs) (fold fo idents res)
  | e => e
def foldAll (fo : FOps) (idents : Bool) : List Expr → List Expr
  | [] => []
  | e :: es => fold fo idents e :: foldAll fo idents es
def foldOpt (fo : FOps) (idents : Bool) : Option Expr → Option Expr
  | Option.none => Option.none
  | some e => some (fold fo idents e)
end

/-! ### where the identity rewrites are type-unsafe (guard of the known finding) -/

def isIdent : Expr → Bool
  | .ident _ => true
  | _ => false

def Res.isInt : Res → Bool
  | .val (.int _) => true
  | _ => false

/-- an identity rewrite fires at this node on an operand that does not evaluate to an integer -/
def unsafeAt (fo : FOps) (env : Env) (op : BinOp) (l r : Expr) : Bool :=
  match foldConst fo op l r with
  | some _ => false
  | none =>
    match foldIdent op l r with
    | some (_, x) => !(eval fo .fixed env x).isInt
    | none => false

mutual
/-- some identity rewrite performed by `fold` on `e` is applied to a non-integer operand, or turns
the target of a call / the object of a member access (which are inspected syntactically) into a
bare identifier -/
def unsafeIdent (fo : FOps) (env : Env) : Expr → Bool
  | .bin op l r =>
    unsafeIdent fo env l || unsafeIdent fo env r ||
      unsafeAt fo env op (fold fo true l) (fold fo true r)
  | .un _ e => unsafeIdent fo env e
  | .call f args =>
    unsafeIdent fo env f || unsafeIdentAll fo env args || (!isIdent f && isIdent (fold fo true f))
  | .arr xs => unsafeIdentAll fo env xs
  | .map _ vs => unsafeIdentAll fo env vs
  | .lambda _ b => unsafeIdent fo env b
  | .ite c t e => unsafeIdent fo env c || unsafeIdent fo env t || unsafeIdent fo env e
  | .coalesce e d => unsafeIdent fo env e || unsafeIdent fo env d
  | .range s e _ => unsafeIdent fo env s || unsafeIdent fo env e
  | .member e _ => unsafeIdent fo env e || (!isIdent e && isIdent (fold fo true e))
  | .optMember e _ => unsafeIdent fo env e
  | .index e i => unsafeIdent fo env e || unsafeIdent fo env i
  | .slice e s en => unsafeIdent fo env e || unsafeIdentOpt fo env s || unsafeIdentOpt fo env en
  | .block _ vs res => unsafeIdentAll fo env vs || unsafeIdent fo env res
  | _ => false
def unsafeIdentAll (fo : FOps) (env : Env) : List Expr → Bool
  | [] => false
  | e :: es => unsafeIdent fo env e || unsafeIdentAll fo env es
def unsafeIdentOpt (fo : FOps) (env : Env) : Option Expr → Bool
  | Option.none => false
  | some e => unsafeIdent fo env e
end

end Varpulis.Expr
