/-!
# M-WIN — windows as step machines

Executable model of `crates/varpulis-runtime/src/window.rs` (TumblingWindow, SlidingWindow, CountWindow,
SlidingCountWindow, SessionWindow). Timestamps are `Int` ticks (the harness uses milliseconds / seconds),
events carry their arrival index `id` (identity), buffers are `List Ev` in arrival order
(`ColumnarBuffer::push`/`take_all`, `VecDeque::push_back`/`drain(0..k)`).

A window is a `Machine`: `step : σ → Op → σ × List (List Ev)`. The emission list of one step is
`[]` for Rust `None`, `[w]` for `Some(w)` (so `Some(vec![])` is `[[]]`, distinguishable from `None`).
No Mathlib (linked into `vmodel`).
-/
namespace Varpulis.Window

/-- values of a partition field the properties quantify over (`Value::Str`, `Value::Int`) -/
inductive Val where
  | str (s : String)
  | int (i : Int)
  deriving DecidableEq, Repr

/-- an event as far as windows look at it: arrival index, timestamp, partition field (`none` = field missing) -/
structure Ev where
  id : Nat
  ts : Int
  key : Option Val := none
  deriving DecidableEq, Repr

/-- operations of the window API: `add_shared`, `advance_watermark`, `flush_shared`, `check_expired` -/
inductive Op where
  | add (e : Ev)
  | watermark (t : Int)
  | flush
  | expire (now : Int)
  deriving DecidableEq, Repr

/-- event / watermark time of an operation (none for `flush`) -/
def Op.time : Op → Option Int
  | .add e => some e.ts
  | .watermark t => some t
  | .flush => none
  | .expire t => some t

/-- the events handed to `add` in arrival order -/
def adds : List Op → List Ev
  | [] => []
  | .add e :: os => e :: adds os
  | _ :: os => adds os

/-- a generic step machine with a list of emissions per step -/
structure Machine (σ ι β : Type) where
  init : σ
  step : σ → ι → σ × List β

/-- state after running `ops` from `s` -/
def Machine.final (m : Machine σ ι β) : σ → List ι → σ
  | s, [] => s
  | s, o :: os => m.final (m.step s o).1 os

/-- everything emitted while running `ops` from `s`, in order -/
def Machine.emits (m : Machine σ ι β) : σ → List ι → List β
  | _, [] => []
  | s, o :: os => (m.step s o).2 ++ m.emits (m.step s o).1 os

/-- result of a `flush_shared`: the drained buffer; an empty `Vec` is no emission -/
def flushed (b : List Ev) : List (List Ev) := if b = [] then [] else [b]

/-! ## TumblingWindow -/

structure Tumbling where
  start : Option Int := none
  buf : List Ev := []
  deriving DecidableEq, Repr

/-- `TumblingWindow::add_shared`, `advance_watermark`, `flush_shared` (which leaves `window_start` alone). -/
def Tumbling.step (d : Int) (w : Tumbling) : Op → Tumbling × List (List Ev)
  | .add e =>
    -- `if self.window_start.is_none() { self.window_start = Some(event_time) }`
    let st := w.start.getD e.ts
    if e.ts ≥ st + d then
      ({ start := some e.ts, buf := [e] }, [w.buf])       -- `take_all`, new start, push → `Some(completed)`
    else
      ({ start := some st, buf := w.buf ++ [e] }, [])
  | .watermark t =>
    match w.start with
    | some st =>
      if t ≥ st + d ∧ w.buf ≠ [] then ({ start := some t, buf := [] }, [w.buf]) else (w, [])
    | none => (w, [])
  | .flush => ({ w with buf := [] }, flushed w.buf)
  | .expire _ => (w, [])

def tumbling (d : Int) : Machine Tumbling Op (List Ev) := { init := {}, step := Tumbling.step d }

/-! ## CountWindow -/

structure Count where
  buf : List Ev := []
  deriving DecidableEq, Repr

/-- `CountWindow::add_shared` (`push; (len >= count).then(take_all)`), `flush_shared`. -/
def Count.step (n : Nat) (w : Count) : Op → Count × List (List Ev)
  | .add e =>
    let b := w.buf ++ [e]
    if b.length ≥ n then ({ buf := [] }, [b]) else ({ buf := b }, [])
  | .flush => ({ buf := [] }, flushed w.buf)
  | _ => (w, [])

def count (n : Nat) : Machine Count Op (List Ev) := { init := {}, step := Count.step n }

/-! ## SessionWindow -/

structure Session where
  last : Option Int := none
  buf : List Ev := []
  deriving DecidableEq, Repr

/-- `SessionWindow::add_shared` (`event_time - last > gap` closes), `advance_watermark`
(`wm >= last + gap && !empty`), `check_expired` (`now - last > gap`), `flush_shared` (resets `last`). -/
def Session.step (g : Int) (w : Session) : Op → Session × List (List Ev)
  | .add e =>
    match w.last with
    | some l =>
      if e.ts - l > g then ({ last := some e.ts, buf := [e] }, [w.buf])
      else ({ last := some e.ts, buf := w.buf ++ [e] }, [])
    | none => ({ last := some e.ts, buf := w.buf ++ [e] }, [])
  | .watermark t =>
    match w.last with
    | some l => if t ≥ l + g ∧ w.buf ≠ [] then ({}, [w.buf]) else (w, [])
    | none => (w, [])
  | .expire now =>
    match w.last with
    | some l => if now - l > g then ({}, [w.buf]) else (w, [])
    | none => (w, [])
  | .flush => ({}, flushed w.buf)

def session (g : Int) : Machine Session Op (List Ev) := { init := {}, step := Session.step g }

/-! ## SlidingWindow (time) -/

structure Sliding where
  evs : List Ev := []
  lastEmit : Option Int := none
  deriving DecidableEq, Repr

/-- `events.iter().position(|e| e.timestamp >= cutoff).unwrap_or(len)` followed by `drain(0..k)` -/
def expireBefore (cutoff : Int) (l : List Ev) : List Ev := l.dropWhile (fun e => e.ts < cutoff)

/-- `match self.last_emit { None => true, Some(last) => t >= last + slide }` -/
def slideDue (slide : Int) (last : Option Int) (t : Int) : Bool :=
  match last with
  | none => true
  | some l => t ≥ l + slide

/-- `SlidingWindow::add_shared` and `advance_watermark` (no flush API; `flush`/`expire` are no-ops). -/
def Sliding.step (size slide : Int) (w : Sliding) : Op → Sliding × List (List Ev)
  | .add e =>
    let evs := expireBefore (e.ts - size) (w.evs ++ [e])
    if slideDue slide w.lastEmit e.ts then ({ evs := evs, lastEmit := some e.ts }, [evs])
    else ({ evs := evs, lastEmit := w.lastEmit }, [])
  | .watermark t =>
    let evs := expireBefore (t - size) w.evs
    if slideDue slide w.lastEmit t ∧ evs ≠ [] then ({ evs := evs, lastEmit := some t }, [evs])
    else ({ evs := evs, lastEmit := w.lastEmit }, [])
  | _ => (w, [])

def sliding (size slide : Int) : Machine Sliding Op (List Ev) := { init := {}, step := Sliding.step size slide }

/-! ## SlidingCountWindow -/

structure SlidingCount where
  evs : List Ev := []
  since : Nat := 0
  deriving DecidableEq, Repr

/-- `SlidingCountWindow::add_shared`: push, `events_since_emit += 1`, drain the overflow,
emit iff `len >= window_size && events_since_emit >= slide_size`, then reset the counter. -/
def SlidingCount.step (size slide : Nat) (w : SlidingCount) : Op → SlidingCount × List (List Ev)
  | .add e =>
    let all := w.evs ++ [e]
    let since := w.since + 1
    let evs := all.drop (all.length - size)
    if evs.length ≥ size ∧ since ≥ slide then ({ evs := evs, since := 0 }, [evs])
    else ({ evs := evs, since := since }, [])
  | _ => (w, [])

/-- `SlidingCountWindow::new`: since the repair `events_since_emit` starts at
`slide_size.saturating_sub(window_size)`, so that the first emission happens when the window first fills. -/
def slidingCount (size slide : Nat) : Machine SlidingCount Op (List Ev) :=
  { init := { evs := [], since := slide - size }, step := SlidingCount.step size slide }

/-- the constructor before the repair (`events_since_emit: 0`); kept for the defect witness -/
def slidingCountOld (size slide : Nat) : Machine SlidingCount Op (List Ev) :=
  { init := { evs := [], since := 0 }, step := SlidingCount.step size slide }


/-! ## specification-level definitions (used by the theorems of Props/C12, C13 and by the judges of the driver) -/

/-- operations paired with what they emitted -/
def Machine.trace (m : Machine σ ι β) : σ → List ι → List (ι × List β)
  | _, [] => []
  | s, o :: os => (o, (m.step s o).2) :: m.trace (m.step s o).1 os

/-- adjacent pairs of a list -/
def adjacent : List α → List (α × α)
  | a :: b :: l => (a, b) :: adjacent (b :: l)
  | _ => []

/-- the operation times are non-decreasing and not before `now` -/
def InOrderFrom (now : Int) (ops : List Op) : Prop := (now :: ops.filterMap Op.time).Pairwise (· ≤ ·)
/-- in-order timeline: event and watermark times merged monotonically (ties allowed) -/
def InOrder (ops : List Op) : Prop := (ops.filterMap Op.time).Pairwise (· ≤ ·)

/-- what the property says about one tumbling window for in-order input:
arrival order is timestamp order and every event is earlier than the first event plus the duration -/
def TumblingOk (d : Int) (w : List Ev) : Prop :=
  w.Pairwise (fun a b => a.ts ≤ b.ts) ∧ ∀ f, w.head? = some f → ∀ e ∈ w, e.ts < f.ts + d

/-- what the property says about one session window for in-order input: adjacent gaps within the session gap -/
def SessionOk (g : Int) (w : List Ev) : Prop := ∀ p ∈ adjacent w, p.1.ts ≤ p.2.ts ∧ p.2.ts - p.1.ts ≤ g

/-- executable form of `TumblingOk` (used by the judge on the implementation's own windows) -/
def tumblingOkB (d : Int) (w : List Ev) : Bool :=
  decide (w.Pairwise (fun a b => a.ts ≤ b.ts)) &&
    (match w with | [] => true | f :: _ => w.all (fun e => decide (e.ts < f.ts + d)))

/-- executable form of `SessionOk` -/
def sessionOkB (g : Int) (w : List Ev) : Bool :=
  (adjacent w).all (fun p => decide (p.1.ts ≤ p.2.ts) && decide (p.2.ts - p.1.ts ≤ g))

/-- time of the latest operation that emitted something, read off a trace (`l` = before the trace) -/
def lastEmission : Option Int → List (Op × List (List Ev)) → Option Int
  | l, [] => l
  | l, (o, out) :: tr => lastEmission (if out.isEmpty then l else o.time) tr

/-- events with timestamp within `size` of `t` -/
def inRange (size t : Int) (l : List Ev) : List Ev := l.filter (fun e => decide (t - size ≤ e.ts))

/-- C13 oracle, time-sliding: what an operation must emit given the history `seen` (arrival order) and the
time `last` of the previous emission: the events in range of the trigger, iff first or `slide` elapsed -/
def slidingExpected (size slide : Int) (last : Option Int) (seen : List Ev) : Op → List (List Ev)
  | .add e => if slideDue slide last e.ts then [inRange size e.ts (seen ++ [e])] else []
  | .watermark t => if slideDue slide last t ∧ inRange size t seen ≠ [] then [inRange size t seen] else []
  | _ => []

/-- C13 oracle, count-sliding: the `i`-th event (1-based) emits iff `i = size + k·slide`; the emission is the
last `size` events -/
def slidingCountExpected (size slide : Nat) (seen : List Ev) : Op → List (List Ev)
  | .add e =>
    let i := seen.length + 1
    if size ≤ i ∧ (i - size) % slide = 0 then [(seen ++ [e]).drop (i - size)] else []
  | _ => []

/-! ## partition keys (`Value::to_partition_key`, `value.rs`) -/

/-- decimal digits of a natural number, most significant first (`u64::to_string`) -/
def natDigits (n : Nat) : List Nat :=
  if _h : n < 10 then [n] else natDigits (n / 10) ++ [n % 10]
termination_by n
decreasing_by omega

def digitChar (d : Nat) : Char := Char.ofNat (48 + d)

/-- `i64::to_string` -/
def intKey (i : Int) : String :=
  match i with
  | .ofNat n => String.ofList ((natDigits n).map digitChar)
  | .negSucc n => String.ofList ('-' :: (natDigits (n + 1)).map digitChar)

/-- `Value::to_partition_key` on strings and integers -/
def Val.partitionKey : Val → String
  | .str s => s
  | .int i => intKey i

/-- the key of the map entry an event is routed to by the Partitioned* windows and
`PartitionedAggregatorState`: `event.get(field).map(to_partition_key).unwrap_or("default")` -/
def windowPlaceholder : String := "default"
/-- SASE: `.unwrap_or_default()` -/
def sasePlaceholder : String := ""

def Ev.partKey (e : Ev) : String :=
  match e.key with
  | some v => v.partitionKey
  | none => windowPlaceholder

end Varpulis.Window
