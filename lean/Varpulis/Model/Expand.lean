import Varpulis.Generated.ParserLimits
/-!
# M-TEXT, part 1 — text primitives and the declaration-loop expander (`expand.rs`)

Text is `List Char` everywhere (one representation); byte quantities of the Rust code
(`str::len`, byte offsets of slices) are computed through `Char.utf8Size`.

This file is the *pure* (list-recursive) model used by C42. `Model/ParserText.lean` holds the
index-based mirror with explicit failure points (C41) and `Lemmas/ParserText.lean` proves that the
two agree. No Mathlib; linked into `vmodel`.
-/
namespace Varpulis.Expand

abbrev Text := List Char
abbrev Line := List Char

/-- result of a Rust function that returns `Result<_, String>` and might panic -/
inductive Outcome (α : Type) where
  | ok (a : α)
  | err (kind : String)
  | panic (why : String)
  deriving Repr, DecidableEq

def Outcome.map {α β : Type} (f : α → β) : Outcome α → Outcome β
  | .ok a => .ok (f a)
  | .err k => .err k
  | .panic w => .panic w

def Outcome.bind {α β : Type} (o : Outcome α) (f : α → Outcome β) : Outcome β :=
  match o with
  | .ok a => f a
  | .err k => .err k
  | .panic w => .panic w

instance : Monad Outcome where
  pure := .ok
  bind := Outcome.bind

/-! ## `str` primitives -/

/-- Rust `char::is_whitespace` (Unicode `White_Space`) -/
def isWs (c : Char) : Bool :=
  let n := c.toNat
  (0x09 ≤ n && n ≤ 0x0D) || n == 0x20 || n == 0x85 || n == 0xA0 || n == 0x1680 ||
  (0x2000 ≤ n && n ≤ 0x200A) || n == 0x2028 || n == 0x2029 || n == 0x202F || n == 0x205F ||
  n == 0x3000

/-- `str::len` (bytes of the UTF-8 encoding) -/
def byteLen : Text → Nat
  | [] => 0
  | c :: cs => c.utf8Size + byteLen cs

/-- `str::trim_start` -/
def trimStart (l : Text) : Text := l.dropWhile isWs
/-- `str::trim_end` -/
def trimEnd (l : Text) : Text := (l.reverse.dropWhile isWs).reverse
/-- `str::trim` -/
def trim (l : Text) : Text := trimEnd (trimStart l)

/-- `str::lines` item post-processing: strip one trailing `\r` (the `\n` is already gone) -/
def stripCR (revLine : List Char) : Line :=
  match revLine with
  | '\r' :: r => r.reverse
  | r => r.reverse

/-- `str::lines`: split at `\n`, drop one `\r` before each `\n`, no empty item after a final `\n`.
`acc` is the current line, reversed. -/
def linesGo : Text → List Char → List Line
  | [], acc => if acc.isEmpty then [] else [acc.reverse]
  | c :: rest, acc => if c = '\n' then stripCR acc :: linesGo rest [] else linesGo rest (c :: acc)

def rustLines (s : Text) : List Line := linesGo s []

/-- `for l in lines { out.push_str(l); out.push('\n') }` -/
def joinLines : List Line → Text
  | [] => []
  | l :: ls => l ++ '\n' :: joinLines ls

/-- `str::starts_with(&str)` is `List.isPrefixOf`; `str::contains(&str)` -/
def containsSub (pat : Text) : Text → Bool
  | [] => pat.isEmpty
  | c :: cs => pat.isPrefixOf (c :: cs) || containsSub pat cs

/-- `str::split_once(&str)` (first occurrence) -/
def splitOnce (pat : Text) : Text → Option (Text × Text)
  | [] => if pat.isEmpty then some ([], []) else none
  | c :: cs =>
    if pat.isPrefixOf (c :: cs) then some ([], (c :: cs).drop pat.length)
    else (splitOnce pat cs).map fun (a, b) => (c :: a, b)

/-- `str::replace(pat, to)` for a non-empty pattern: leftmost non-overlapping occurrences.
`skip` = number of characters of the current occurrence still to be dropped. -/
def replaceGo (pat to : Text) : Nat → Text → Text
  | _, [] => []
  | skip + 1, _ :: cs => replaceGo pat to skip cs
  | 0, c :: cs =>
    if pat.isPrefixOf (c :: cs) then to ++ replaceGo pat to (pat.length - 1) cs
    else c :: replaceGo pat to 0 cs

def replaceAll (pat to : Text) (s : Text) : Text := replaceGo pat to 0 s

/-- `&s[n..]` through `str::get(n..)`: `none` when `n` is past the end or not a char boundary -/
def byteDrop : Nat → Text → Option Text
  | 0, l => some l
  | _ + 1, [] => none
  | n + 1, c :: cs => if c.utf8Size ≤ n + 1 then byteDrop (n + 1 - c.utf8Size) cs else none

/-! ## integers -/

def i64Min : Int := -9223372036854775808
def i64Max : Int := 9223372036854775807
def inI64 (x : Int) : Bool := i64Min ≤ x && x ≤ i64Max

def digitVal (c : Char) : Nat := c.toNat - 48
def isDigit (c : Char) : Bool := 48 ≤ c.toNat && c.toNat ≤ 57

/-- value of a digit string, most significant first -/
def digitsVal (ds : List Char) : Nat := ds.foldl (fun acc c => acc * 10 + digitVal c) 0

/-- `str::parse::<i64>()`: optional single sign, at least one ASCII digit, value within `i64` -/
def parseI64 (s : Text) : Option Int :=
  let unsigned (neg : Bool) (ds : List Char) : Option Int :=
    if ds.isEmpty || !ds.all isDigit then none
    else
      let v : Int := if neg then -(digitsVal ds : Int) else (digitsVal ds : Int)
      if inI64 v then some v else none
  match s with
  | '-' :: ds => unsigned true ds
  | '+' :: ds => unsigned false ds
  | ds => unsigned false ds

def digitChar (d : Nat) : Char := Char.ofNat (48 + d)

/-- decimal digits of a natural number, most significant first (`fuel` ≥ number of digits) -/
def natDigits : Nat → Nat → List Char
  | 0, _ => []
  | fuel + 1, n => if n < 10 then [digitChar n] else natDigits fuel (n / 10) ++ [digitChar (n % 10)]

def fmtNat (n : Nat) : Text := natDigits (n + 1) n

/-- canonical digit string: non-empty, digits only, no leading zero unless it is "0" -/
def canonDigits (ds : List Char) : Bool :=
  !ds.isEmpty && ds.all isDigit && (ds == ['0'] || ds.head? != some '0')

/-- `i64::to_string` -/
def fmtInt (k : Int) : Text := if k < 0 then '-' :: fmtNat k.natAbs else fmtNat k.toNat

/-! ## `expand.rs` -/

/-- the limits are regenerated from `expand.rs` on every check (`tools/extract_parserlimits.py`) -/
def MAX_LOOP_ITERATIONS : Int := Generated.ParserLimits.MAX_LOOP_ITERATIONS
def MAX_EXPANSION_PASSES : Nat := Generated.ParserLimits.MAX_EXPANSION_PASSES

/-- `line.len() - line.trim_start().len()` -/
def indentOf (l : Line) : Nat := byteLen l - byteLen (trimStart l)

/-- `line.trim().is_empty()` -/
def isBlank (l : Line) : Bool := (trim l).isEmpty

/-- `is_declaration_for` -/
def isDeclFor (t : Text) : Bool :=
  "for ".toList.isPrefixOf t && t.getLast? == some ':' && containsSub "..".toList t

/-- `strip_suffix(':')` -/
def stripColon (t : Text) : Option Text :=
  match t.reverse with
  | ':' :: r => some r.reverse
  | _ => none

/-- `parse_for_range`: `for VAR in START..END:` / `..=END:`; the end is exclusive in the result.
An inclusive end of `i64::MAX` is not a loop (`checked_add(1)?`, after the fix). -/
def parseForRange (t : Text) : Option (Text × Int × Int) :=
  if "for ".toList.isPrefixOf t then
    match stripColon (t.drop 4) with
    | none => none
    | some rest =>
      match splitOnce " in ".toList rest with
      | none => none
      | some (var, range) =>
        let var := trim var
        let range := trim range
        match splitOnce "..=".toList range with
        | some (s, e) =>
          match parseI64 (trim s), parseI64 (trim e) with
          | some a, some b => if inI64 (b + 1) then some (var, a, b + 1) else none
          | _, _ => none
        | none =>
          match splitOnce "..".toList range with
          | some (s, e) =>
            match parseI64 (trim s), parseI64 (trim e) with
            | some a, some b => some (var, a, b)
            | _, _ => none
          | none => none
  else none

/-- the header test of `expand_one_pass`: indent 0, looks like a declaration loop, range parses -/
def loopHeader (l : Line) : Option (Text × Int × Int) :=
  if indentOf l == 0 && isDeclFor (trim l) then parseForRange (trim l) else none

/-- `end - start > MAX_LOOP_ITERATIONS` with checked subtraction (an overflowing difference is too large) -/
def tooLarge (s e : Int) : Bool := !inI64 (e - s) || e - s > MAX_LOOP_ITERATIONS

/-- a line that continues the loop body: blank, or indented -/
def bodyLine (l : Line) : Bool := isBlank l || indentOf l != 0

/-- `body_indent.unwrap_or(4)`: indent of the first non-blank body line -/
def stripOf (body : List Line) : Nat := ((body.find? (fun l => !isBlank l)).map indentOf).getD 4

/-- `bl.get(strip..).unwrap_or_else(|| bl.trim_start())` (after the fix; formerly `&bl[strip..]`
guarded only by `bl.len() >= strip`) -/
def stripLine (strip : Nat) (l : Line) : Line := (byteDrop strip l).getD (trimStart l)

/-- `format!("{{{}}}", var)` -/
def pattern (var : Text) : Text := '{' :: var ++ ['}']

/-- one emitted copy of a body line -/
def copyLine (strip : Nat) (var : Text) (k : Int) (l : Line) : Line :=
  if isBlank l then [] else replaceAll (pattern var) (fmtInt k) (stripLine strip l)

/-- `start..end` -/
def intRange (s e : Int) : List Int := (List.range (e - s).toNat).map fun (i : Nat) => s + (i : Int)

def copies (var : Text) (s e : Int) (body : List Line) : List Line :=
  let strip := stripOf body
  (intRange s e).flatMap fun k => body.map (copyLine strip var k)

def rangeErr (s e : Int) : String := s!"range {s}..{e}"

/-- `MAX_EXPANDED_LINES`: lines all loop expansions of one source may produce together (after the fix) -/
def MAX_EXPANDED_LINES : Nat := Generated.ParserLimits.MAX_EXPANDED_LINES

/-- `((end - start).max(0) as usize).saturating_mul(body_end - body_start)`; the saturation at
`usize::MAX` is immaterial because the product is only compared with a budget ≤ `MAX_EXPANDED_LINES` -/
def produced (s e : Int) (body : List Line) : Nat := (e - s).toNat * body.length

/-- `expand_one_pass` on the list of lines; `b` = remaining line budget, returned updated -/
def onePass : Nat → List Line → Outcome (List Line × Nat)
  | b, [] => .ok ([], b)
  | b, l :: rest =>
    match loopHeader l with
    | some (var, s, e) =>
      if tooLarge s e then .err (rangeErr s e)
      else if produced s e (rest.takeWhile bodyLine) > b then .err "budget"
      else
        (onePass (b - produced s e (rest.takeWhile bodyLine)) (rest.dropWhile bodyLine)).map
          fun r => (copies var s e (rest.takeWhile bodyLine) ++ r.1, r.2)
    | none => (onePass b rest).map fun r => (l :: r.1, r.2)
termination_by _ ls => ls.length
decreasing_by
  all_goals simp_wf
  · have := (List.dropWhile_suffix (l := rest) bodyLine).length_le; omega

/-- `expand_one_pass` on text -/
def onePassText (b : Nat) (src : Text) : Outcome (Text × Nat) :=
  (onePass b (rustLines src)).map fun r => (joinLines r.1, r.2)

/-- the pass loop of `expand_declaration_loops`; `n` = passes left, `b` = line budget left -/
def passes : Nat → Nat → Text → Outcome Text
  | 0, _, r => .ok r
  | n + 1, b, r =>
    match onePassText b r with
    | .ok (e, b') => if e = r then .ok r else if n = 0 then .err "passes" else passes n b' e
    | .err k => .err k
    | .panic w => .panic w

/-- `expand_declaration_loops` -/
def expand (src : Text) : Outcome Text := passes MAX_EXPANSION_PASSES MAX_EXPANDED_LINES src

/-! ## structured loop programs and their hand expansion (specification side of C42) -/

/-- a loop program: declarations (a first line that starts with a visible character, followed by any
number of further lines, typically indented continuation lines) and `for var in s..e:` blocks
(`e` exclusive; `incl` only selects the `..=` spelling of the header) -/
inductive Block where
  | decl (first : Text) (conts : List Text)
  | loop (var : Text) (s e : Int) (incl : Bool) (body : List Block)

def spaces (n : Nat) : Text := List.replicate n ' '

def headerText (var : Text) (s e : Int) (incl : Bool) : Text :=
  "for ".toList ++ var ++ " in ".toList ++ fmtInt s ++
    (if incl then "..=".toList ++ fmtInt (e - 1) else "..".toList ++ fmtInt e) ++ [':']

mutual
/-- the program text, `unit` spaces of indentation per nesting level -/
def render (unit depth : Nat) : Block → List Line
  | .decl f cs => (f :: cs).map (spaces (unit * depth) ++ ·)
  | .loop v s e incl body => (spaces (unit * depth) ++ headerText v s e incl) :: renderList unit (depth + 1) body
def renderList (unit depth : Nat) : List Block → List Line
  | [] => []
  | b :: bs => render unit depth b ++ renderList unit depth bs
end

/-- replace `{v}` by the value, for every enclosing loop, outermost first -/
def substEnv (env : List (Text × Int)) (t : Text) : Text :=
  env.foldl (fun t p => replaceAll (pattern p.1) (fmtInt p.2) t) t

mutual
/-- the copies written by hand: the body once per value, in order, placeholders replaced;
nested loops are nested substitutions -/
def hand (env : List (Text × Int)) : Block → List Line
  | .decl f cs => (f :: cs).map (substEnv env)
  | .loop v s e _ body => (intRange s e).flatMap fun k => handList (env ++ [(v, k)]) body
def handList (env : List (Text × Int)) : List Block → List Line
  | [] => []
  | b :: bs => hand env b ++ handList env bs
end

/-! ### one level of unrolling (what one pass of the expander does to the structure) -/

mutual
/-- substitute one variable in every declaration line (loop headers carry no placeholders) -/
def subst1 (v : Text) (k : Int) : Block → Block
  | .decl f cs => .decl (replaceAll (pattern v) (fmtInt k) f) (cs.map (replaceAll (pattern v) (fmtInt k)))
  | .loop v' s e i body => .loop v' s e i (subst1List v k body)
def subst1List (v : Text) (k : Int) : List Block → List Block
  | [] => []
  | b :: bs => subst1 v k b :: subst1List v k bs
end

/-- expand the top-level loops once -/
def unroll1 : List Block → List Block
  | [] => []
  | .decl f cs :: bs => .decl f cs :: unroll1 bs
  | .loop v s e _ body :: bs => ((intRange s e).flatMap fun k => subst1List v k body) ++ unroll1 bs

mutual
def depth : Block → Nat
  | .decl _ _ => 0
  | .loop _ _ _ _ body => depthList body + 1
def depthList : List Block → Nat
  | [] => 0
  | b :: bs => max (depth b) (depthList bs)
end

/-- lines the top-level loops produce in one pass -/
def cost1 : List Block → Nat
  | [] => 0
  | .decl _ _ :: bs => cost1 bs
  | .loop _ s e _ body :: bs => (e - s).toNat * (renderList 1 1 body).length + cost1 bs

/-- lines produced by `n` passes -/
def costIter : Nat → List Block → Nat
  | 0, _ => 0
  | n + 1, bs => cost1 bs + costIter n (unroll1 bs)

/-- lines all loop expansions of the program produce together (compared with `MAX_EXPANDED_LINES`) -/
def cost (bs : List Block) : Nat := costIter MAX_EXPANSION_PASSES bs

/-! ### the expansion cost in closed form (equal to `cost`, see `Lemmas/Expand.lean`) -/

mutual
/-- number of text lines of a block -/
def linesB : Block → Nat
  | .decl _ cs => 1 + cs.length
  | .loop _ _ _ _ body => 1 + linesL body
def linesL : List Block → Nat
  | [] => 0
  | b :: bs => linesB b + linesL bs
end

mutual
/-- lines all expansions of a block produce: every loop instance contributes its iterations times the
lines of its body, and then the expansions inside each copy -/
def costB : Block → Nat
  | .decl _ _ => 0
  | .loop _ s e _ body => (e - s).toNat * (linesL body + costL body)
def costL : List Block → Nat
  | [] => 0
  | b :: bs => costB b + costL bs
end

/-! ### well-formed loop programs (the premise of the C42 theorem) -/

/-- does not start (after leading white space) with `for ` -/
def notFor (t : Text) : Bool := !("for ".toList.isPrefixOf (trimStart t))

/-- a declaration line: no line break inside, not blank, not a `for` line -/
def lineOk (t : Text) : Bool := t.all (fun c => c != '\n' && c != '\r') && !isBlank t && notFor t

/-- starts with a visible character (so the line's indentation is exactly the block's) -/
def headOk : Text → Bool
  | c :: _ => !isWs c
  | [] => false

/-- ASCII letter, digit or `_` -/
def isIdentChar (c : Char) : Bool :=
  let n := c.toNat
  (48 ≤ n && n ≤ 57) || (65 ≤ n && n ≤ 90) || (97 ≤ n && n ≤ 122) || n == 95

def varOk (v : Text) : Bool := !v.isEmpty && v.all isIdentChar

mutual
/-- declarations start with a visible character and consist of declaration lines; loop variables are
identifiers, ranges are representable and at most `MAX_LOOP_ITERATIONS` long -/
def syn : Block → Bool
  | .decl f cs => headOk f && lineOk f && cs.all lineOk
  | .loop v s e incl body =>
    varOk v && inI64 s && inI64 e && (!incl || inI64 (e - 1)) && !tooLarge s e && synList body
def synList : List Block → Bool
  | [] => true
  | b :: bs => syn b && synList bs
end

/-- well-formed top-level loop program with `unit` spaces of indentation per level: nesting below
`MAX_EXPANSION_PASSES`, total expansion within `MAX_EXPANDED_LINES` -/
def wellFormed (unit : Nat) (bs : List Block) : Bool :=
  decide (0 < unit) && synList bs && decide (depthList bs < MAX_EXPANSION_PASSES) &&
    decide (cost bs ≤ MAX_EXPANDED_LINES)

/-! ## extended loop programs: a range bound may be the placeholder of an enclosing loop

"Triangular" nests such as `for r in 1..3:` / `for c in 0..{r}:`. The check judges the real expander
against this specification as well; the theorem `expand_eq_hand_expansion` covers the programs all of
whose bounds are literals (`Block`, embedded by `Block.toX`). -/

inductive Bound where
  | lit (k : Int)
  | ph (v : Text)
  deriving DecidableEq

/-- `e` is the exclusive end when it is a literal; with `incl` and a placeholder end the header reads
`..={v}` and the exclusive end is the value + 1 -/
inductive XBlock where
  | decl (first : Text) (conts : List Text)
  | loop (var : Text) (s e : Bound) (incl : Bool) (body : List XBlock)

def Bound.text : Bound → Text
  | .lit k => fmtInt k
  | .ph v => pattern v

def xheaderText (var : Text) (s e : Bound) (incl : Bool) : Text :=
  "for ".toList ++ var ++ " in ".toList ++ s.text ++
    (if incl then "..=".toList ++ (match e with | .lit k => fmtInt (k - 1) | .ph v => pattern v)
     else "..".toList ++ e.text) ++ [':']

mutual
def xrender (unit depth : Nat) : XBlock → List Line
  | .decl f cs => (f :: cs).map (spaces (unit * depth) ++ ·)
  | .loop v s e incl body => (spaces (unit * depth) ++ xheaderText v s e incl) :: xrenderList unit (depth + 1) body
def xrenderList (unit depth : Nat) : List XBlock → List Line
  | [] => []
  | b :: bs => xrender unit depth b ++ xrenderList unit depth bs
end

/-- textual substitution replaces the outermost loop's placeholder first: a placeholder bound takes
the value of the outermost enclosing loop of that name -/
def envVal (env : List (Text × Int)) (v : Text) : Int := ((env.find? fun p => p.1 == v).map (·.2)).getD 0

def Bound.val (env : List (Text × Int)) : Bound → Int
  | .lit k => k
  | .ph v => envVal env v

/-- exclusive end of the range under `env` -/
def xend (env : List (Text × Int)) (e : Bound) (incl : Bool) : Int :=
  match e with
  | .lit k => k
  | .ph v => envVal env v + (if incl then 1 else 0)

mutual
/-- the copies written by hand (as `hand`), ranges evaluated under the enclosing loops' values -/
def xhand (env : List (Text × Int)) : XBlock → List Line
  | .decl f cs => (f :: cs).map (substEnv env)
  | .loop v s e incl body => (intRange (s.val env) (xend env e incl)).flatMap fun k => xhandList (env ++ [(v, k)]) body
def xhandList (env : List (Text × Int)) : List XBlock → List Line
  | [] => []
  | b :: bs => xhand env b ++ xhandList env bs
end

mutual
def xdepth : XBlock → Nat
  | .decl _ _ => 0
  | .loop _ _ _ _ body => xdepthList body + 1
def xdepthList : List XBlock → Nat
  | [] => 0
  | b :: bs => max (xdepth b) (xdepthList bs)
end

mutual
def xlines : XBlock → Nat
  | .decl _ cs => 1 + cs.length
  | .loop _ _ _ _ body => 1 + xlinesList body
def xlinesList : List XBlock → Nat
  | [] => 0
  | b :: bs => xlines b + xlinesList bs
end

def boundOk (env : List (Text × Int)) : Bound → Bool
  | .lit k => inI64 k
  | .ph v => varOk v && env.any fun p => p.1 == v

mutual
/-- the class the judge decides: declaration lines as in `syn`, identifier variables, every placeholder
bound names an enclosing loop, every range (under the actual values) representable and at most
`MAX_LOOP_ITERATIONS` long -/
def xok (env : List (Text × Int)) : XBlock → Bool
  | .decl f cs => headOk f && lineOk f && cs.all lineOk
  | .loop v s e incl body =>
    varOk v && boundOk env s && boundOk env e && inI64 (xend env e incl) && inI64 (xend env e incl - 1) &&
      !tooLarge (s.val env) (xend env e incl) &&
      (match intRange (s.val env) (xend env e incl) with
       | [] => xokList (env ++ [(v, 0)]) body
       | ks => ks.all fun k => xokList (env ++ [(v, k)]) body)
def xokList (env : List (Text × Int)) : List XBlock → Bool
  | [] => true
  | b :: bs => xok env b && xokList env bs
end

mutual
/-- lines all loop expansions produce together (as `costL`, under the actual values) -/
def xcost (env : List (Text × Int)) : XBlock → Nat
  | .decl _ _ => 0
  | .loop v s e incl body =>
    ((intRange (s.val env) (xend env e incl)).map fun k => xlinesList body + xcostList (env ++ [(v, k)]) body).sum
def xcostList (env : List (Text × Int)) : List XBlock → Nat
  | [] => 0
  | b :: bs => xcost env b + xcostList env bs
end

/-- programs on which the check judges the real expander against `xhandList` -/
def judgeable (unit : Nat) (bs : List XBlock) : Bool :=
  decide (0 < unit) && xokList [] bs && decide (xdepthList bs < MAX_EXPANSION_PASSES) &&
    decide (xcostList [] bs ≤ MAX_EXPANDED_LINES)

mutual
def Block.toX : Block → XBlock
  | .decl f cs => .decl f cs
  | .loop v s e incl body => .loop v (.lit s) (.lit e) incl (Block.toXList body)
def Block.toXList : List Block → List XBlock
  | [] => []
  | b :: bs => b.toX :: Block.toXList bs
end

mutual
/-- back to `Block` when every bound is a literal -/
def XBlock.toBlock? : XBlock → Option Block
  | .decl f cs => some (.decl f cs)
  | .loop v (.lit s) (.lit e) incl body => (XBlock.toBlockList? body).map fun b => .loop v s e incl b
  | .loop _ _ _ _ _ => none
def XBlock.toBlockList? : List XBlock → Option (List Block)
  | [] => some []
  | b :: bs => match b.toBlock?, XBlock.toBlockList? bs with
    | some b', some bs' => some (b' :: bs')
    | _, _ => none
end

end Varpulis.Expand
