import Varpulis.Model.SaseKleene
/-!
# M-SASE, engine level — C05 (and the engine loop used by C03)

Mirrors `SaseEngine::process_shared` / `process_shared_with_result`, `process_runs_shared` /
`process_partition_shared` (including the `swap_remove` order), `handle_backpressure` /
`handle_backpressure_partitioned`, `stats` / `extended_stats` of `crates/varpulis-runtime/src/sase.rs`
for processing-time engines without `within` and without global negations (so `cleanup_timeouts`,
`check_global_negations` and the `invalidated` flag are inert).
`started_at: Instant` is modelled by a creation sequence number (strictly increasing).
-/
namespace Varpulis.SaseB
open Varpulis.SaseK

/-- `BackpressureStrategy`; `Sample { rate }` with `rate = num / den` (dyadic in the harness, so
`(total_created as f64 * rate) as u64` is the exact floor) -/
inductive Strategy where
  | drop | error | evictOldest | evictLeastProgress
  | sample (num den : Nat)
  deriving DecidableEq, Repr, Inhabited

structure Cfg where
  maxRuns : Nat
  lim : Limits
  strat : Strategy := .drop
  partitioned : Bool := false
  deriving Repr, Inhabited

/-- the mutable part of `SaseEngine` -/
structure Eng where
  runs : List Run := []
  parts : List (Option Nat × List Run) := []
  created : Nat := 0
  dropped : Nat := 0
  evicted : Nat := 0
  completed : Nat := 0
  nextSeq : Nat := 0
  deriving Repr, Inhabited

/-- `Vec::swap_remove(i)` for `i < len` -/
def swapRemove {α : Type} (l : List α) (i : Nat) : List α :=
  match l.getLast? with
  | none => l
  | some last => (l.dropLast).set i last

/-- the `while i < runs.len()` loop of `process_runs_shared` / `process_partition_shared`
(`fuel` = number of iterations left, initially `runs.length`; `none` = panic) -/
def processRuns (nfa : Nfa) (lim : Limits) (e : Ev) :
    Nat → List Run → Nat → List (List Match) → Option (List Run × List (List Match))
  | 0, runs, _, acc => some (runs, acc)
  | fuel + 1, runs, i, acc =>
    match runs[i]? with
    | none => some (runs, acc)
    | some r =>
      match advance nfa lim r e with
      | .cont r' => processRuns nfa lim e fuel (runs.set i r') (i + 1) acc
      | .noMatch r' => processRuns nfa lim e fuel (runs.set i r') (i + 1) acc
      | .complete m => processRuns nfa lim e fuel (swapRemove runs i) i (acc ++ [[m]])
      | .completeCont r' m => processRuns nfa lim e fuel (runs.set i r') (i + 1) (acc ++ [[m]])
      | .multi ms => processRuns nfa lim e fuel (swapRemove runs i) i (acc ++ [ms])
      | .panic => none

/-- index of the first minimum (`Iterator::min_by_key`) -/
def minIdxBy (key : Run → Nat) : List Run → Option Nat
  | [] => none
  | r :: rs =>
    match minIdxBy key rs with
    | none => some 0
    | some j => if key r ≤ key (rs.getD j r) then some 0 else some (j + 1)

/-- what `handle_backpressure*` reports -/
inductive BpOutcome | added | addedEvicting | droppedCounted | refused
  deriving DecidableEq, Repr, Inhabited

/-- `handle_backpressure` / `handle_backpressure_partitioned` on one run vector -/
def handleBp (cfg : Cfg) (created dropped : Nat) (runs : List Run) (r : Run) : List Run × BpOutcome :=
  if runs.length < cfg.maxRuns then (runs ++ [r], .added)
  else
    let evict (key : Run → Nat) : List Run × BpOutcome :=
      match minIdxBy key runs with
      | some i => (swapRemove runs i ++ [r], .addedEvicting)
      | none => (runs ++ [r], .added)
    match cfg.strat with
    | .drop => (runs, .droppedCounted)
    | .error => (runs, .droppedCounted)
    | .evictOldest => evict (·.seq)
    | .evictLeastProgress => evict (·.stack.length)
    | .sample num den =>
      if created * num / den > dropped then
        match minIdxBy (·.seq) runs with
        | some i => (swapRemove runs i ++ [r], .addedEvicting)
        | none => (runs, .refused)
      else (runs, .droppedCounted)

def partGet (parts : List (Option Nat × List Run)) (k : Option Nat) : Option (List Run) := parts.lookup k
def partSet (parts : List (Option Nat × List Run)) (k : Option Nat) (rs : List Run) : List (Option Nat × List Run) :=
  if parts.any (·.1 == k) then parts.map fun p => if p.1 == k then (k, rs) else p else parts ++ [(k, rs)]

/-- per-call report of `process_shared_with_result` (matches grouped per completing run) -/
structure Out where
  emitted : List (List Match) := []
  started : Bool := false
  bp : Option BpOutcome := none
  deriving Repr, Inhabited

/-- `process_shared` / `process_shared_with_result` (`none` = panic) -/
def step (nfa : Nfa) (cfg : Cfg) (s : Eng) (e : Ev) : Option (Eng × Out) :=
  let key : Option Nat := e.key
  let cur : List Run := if cfg.partitioned then (partGet s.parts key).getD [] else s.runs
  match processRuns nfa cfg.lim e cur.length cur 0 [] with
  | none => none
  | some (runs1, ms) =>
    let nmatch := (ms.map List.length).sum
    let put (s : Eng) (rs : List Run) : Eng :=
      if cfg.partitioned then { s with parts := partSet s.parts key rs } else { s with runs := rs }
    -- a partition vector exists only once a run start was attempted (`entry().or_default()`)
    let s1 : Eng := if cfg.partitioned && (partGet s.parts key).isNone then s else put s runs1
    match tryStart nfa e s.nextSeq with
    | .panic => none
    | .none => some ({ s1 with completed := s1.completed + nmatch }, { emitted := ms })
    | .run r =>
      let (runs2, o) := handleBp cfg s1.created s1.dropped runs1 r
      let s2 := put s1 runs2
      let s3 : Eng := match o with
        | .added => { s2 with created := s2.created + 1 }
        | .addedEvicting => { s2 with created := s2.created + 1, evicted := s2.evicted + 1 }
        | .droppedCounted => { s2 with dropped := s2.dropped + 1 }
        | .refused => s2
      some ({ s3 with completed := s3.completed + nmatch, nextSeq := s3.nextSeq + 1 },
            { emitted := ms, started := true, bp := some o })

/-- `total_run_count` -/
def Eng.active (cfg : Cfg) (s : Eng) : Nat :=
  if cfg.partitioned then (s.parts.map (·.2.length)).sum else s.runs.length

/-- all run vectors (one per partition) -/
def Eng.vectors (cfg : Cfg) (s : Eng) : List (List Run) :=
  if cfg.partitioned then s.parts.map (·.2) else [s.runs]

/-- run a whole stream; `none` = some step panicked -/
def runAll (nfa : Nfa) (cfg : Cfg) : Eng → List Ev → Option (Eng × List Out)
  | s, [] => some (s, [])
  | s, e :: es =>
    match step nfa cfg s e with
    | none => none
    | some (s', o) => (runAll nfa cfg s' es).map fun (sf, os) => (sf, o :: os)

/-- the matches emitted event by event (grouped per completing run) on a fresh engine; `none` = panic -/
def emittedAll (nfa : Nfa) (cfg : Cfg) (evs : List Ev) : Option (List (List (List Match))) :=
  (runAll nfa cfg {} evs).map fun r => r.2.map (·.emitted)

end Varpulis.SaseB
