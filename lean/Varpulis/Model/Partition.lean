import Varpulis.Model.Window
/-!
# partitioned machines (C04)

Model of the `FxHashMap<String, W>` wrappers: `PartitionedTumblingWindow`, `PartitionedSlidingWindow`,
`PartitionedSessionWindow` (`window.rs`), `PartitionedWindowState`, `PartitionedSlidingCountWindowState`,
`PartitionedAggregatorState` (`engine/types.rs`).

The map is a total function `sub` (absent key = `init`, which is what `entry(key).or_insert_with(W::new)`
yields on first use) plus the list `dom` of keys present (iteration order of the hash map is abstracted:
observers sort by key). An operation is either *routed* to the sub-machine of one key
(`add_shared`: `windows.entry(key)…add_shared(event)`) or *broadcast* to every present sub-machine
(`advance_watermark`, `check_expired`, `flush_shared`: `for (key, window) in &mut self.windows`).
`drop` mirrors `to_remove.push(key)`/`windows.remove(&key)` of the session variant.
-/
namespace Varpulis.Window

structure PState (κ σ : Type) where
  dom : List κ
  sub : κ → σ

variable {κ σ ι β : Type} [DecidableEq κ]

def PState.set (ps : PState κ σ) (k : κ) (s : σ) : PState κ σ :=
  { dom := if k ∈ ps.dom then ps.dom else ps.dom ++ [k],
    sub := fun k' => if k' = k then s else ps.sub k' }

/-- one step of the partitioned machine; emissions are tagged with the key of the sub-machine -/
def pstep (m : Machine σ ι β) (route : ι → Option κ) (drop : ι → List β → Bool)
    (ps : PState κ σ) (op : ι) : PState κ σ × List (κ × β) :=
  match route op with
  | some k =>
    let r := m.step (ps.sub k) op
    (ps.set k r.1, r.2.map (fun b => (k, b)))
  | none =>
    ({ dom := ps.dom.filter (fun k => !drop op (m.step (ps.sub k) op).2),
       sub := fun k => if k ∈ ps.dom then (m.step (ps.sub k) op).1 else ps.sub k },
     ps.dom.flatMap (fun k => (m.step (ps.sub k) op).2.map (fun b => (k, b))))

def partitioned (m : Machine σ ι β) (route : ι → Option κ) (drop : ι → List β → Bool) :
    Machine (PState κ σ) ι (κ × β) :=
  { init := { dom := [], sub := fun _ => m.init }, step := pstep m route drop }

/-- the sub-sequence of operations that concerns key `k`: its routed operations and every broadcast -/
def proj (route : ι → Option κ) (k : κ) (ops : List ι) : List ι :=
  ops.filter (fun o => match route o with | none => true | some k' => k' = k)

/-- emissions of key `k` in a tagged emission list -/
def forKey (k : κ) (l : List (κ × β)) : List β := (l.filter (fun p => p.1 = k)).map (·.2)

/-! ### the window instances -/

/-- routing of window operations: events by `Ev.partKey`, everything else is a broadcast -/
def winRoute : Op → Option String
  | .add e => some e.partKey
  | _ => none

def never : Op → List (List Ev) → Bool := fun _ _ => false
/-- `PartitionedSessionWindow::{advance_watermark, check_expired}` remove a partition that handed back a
session (`to_remove.push(key)`); `flush_shared` keeps every entry -/
def dropClosed : Op → List (List Ev) → Bool
  | .flush, _ => false
  | _, out => !out.isEmpty

/-- `PartitionedTumblingWindow` -/
def ptumbling (d : Int) := partitioned (tumbling d) winRoute never
/-- `PartitionedSlidingWindow` -/
def psliding (size slide : Int) := partitioned (sliding size slide) winRoute never
/-- `PartitionedSessionWindow` -/
def psession (g : Int) := partitioned (session g) winRoute dropClosed
/-- `PartitionedWindowState` (count) -/
def pcount (n : Nat) := partitioned (count n) winRoute never
/-- `PartitionedSlidingCountWindowState` -/
def pslidingCount (size slide : Nat) := partitioned (slidingCount size slide) winRoute never

/-! ### `PartitionedAggregatorState::apply` -/

/-- keys in first-occurrence order -/
def keysOf (k : α → κ) : List α → List κ
  | [] => []
  | a :: l => let r := keysOf k l; k a :: r.filter (· ≠ k a)

/-- group the batch by key, apply the aggregator template to each group -/
def papply (agg : List α → ρ) (k : α → κ) (evs : List α) : List (κ × ρ) :=
  (keysOf k evs).map (fun key => (key, agg (evs.filter (fun e => k e = key))))

/-- engine glue behind a partitioned window (`execute_op`): every completed window is appended to one batch
(`window_results.extend(completed)`), which `RuntimeOp::PartitionedAggregate` regroups by key -/
def aggregateStage {ρ : Type} (agg : List Ev → ρ) (out : List (String × List Ev)) : List (String × ρ) :=
  papply agg Ev.partKey (out.flatMap (·.2))

end Varpulis.Window
