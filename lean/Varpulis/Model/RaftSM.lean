/-!
# M-RAFTSM — the replicated coordinator state machine

Mirrors `crates/varpulis-cluster/src/raft/state_machine.rs` (`CoordinatorState`, `WorkerEntry`,
`apply_command`: every one of the 16 `ClusterCommand` arms) and the state-machine half that
`raft/store.rs` (`MemStore`) and `raft/persistent_store.rs` (`RocksStore`) share verbatim:
`apply_to_state_machine`, `get_snapshot_builder`/`build_snapshot`, `install_snapshot`.

Abstractions (listed in checks/C35.json): `HashMap<String, V>` is an association list without
duplicate keys (iteration order never leaks: `apply_command` does not iterate, the drivers sort
before printing); opaque payloads (`serde_json::Value` of a group / scaling policy,
`ClusterConnector`, `ModelRegistryEntry`, the membership configuration) are their canonical JSON
text; a migration task keeps the structure `apply_command` looks at (object / null / other, string
vs non-string fields); serde round trips of the snapshot are the identity.
-/
namespace Varpulis.RaftSM

/-- result of Rust code that may panic -/
inductive Outcome (α : Type) where
  | ok (a : α)
  | panic
  deriving Repr, DecidableEq

def Outcome.bind {α β : Type} (o : Outcome α) (f : α → Outcome β) : Outcome β :=
  match o with
  | .ok a => f a
  | .panic => .panic

/-! ### `HashMap<String, V>` as an association list -/

/-- `HashMap::remove` -/
def mErase {α : Type} (m : List (String × α)) (k : String) : List (String × α) :=
  m.filter (fun p => p.1 ≠ k)

/-- `HashMap::insert` (replaces an existing binding) -/
def mInsert {α : Type} (m : List (String × α)) (k : String) (v : α) : List (String × α) :=
  (k, v) :: mErase m k

/-- `HashMap::get` -/
def mFind {α : Type} (m : List (String × α)) (k : String) : Option α :=
  (m.find? (fun p => p.1 = k)).map (·.2)

/-- `if let Some(x) = map.get_mut(k) { *x = f(x) }` -/
def mModify {α : Type} (m : List (String × α)) (k : String) (f : α → α) : List (String × α) :=
  m.map (fun p => if p.1 = k then (p.1, f p.2) else p)

/-! ### payload types -/

/-- `state_machine.rs WorkerEntry` -/
structure Worker where
  id : String
  address : String
  apiKey : String
  status : String
  cpuCores : Nat
  pipelinesRunning : Nat
  maxPipelines : Nat
  assigned : List String
  eventsProcessed : Nat
  deriving DecidableEq, Repr

/-- a field value of a JSON object: a JSON string, or any other value as canonical text -/
inductive JV where
  | str (s : String)
  | raw (t : String)
  deriving DecidableEq, Repr

/-- the `serde_json::Value` of a migration task, as far as `apply_command` inspects it -/
inductive Task where
  | null
  | obj (fields : List (String × JV))
  | other (t : String)
  deriving DecidableEq, Repr

/-- `raft/mod.rs ClusterCommand` (16 variants) -/
inductive Cmd where
  | registerWorker (id address apiKey : String) (cpuCores pipelinesRunning maxPipelines : Nat)
  | deregisterWorker (id : String)
  | workerStatusChanged (id status : String)
  | workerPipelinesUpdated (id : String) (assigned : List String)
  | groupDeployed (name group : String)
  | groupUpdated (name group : String)
  | groupRemoved (name : String)
  | migrationStarted (task : Task)
  | migrationUpdated (id status : String)
  | migrationRemoved (id : String)
  | connectorCreated (name connector : String)
  | connectorUpdated (name connector : String)
  | connectorRemoved (name : String)
  | scalingPolicySet (policy : Option String)
  | modelRegistered (name entry : String)
  | modelRemoved (name : String)
  deriving DecidableEq, Repr

/-- `state_machine.rs CoordinatorState` -/
structure State where
  workers : List (String × Worker) := []
  groups : List (String × String) := []
  connectors : List (String × String) := []
  migrations : List (String × Task) := []
  policy : Option String := none
  models : List (String × String) := []
  deriving DecidableEq, Repr

/-- the `WorkerEntry` built by the `RegisterWorker` arm -/
def Worker.fresh (id address apiKey : String) (cores running maxP : Nat) : Worker :=
  { id := id, address := address, apiKey := apiKey, status := "ready", cpuCores := cores,
    pipelinesRunning := running, maxPipelines := maxP, assigned := [], eventsProcessed := 0 }

/-- `task.get("id").and_then(|v| v.as_str())` -/
def Task.idStr : Task → Option String
  | .obj fs => match mFind fs "id" with
      | some (.str s) => some s
      | _ => none
  | _ => none

/-- `m["status"] = Value::String(status)` (`IndexMut<&str> for Value`): inserts into an object,
turns `null` into a one-field object, panics on every other kind of value -/
def Task.setStatus (status : String) : Task → Outcome Task
  | .obj fs => .ok (.obj (mInsert fs "status" (.str status)))
  | .null => .ok (.obj [("status", .str status)])
  | .other _ => .panic

/-- total version used under `mModify` (the panicking case is decided beforehand by `statusPanics`) -/
def Task.setStatusT (status : String) (t : Task) : Task :=
  match t.setStatus status with
  | .ok t' => t'
  | .panic => t

/-- does the `MigrationUpdated` arm panic in this state? -/
def statusPanics (s : State) (id : String) : Bool :=
  match mFind s.migrations id with
  | some (.other _) => true
  | _ => false

/-- `state_machine.rs apply_command`, arm by arm; every arm returns `ClusterResponse::Ok` -/
def applyCmd (s : State) : Cmd → Outcome State
  | .registerWorker id address apiKey cores running maxP =>
      .ok { s with workers := mInsert s.workers id (Worker.fresh id address apiKey cores running maxP) }
  | .deregisterWorker id => .ok { s with workers := mErase s.workers id }
  | .workerStatusChanged id status =>
      .ok { s with workers := mModify s.workers id (fun w => { w with status := status }) }
  | .workerPipelinesUpdated id assigned =>
      .ok { s with workers := mModify s.workers id (fun w => { w with assigned := assigned }) }
  | .groupDeployed name group => .ok { s with groups := mInsert s.groups name group }
  | .groupUpdated name group => .ok { s with groups := mInsert s.groups name group }
  | .groupRemoved name => .ok { s with groups := mErase s.groups name }
  | .migrationStarted task =>
      match task.idStr with
      | some id => .ok { s with migrations := mInsert s.migrations id task }
      | none => .ok s
  | .migrationUpdated id status =>
      if statusPanics s id then .panic
      else .ok { s with migrations := mModify s.migrations id (Task.setStatusT status) }
  | .migrationRemoved id => .ok { s with migrations := mErase s.migrations id }
  | .connectorCreated name c => .ok { s with connectors := mInsert s.connectors name c }
  | .connectorUpdated name c => .ok { s with connectors := mInsert s.connectors name c }
  | .connectorRemoved name => .ok { s with connectors := mErase s.connectors name }
  | .scalingPolicySet p => .ok { s with policy := p }
  | .modelRegistered name e => .ok { s with models := mInsert s.models name e }
  | .modelRemoved name => .ok { s with models := mErase s.models name }

/-- total version: a panicking command leaves the state alone (never reached from well-formed states) -/
def applyCmdT (s : State) (c : Cmd) : State :=
  match applyCmd s c with
  | .ok s' => s'
  | .panic => s

/-! ### names for the extraction obligations (`Generated/RaftCommands.lean`, `Props/C35.lean`) -/

/-- the `ClusterCommand` variant a model command mirrors -/
def Cmd.tag : Cmd → String
  | .registerWorker .. => "RegisterWorker"
  | .deregisterWorker .. => "DeregisterWorker"
  | .workerStatusChanged .. => "WorkerStatusChanged"
  | .workerPipelinesUpdated .. => "WorkerPipelinesUpdated"
  | .groupDeployed .. => "GroupDeployed"
  | .groupUpdated .. => "GroupUpdated"
  | .groupRemoved .. => "GroupRemoved"
  | .migrationStarted .. => "MigrationStarted"
  | .migrationUpdated .. => "MigrationUpdated"
  | .migrationRemoved .. => "MigrationRemoved"
  | .connectorCreated .. => "ConnectorCreated"
  | .connectorUpdated .. => "ConnectorUpdated"
  | .connectorRemoved .. => "ConnectorRemoved"
  | .scalingPolicySet .. => "ScalingPolicySet"
  | .modelRegistered .. => "ModelRegistered"
  | .modelRemoved .. => "ModelRemoved"

/-- all tags, in the order of the constructors (= source order of the variants) -/
def Cmd.tags : List String :=
  ["RegisterWorker", "DeregisterWorker", "WorkerStatusChanged", "WorkerPipelinesUpdated", "GroupDeployed",
   "GroupUpdated", "GroupRemoved", "MigrationStarted", "MigrationUpdated", "MigrationRemoved",
   "ConnectorCreated", "ConnectorUpdated", "ConnectorRemoved", "ScalingPolicySet", "ModelRegistered", "ModelRemoved"]

/-- source names of the `CoordinatorState` fields mirrored by `State` (same order) -/
def State.fieldNames : List String :=
  ["workers", "pipeline_groups", "connectors", "active_migrations", "scaling_policy", "models"]

/-- `s'` differs from `s` at most in the field with source name `f` -/
def frame (f : String) (s s' : State) : Prop :=
  (f = "workers" ∨ s'.workers = s.workers) ∧ (f = "pipeline_groups" ∨ s'.groups = s.groups) ∧
  (f = "connectors" ∨ s'.connectors = s.connectors) ∧ (f = "active_migrations" ∨ s'.migrations = s.migrations) ∧
  (f = "scaling_policy" ∨ s'.policy = s.policy) ∧ (f = "models" ∨ s'.models = s.models)

/-- well-formed replicated state: every stored migration task is a JSON object (what
`MigrationStarted` can insert), so `MigrationUpdated` cannot panic -/
def State.WF (s : State) : Prop := ∀ p ∈ s.migrations, ∃ fs, p.2 = Task.obj fs

/-! ### log entries and the state machine of both stores -/

/-- `openraft::LogId` = (`CommittedLeaderId {term, node_id}`, index) -/
structure LogId where
  term : Nat
  node : Nat
  index : Nat
  deriving DecidableEq, Repr

/-- `openraft::EntryPayload` -/
inductive Payload where
  | blank
  | normal (c : Cmd)
  | membership (cfg : String)
  deriving DecidableEq, Repr

/-- `openraft::Entry<TypeConfig>` -/
structure Entry where
  id : LogId
  payload : Payload
  deriving DecidableEq, Repr

/-- `openraft::StoredMembership` (log id of the membership entry, configuration as canonical text) -/
structure StoredMembership where
  logId : Option LogId := none
  cfg : String := ""
  deriving DecidableEq, Repr

/-- the state-machine fields of `MemStore` / `RocksStore` -/
structure SM where
  lastApplied : Option LogId := none
  membership : StoredMembership := {}
  state : State := {}
  deriving DecidableEq, Repr

/-- a fresh store: `MemStore::new()`, `RocksStore::open` on an empty directory -/
def SM.init : SM := {}

/-- one iteration of the loop of `apply_to_state_machine` -/
def applyEntry (sm : SM) (e : Entry) : Outcome SM :=
  let sm1 := { sm with lastApplied := some e.id }
  match e.payload with
  | .blank => .ok sm1
  | .normal c => (applyCmd sm1.state c).bind fun st => .ok { sm1 with state := st }
  | .membership cfg => .ok { sm1 with membership := { logId := some e.id, cfg := cfg } }

/-- `apply_to_state_machine(entries)`; the response vector is `entries.len()` times `Ok` -/
def applyEntries (sm : SM) : List Entry → Outcome SM
  | [] => .ok sm
  | e :: es => (applyEntry sm e).bind fun sm' => applyEntries sm' es

/-- total versions (equal to the above on well-formed states, `Lemmas/RaftSM`) -/
def applyEntryT (sm : SM) (e : Entry) : SM :=
  let sm1 := { sm with lastApplied := some e.id }
  match e.payload with
  | .blank => sm1
  | .normal c => { sm1 with state := applyCmdT sm1.state c }
  | .membership cfg => { sm1 with membership := { logId := some e.id, cfg := cfg } }

def applyEntriesT (sm : SM) (es : List Entry) : SM := es.foldl applyEntryT sm

/-- applying a list of batches one `apply_to_state_machine` call after the other -/
def applyBatches (sm : SM) : List (List Entry) → Outcome SM
  | [] => .ok sm
  | b :: bs => (applyEntries sm b).bind fun sm' => applyBatches sm' bs

/-- `StateMachineSnapshot` (the serialised data) together with the `SnapshotMeta` handed out -/
structure Snapshot where
  metaLast : Option LogId
  metaMembership : StoredMembership
  snapshotId : String
  dataLast : Option LogId
  dataMembership : StoredMembership
  dataState : State
  deriving DecidableEq, Repr

/-- `format!("{}-{}", id.leader_id, id.index)` with `LeaderId: Display` = `T{term}-N{node}` -/
def snapshotIdOf : Option LogId → String
  | some l => s!"T{l.term}-N{l.node}-{l.index}"
  | none => "0-0"

/-- `get_snapshot_builder` + `build_snapshot` -/
def buildSnapshot (sm : SM) : Snapshot :=
  { metaLast := sm.lastApplied, metaMembership := sm.membership, snapshotId := snapshotIdOf sm.lastApplied,
    dataLast := sm.lastApplied, dataMembership := sm.membership, dataState := sm.state }

/-- `install_snapshot(meta, data)`: applied position and membership from the meta, state from the data -/
def installSnapshot (_old : SM) (s : Snapshot) : SM :=
  { lastApplied := s.metaLast, membership := s.metaMembership, state := s.dataState }

end Varpulis.RaftSM
