/-!
# M-TREND — event trends, the GRETA count-propagation recurrence, and the counting logic of
`HamletAggregator` / `GretaExecutor` as implemented

Three layers.

* `Spec` — what a user of `.trend_aggregate(n: count_trends())` relies on: an *event trend* of a
  query `s₁ → s₂ → … → sₘ` (each step an event type, optionally Kleene `+`) over the events of one
  window is a subsequence `e₁ < e₂ < … < e_k` of the stream (arrival order, any events may be
  skipped: skip-till-any-match) whose type sequence matches `s₁ s₂ … sₘ` with a Kleene step
  matching one or more events (GRETA, VLDB 2017, Def. 1–2; Hamlet, SIGMOD 2021, §2).
  `Spec.trends` enumerates all `2ⁿ` subsequences and filters.
* the *recurrence* `count(e) = start(e) + Σ_{p ≺ e} count(p)` (GRETA Thm. 1) in two forms:
  per event (`gretaCounts`, quadratic, the textbook form) and with one running sum per pattern
  position (`runW`, linear). `Lemmas/Trend.lean` proves both equal to `Spec.trends … |>.length`.
* *mirrors of the code* (including its defects, so that disagreements are localised):
  `Hamlet.*` mirrors crates/varpulis-runtime/src/hamlet/{template.rs (TemplateBuilder,
  MergedTemplate), aggregator.rs (register_query, process, update_query_state,
  process_closed_graphlet, process_shared_graphlet, process_non_shared_graphlet,
  compute_kleene_count, flush), snapshot.rs (PropagationCoefficients::compute_kleene,
  resolve_count, resolve_final_counts), optimizer.rs (register_kleene, decision)};
  `GretaImpl.*` mirrors greta.rs (`GretaExecutor::process`, `add_predecessor_edges`,
  `EventGraph::propagate_counts`, `flush`); `EngineImpl.*` mirrors the glue in
  engine/mod.rs (`setup_hamlet_sharing` grouping, per-stream aggregator construction) and
  engine/pipeline.rs (`RuntimeOp::TrendAggregate`).
  Arithmetic is on `Nat`; the code saturates at `u64::MAX`, which streams of ≤ 12 events never reach.
-/
namespace Varpulis.Trend

/-- event type (index into the harness' type-name table) -/
abbrev Ty := Nat

structure Step where
  ty : Ty
  kleene : Bool
  deriving DecidableEq, Repr, Inhabited

/-- a query: a sequence of steps; the types of one query are pairwise different (`WF`) -/
abbrev Query := List Step

def Query.types (q : Query) : List Ty := q.map (·.ty)

/-- well-formed: at least one step, and no type occurs twice (the implementations locate a
step by its event type) -/
def WF (q : Query) : Prop := q ≠ [] ∧ (q.map (·.ty)).Nodup

instance (q : Query) : Decidable (WF q) := by unfold WF; exact inferInstance

/-! ## Spec -/
namespace Spec

/-- all subsequences, in stream order (`2ⁿ` of them; each corresponds to one set of positions) -/
def subseqs {α : Type} : List α → List (List α)
  | [] => [[]]
  | x :: xs => (subseqs xs).map (x :: ·) ++ subseqs xs

/-- does the type sequence match `s₁ s₂ … sₘ`, a Kleene step matching one or more events -/
def matchSteps : Query → List Ty → Bool
  | [], [] => true
  | [], _ :: _ => false
  | _ :: _, [] => false
  | s :: ss, t :: ts => t == s.ty && (matchSteps ss ts || (s.kleene && matchSteps (s :: ss) ts))

/-- the event trends of `q` in the window `evs`: subsequences of (type, position) pairs -/
def trends (q : Query) (evs : List Ty) : List (List (Ty × Nat)) :=
  (subseqs evs.zipIdx).filter (fun u => matchSteps q (u.map (·.1)))

/-- number of trends (brute force) -/
def count (q : Query) (evs : List Ty) : Nat := (trends q evs).length

/-- trends within a time window: events carry a timestamp, first and last event of a trend are at
most `w` apart -/
def trendsW (q : Query) (w : Nat) (evs : List (Ty × Nat)) : List (List (Ty × Nat)) :=
  (subseqs evs).filter (fun u => matchSteps q (u.map (·.1)) &&
    (match u.head?, u.getLast? with
     | some a, some b => b.2 - a.2 ≤ w
     | _, _ => true))

end Spec

/-! ## The recurrence, per event (GRETA) -/

/-- Σ of the counts of the earlier events of type `t` -/
def sumTy (nodes : List (Ty × Nat)) (t : Ty) : Nat :=
  ((nodes.filter (fun n => n.1 == t)).map (·.2)).sum

/-- `count(e) = start(e) + Σ_{p ≺ e} count(p)` for an event of type `t`: located at the first step of
type `t`; `start(e) = 1` iff that is the first step; the predecessors `p ≺ e` are the earlier
events of the previous step's type and, for a Kleene step, of `t` itself.
(`prev?` carries the type of the previous step while walking down the pattern.) -/
def countFor (nodes : List (Ty × Nat)) (t : Ty) : Option Ty → Query → Nat
  | _, [] => 0
  | prev?, s :: ss =>
    if t = s.ty then
      (match prev? with | none => 1 | some p => sumTy nodes p) + (if s.kleene then sumTy nodes s.ty else 0)
    else countFor nodes t (some s.ty) ss

/-- the event graph after one more event: every node keeps its count -/
def gretaStep (q : Query) (nodes : List (Ty × Nat)) (t : Ty) : List (Ty × Nat) :=
  nodes ++ [(t, countFor nodes t none q)]

def gretaCounts (q : Query) (evs : List Ty) : List (Ty × Nat) := evs.foldl (gretaStep q) []

/-- Σ_{e final} count(e) -/
def gretaFinal (q : Query) (evs : List Ty) : Nat :=
  match q.getLast? with
  | none => 0
  | some s => sumTy (gretaCounts q evs) s.ty

/-! ## The recurrence with running sums (one per pattern position) -/

/-- one event of type `t`: `w[i] += [t = tyᵢ]·(w[i-1] + [kleeneᵢ]·w[i])`, all positions at once, the
virtual position `-1` carrying `prev` (`1` at the top: one way to be at the start) -/
def stepW (t : Ty) : Nat → Query → List Nat → List Nat
  | prev, s :: ss, w :: ws =>
      (w + if t = s.ty then prev + (if s.kleene then w else 0) else 0) :: stepW t w ss ws
  | _, _, _ => []

def runW (q : Query) (ws : List Nat) (evs : List Ty) : List Nat :=
  evs.foldl (fun ws t => stepW t 1 q ws) ws

/-- number of trends by count propagation -/
def dpCount (q : Query) (evs : List Ty) : Nat :=
  ((runW q (q.map fun _ => 0) evs).getLast?).getD 0

/-- several queries side by side: component-wise by construction -/
def dpCounts (qs : List Query) (evs : List Ty) : List Nat := qs.map (dpCount · evs)

/-! ## Mirror of `hamlet/` -/
namespace Hamlet

/-- `TemplateTransition` -/
structure Trans where
  src : Nat
  dst : Nat
  ty : Ty
  queries : List Nat
  kleene : Bool
  deriving Repr, Inhabited

/-- `KleeneSubPattern` -/
structure KPat where
  ty : Ty
  queries : List Nat
  state : Nat
  deriving Repr, Inhabited

/-- `MergedTemplate` (type names are our `Ty` ids; `types` = registered names) -/
structure Template where
  nstates : Nat := 0
  initial : List (Nat × Nat) := []
  finals : List (Nat × Nat) := []
  trans : List Trans := []
  kpats : List KPat := []
  types : List Ty := []
  deriving Repr, Inhabited

def Template.registerType (t : Template) (ty : Ty) : Template :=
  if t.types.contains ty then t else { t with types := t.types ++ [ty] }

/-- `MergedTemplate::add_transition` (only if `(from, type)` is vacant) -/
def Template.addTransition (t : Template) (src dst : Nat) (ty : Ty) : Template :=
  if t.trans.any (fun x => x.src == src && x.ty == ty) then t
  else { t with trans := t.trans ++ [{ src, dst, ty, queries := [], kleene := false }] }

/-- `add_query_to_transition` -/
def Template.addQueryToTransition (t : Template) (src : Nat) (ty : Ty) (q : Nat) : Template :=
  { t with trans := t.trans.map fun x =>
      if x.src == src && x.ty == ty && !x.queries.contains q then { x with queries := x.queries ++ [q] } else x }

/-- `mark_kleene` -/
def Template.markKleene (t : Template) (src : Nat) (ty : Ty) : Template :=
  { t with trans := t.trans.map fun x => if x.src == src && x.ty == ty then { x with kleene := true } else x }

/-- `add_kleene_pattern` (deduplicated on (type, state)) -/
def Template.addKleenePattern (t : Template) (ty : Ty) (state : Nat) : Template :=
  if t.kpats.any (fun p => p.ty == ty && p.state == state) then t
  else { t with kpats := t.kpats ++ [{ ty, queries := [], state }] }

/-- `add_query_to_kleene`: the query is added to the *first* pattern of that type -/
def addQueryToFirst (ty : Ty) (q : Nat) : List KPat → List KPat
  | [] => []
  | p :: ps =>
    if p.ty == ty then (if p.queries.contains q then p else { p with queries := p.queries ++ [q] }) :: ps
    else p :: addQueryToFirst ty q ps

/-- `TemplateBuilder::add_sequence` -/
def Template.addSequence (t : Template) (q : Nat) (types : List Ty) : Template :=
  let base := t.nstates
  let t := { t with nstates := base + types.length + 1,
                    initial := (t.initial.filter (·.1 != q)) ++ [(q, base)],
                    finals := t.finals ++ [(q, base + types.length)] }
  (types.zipIdx).foldl (fun t (ty, i) =>
    ((t.registerType ty).addTransition (base + i) (base + i + 1) ty).addQueryToTransition (base + i) ty q) t

/-- `TemplateBuilder::add_kleene` -/
def Template.addKleene (t : Template) (q : Nat) (ty : Ty) (at_ : Nat) : Template :=
  let t := (((t.registerType ty).addTransition at_ at_ ty).addQueryToTransition at_ ty q).markKleene at_ ty
  let t := t.addKleenePattern ty at_
  { t with kpats := addQueryToFirst ty q t.kpats }

def Template.transition (t : Template) (src : Nat) (ty : Ty) : Option Trans :=
  t.trans.find? (fun x => x.src == src && x.ty == ty)

def Template.initialOf (t : Template) (q : Nat) : Nat :=
  ((t.initial.find? (·.1 == q)).map (·.2)).getD 0

def Template.isFinal (t : Template) (q : Nat) (s : Nat) : Bool := t.finals.any (fun f => f.1 == q && f.2 == s)

/-- `queries_sharing_kleene` -/
def Template.sharingQueries (t : Template) (ty : Ty) : List Nat :=
  ((t.kpats.find? (·.ty == ty)).map (·.queries)).getD []

/-- the template for queries `qs` with ids `0,1,…`, built the way the repository builds it
(engine/mod.rs and the unit tests of aggregator.rs/template.rs): `add_sequence`, then
`add_kleene(type, state of that step)` -/
def buildTemplate (qs : List Query) : Template :=
  (qs.zipIdx).foldl (fun t (q, id) =>
    let base := t.nstates
    let t := t.addSequence id q.types
    (q.zipIdx).foldl (fun t (s, pos) => if s.kleene then t.addKleene id s.ty (base + pos) else t) t) {}

/-- `QueryState` -/
structure QState where
  cur : Nat
  count : Nat := 0
  inTrend : Bool := false
  snap : Nat := 1
  deriving Repr, Inhabited

structure Agg where
  tpl : Template
  /-- `QueryRegistration`s: (id, Kleene types) in registration order -/
  regs : List (Nat × List Ty)
  /-- optimizer `min_queries` (2 = default, sharing on; large = sharing off) -/
  minQueries : Nat
  states : List (Nat × QState)
  finals : List (Nat × Nat)
  lastTy : Option Ty := none
  /-- the single active graphlet: its size (its type is `lastTy`) -/
  active : Nat := 0
  deriving Repr, Inhabited

def getState (a : Agg) (q : Nat) : Option QState := (a.states.find? (·.1 == q)).map (·.2)
def setState (a : Agg) (q : Nat) (s : QState) : Agg :=
  { a with states := a.states.map fun e => if e.1 == q then (q, s) else e }
def getFinal (a : Agg) (q : Nat) : Nat := ((a.finals.find? (·.1 == q)).map (·.2)).getD 0
def addFinal (a : Agg) (q : Nat) (n : Nat) : Agg :=
  if a.finals.any (·.1 == q) then { a with finals := a.finals.map fun e => if e.1 == q then (q, e.2 + n) else e }
  else { a with finals := a.finals ++ [(q, n)] }

/-- `HamletAggregator::new` + `register_query` for every query -/
def Agg.new (qs : List Query) (minQueries : Nat) : Agg :=
  let tpl := buildTemplate qs
  let ids := List.range qs.length
  { tpl, minQueries,
    regs := qs.zipIdx.map fun (q, id) => (id, (q.filter (·.kleene)).map (·.ty)),
    states := ids.map fun id => (id, { cur := tpl.initialOf id }),
    finals := ids.map fun id => (id, 0) }

/-- optimizer `decision(type)`: `Shared` iff the last `register_kleene(type, sharing)` saw at least
`min_queries` queries, i.e. iff that many registered queries have `ty` as a Kleene type.
(Re-evaluation needs an average graphlet size ≥ 4 with an EMA factor 0.1: unreachable within 12 events.) -/
def decisionShared (a : Agg) (ty : Ty) : Bool :=
  let n := (a.regs.filter (fun r => r.2.contains ty)).length
  n > 0 && n ≥ a.minQueries

/-- `PropagationCoefficients::compute_kleene`: 1, 1, 2, 4, … -/
def coeffs : Nat → List Nat
  | 0 => []
  | n + 1 => let cs := coeffs n; cs ++ [if n = 0 then 1 else cs.sum]

/-- `compute_kleene_count` -/
def kleeneCount (n snap : Nat) : Nat := if n = 0 then 0 else (2 ^ n - 1) * snap

/-- `process_shared_graphlet` -/
def processShared (a : Agg) (size : Nat) (queries : List Nat) : Agg :=
  let cs := coeffs size
  -- Snapshot::set_value keeps one value per query
  queries.eraseDups.foldl (fun a q =>
    match getState a q with
    | none => a
    | some st =>
      let last := (cs.getLast?.getD 0) * st.snap
      setState a q { st with count := st.count + last, snap := (cs.map (· * st.snap)).sum }) a

/-- `process_non_shared_graphlet` -/
def processNonShared (a : Agg) (size : Nat) (queries : List Nat) : Agg :=
  queries.foldl (fun a q =>
    match getState a q with
    | none => a
    | some st =>
      if st.inTrend then
        let kc := kleeneCount size st.snap
        setState a q { st with count := st.count + kc, snap := kc }
      else a) a

/-- `process_closed_graphlet` for the graphlet of type `ty` with `size` events -/
def processClosed (a : Agg) (ty : Ty) (size : Nat) : Agg :=
  if size = 0 then a else
  let queries := a.tpl.sharingQueries ty
  if decisionShared a ty && queries.length > 1 then processShared a size queries
  else processNonShared a size queries

/-- `update_query_state`; returns the incremental report, if any -/
def updateQueryState (a : Agg) (q : Nat) (ty : Ty) : Agg × Option Nat :=
  match getState a q with
  | none => (a, none)
  | some st =>
    match a.tpl.transition st.cur ty with
    | none => (a, none)
    | some tr =>
      if !tr.queries.contains q then (a, none) else
      let st := { st with cur := tr.dst }
      let st := if tr.src == a.tpl.initialOf q then { st with inTrend := true, snap := 1 } else st
      let st := if tr.kleene && st.inTrend then { st with count := st.count + st.snap } else st
      let a := setState a q st
      if a.tpl.isFinal q tr.dst then
        let a := if st.inTrend then addFinal a q (max st.count 1) else a
        (a, some (getFinal a q))
      else (a, none)

/-- `process` (incremental mode): reports `(query, value)` -/
def process (a : Agg) (ty : Ty) : Agg × List (Nat × Nat) :=
  if !a.tpl.types.contains ty then (a, []) else
  let a := match a.lastTy with
    | some l => if l != ty then { processClosed a l a.active with active := 0 } else a
    | none => a
  let a := { a with lastTy := some ty, active := a.active + 1 }
  a.regs.foldl (fun (acc : Agg × List (Nat × Nat)) r =>
    let (a', rep) := updateQueryState acc.1 r.1 ty
    (a', match rep with | some v => acc.2 ++ [(r.1, v)] | none => acc.2)) (a, [])

/-- `flush`: reports `(query, value)` with `value > 0` -/
def flush (a : Agg) : List (Nat × Nat) :=
  let a := match a.lastTy with
    | some l => processClosed a l a.active
    | none => a
  let a := a.states.foldl (fun a e => if e.2.inTrend && e.2.count > 0 then addFinal a e.1 e.2.count else a) a
  a.regs.filterMap fun r =>
    let total := max (getFinal a r.1) (((getState a r.1).map (·.count)).getD 0)
    if total > 0 then some (r.1, total) else none

/-- a whole run: incremental reports `(event index, query, value)` and the flush reports -/
def run (qs : List Query) (minQueries : Nat) (evs : List Ty) : List (Nat × Nat × Nat) × List (Nat × Nat) :=
  let r := evs.zipIdx.foldl (fun (acc : Agg × List (Nat × Nat × Nat)) (ty, k) =>
    let (a', reps) := process acc.1 ty
    (a', acc.2 ++ reps.map fun (q, v) => (k, q, v))) (Agg.new qs minQueries, [])
  (r.2, flush r.1)

/-- `reset` (end of `flush`): graph, `last_event_type`, `final_counts` cleared, every `QueryState`
re-created (`current_state` = initial, `count` 0, `in_trend` false, `snapshot_value` 1); template,
registrations and sharing decisions stay -/
def reset (a : Agg) : Agg :=
  { a with
    states := a.regs.map fun r => (r.1, { cur := a.tpl.initialOf r.1 }),
    finals := a.regs.map fun r => (r.1, 0),
    lastTy := none, active := 0 }

/-- one aggregator driven through several windows separated by `flush()`: incremental reports
`(event index over the whole stream, query, value)`, flush reports `(window, query, value)` -/
def runWindows (qs : List Query) (minQueries : Nat) (wins : List (List Ty)) :
    List (Nat × Nat × Nat) × List (Nat × Nat × Nat) :=
  let r := wins.zipIdx.foldl
    (fun (acc : Agg × Nat × List (Nat × Nat × Nat) × List (Nat × Nat × Nat)) (evs, w) =>
      let (a, off, inc, fl) := acc
      let r := (evs.zipIdx off).foldl (fun (acc : Agg × List (Nat × Nat × Nat)) (ty, k) =>
        let (a', reps) := process acc.1 ty
        (a', acc.2 ++ reps.map fun (q, v) => (k, q, v))) (a, inc)
      (reset r.1, off + evs.length, r.2, fl ++ (flush r.1).map fun (q, v) => (w, q, v)))
    (Agg.new qs minQueries, 0, [], [])
  (r.2.2.1, r.2.2.2)

end Hamlet

/-! ## Mirror of `greta.rs` -/
namespace GretaImpl

/-- `EventNode` (counts, is_start, is_end per query) -/
structure Node where
  ty : Ty
  preds : List Nat
  counts : List Nat
  isStart : List Bool
  isEnd : List Bool
  deriving Repr, Inhabited

structure Exec where
  queries : List Query
  nodes : List Node := []
  finals : List Nat
  deriving Repr, Inhabited

def Exec.new (qs : List Query) : Exec := { queries := qs, finals := qs.map fun _ => 0 }

/-- `add_predecessor_edges`: one predecessor list per node, the union over *all* queries of: the
earlier events of the previous step's type (step = first position of the type) and, if the type is
a Kleene type of the query, of the same type -/
def predsFor (e : Exec) (ty : Ty) : List Nat :=
  e.queries.foldl (fun acc q =>
    match q.types.idxOf? ty with
    | none => acc
    | some pos =>
      let predTypes := (if pos > 0 then [(q.types)[pos - 1]!] else []) ++
                       (if (q.filter (·.kleene)).any (·.ty == ty) then [ty] else [])
      predTypes.foldl (fun acc pt =>
        (e.nodes.zipIdx).foldl (fun acc (n, id) => if n.ty == pt && !acc.contains id then acc ++ [id] else acc) acc) acc) []

/-- `EventGraph::propagate_counts(query)`: recomputes every node and *adds* every end node's count
to `final_counts[query]` again -/
def propagate (e : Exec) (qi : Nat) : Exec :=
  (List.range e.nodes.length).foldl (fun e i =>
    let n := e.nodes[i]!
    let c := (if n.isStart[qi]! then 1 else 0) + (n.preds.map fun p => (e.nodes[p]!).counts[qi]!).sum
    let e := { e with nodes := e.nodes.set i { n with counts := n.counts.set qi c } }
    if n.isEnd[qi]! then { e with finals := e.finals.set qi (e.finals[qi]! + c) } else e) e

/-- `GretaExecutor::process`; `known` = the type was registered -/
def process (e : Exec) (ty : Ty) (known : Bool) : Exec × List (Nat × Nat) :=
  if !known then (e, []) else
  let node : Node := {
    ty, preds := predsFor e ty, counts := e.queries.map fun _ => 0,
    isStart := e.queries.map fun q => q.types.head? == some ty,
    isEnd := e.queries.map fun q => q.types.getLast? == some ty }
  let e := { e with nodes := e.nodes ++ [node] }
  (List.range e.queries.length).foldl (fun (acc : Exec × List (Nat × Nat)) qi =>
    let e := propagate acc.1 qi
    (e, if e.finals[qi]! > 0 then acc.2 ++ [(qi, e.finals[qi]!)] else acc.2)) (e, [])

def flush (e : Exec) : List (Nat × Nat) :=
  (e.finals.zipIdx).filterMap fun (c, qi) => if c > 0 then some (qi, c) else none

def run (qs : List Query) (evs : List Ty) (known : Ty → Bool) : List (Nat × Nat × Nat) × List (Nat × Nat) :=
  let r := evs.zipIdx.foldl (fun (acc : Exec × List (Nat × Nat × Nat)) (ty, k) =>
    let (e', reps) := process acc.1 ty (known ty)
    (e', acc.2 ++ reps.map fun (q, v) => (k, q, v))) (Exec.new qs, [])
  (r.2, flush r.1)

/-- several windows separated by `flush()` (which clears the graph and zeroes `final_counts`) -/
def runWindows (qs : List Query) (wins : List (List Ty)) (known : Ty → Bool) :
    List (Nat × Nat × Nat) × List (Nat × Nat × Nat) :=
  let r := wins.zipIdx.foldl
    (fun (acc : Nat × List (Nat × Nat × Nat) × List (Nat × Nat × Nat)) (evs, w) =>
      let (off, inc, fl) := acc
      let r := (evs.zipIdx off).foldl (fun (acc : Exec × List (Nat × Nat × Nat)) (ty, k) =>
        let (e', reps) := process acc.1 ty (known ty)
        (e', acc.2 ++ reps.map fun (q, v) => (k, q, v))) (Exec.new qs, inc)
      (off + evs.length, r.2, fl ++ (flush r.1).map fun (q, v) => (w, q, v)))
    (0, [], [])
  (r.2.1, r.2.2)

end GretaImpl

/-! ## Mirror of the engine glue -/
namespace EngineImpl

/-- per-stream `kleene_types` as registered by the engine: *local* type indices (position of the
type in the stream's own pattern) -/
def localKleene (q : Query) : List Nat :=
  (q.zipIdx.filter (·.1.kleene)).map (·.2)

/-- `setup_hamlet_sharing`: with at least two `.trend_aggregate` streams, streams are grouped by the
sorted list of their local Kleene indices rendered as `type_<i>`; every group of ≥ 2 streams with a
non-empty key is moved to a shared aggregator whose template knows only the names `type_<i>`, so no
event of the program ever reaches it. Is stream `i` in such a group? -/
def silenced (qs : List Query) (i : Nat) : Bool :=
  -- `localKleene` is ascending already (positions in pattern order), so it is its own sorted key
  let key := fun (q : Query) => localKleene q
  let me := key (qs[i]!)
  qs.length ≥ 2 && !me.isEmpty && ((qs.filter fun q => key q == me).length ≥ 2)

/-- reports `(event index, stream, value)` of the program with one stream per query -/
def run (qs : List Query) (evs : List Ty) : List (Nat × Nat × Nat) :=
  (List.range qs.length).foldl (fun acc i =>
    if silenced qs i then acc else
      acc ++ ((Hamlet.run [qs[i]!] 2 evs).1.map fun (k, _, v) => (k, i, v))) []

end EngineImpl

/-! ## Reading the reports -/

/-- value reported by `flush()` for query `q` (absent = 0) -/
def flushed (r : List (Nat × Nat × Nat) × List (Nat × Nat)) (q : Nat) : Nat :=
  ((r.2.find? (·.1 == q)).map (·.2)).getD 0

/-- last value the engine reported for stream `i` (none = 0) -/
def lastReported (r : List (Nat × Nat × Nat)) (i : Nat) : Nat :=
  (((r.filter (·.2.1 == i)).getLast?).map (·.2.2)).getD 0

end Varpulis.Trend
