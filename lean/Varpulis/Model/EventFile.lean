/-!
# M-TEXT (event files) — line dispatch of the two event-file readers
(`crates/varpulis-runtime/src/event_file.rs`)

* `preloadFrom` mirrors `EventFileParser::parse` (the preloading reader),
* `parseLine` mirrors `EventFileParser::parse_stream_line` (which falls back to `parse_line`),
  `streamWith` mirrors `StreamingEventReader::next` driven by the CLI loop (which stops at the
  first `Err`); `parseLineOld` is `parse_line`, which the reader called directly before the repairs,
* `parseTimingPrefix` mirrors `EventFileParser::parse_timing_prefix`.

The payload parser (`parse_event_line` for `.evt` syntax, `parse_jsonl_line` when the text starts
with `{`) is the *same* function in both readers; it is a parameter `parseEvent : String → Option Ev`
(`none` = `Err`). Strings are handled as `List Char`. A line is given as the text `str::lines()`
yields plus the byte length of the raw line including its terminator (what `read_line` returns);
`str::trim` removes the terminator in both readers.
-/
namespace Varpulis.EventFile

/-- outcome of reading a file: the events, `Err(_)` (the file is rejected), or a panic (no model
function produces it since `parse_timing_prefix` uses `checked_mul`; the harness can report it). -/
inductive Outcome (α : Type) where
  | ok (a : α)
  | reject
  | panic
  deriving Repr, DecidableEq

def Outcome.map {α β : Type} (f : α → β) : Outcome α → Outcome β
  | .ok a => .ok (f a)
  | .reject => .reject
  | .panic => .panic

/-- `o.cons e`: prepend an event to a successful rest -/
def Outcome.cons {α : Type} (e : α) : Outcome (List α) → Outcome (List α)
  | .ok l => .ok (e :: l)
  | .reject => .reject
  | .panic => .panic

/-- `limits::MAX_LINE_LENGTH` -/
def maxLineLength : Nat := 1048576

/-- Rust `char::is_whitespace` (Unicode `White_Space`) -/
def isWs (c : Char) : Bool :=
  let n := c.toNat
  n == 0x20 || (0x09 ≤ n && n ≤ 0x0D) || n == 0x85 || n == 0xA0 || n == 0x1680 ||
  (0x2000 ≤ n && n ≤ 0x200A) || n == 0x2028 || n == 0x2029 || n == 0x202F || n == 0x205F || n == 0x3000

/-- `str::trim` -/
def trimL (s : List Char) : List Char := ((s.dropWhile isWs).reverse.dropWhile isWs).reverse

def starts (s : List Char) (p : String) : Bool := p.toList.isPrefixOf s
def ends (s : List Char) (p : String) : Bool := p.toList.isSuffixOf s

/-- `str::split_whitespace().collect()` -/
def splitWs (s : List Char) : List (List Char) :=
  let rec go (cur : List Char) (acc : List (List Char)) : List Char → List (List Char)
    | [] => (if cur.isEmpty then acc else cur.reverse :: acc).reverse
    | c :: cs => if isWs c then go [] (if cur.isEmpty then acc else cur.reverse :: acc) cs else go (c :: cur) acc cs
  go [] [] s

/-- `str::parse::<u64>()`: optional `+`, at least one ASCII digit, no overflow -/
def parseU64 (s : List Char) : Option Nat :=
  let ds := match s with | '+' :: r => r | _ => s
  if ds.isEmpty || !ds.all Char.isDigit then none
  else
    let n := ds.foldl (fun acc c => acc * 10 + (c.toNat - 48)) 0
    if n < 2 ^ 64 then some n else none

/-- `str::trim_end_matches(pat)` for a non-empty pattern: strip the suffix as often as it occurs.
Fuel: the length of the string. -/
def trimEndMatches (pat : List Char) : Nat → List Char → List Char
  | 0, s => s
  | fuel + 1, s => if !pat.isEmpty && pat.isSuffixOf s then trimEndMatches pat fuel (s.take (s.length - pat.length)) else s

/-- `u64::checked_mul` -/
def mulU64 (a b : Nat) : Option Nat := if a * b < 2 ^ 64 then some (a * b) else none

/-- `EventFileParser::parse_timing_prefix(line)`: `(time_ms, rest_of_line)`.
`@10s X {..}`, `@100ms X {..}`, `@2m X {..}`, `@100 X {..}`. -/
def parseTimingPrefix (line : List Char) : Outcome (Nat × List Char) :=
  let line := line.dropWhile (· == '@')            -- trim_start_matches('@')
  match line.span (fun c => !isWs c) with          -- find(char::is_whitespace)
  | (_, []) => .reject                              -- "Invalid timing prefix format"
  | (timing, rest) =>
    let rest := trimL rest
    if ends timing "ms" then
      match parseU64 (trimEndMatches "ms".toList timing.length timing) with
      | some n => .ok (n, rest) | none => .reject
    else if ends timing "s" then
      match parseU64 (trimEndMatches "s".toList timing.length timing) with
      | some n => (match mulU64 n 1000 with | some m => .ok (m, rest) | none => .reject)  -- "Timing value too large"
      | none => .reject
    else if ends timing "m" then
      match parseU64 (trimEndMatches "m".toList timing.length timing) with
      | some n => (match mulU64 n 60000 with | some m => .ok (m, rest) | none => .reject)
      | none => .reject
    else
      match parseU64 timing with
      | some n => .ok (n, rest) | none => .reject

/-- a line of the file: the text as `str::lines()` yields it, and the byte length of the raw line
including its terminator (`line_buffer.len()` in the streaming reader). -/
structure RawLine where
  text : String
  rawLen : Nat
  deriving Repr, DecidableEq

section
variable {Ev : Type} (parseEvent : String → Option Ev)

/-- the check of a `BATCH` directive, shared shape in both readers: `parts.len() >= 2` ⇒ `parts[1]`
must parse as u64. `some none` = no time given, `none` = "Invalid BATCH time". -/
def batchTime (line : List Char) : Option (Option Nat) :=
  match splitWs line with
  | _ :: p :: _ => (parseU64 p).map some
  | _ => some none

/-- `EventFileParser::parse` from a given `current_batch_time`: events with their time offsets. -/
def preloadFrom (batch : Nat) : List RawLine → Outcome (List (Ev × Nat))
  | [] => .ok []
  | l :: ls =>
    let line := trimL l.text.toList
    if line.isEmpty || starts line "#" || starts line "//" then preloadFrom batch ls
    else if starts line "BATCH" then
      match batchTime line with
      | some (some n) => preloadFrom n ls
      | some none => preloadFrom batch ls
      | none => .reject
    else
      match (if starts line "@" then parseTimingPrefix line else .ok (batch, line)) with
      | .ok (off, evl) =>
        (match parseEvent (String.ofList evl) with
         | some e => (preloadFrom batch ls).cons (e, off)
         | none => .reject)
      | .reject => .reject
      | .panic => .panic

/-- the preloading reader -/
def preloadRead (lines : List RawLine) : Outcome (List (Ev × Nat)) := preloadFrom parseEvent 0 lines

/-- `EventFileParser::parse_stream_line` (introduced by the two `fix:` commits; what
`StreamingEventReader::next` calls): a malformed `BATCH` time is an error as in `parse`, a `@…`
timing prefix is parsed (its time is dropped) instead of the whole line being skipped, everything
else is `parse_line`. -/
def parseLine (line0 : String) : Outcome (Option Ev) :=
  let line := trimL line0.toList
  if line.isEmpty || starts line "#" || starts line "//" then .ok none
  else if starts line "BATCH" then
    match batchTime line with
    | some _ => .ok none
    | none => .reject
  else
    match (if starts line "@" then parseTimingPrefix line else .ok (0, line)) with
    | .ok (_, evl) =>
      (match parseEvent (String.ofList evl) with
       | some e => .ok (some e)
       | none => .reject)
    | .reject => .reject
    | .panic => .panic

/-- `EventFileParser::parse_line` (what the streaming reader called on the unchanged tree):
`BATCH…` and `@…` lines are skipped. -/
def parseLineOld (line0 : String) : Outcome (Option Ev) :=
  let line := trimL line0.toList
  if line.isEmpty || starts line "#" || starts line "//" then .ok none
  else if starts line "BATCH" || starts line "@" then .ok none
  else
    match parseEvent (String.ofList line) with
    | some e => .ok (some e)
    | none => .reject

/-- `StreamingEventReader::next` iterated by the CLI (`Some(Err(e)) => return Err`): lines longer than
`MAX_LINE_LENGTH` are skipped, the first error rejects the file. `pl` is `parse_line`. -/
def streamWith (pl : String → Outcome (Option Ev)) : List RawLine → Outcome (List Ev)
  | [] => .ok []
  | l :: ls =>
    if maxLineLength < l.rawLen then streamWith pl ls
    else
      match pl l.text with
      | .ok none => streamWith pl ls
      | .ok (some e) => (streamWith pl ls).cons e
      | .reject => .reject
      | .panic => .panic

/-- the streaming reader -/
def streamRead (lines : List RawLine) : Outcome (List Ev) := streamWith (parseLine parseEvent) lines

/-- the streaming reader of the unchanged tree -/
def streamReadOld (lines : List RawLine) : Outcome (List Ev) := streamWith (parseLineOld parseEvent) lines

end

/-- split a file into raw lines the way both `str::lines()` and `BufRead::read_line` do: at every
`\n`; `lines()` additionally drops one `\r` before the `\n` (immaterial after `trim`). -/
def splitRaw (content : String) : List RawLine :=
  let rec go (cur : List Char) (acc : List RawLine) : List Char → List RawLine
    | [] => (if cur.isEmpty then acc else mk cur.reverse false :: acc).reverse
    | c :: cs => if c == '\n' then go [] (mk cur.reverse true :: acc) cs else go (c :: cur) acc cs
  go [] [] content.toList
where
  mk (seg : List Char) (nl : Bool) : RawLine :=
    let raw := String.ofList seg
    let text := if nl && seg.getLast? == some '\r' then String.ofList seg.dropLast else raw
    { text := text, rawLen := raw.utf8ByteSize + (if nl then 1 else 0) }

end Varpulis.EventFile
