/-!
# M-VAL — runtime values: equality and hashing (`crates/varpulis-core/src/value.rs`)

`Value` mirrors `pub enum Value`. An `f64` is modelled by its bit pattern (`f64::to_bits`), so NaN
payloads, `-0.0`, subnormals and infinities are all present and IEEE `==` is exact (two non-NaN
floats are `==` iff their bits are equal or both are a zero). A map is the list of its entries in
*insertion order* (`IndexMap` iteration order); `WF` states the `IndexMap` invariant "keys are
pairwise distinct", which `insert` preserves.

`hashToks v` is the exact sequence of `Hasher::write_*` calls `impl Hash for Value` performs
(each call one token); the hash is `finish` of an arbitrary hasher fed with that sequence, so
"equal write sequences" is "equal hashes for every hasher".
No Mathlib (linked into `vmodel`).
-/
namespace Varpulis.Val

/-- `f64` as its bit pattern `to_bits()` (`bits < 2^64`) -/
structure F64 where
  bits : Nat
  deriving DecidableEq, Repr

namespace F64
def expo (f : F64) : Nat := (f.bits / 2 ^ 52) % 2048
def mant (f : F64) : Nat := f.bits % 2 ^ 52
def sign (f : F64) : Bool := (f.bits / 2 ^ 63) % 2 == 1
/-- `f64::is_nan` -/
def isNan (f : F64) : Bool := f.expo == 2047 && f.mant != 0
/-- `f == 0.0` (true for `0.0` and `-0.0`) -/
def isZero (f : F64) : Bool := f.bits % 2 ^ 63 == 0
/-- IEEE-754 `==` on non-signalling comparisons: NaN is unequal to everything, `-0.0 == 0.0`,
otherwise equality of representations -/
def ieeeEq (a b : F64) : Bool := !a.isNan && !b.isNan && (a.bits == b.bits || (a.isZero && b.isZero))
/-- `f64::NAN.to_bits()` -/
def canonicalNan : Nat := 0x7ff8000000000000
end F64

/-- `value.rs float_eq`: NaN == NaN, -0.0 == 0.0, else IEEE `==` -/
def floatEq (a b : F64) : Bool :=
  if a.isNan && b.isNan then true
  else if a.isZero && b.isZero then true
  else a.ieeeEq b

/-- the bits `impl Hash for Value` feeds the hasher for a float -/
def floatHashBits (f : F64) : Nat :=
  if f.isNan then F64.canonicalNan else if f.isZero then 0 else f.bits

/-- `pub enum Value` -/
inductive Value where
  | null
  | bool (b : Bool)
  | int (n : Int)
  | float (f : F64)
  | str (s : String)
  | timestamp (n : Int)
  | duration (n : Nat)
  | array (items : List Value)
  | map (entries : List (String × Value))
  deriving Repr

/-- `IndexMap::get` (keys are distinct in a well-formed map, so "first match" is "the match") -/
def lookupV (k : String) : List (String × Value) → Option Value
  | [] => none
  | (k', v) :: r => if k' == k then some v else lookupV k r

/-- `IndexMap::insert`: an existing key keeps its position and gets the new value, a new key is appended -/
def insertV (k : String) (v : Value) : List (String × Value) → List (String × Value)
  | [] => [(k, v)]
  | (k', v') :: r => if k' == k then (k', v) :: r else (k', v') :: insertV k v r

mutual
/-- `impl PartialEq for Value` -/
def veq : Value → Value → Bool
  | .null, .null => true
  | .bool a, .bool b => a == b
  | .int a, .int b => a == b
  | .float a, .float b => floatEq a b
  | .str a, .str b => a == b
  | .timestamp a, .timestamp b => a == b
  | .duration a, .duration b => a == b
  | .array a, .array b => veqList a b
  | .map a, .map b => a.length == b.length && veqSub a b
  | _, _ => false
/-- `Vec<Value> == Vec<Value>`: same length, pairwise equal -/
def veqList : List Value → List Value → Bool
  | [], [] => true
  | x :: xs, y :: ys => veq x y && veqList xs ys
  | _, _ => false
/-- `IndexMap == IndexMap` after the length test:
`self.iter().all(|(k, v)| other.get(k).map_or(false, |v2| *v == *v2))` -/
def veqSub : List (String × Value) → List (String × Value) → Bool
  | [], _ => true
  | (k, v) :: r, b => (match lookupV k b with | some v2 => veq v v2 | none => false) && veqSub r b
end

/-- one `Hasher::write_*` call -/
inductive Tok where
  | isize (n : Nat)      -- `mem::discriminant(self).hash` → `write_isize`
  | u8 (n : Nat)         -- `bool::hash` → `write_u8`; the `0xff` terminator of `str::hash`
  | i64 (n : Int)
  | u64 (n : Nat)
  | usize (n : Nat)      -- `len().hash`
  | bytes (s : String)   -- `str::hash` → `write(s.as_bytes())`
  deriving DecidableEq, Repr

/-- `str::hash`: `write(s.as_bytes()); write_u8(0xff)` -/
def strToks (s : String) : List Tok := [.bytes s, .u8 255]

/-- entries in key order (`entries.sort_unstable_by(|a, b| a.0.cmp(b.0))`; keys are distinct, so
stability is irrelevant; `str` order is byte-wise = code-point-wise) -/
def sortByKey {α : Type} (l : List (String × α)) : List (String × α) :=
  l.mergeSort (fun a b => decide (a.1 ≤ b.1))

def flattenEntries (l : List (String × List Tok)) : List Tok :=
  l.flatMap fun kv => strToks kv.1 ++ kv.2

mutual
/-- `impl Hash for Value` as the sequence of hasher writes; for maps (since the `fix:` commit) the
entries are hashed in key order -/
def hashToks : Value → List Tok
  | .null => [.isize 0]
  | .bool b => [.isize 1, .u8 (if b then 1 else 0)]
  | .int n => [.isize 2, .i64 n]
  | .float f => [.isize 3, .u64 (floatHashBits f)]
  | .str s => .isize 4 :: strToks s
  | .timestamp n => [.isize 5, .i64 n]
  | .duration n => [.isize 6, .u64 n]
  | .array l => .isize 7 :: .usize l.length :: hashList l
  | .map m => .isize 8 :: .usize m.length :: flattenEntries (sortByKey (hashEntries m))
def hashList : List Value → List Tok
  | [] => []
  | v :: r => hashToks v ++ hashList r
/-- the write sequence of every entry's value, still in insertion order -/
def hashEntries : List (String × Value) → List (String × List Tok)
  | [] => []
  | (k, v) :: r => (k, hashToks v) :: hashEntries r
end

mutual
/-- the code before the `fix:` commit: map entries hashed in insertion order -/
def hashToksOld : Value → List Tok
  | .null => [.isize 0]
  | .bool b => [.isize 1, .u8 (if b then 1 else 0)]
  | .int n => [.isize 2, .i64 n]
  | .float f => [.isize 3, .u64 (floatHashBits f)]
  | .str s => .isize 4 :: strToks s
  | .timestamp n => [.isize 5, .i64 n]
  | .duration n => [.isize 6, .u64 n]
  | .array l => .isize 7 :: .usize l.length :: hashListOld l
  | .map m => .isize 8 :: .usize m.length :: flattenEntries (hashEntriesOld m)
def hashListOld : List Value → List Tok
  | [] => []
  | v :: r => hashToksOld v ++ hashListOld r
def hashEntriesOld : List (String × Value) → List (String × List Tok)
  | [] => []
  | (k, v) :: r => (k, hashToksOld v) :: hashEntriesOld r
end

mutual
/-- the `IndexMap` invariant, hereditarily: the keys of every map are pairwise distinct -/
def wf : Value → Bool
  | .array l => wfList l
  | .map m => wfEntries m
  | _ => true
def wfList : List Value → Bool
  | [] => true
  | v :: r => wf v && wfList r
def wfEntries : List (String × Value) → Bool
  | [] => true
  | (k, v) :: r => wf v && (lookupV k r).isNone && wfEntries r
end

/-- a hasher is any function of the write sequence (`finish` after the writes) -/
def hashWith (finish : List Tok → Nat) (v : Value) : Nat := finish (hashToks v)

end Varpulis.Val
