/-!
# M-TENANT (persistence part) — tenant/pipeline metadata in the state store

Mirrors crates/varpulis-runtime/src/tenant.rs: `TenantManager::{create_tenant, remove_tenant,
persist_if_needed, persist_tenant_to_store, delete_tenant_state, update_tenant_index_add,
update_tenant_index_remove, recover}` and the persistence calls of the REST handlers
`handle_deploy`, `handle_delete`, `handle_reload`, `handle_create_tenant`, `handle_delete_tenant`
(crates/varpulis-cli/src/api.rs). Strings (names, sources, keys, ids) are abstract codes (`Nat`).
Every `StateStore::put/delete` is one atomic store write (FileStore: tmp + rename, see C21);
a crash happens between store writes.
-/
namespace Varpulis.TenantStore

structure Pipe where
  name : Nat
  src : Nat
  status : Nat
  deriving DecidableEq, Repr

structure Tenant where
  name : Nat
  key : Nat
  pipes : List (Nat × Pipe)
  deriving DecidableEq, Repr

abbrev TMap := List (Nat × Tenant)

def setT (m : TMap) (t : Nat) (x : Tenant) : TMap := (t, x) :: m.filter (·.1 ≠ t)
def delT (m : TMap) (t : Nat) : TMap := m.filter (·.1 ≠ t)

def setP (m : List (Nat × Pipe)) (p : Nat) (x : Pipe) : List (Nat × Pipe) := (p, x) :: m.filter (·.1 ≠ p)
def delP (m : List (Nat × Pipe)) (p : Nat) : List (Nat × Pipe) := m.filter (·.1 ≠ p)

structure Store where
  /-- `tenant:<id>` → snapshot -/
  snaps : TMap := []
  /-- `tenants:index` (JSON list of ids; absent = empty) -/
  index : List Nat := []
  deriving Repr

inductive Write where
  | putSnap (t : Nat) (x : Tenant)
  | delSnap (t : Nat)
  /-- `update_tenant_index_add`: read-modify-write of the index -/
  | indexAdd (t : Nat)
  /-- `update_tenant_index_remove` -/
  | indexRemove (t : Nat)
  deriving Repr

def Store.apply (s : Store) : Write → Store
  | .putSnap t x => { s with snaps := setT s.snaps t x }
  | .delSnap t => { s with snaps := delT s.snaps t }
  | .indexAdd t => { s with index := if t ∈ s.index then s.index else s.index ++ [t] }
  | .indexRemove t => { s with index := s.index.filter (· ≠ t) }

/-- `TenantManager::recover`: tenants listed in the index whose snapshot exists -/
def recover (s : Store) : TMap := s.index.filterMap fun t => (s.snaps.lookup t).map fun x => (t, x)

inductive Op where
  /-- `t` is the freshly generated tenant id, `key` the generated API key -/
  | createTenant (t name key : Nat)
  | removeTenant (t : Nat)
  /-- `pid` is the freshly generated pipeline id -/
  | deploy (t pid name src : Nat)
  | deletePipe (t pid : Nat)
  | reload (t pid src : Nat)
  deriving Repr

/-- the operation on the in-memory manager; `none` = rejected (not acknowledged, nothing persisted) -/
def applyMem (m : TMap) : Op → Option TMap
  | .createTenant t name key =>
      if m.any (fun e => e.2.key == key) || (m.lookup t).isSome then none
      else some (setT m t { name := name, key := key, pipes := [] })
  | .removeTenant t => (m.lookup t).map fun _ => delT m t
  | .deploy t pid name src =>
      match m.lookup t with
      | some x => if (x.pipes.lookup pid).isSome then none
                  else some (setT m t { x with pipes := setP x.pipes pid { name := name, src := src, status := 0 } })
      | none => none
  | .deletePipe t pid =>
      match m.lookup t with
      | some x => if (x.pipes.lookup pid).isSome then some (setT m t { x with pipes := delP x.pipes pid }) else none
      | none => none
  | .reload t pid src =>
      match m.lookup t with
      | some x => match x.pipes.lookup pid with
        | some p => some (setT m t { x with pipes := setP x.pipes pid { p with src := src } })
        | none => none
      | none => none

def opTenant : Op → Nat
  | .createTenant t _ _ => t | .removeTenant t => t | .deploy t _ _ _ => t | .deletePipe t _ => t | .reload t _ _ => t

/-- the store writes of an acknowledged operation, given the memory state `m'` after it
(`persist_if_needed` = snapshot then index; `delete_tenant_state` = delete then index) -/
def writes (m' : TMap) : Op → List Write
  | .removeTenant t => [.delSnap t, .indexRemove t]
  | op => match m'.lookup (opTenant op) with
    | some x => [.putSnap (opTenant op) x, .indexAdd (opTenant op)]
    | none => []

structure Sys where
  mem : TMap := []
  store : Store := {}

def step (s : Sys) (op : Op) : Sys :=
  match applyMem s.mem op with
  | none => s
  | some m' => { mem := m', store := (writes m' op).foldl Store.apply s.store }

/-- the store if the process dies after the first `n` store writes of the (accepted) operation -/
def crashStore (s : Sys) (op : Op) (n : Nat) : Store :=
  match applyMem s.mem op with
  | none => s.store
  | some m' => ((writes m' op).take n).foldl Store.apply s.store

def run (ops : List Op) : Sys := ops.foldl step {}

end Varpulis.TenantStore
