/-!
# M-AGG — aggregation functions on the three execution paths (C14)

Mirrors `crates/varpulis-runtime/src/aggregation.rs` (`Count`, `Sum`, `Avg`, `Min`, `Max`, `StdDev`,
`First`, `Last`, `CountDistinct`, `Ema`: `apply` = row path, `apply_refs`/`apply_shared` = shared
path, `apply_columnar` = columnar path), `simd.rs` (`extract_field_f64`,
`extract_field_f64_filtered`, `simd_sum/avg/min/max`, `sum_f64_scalar` 4-way unrolled,
`sum_f64_avx2` lane-wise, `min/max_f64_scalar`, `min/max_f64_avx2`) and `columnar.rs`
(`ensure_float_column`).

Numbers are exact rationals (`Rat`): IEEE-754 rounding is *not* modelled (trusted; the tie uses
dyadic inputs so that sum/min/max/count are exact in `f64`, and a tolerance for avg/stddev/ema).
`F` adds the NaN that `f64` has (`nan` is absorbing for arithmetic, every comparison with it is
false); ±∞ and −0.0 are not modelled and not generated.
The field of one event is a `Val`: `missing` (no such field), `nonNum t` (Null/Bool/Str/…; `t`
identifies the value), `nan` (`Float(NaN)`), `int i`, `flt q`.
-/
namespace Varpulis.Agg

inductive Val
  | missing
  | nonNum (tag : Nat)
  | nan
  | int (i : Int)
  | flt (q : Rat)
  deriving DecidableEq, Repr

/-- an `f64` that is a number or NaN -/
inductive F
  | nan
  | num (q : Rat)
  deriving DecidableEq, Repr

def F.isNan : F → Bool | .nan => true | .num _ => false

def F.lift2 (f : Rat → Rat → Rat) : F → F → F
  | .num a, .num b => .num (f a b)
  | _, _ => .nan

instance : Add F := ⟨F.lift2 (· + ·)⟩
instance : Sub F := ⟨F.lift2 (· - ·)⟩
instance : Mul F := ⟨F.lift2 (· * ·)⟩
instance : Div F := ⟨F.lift2 (· / ·)⟩

/-- aggregation result: `Value::Null`, `Value::Int`, `Value::Float`, or (first/last) the field value -/
inductive Res
  | null
  | int (i : Int)
  | flt (x : F)
  | val (v : Val)
  deriving DecidableEq, Repr

/-- `Event::get_float` = `data.get(key).and_then(Value::as_float)`: Int and Float are numeric -/
def getFloat : Val → Option F
  | .int i => some (.num i)
  | .flt q => some (.num q)
  | .nan => some .nan
  | _ => none

/-- `extract_field_f64` / `ensure_float_column`: `get_float(field).unwrap_or(NaN)` per event -/
def extractNaN (vs : List Val) : List F := vs.map fun v => (getFloat v).getD .nan

/-- `filter_map(|e| e.get_float(field))` -/
def floats (vs : List Val) : List F := vs.filterMap getFloat

def F.toRat? : F → Option Rat
  | .num q => some q
  | .nan => none

/-- `.filter(|v| !v.is_nan())` -/
def nonNaN (xs : List F) : List Rat := xs.filterMap F.toRat?

/-- valid inputs as the row path of sum/avg and the columnar path see them (NaN-fill, then filter) -/
def validFill (vs : List Val) : List Rat := nonNaN (extractNaN vs)
/-- valid inputs as the shared path and `extract_field_f64_filtered` see them (filter_map, then filter) -/
def validRefs (vs : List Val) : List Rat := nonNaN (floats vs)

/-! ### `sum_f64` -/

/-- `sum_f64_scalar`: four accumulators over chunks of 4, remainder into `sum0`,
result `sum0 + sum1 + sum2 + sum3` -/
def sumScalarLoop : List Rat → Rat → Rat → Rat → Rat → Rat
  | a :: b :: c :: d :: rest, s0, s1, s2, s3 => sumScalarLoop rest (s0 + a) (s1 + b) (s2 + c) (s3 + d)
  | rem, s0, s1, s2, s3 => rem.foldl (· + ·) s0 + s1 + s2 + s3

def sumScalar (l : List Rat) : Rat := sumScalarLoop l 0 0 0 0

/-- `sum_f64_avx2`: one 4-lane vector accumulator, horizontal sum `r0+r1+r2+r3`, then the
remainder is added to the total -/
def sumAvx2Loop : List Rat → Rat → Rat → Rat → Rat → Rat
  | a :: b :: c :: d :: rest, s0, s1, s2, s3 => sumAvx2Loop rest (s0 + a) (s1 + b) (s2 + c) (s3 + d)
  | rem, s0, s1, s2, s3 => rem.foldl (· + ·) (s0 + s1 + s2 + s3)

def sumAvx2 (l : List Rat) : Rat := sumAvx2Loop l 0 0 0 0

/-- the mathematical sum -/
def sum (l : List Rat) : Rat := l.foldr (· + ·) 0

/-! ### `min_f64` / `max_f64` (accumulators start at ±∞: `none`) -/

/-- `if v < min { min = v }` with `min = +∞` as `none` (also one lane of `_mm256_min_pd`) -/
def minAcc (m : Option Rat) (v : Rat) : Option Rat :=
  match m with
  | none => some v
  | some x => some (if v < x then v else x)

def maxAcc (m : Option Rat) (v : Rat) : Option Rat :=
  match m with
  | none => some v
  | some x => some (if v > x then v else x)

/-- `f64::min` / `f64::max` of two accumulators (horizontal reduction) -/
def minOpt (a b : Option Rat) : Option Rat :=
  match a, b with
  | none, b => b
  | a, none => a
  | some x, some y => some (if y < x then y else x)

def maxOpt (a b : Option Rat) : Option Rat :=
  match a, b with
  | none, b => b
  | a, none => a
  | some x, some y => some (if y > x then y else x)

/-- `min_f64_scalar` -/
def minScalar (l : List Rat) : Option Rat := l.foldl minAcc none
def maxScalar (l : List Rat) : Option Rat := l.foldl maxAcc none

/-- `min_f64_avx2`: lane-wise minimum over chunks of 4, horizontal minimum, then the remainder -/
def minAvx2Loop : List Rat → Option Rat → Option Rat → Option Rat → Option Rat → Option Rat
  | a :: b :: c :: d :: rest, m0, m1, m2, m3 => minAvx2Loop rest (minAcc m0 a) (minAcc m1 b) (minAcc m2 c) (minAcc m3 d)
  | rem, m0, m1, m2, m3 => rem.foldl minAcc (minOpt (minOpt (minOpt m0 m1) m2) m3)

def maxAvx2Loop : List Rat → Option Rat → Option Rat → Option Rat → Option Rat → Option Rat
  | a :: b :: c :: d :: rest, m0, m1, m2, m3 => maxAvx2Loop rest (maxAcc m0 a) (maxAcc m1 b) (maxAcc m2 c) (maxAcc m3 d)
  | rem, m0, m1, m2, m3 => rem.foldl maxAcc (maxOpt (maxOpt (maxOpt m0 m1) m2) m3)

def minAvx2 (l : List Rat) : Option Rat := minAvx2Loop l none none none none
def maxAvx2 (l : List Rat) : Option Rat := maxAvx2Loop l none none none none

/-! ### Welford (`StdDev`) and `Ema`, over `F` because these loops do *not* filter NaN -/

structure W where
  n : Nat
  mean : F
  m2 : F
  deriving Repr, DecidableEq

/-- one iteration of the `StdDev` loop -/
def wStep (w : W) (x : F) : W :=
  let n' := w.n + 1
  let delta := x - w.mean
  let mean' := w.mean + delta / F.num (n' : Nat)
  let delta2 := x - mean'
  { n := n', mean := mean', m2 := w.m2 + delta * delta2 }

def welford (xs : List F) : W := xs.foldl wStep { n := 0, mean := .num 0, m2 := .num 0 }

/-- one iteration of the `Ema` loop -/
def emaStep (k : F) (acc : Option F) (x : F) : Option F :=
  match acc with
  | some prev => some (x * k + prev * (F.num 1 - k))
  | none => some x

/-! ### the aggregate functions, per path -/

inductive Func
  | count | sum | avg | min | max | stddev | first | last | countDistinct
  | ema (period : Nat)
  deriving DecidableEq, Repr

inductive Path | row | shared | columnar
  deriving DecidableEq, Repr

def optRes (o : Option Rat) : Res := match o with | some q => .flt (.num q) | none => .null

def avgOf (valid : List Rat) : Res :=
  if valid.isEmpty then .null else .flt (.num (sumAvx2 valid / (valid.length : Nat)))

def minOf (valid : List Rat) : Res := if valid.isEmpty then .null else optRes (minAvx2 valid)
def maxOf (valid : List Rat) : Res := if valid.isEmpty then .null else optRes (maxAvx2 valid)

/-- `StdDev::apply`/`apply_refs`: the *variance* `m2/(n−1)` whose square root the code returns
(`Rat` has no square root; the driver compares the square of the implementation's answer) -/
def stddevVar (vs : List Val) : Res :=
  let w := welford (floats vs)
  if w.n < 2 then .null else .flt (w.m2 / F.num ((w.n - 1 : Nat)))

/-- `Ema::new(period)` clamps the period to ≥ 1; `k = 2/(period+1)` -/
def emaK (period : Nat) : Rat := 2 / ((max period 1 : Nat) + 1)

def emaOf (period : Nat) (vs : List Val) : Res :=
  match (floats vs).foldl (emaStep (.num (emaK period))) none with
  | some x => .flt x
  | none => .null

/-- `first()/last().and_then(|e| e.get(field)).cloned().unwrap_or(Null)` -/
def pickVal (o : Option Val) : Res :=
  match o with
  | some .missing => .null
  | some v => .val v
  | none => .null

/-- `CountDistinct`: the set of hashes of the present values (hash = injective on values, trusted) -/
def distinctSeen (vs : List Val) : List Val :=
  vs.foldl (fun seen v => if v == .missing || seen.contains v then seen else seen ++ [v]) []

/-- every `AggregateFunc` on every path. `Count`, `Sum`, `Avg`, `Min`, `Max` override all three
methods; the others inherit `apply_columnar → apply_shared → apply_refs`. -/
def apply (f : Func) (p : Path) (vs : List Val) : Res :=
  match f, p with
  | .count, _ => .int vs.length
  | .sum, .row => .flt (.num (sumAvx2 (validFill vs)))
  | .sum, .shared => .flt (.num (sumAvx2 (validRefs vs)))
  | .sum, .columnar => .flt (.num (sumAvx2 (validFill vs)))
  | .avg, .row => avgOf (validFill vs)
  | .avg, .shared => avgOf (validRefs vs)
  | .avg, .columnar => avgOf (validFill vs)
  | .min, .row => minOf (validRefs vs)
  | .min, .shared => minOf (validRefs vs)
  | .min, .columnar => minOf (validFill vs)
  | .max, .row => maxOf (validRefs vs)
  | .max, .shared => maxOf (validRefs vs)
  | .max, .columnar => maxOf (validFill vs)
  | .stddev, _ => stddevVar vs
  | .first, _ => pickVal vs.head?
  | .last, _ => pickVal vs.getLast?
  | .countDistinct, _ => .int (distinctSeen vs).length
  | .ema period, _ => emaOf period vs

/-! ### Specification (the documented mathematical values) -/

def Val.valid? : Val → Option Rat
  | .int i => some (i : Rat)
  | .flt q => some q
  | _ => none

/-- the numeric, non-NaN values of the field, in event order -/
def valid (vs : List Val) : List Rat := vs.filterMap Val.valid?

/-- the numeric values including NaN (what `stddev` and `ema` iterate over) -/
def numeric (vs : List Val) : List F := floats vs

/-- sample variance `Σ (x − mean)² / (n − 1)` -/
def sampleVar (l : List Rat) : Rat :=
  let mean := sum l / (l.length : Nat)
  sum (l.map fun x => (x - mean) * (x - mean)) / ((l.length - 1 : Nat) : Rat)

/-- closed form of the EMA recurrence over `x₁ … xₙ`:
`(1−k)^(n−1)·x₁ + Σ_{i≥2} k·(1−k)^(n−i)·xᵢ` -/
def emaWeighted (k : Rat) : List Rat → Rat
  | [] => 0
  | x :: xs => k * (1 - k) ^ xs.length * x + emaWeighted k xs

def emaClosed (k : Rat) : List Rat → Option Rat
  | [] => none
  | x :: xs => some ((1 - k) ^ xs.length * x + emaWeighted k xs)

end Varpulis.Agg
