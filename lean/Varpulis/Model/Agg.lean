/-!
# M-AGG — aggregation functions on the three execution paths (C14)

Mirrors `crates/varpulis-runtime/src/aggregation.rs` (`Count`, `Sum`, `Avg`, `Min`, `Max`, `StdDev`,
`First`, `Last`, `CountDistinct`, `Ema`: `apply` = row path, `apply_refs`/`apply_shared` = shared
path, `apply_columnar` = columnar path), `simd.rs` (`extract_field_f64`,
`extract_field_f64_filtered`, `simd_sum/avg/min/max`, `sum_f64_scalar` 4-way unrolled,
`sum_f64_avx2` lane-wise, `min/max_f64_scalar`, `min/max_f64_avx2`) and `columnar.rs`
(`ensure_float_column`).

Numbers are exact rationals (`Rat`): IEEE-754 rounding is *not* modelled (trusted; the tie uses
dyadic inputs so that sum/min/max/count are exact in `f64`, and a tolerance for avg/stddev/ema).
`X` are the extended reals (`±∞` and rationals), `F` adds the NaN that `f64` has, with the IEEE rules
for arithmetic on them (`∞ − ∞ = NaN`, `∞ · 0 = NaN`, NaN absorbing, every comparison with NaN false).
`−0.0` is an input kind (`Val.negZero`): it is observable where no arithmetic happens (`first`/`last`
return it, `count_distinct` identifies it with `0.0` as `Value`'s `Hash`/`Eq` do); as a number it is
`0` — the *sign of a computed zero* (`min(−0.0, 0.0)`, `−0.0·k`, …) is rounding-level detail and not
modelled (the tie still requires all paths to return bit-identical results).
The field of one event is a `Val`: `missing` (no such field), `nonNum t` (Null/Bool/Str/…; `t`
identifies the value), `nan` (`Float(NaN)`), `inf neg` (`Float(±∞)`), `negZero` (`Float(−0.0)`),
`int i`, `flt q`.
-/
namespace Varpulis.Agg

inductive Val
  | missing
  | nonNum (tag : Nat)
  | nan
  | inf (neg : Bool)
  | negZero
  | int (i : Int)
  | flt (q : Rat)
  deriving DecidableEq, Repr

/-- an `f64` that is not NaN: `±∞` or a number -/
inductive X
  | inf (neg : Bool)
  | num (q : Rat)
  deriving DecidableEq, Repr

/-- an `f64`: NaN, `±∞` or a number -/
inductive F
  | nan
  | inf (neg : Bool)
  | num (q : Rat)
  deriving DecidableEq, Repr

def X.toF : X → F
  | .inf s => .inf s
  | .num q => .num q

def F.isNan : F → Bool | .nan => true | _ => false

def F.neg : F → F
  | .nan => .nan
  | .inf s => .inf (!s)
  | .num q => .num (-q)

/-- IEEE addition on NaN / ±∞ / exact numbers -/
def F.add : F → F → F
  | .nan, _ => .nan
  | _, .nan => .nan
  | .inf s, .inf t => if s = t then .inf s else .nan
  | .inf s, .num _ => .inf s
  | .num _, .inf t => .inf t
  | .num a, .num b => .num (a + b)

/-- IEEE multiplication (`∞ · 0 = NaN`; a zero operand counts as `+0`) -/
def F.mul : F → F → F
  | .nan, _ => .nan
  | _, .nan => .nan
  | .inf s, .inf t => .inf (s != t)
  | .inf s, .num b => if b = 0 then .nan else .inf (s != decide (b < 0))
  | .num a, .inf t => if a = 0 then .nan else .inf (t != decide (a < 0))
  | .num a, .num b => .num (a * b)

/-- IEEE division. The modelled code only divides by counts `≥ 1`; a zero divisor is treated as
`+0` with Lean's `q / 0 = 0` for `num/num` (never exercised). -/
def F.div : F → F → F
  | .nan, _ => .nan
  | _, .nan => .nan
  | .inf _, .inf _ => .nan
  | .inf s, .num b => .inf (s != decide (b < 0))
  | .num _, .inf _ => .num 0
  | .num a, .num b => .num (a / b)

instance : Add F := ⟨F.add⟩
instance : Sub F := ⟨fun a b => F.add a (F.neg b)⟩
instance : Mul F := ⟨F.mul⟩
instance : Div F := ⟨F.div⟩

/-- `<` on non-NaN values: `−∞ < q < +∞` -/
def X.lt : X → X → Bool
  | .inf true, .inf true => false
  | .inf true, _ => true
  | _, .inf true => false
  | .inf false, _ => false
  | .num _, .inf false => true
  | .num a, .num b => decide (a < b)

/-- aggregation result: `Value::Null`, `Value::Int`, `Value::Float`, or (first/last) the field value -/
inductive Res
  | null
  | int (i : Int)
  | flt (x : F)
  | val (v : Val)
  deriving DecidableEq, Repr

/-- `Event::get_float` = `data.get(key).and_then(Value::as_float)`: Int and Float are numeric -/
def getFloat : Val → Option F
  | .int i => some (.num i)
  | .flt q => some (.num q)
  | .negZero => some (.num 0)
  | .inf s => some (.inf s)
  | .nan => some .nan
  | _ => none

/-- `extract_field_f64` / `ensure_float_column`: `get_float(field).unwrap_or(NaN)` per event -/
def extractNaN (vs : List Val) : List F := vs.map fun v => (getFloat v).getD .nan

/-- `filter_map(|e| e.get_float(field))` -/
def floats (vs : List Val) : List F := vs.filterMap getFloat

def F.toX? : F → Option X
  | .num q => some (.num q)
  | .inf s => some (.inf s)
  | .nan => none

/-- `.filter(|v| !v.is_nan())` -/
def nonNaN (xs : List F) : List X := xs.filterMap F.toX?

/-- valid inputs as the row path of sum/avg and the columnar path see them (NaN-fill, then filter) -/
def validFill (vs : List Val) : List X := nonNaN (extractNaN vs)
/-- valid inputs as the shared path and `extract_field_f64_filtered` see them (filter_map, then filter) -/
def validRefs (vs : List Val) : List X := nonNaN (floats vs)

/-! ### `sum_f64` (accumulators are `f64`: a sum of `+∞` and `−∞` is NaN) -/

/-- `sum_f64_scalar`: four accumulators over chunks of 4, remainder into `sum0`,
result `sum0 + sum1 + sum2 + sum3` -/
def sumScalarLoop : List X → F → F → F → F → F
  | a :: b :: c :: d :: rest, s0, s1, s2, s3 =>
    sumScalarLoop rest (s0 + a.toF) (s1 + b.toF) (s2 + c.toF) (s3 + d.toF)
  | rem, s0, s1, s2, s3 => rem.foldl (fun s x => s + x.toF) s0 + s1 + s2 + s3

def sumScalar (l : List X) : F := sumScalarLoop l (.num 0) (.num 0) (.num 0) (.num 0)

/-- `sum_f64_avx2`: one 4-lane vector accumulator, horizontal sum `r0+r1+r2+r3`, then the
remainder is added to the total -/
def sumAvx2Loop : List X → F → F → F → F → F
  | a :: b :: c :: d :: rest, s0, s1, s2, s3 =>
    sumAvx2Loop rest (s0 + a.toF) (s1 + b.toF) (s2 + c.toF) (s3 + d.toF)
  | rem, s0, s1, s2, s3 => rem.foldl (fun s x => s + x.toF) (s0 + s1 + s2 + s3)

def sumAvx2 (l : List X) : F := sumAvx2Loop l (.num 0) (.num 0) (.num 0) (.num 0)

/-- the extended-real sum (NaN when both `+∞` and `−∞` occur) -/
def sumX (l : List X) : F := l.foldr (fun x s => x.toF + s) (.num 0)

/-- the mathematical sum of rationals -/
def sum (l : List Rat) : Rat := l.foldr (· + ·) 0

/-! ### `min_f64` / `max_f64` (accumulators start at `±∞`; the callers return `None` on `[]`) -/

/-- the smaller / larger of two non-NaN values -/
def minX (a b : X) : X := if X.lt b a then b else a
def maxX (a b : X) : X := if X.lt a b then b else a

/-- scalar loop body `if v < min { min = v }` -/
def minAcc (m v : X) : X := if X.lt v m then v else m
def maxAcc (m v : X) : X := if X.lt m v then v else m

/-- one lane of `_mm256_min_pd(acc, v)` = `acc < v ? acc : v` (returns the second operand on ties) -/
def minLane (m v : X) : X := if X.lt m v then m else v
/-- one lane of `_mm256_max_pd(acc, v)` = `acc > v ? acc : v` -/
def maxLane (m v : X) : X := if X.lt v m then m else v

/-- `min_f64_scalar` / `max_f64_scalar` -/
def minScalar (l : List X) : X := l.foldl minAcc (.inf false)
def maxScalar (l : List X) : X := l.foldl maxAcc (.inf true)

/-- `min_f64_avx2`: lane-wise minimum over chunks of 4, horizontal `f64::min`, then the remainder -/
def minAvx2Loop : List X → X → X → X → X → X
  | a :: b :: c :: d :: rest, m0, m1, m2, m3 => minAvx2Loop rest (minLane m0 a) (minLane m1 b) (minLane m2 c) (minLane m3 d)
  | rem, m0, m1, m2, m3 => rem.foldl minAcc (minX (minX (minX m0 m1) m2) m3)

def maxAvx2Loop : List X → X → X → X → X → X
  | a :: b :: c :: d :: rest, m0, m1, m2, m3 => maxAvx2Loop rest (maxLane m0 a) (maxLane m1 b) (maxLane m2 c) (maxLane m3 d)
  | rem, m0, m1, m2, m3 => rem.foldl maxAcc (maxX (maxX (maxX m0 m1) m2) m3)

def minAvx2 (l : List X) : X := minAvx2Loop l (.inf false) (.inf false) (.inf false) (.inf false)
def maxAvx2 (l : List X) : X := maxAvx2Loop l (.inf true) (.inf true) (.inf true) (.inf true)

/-! ### Welford (`StdDev`) and `Ema`, over `F` because these loops do *not* filter NaN -/

structure W where
  n : Nat
  mean : F
  m2 : F
  deriving Repr, DecidableEq

/-- one iteration of the `StdDev` loop -/
def wStep (w : W) (x : F) : W :=
  let n' := w.n + 1
  let delta := x - w.mean
  let mean' := w.mean + delta / F.num (n' : Nat)
  let delta2 := x - mean'
  { n := n', mean := mean', m2 := w.m2 + delta * delta2 }

def welford (xs : List F) : W := xs.foldl wStep { n := 0, mean := .num 0, m2 := .num 0 }

/-- one iteration of the `Ema` loop -/
def emaStep (k : F) (acc : Option F) (x : F) : Option F :=
  match acc with
  | some prev => some (x * k + prev * (F.num 1 - k))
  | none => some x

/-! ### the aggregate functions, per path -/

inductive Func
  | count | sum | avg | min | max | stddev | first | last | countDistinct
  | ema (period : Nat)
  deriving DecidableEq, Repr

inductive Path | row | shared | columnar
  deriving DecidableEq, Repr

def avgOf (valid : List X) : Res :=
  if valid.isEmpty then .null else .flt (sumAvx2 valid / F.num (valid.length : Nat))

def minOf (valid : List X) : Res := if valid.isEmpty then .null else .flt (minAvx2 valid).toF
def maxOf (valid : List X) : Res := if valid.isEmpty then .null else .flt (maxAvx2 valid).toF

/-- `StdDev::apply`/`apply_refs`: the *variance* `m2/(n−1)` whose square root the code returns
(`Rat` has no square root; the driver compares the square of the implementation's answer) -/
def stddevVar (vs : List Val) : Res :=
  let w := welford (floats vs)
  if w.n < 2 then .null else .flt (w.m2 / F.num ((w.n - 1 : Nat)))

/-- `Ema::new(period)` clamps the period to ≥ 1; `k = 2/(period+1)` -/
def emaK (period : Nat) : Rat := 2 / ((max period 1 : Nat) + 1)

def emaOf (period : Nat) (vs : List Val) : Res :=
  match (floats vs).foldl (emaStep (.num (emaK period))) none with
  | some x => .flt x
  | none => .null

/-- `first()/last().and_then(|e| e.get(field)).cloned().unwrap_or(Null)` -/
def pickVal (o : Option Val) : Res :=
  match o with
  | some .missing => .null
  | some v => .val v
  | none => .null

/-- `Value`'s `Hash`/`Eq` identify `−0.0` with `0.0` (and all NaNs with each other) -/
def Val.key : Val → Val
  | .negZero => .flt 0
  | v => v

/-- `CountDistinct`: the set of hashes of the present values (hash = injective on values up to
`Value`'s equality, trusted) -/
def distinctSeen (vs : List Val) : List Val :=
  (vs.map Val.key).foldl (fun seen v => if v == .missing || seen.contains v then seen else seen ++ [v]) []

/-- every `AggregateFunc` on every path. `Count`, `Sum`, `Avg`, `Min`, `Max` override all three
methods; the others inherit `apply_columnar → apply_shared → apply_refs`. -/
def apply (f : Func) (p : Path) (vs : List Val) : Res :=
  match f, p with
  | .count, _ => .int vs.length
  | .sum, .row => .flt (sumAvx2 (validFill vs))
  | .sum, .shared => .flt (sumAvx2 (validRefs vs))
  | .sum, .columnar => .flt (sumAvx2 (validFill vs))
  | .avg, .row => avgOf (validFill vs)
  | .avg, .shared => avgOf (validRefs vs)
  | .avg, .columnar => avgOf (validFill vs)
  | .min, .row => minOf (validRefs vs)
  | .min, .shared => minOf (validRefs vs)
  | .min, .columnar => minOf (validFill vs)
  | .max, .row => maxOf (validRefs vs)
  | .max, .shared => maxOf (validRefs vs)
  | .max, .columnar => maxOf (validFill vs)
  | .stddev, _ => stddevVar vs
  | .first, _ => pickVal vs.head?
  | .last, _ => pickVal vs.getLast?
  | .countDistinct, _ => .int (distinctSeen vs).length
  | .ema period, _ => emaOf period vs

/-! ### Specification (the documented mathematical values) -/

def Val.validX? : Val → Option X
  | .int i => some (.num (i : Rat))
  | .flt q => some (.num q)
  | .negZero => some (.num 0)
  | .inf s => some (.inf s)
  | _ => none

/-- the numeric, non-NaN values of the field (`±∞` included), in event order -/
def validX (vs : List Val) : List X := vs.filterMap Val.validX?

def Val.valid? : Val → Option Rat
  | .int i => some (i : Rat)
  | .flt q => some q
  | .negZero => some 0
  | _ => none

/-- the finite numeric values of the field, in event order -/
def valid (vs : List Val) : List Rat := vs.filterMap Val.valid?

/-- no NaN and no `±∞` among the field values -/
def finiteOnly (vs : List Val) : Prop := Val.nan ∉ vs ∧ ∀ s, Val.inf s ∉ vs

/-- the numeric values including NaN (what `stddev` and `ema` iterate over) -/
def numeric (vs : List Val) : List F := floats vs

/-- sample variance `Σ (x − mean)² / (n − 1)` -/
def sampleVar (l : List Rat) : Rat :=
  let mean := sum l / (l.length : Nat)
  sum (l.map fun x => (x - mean) * (x - mean)) / ((l.length - 1 : Nat) : Rat)

/-- closed form of the EMA recurrence over `x₁ … xₙ`:
`(1−k)^(n−1)·x₁ + Σ_{i≥2} k·(1−k)^(n−i)·xᵢ` -/
def emaWeighted (k : Rat) : List Rat → Rat
  | [] => 0
  | x :: xs => k * (1 - k) ^ xs.length * x + emaWeighted k xs

def emaClosed (k : Rat) : List Rat → Option Rat
  | [] => none
  | x :: xs => some ((1 - k) ^ xs.length * x + emaWeighted k xs)

end Varpulis.Agg
