/-!
# M-ENGINE — the engine's routing / queueing layer (C16, C17, C23)

Mirrors `crates/varpulis-runtime/src/engine/{mod.rs, router.rs}`:
`EventRouter::add_route/get_routes`, `register_stream` (route registration), `process_inner`,
`process_batch`, `process_batch_shared`, `process_batch_sync`/`process_stream_sync`, the rename at
the end of `execute_pipeline(_sync)`, and `Engine::reload`.

Streams are **arbitrary** step functions. A stream's state is represented by the list of events it
has been handed so far (oldest first): any state machine `σ → Event → σ × result` is the function
`history → Event → result` obtained by folding its transition over the history, so nothing is lost,
and the engine state `hist` is at the same time exactly the record C17 talks about ("events handed
to the stream").

Event types and stream names live in one name space (`Ty`): the outputs of a stream are renamed to
the stream's name and routed like any other event type.
-/
namespace Varpulis.EngineRoute

abbrev Ty := Nat

/-- an event: its type (what the router looks at) and everything else (payload, timestamp) -/
structure Ev where
  ty : Ty
  pl : Nat
  deriving DecidableEq, Repr, Inhabited

/-- `StreamProcessResult`: `output_events` (before the rename) and `emitted_events` -/
structure Res where
  outs : List Ev
  emitted : List Ev
  deriving Repr, Inhabited

/-- `StreamDefinition` together with what `register_stream` derives from the declaration.
`resp hist e`: what the stream's pipeline returns when handed `e` after `hist`. -/
structure SDef where
  name : Ty
  /-- every event type / stream name the declaration subscribes to, in registration order
  (primary source, sequence step types, join sources, merge sources) -/
  subs : List Ty
  /-- `RuntimeSource::{EventType,Stream,Merge,Timer}` types: all the pre-repair `reload` re-registered -/
  prim : List Ty
  /-- `RuntimeSource::Join` -/
  isJoin : Bool
  /-- some op is `RuntimeOp::Process` -/
  hasProcess : Bool
  /-- `operations.len()` -/
  nops : Nat
  /-- identity of the declaration (source and operation list) as a structural comparison sees it -/
  defId : Nat
  /-- the names the declaration refers to (sources, sequence / negation step types) -/
  refs : List Ty := []
  /-- per referenced name: was it a registered stream when this declaration was compiled
  (`StreamDefinition::references_resolved`) -/
  resolved : List Bool := []
  resp : List Ev → Ev → Res

/-! ## Router (`router.rs`) -/

/-- `EventRouter.routes`: event type → stream names in insertion order (hash map as association list) -/
abbrev Router := List (Ty × List Ty)

/-- `get_routes` -/
def getRoutes (r : Router) (t : Ty) : Option (List Ty) := r.lookup t

/-- the `unwrap_or_else(|| Arc::from([]))` at every use in the entry points -/
def routesOf (r : Router) (t : Ty) : List Ty := (getRoutes r t).getD []

/-- `add_route`: remove the entry, push the stream unless present, re-insert -/
def addRoute (r : Router) (t s : Ty) : Router :=
  let cur := routesOf r t
  (t, if cur.contains s then cur else cur ++ [s]) :: r.filter (fun p => p.1 != t)

/-! ## Engine state -/

structure Eng where
  /-- `streams` map (unique names; order immaterial, lookup by name) -/
  streams : List SDef
  router : Router
  /-- per stream name: the events handed to that stream's pipeline so far (= its state) -/
  hist : Ty → List Ev

/-- `self.streams.get_mut(stream_name)` -/
def Eng.find (E : Eng) (s : Ty) : Option SDef := E.streams.find? (fun d => d.name == s)

def setHist (h : Ty → List Ev) (s : Ty) (l : List Ev) : Ty → List Ev := fun t => if t = s then l else h t

/-- the rename at the end of `execute_pipeline`: `owned.event_type = stream.name` -/
def rename (n : Ty) (e : Ev) : Ev := { e with ty := n }

/-- `MAX_CHAIN_DEPTH` -/
def maxChainDepth : Nat := 10

/-- what one invocation contributes: events for the output channel and events for the queue.
`emitted` always go out; "has `.process()` but emitted nothing" → the (renamed) outputs go out too. -/
def sentOf (d : SDef) (r : Res) : List Ev :=
  r.emitted ++ (if r.emitted.isEmpty && d.hasProcess then r.outs.map (rename d.name) else [])

/-- `skip_rename` of `process_batch_sync` (after the repair): the clone+rename is skipped only when no
stream consumes the stream's name *and* the outputs are not sent to the output channel either; such
outputs are not queued. -/
def skipRename (E : Eng) (d : SDef) : Bool := (getRoutes E.router d.name).isNone && !d.hasProcess

/-- result of processing a list of queue entries of one depth level -/
structure LevelOut where
  eng : Eng
  /-- events sent to the output channel, in order -/
  sent : List Ev
  /-- events pushed to the back of the queue (depth + 1), in order -/
  next : List Ev

/-- the `for stream_name in stream_names.iter()` loop for one popped event.
`sync = true`: `process_batch_sync` (rename skipping); `false`: the three async entry points. -/
def dispatch (sync : Bool) (E : Eng) (e : Ev) : List Ty → LevelOut
  | [] => { eng := E, sent := [], next := [] }
  | s :: rest =>
    match E.find s with
    | none => dispatch sync E e rest
    | some d =>
      let r := d.resp (E.hist s) e
      let E1 : Eng := { E with hist := setHist E.hist s (E.hist s ++ [e]) }
      let queued := if sync && skipRename E d then [] else r.outs.map (rename d.name)
      let o := dispatch sync E1 e rest
      { eng := o.eng, sent := sentOf d r ++ o.sent, next := queued ++ o.next }

/-- all queue entries of one depth level, front to back -/
def level (sync : Bool) (E : Eng) : List Ev → LevelOut
  | [] => { eng := E, sent := [], next := [] }
  | e :: es =>
    let a := dispatch sync E e (routesOf E.router e.ty)
    let b := level sync a.eng es
    { eng := b.eng, sent := a.sent ++ b.sent, next := a.next ++ b.next }

/-- result of draining a queue -/
structure RunOut where
  eng : Eng
  sent : List Ev
  /-- every event popped from the queue with depth < `MAX_CHAIN_DEPTH`, in pop order -/
  popped : List Ev

/-- `while let Some((event, depth)) = pending_events.pop_front()`. The `VecDeque` always holds the
rest of the current depth level followed by the next level collected so far (pops at the front,
pushes of `depth + 1` at the back), so the loop is one `level` per depth; entries of depth
`>= MAX_CHAIN_DEPTH` are dropped (`budget = MAX_CHAIN_DEPTH - depth`). -/
def drain (sync : Bool) : Nat → Eng → List Ev → RunOut
  | 0, E, _ => { eng := E, sent := [], popped := [] }
  | budget + 1, E, q =>
    let a := level sync E q
    let b := drain sync budget a.eng a.next
    { eng := b.eng, sent := a.sent ++ b.sent, popped := q ++ b.popped }

/-! ### The loop as written: a FIFO of `(event, depth)` (proved equal to `drain` in `Lemmas`: `fifo_eq_drain`) -/

/-- tag every event of a level with its depth -/
def tag (d : Nat) (l : List Ev) : List (Ev × Nat) := l.map (fun e => (e, d))

/-- the entry points' loop literally: `pending_events: VecDeque<(SharedEvent, usize)>`, `pop_front`,
`depth >= MAX_CHAIN_DEPTH → continue`, outputs `push_back((e, depth + 1))`. `fuel` bounds the number
of pops (the loop is a `while`). -/
def fifo (sync : Bool) : Nat → Eng → List (Ev × Nat) → RunOut
  | 0, E, _ => { eng := E, sent := [], popped := [] }
  | _ + 1, E, [] => { eng := E, sent := [], popped := [] }
  | fuel + 1, E, (e, d) :: q =>
    if d ≥ maxChainDepth then fifo sync fuel E q
    else
      let a := dispatch sync E e (routesOf E.router e.ty)
      let b := fifo sync fuel a.eng (q ++ tag (d + 1) a.next)
      { eng := b.eng, sent := a.sent ++ b.sent, popped := e :: b.popped }

/-- number of pops the loop performs for a queue that holds one level -/
def pops (sync : Bool) : Nat → Eng → List Ev → Nat
  | 0, _, q => q.length
  | b + 1, E, q => q.length + pops sync b (level sync E q).eng (level sync E q).next

/-- `process_inner` for one external event (no watermark tracker configured): queue = `[(event, 0)]` -/
def processOne (sync : Bool) (E : Eng) (e : Ev) : RunOut := drain sync maxChainDepth E [e]

/-- a sequence of external events, each run to completion before the next -/
def processSeq (sync : Bool) : Eng → List Ev → RunOut
  | E, [] => { eng := E, sent := [], popped := [] }
  | E, e :: es =>
    let a := processOne sync E e
    let b := processSeq sync a.eng es
    { eng := b.eng, sent := a.sent ++ b.sent, popped := a.popped ++ b.popped }

/-- `Engine::process` called once per event -/
def perEvent (E : Eng) (evs : List Ev) : RunOut := processSeq false E evs

/-- `process_batch` / `process_batch_shared` (after the repair: each input's derived events are
drained before the next input is taken; the emitted events are sent after the loop, which does not
change their order) -/
def batchCall (E : Eng) (chunk : List Ev) : RunOut := processSeq false E chunk

/-- `process_batch_sync` (after the repair) -/
def batchSyncCall (E : Eng) (chunk : List Ev) : RunOut := processSeq true E chunk

/-- successive calls of a batch entry point, one per chunk of the split -/
def calls (f : Eng → List Ev → RunOut) : Eng → List (List Ev) → RunOut
  | E, [] => { eng := E, sent := [], popped := [] }
  | E, c :: cs =>
    let a := f E c
    let b := calls f a.eng cs
    { eng := b.eng, sent := a.sent ++ b.sent, popped := a.popped ++ b.popped }

def batch (E : Eng) (split : List (List Ev)) : RunOut := calls batchCall E split
def batchSync (E : Eng) (split : List (List Ev)) : RunOut := calls batchSyncCall E split

/-! ### The entry points as they were before the repairs (kept to state what was wrong) -/

/-- pre-repair `process_batch`/`process_batch_sync`: the whole chunk enters the queue at depth 0 -/
def legacyBatchCall (sync : Bool) (E : Eng) (chunk : List Ev) : RunOut := drain sync maxChainDepth E chunk

/-- pre-repair `process_batch_sync` loop body: join sources return nothing and keep their state;
`skip_rename = router.get_routes(stream).is_none()` and the un-renamed outputs are still queued
(and sent, for `.process()` streams) -/
def legacyDispatchSync (E : Eng) (e : Ev) : List Ty → LevelOut
  | [] => { eng := E, sent := [], next := [] }
  | s :: rest =>
    match E.find s with
    | none => legacyDispatchSync E e rest
    | some d =>
      if d.isJoin then legacyDispatchSync E e rest
      else
      let r := d.resp (E.hist s) e
      let E1 : Eng := { E with hist := setHist E.hist s (E.hist s ++ [e]) }
      let outs := if (getRoutes E.router d.name).isNone then r.outs else r.outs.map (rename d.name)
      let o := legacyDispatchSync E1 e rest
      { eng := o.eng
        sent := r.emitted ++ (if r.emitted.isEmpty && d.hasProcess then outs else []) ++ o.sent
        next := outs ++ o.next }

def legacyLevelSync (E : Eng) : List Ev → LevelOut
  | [] => { eng := E, sent := [], next := [] }
  | e :: es =>
    let a := legacyDispatchSync E e (routesOf E.router e.ty)
    let b := legacyLevelSync a.eng es
    { eng := b.eng, sent := a.sent ++ b.sent, next := a.next ++ b.next }

def legacyDrainSync : Nat → Eng → List Ev → RunOut
  | 0, E, _ => { eng := E, sent := [], popped := [] }
  | budget + 1, E, q =>
    let a := legacyLevelSync E q
    let b := legacyDrainSync budget a.eng a.next
    { eng := b.eng, sent := a.sent ++ b.sent, popped := q ++ b.popped }

/-! ## Loading and hot reload -/

/-- the route registrations of `register_stream` for one declaration -/
def registerRoutes (r : Router) (d : SDef) : Router := d.subs.foldl (fun r t => addRoute r t d.name) r

/-- `register_stream`: routes, then `self.streams.insert(name, definition)` -/
def register (E : Eng) (d : SDef) : Eng :=
  { streams := E.streams.filter (fun x => x.name != d.name) ++ [d]
    router := registerRoutes E.router d
    hist := setHist E.hist d.name [] }

def emptyEng : Eng := { streams := [], router := [], hist := fun _ => [] }

/-- `Engine::load` on a fresh engine: stream declarations in program order -/
def load (P : List SDef) : Eng := P.foldl register emptyEng

def sameSet (a b : List Ty) : Bool := a.all b.contains && b.all a.contains

/-- the declaration bound to a name differs between the running engine and the newly compiled one
(or exists in only one of them) -/
def declChanged (E N : Eng) (n : Ty) : Bool :=
  match E.find n, N.find n with
  | some a, some b => a.defId != b.defId
  | none, none => false
  | _, _ => true

/-- `reload`'s change test (after the repair): the declarations are compared structurally, and so are
the event types the stream is registered for and the declarations of the streams it refers to (a
declaration compiles differently when the streams it names changed: sequence steps and join sources
resolve through them and inline their filter) -/
def changed (E N : Eng) (old new : SDef) : Bool :=
  old.defId != new.defId || !sameSet old.subs new.subs || new.refs.any (declChanged E N)
    || old.resolved != new.resolved

/-- pre-repair change test: source kind/name and `operations.len()` only -/
def legacyChanged (_E _N : Eng) (old new : SDef) : Bool := old.prim != new.prim || old.isJoin != new.isJoin || old.nops != new.nops

/-- the stream a name is bound to after `reload`: kept (old definition and state) iff it existed and
its declaration did not change, otherwise the freshly compiled one -/
def reloadPick (chg : Eng → Eng → SDef → SDef → Bool) (E N : Eng) (d' : SDef) : SDef :=
  match E.find d'.name with
  | some d => if chg E N d d' then d' else d
  | none => d'

def keeps (chg : Eng → Eng → SDef → SDef → Bool) (E : Eng) (N : Eng) (s : Ty) : Bool :=
  match E.find s, N.find s with
  | some d, some d' => !chg E N d d'
  | _, _ => false

/-- `Engine::reload` (after the repairs): compile the new program in a scratch engine `N`; removed
streams are dropped, added and changed streams are taken from `N` (fresh state), the others keep
definition and state; the router is the one `N` built. -/
def reload (E : Eng) (P' : List SDef) : Eng :=
  let N := load P'
  { streams := N.streams.map (reloadPick changed E N)
    router := N.router
    hist := fun s => if keeps changed E N s then E.hist s else [] }

/-- pre-repair `reload`: old change test, and the router rebuilt from the primary sources only
(in the iteration order of the stream map, here: the order of `streams`) -/
def legacyReload (E : Eng) (P' : List SDef) : Eng :=
  let N := load P'
  let streams := N.streams.map (reloadPick legacyChanged E N)
  { streams := streams
    router := streams.foldl (fun r d => d.prim.foldl (fun r t => addRoute r t d.name) r) []
    hist := fun s => if keeps legacyChanged E N s then E.hist s else [] }

end Varpulis.EngineRoute
