/-!
# M-COORD / routing part (C34)

Executable model of event routing inside a deployed pipeline group:

* `matchesPat`, `anyPat`, `findRoute`, `findTarget`  — `routing.rs event_type_matches / find_target_pipeline`
* `JV`, `JV.render`                                   — `serde_json::Value` scalars and `Value::to_string()`
* `singleJson`, `batchValue`, `toJson`                — the two constructions of the partition-key JSON value:
  single inject (`serde_json` parse of the request body) and batch inject
  (`event_file.rs parse_value` → `varpulis_core::Value` → `serde_json::to_value`, `coordinator.rs inject_batch`)
* `selectReplica`                                     — `pipeline_group.rs ReplicaGroup::select_replica`
* `resolveSingle`, `resolveBatch`                     — `coordinator.rs resolve_inject_target` / the target logic of `inject_batch`

Strings are `List Char` (the driver converts), the f64 type is a parameter `F` with its printer and the
integer→f64 conversion collected in `Fmt` (trusted: serde_json's float printer, correctly rounded parsers).
`DefaultHasher` is a parameter `h : Str → Nat`.
-/
namespace Varpulis.Routing

abbrev Str := List Char

/-! ## pattern matching -/

/-- `str::strip_suffix('*')` -/
def stripStar : Str → Option Str
  | [] => none
  | [c] => if c = '*' then some [] else none
  | c :: d :: cs => (stripStar (d :: cs)).map (c :: ·)

/-- `routing.rs event_type_matches` -/
def matchesPat (ty pat : Str) : Bool :=
  if pat = ['*'] then true
  else match stripStar pat with
    | some p => p.isPrefixOf ty
    | none => ty == pat

structure Route where
  to : Str
  pats : List Str
  deriving Repr, DecidableEq

/-- inner loop of `find_target_pipeline` (`for pattern in &route.event_types`) -/
def anyPat (ty : Str) : List Str → Bool
  | [] => false
  | p :: ps => if matchesPat ty p then true else anyPat ty ps

/-- outer loop of `find_target_pipeline` (`for route in &group.spec.routes`) -/
def findRoute (ty : Str) : List Route → Option Str
  | [] => none
  | r :: rs => if anyPat ty r.pats then some r.to else findRoute ty rs

/-- `routing.rs find_target_pipeline`: explicit routes first, default = first pipeline of the group -/
def findTarget (routes : List Route) (pipelines : List Str) (ty : Str) : Option Str :=
  match findRoute ty routes with
  | some t => some t
  | none => pipelines.head?

/-! ## JSON scalars and their canonical text -/

/-- `serde_json::Number` (`N::PosInt(u64) | N::NegInt(i64) | N::Float(f64)`) -/
inductive JNum (F : Type) where
  | pos (n : Nat)
  | neg (i : Int)
  | float (f : F)
  deriving Repr, DecidableEq

/-- scalar `serde_json::Value`s (arrays/objects are not used as partition keys by the generators) -/
inductive JV (F : Type) where
  | null
  | bool (b : Bool)
  | num (n : JNum F)
  | str (s : Str)
  deriving Repr, DecidableEq

/-- trusted numeric primitives: the f64 printer of `serde_json` and the literal→f64 conversion both
parsers apply to an integer literal that does not fit their integer type -/
structure Fmt (F : Type) where
  fmtF : F → Str
  ofInt : Int → F

def u64Max : Int := 18446744073709551615
def i64Max : Int := 9223372036854775807
def i64Min : Int := -9223372036854775808

def hexDigit (n : Nat) : Char := if n < 10 then Char.ofNat (48 + n) else Char.ofNat (87 + n)

/-- `serde_json` string escaping (`format_escaped_str_contents`): `"` `\` and control characters -/
def escChar (c : Char) : Str :=
  if c = '"' then ['\\', '"']
  else if c = '\\' then ['\\', '\\']
  else if c.toNat = 8 then ['\\', 'b']
  else if c.toNat = 9 then ['\\', 't']
  else if c.toNat = 10 then ['\\', 'n']
  else if c.toNat = 12 then ['\\', 'f']
  else if c.toNat = 13 then ['\\', 'r']
  else if c.toNat < 32 then ['\\', 'u', '0', '0', hexDigit (c.toNat / 16), hexDigit (c.toNat % 16)]
  else [c]

def renderInt (i : Int) : Str :=
  if i < 0 then '-' :: (Nat.repr i.natAbs).toList else (Nat.repr i.toNat).toList

/-- `impl Display for serde_json::Value` (compact) on scalars -/
def JV.render {F : Type} (fm : Fmt F) : JV F → Str
  | .null => "null".toList
  | .bool true => "true".toList
  | .bool false => "false".toList
  | .num (.pos n) => (Nat.repr n).toList
  | .num (.neg i) => renderInt i
  | .num (.float f) => fm.fmtF f
  | .str s => '"' :: (s.flatMap escChar ++ ['"'])

/-! ## the partition-key value as the client means it, and its two constructions -/

/-- the key value of an event as the client means it -/
inductive Key (F : Type) where
  | int (i : Int)
  | float (f : F)
  | str (s : Str)
  | missing
  deriving Repr, DecidableEq

/-- single inject: `serde_json`'s parser on the literal in the request body (`ParserNumber`:
non-negative integers → `PosInt` while they fit u64, negative → `NegInt` while they fit i64, otherwise f64) -/
def singleJson {F : Type} (fm : Fmt F) : Key F → Option (JV F)
  | .int i =>
    some (.num (if 0 ≤ i then (if i ≤ u64Max then .pos i.toNat else .float (fm.ofInt i))
                else (if i64Min ≤ i then .neg i else .float (fm.ofInt i))))
  | .float f => some (.num (.float f))
  | .str s => some (.str s)
  | .missing => none

/-- scalar `varpulis_core::Value`s -/
inductive VV (F : Type) where
  | null
  | bool (b : Bool)
  | int (i : Int)
  | float (f : F)
  | str (s : Str)
  deriving Repr, DecidableEq

/-- batch inject: `event_file.rs parse_value_bounded` on the literal
(`parse::<i64>()` first, then `parse::<f64>()`; quoted strings unescaped) -/
def batchValue {F : Type} (fm : Fmt F) : Key F → Option (VV F)
  | .int i => some (if i64Min ≤ i ∧ i ≤ i64Max then .int i else .float (fm.ofInt i))
  | .float f => some (.float f)
  | .str s => some (.str s)
  | .missing => none

/-- `serde_json::to_value(&Value)` for the `#[serde(untagged)]` enum (finite floats) -/
def toJson {F : Type} : VV F → JV F
  | .null => .null
  | .bool b => .bool b
  | .int i => .num (if 0 ≤ i then .pos i.toNat else .neg i)
  | .float f => .num (.float f)
  | .str s => .str s

/-- the string `select_replica` hashes: `fields.get(field).map(to_string).unwrap_or("")` — single path -/
def singleStr {F : Type} (fm : Fmt F) (k : Key F) : Str :=
  match singleJson fm k with
  | some v => v.render fm
  | none => []

/-- the same for the batch path (`fields` built by `inject_batch` from `event.data`) -/
def batchStr {F : Type} (fm : Fmt F) (k : Key F) : Str :=
  match batchValue fm k with
  | some v => (toJson v).render fm
  | none => []

/-- guard of the known divergence: integer literals in `(i64::MAX, u64::MAX]` -/
def Key.u64Only {F : Type} : Key F → Bool
  | .int i => decide (i64Max < i) && decide (i ≤ u64Max)
  | _ => false

/-! ## replica selection -/

inductive Strategy where
  | roundRobin
  | hashKey (field : Str)
  deriving Repr, DecidableEq

/-- `pipeline_group.rs ReplicaGroup` (the atomic counter is threaded explicitly) -/
structure RG where
  name : Str
  replicas : List Str
  strat : Strategy
  deriving Repr, DecidableEq

/-- the event's fields as `select_replica` sees them: field name ↦ `value.to_string()` -/
abbrev Fields := Str → Option Str

/-- the string that is hashed: `fields.get(field).map(|v| v.to_string()).unwrap_or(String::new())` -/
def keyString (fields : Fields) (field : Str) : Str := (fields field).getD []

/-- `ReplicaGroup::select_replica`. Returns the chosen name and the new counter. -/
def selectReplica (h : Str → Nat) (rg : RG) (counter : Nat) (fields : Fields) : Str × Nat :=
  if rg.replicas.isEmpty then (rg.name, counter)
  else match rg.strat with
    | .roundRobin => (rg.replicas.getD (counter % rg.replicas.length) rg.name, counter + 1)
    | .hashKey field => (rg.replicas.getD (h (keyString fields field) % rg.replicas.length) rg.name, counter)

/-- the picks of `k` consecutive round-robin selections starting at counter `c` over `n` replicas -/
def rrPicks (n c : Nat) : Nat → List Nat
  | 0 => []
  | k + 1 => (c % n) :: rrPicks n (c + 1) k

/-! ## a deployed group and the two resolution paths -/

structure Group where
  /-- `spec.pipelines` names in order -/
  pipelines : List Str
  routes : List Route
  /-- `replica_groups` (keyed by logical pipeline name) -/
  rgs : List RG
  /-- names with an entry in `placements` (running or failed) -/
  placements : List Str
  deriving Repr

abbrev Counters := List (Str × Nat)

def Counters.get (cs : Counters) (n : Str) : Nat := (cs.lookup n).getD 0
def Counters.set (cs : Counters) (n : Str) (v : Nat) : Counters := (n, v) :: cs.filter (·.1 ≠ n)

def Group.rg? (g : Group) (n : Str) : Option RG := g.rgs.find? (·.name = n)

inductive Res where
  | to (name : Str)
  | noRoute
  | notDeployed (name : Str)
  deriving Repr, DecidableEq

/-- replica resolution shared by both paths (`if let Some(rg) = group.replica_groups.get(logical)`) -/
def viaReplica (h : Str → Nat) (g : Group) (cs : Counters) (logical : Str) (fields : Fields) : Str × Counters :=
  match g.rg? logical with
  | some rg =>
    let (t, c') := selectReplica h rg (cs.get logical) fields
    (t, cs.set logical c')
  | none => (logical, cs)

/-- `coordinator.rs resolve_inject_target` (target part) -/
def resolveSingle (h : Str → Nat) (g : Group) (cs : Counters) (ty : Str) (fields : Fields) : Res × Counters :=
  match findTarget g.routes g.pipelines ty with
  | none => (.noRoute, cs)
  | some logical =>
    let (t, cs') := viaReplica h g cs logical fields
    if g.placements.contains t then (.to t, cs') else (.notDeployed t, cs')

/-- target logic of `coordinator.rs inject_batch` for one event (`"default"` when the group has no pipeline) -/
def resolveBatch (h : Str → Nat) (g : Group) (cs : Counters) (ty : Str) (fields : Fields) : Str × Counters :=
  let logical := (findTarget g.routes g.pipelines ty).getD "default".toList
  viaReplica h g cs logical fields

end Varpulis.Routing
