/-!
# M-JOIN — `JoinBuffer` (C15)

Mirrors `crates/varpulis-runtime/src/join.rs`: `JoinBuffer::new` (GC-interval clamp),
`with_max_events`, `add_event`, `try_correlate`, `cleanup_expired`.
Times are integers (milliseconds in the harness; `DateTime<Utc>`/`Duration` in the code — only
order, `+` and `-` are used; the GC clamp is computed on `num_milliseconds()`).
Source names and key values are natural numbers. An event is its timestamp and an identity
(`id`, standing for the payload: the joined event copies the fields of the chosen events).

`buffers: source → key → Vec<(ts, event)>` is an association list from `(source, key)` to the
vector in arrival order; an absent entry and an empty vector behave alike in `try_correlate`
(`None` either way), so "remove the key entry if empty" is not modelled separately.
`expiry_queue: BinaryHeap<Reverse<(expiry, source, key)>>` is a list: `cleanup_expired` pops every
entry with `expiry ≤ now`; the per-entry action touches only that entry's vector and is the same
function for equal `(source, key)`, so the heap's pop order cannot influence the result.
-/
namespace Varpulis.Join

structure Ev where
  ts : Int
  id : Nat
  deriving DecidableEq, Repr

abbrev SK := Nat × Nat

structure Cfg where
  /-- `sources` in clause order -/
  sources : List Nat
  /-- `window_duration` -/
  window : Int
  /-- `max_events_per_key` (default 1000; `with_max_events(0)` would panic in `remove(0)` on the
  first event of a key — the engine never sets it and the harness does not generate it) -/
  maxPerKey : Nat
  deriving Repr

/-- `(window_ms / 10).clamp(10, 1000)` -/
def gcInterval (window : Int) : Int :=
  let x := window / 10
  if x < 10 then 10 else if x > 1000 then 1000 else x

structure St where
  bufs : List (SK × List Ev)
  queue : List (Int × Nat × Nat)
  lastGc : Option Int
  deriving Repr, DecidableEq

def St.init : St := { bufs := [], queue := [], lastGc := none }

def get (b : List (SK × List Ev)) (sk : SK) : List Ev := (b.lookup sk).getD []

/-- overwrite the vector of `(source, key)` (newest binding first; older bindings are shadowed) -/
def set (b : List (SK × List Ev)) (sk : SK) (v : List Ev) : List (SK × List Ev) := (sk, v) :: b

/-- `slice::partition_point` of the toolchain's std (`binary_search_by` with the branch-free loop
`while size > 1 { half = size/2; mid = base+half; base = if pred(v[mid]) { mid } else { base }; size -= half }`,
result `base + pred(v[base])`), applied to a vector that need not be partitioned. -/
def ppLoop (p : Ev → Bool) (v : Array Ev) : Nat → Nat → Nat → Nat
  | 0, base, _ => base
  | fuel + 1, base, size =>
    if size > 1 then
      let half := size / 2
      let mid := base + half
      let base' := if (v[mid]?.map p).getD false then mid else base
      ppLoop p v fuel base' (size - half)
    else base

def partitionPoint (p : Ev → Bool) (l : List Ev) : Nat :=
  if l.isEmpty then 0
  else
    let v := l.toArray
    let base := ppLoop p v l.length 0 l.length
    base + (if (v[base]?.map p).getD false then 1 else 0)

/-- the per-entry action of `cleanup_expired` since the repair: `retain(|(ts, _)| *ts >= cutoff)` -/
def expireVec (cutoff : Int) (v : List Ev) : List Ev := v.filter fun e => decide (e.ts ≥ cutoff)

/-- the per-entry action before the repair:
`let i = v.partition_point(|(ts, _)| *ts < cutoff); if i > 0 { v.drain(..i) }` -/
def expireVecLegacy (cutoff : Int) (v : List Ev) : List Ev :=
  v.drop (partitionPoint (fun e => decide (e.ts < cutoff)) v)

/-- `if let Some(last_gc) = self.last_gc { if current_time - last_gc < self.gc_interval { return; } }` -/
def gated (c : Cfg) (s : St) (now : Int) : Bool :=
  match s.lastGc with
  | some g => decide (now - g < gcInterval c.window)
  | none => false

/-- the `while let Some(..) = expiry_queue.peek()` loop over the popped entries: each one rewrites
the vector of its `(source, key)` with the per-entry action -/
def gcFold (act : List Ev → List Ev) (qs : List (Int × Nat × Nat)) (b : List (SK × List Ev)) : List (SK × List Ev) :=
  qs.foldl (fun b q => set b (q.2.1, q.2.2) (act (get b (q.2.1, q.2.2)))) b

/-- `cleanup_expired(now)`, parameterised by the per-entry action -/
def cleanupWith (act : Int → List Ev → List Ev) (c : Cfg) (s : St) (now : Int) : St :=
  if gated c s now then s
  else
    let cutoff := now - c.window
    let expired := s.queue.filter fun q => decide (q.1 ≤ now)
    let rest := s.queue.filter fun q => !decide (q.1 ≤ now)
    let bufs := gcFold (act cutoff) expired s.bufs
    { bufs := bufs, queue := rest, lastGc := some now }

/-- `while key_events.len() >= max { key_events.remove(0) }` (for `max ≥ 1`) -/
def capEvict (max : Nat) (v : List Ev) : List Ev := v.drop (v.length + 1 - max)

/-- `key_events.iter().rev().find(|(ts, _)| *ts >= cutoff)` -/
def lastValid (cutoff : Int) (v : List Ev) : Option Ev := v.reverse.find? fun e => decide (e.ts ≥ cutoff)

/-- `try_correlate(key, now)`: for every source (clause order) the most recently arrived buffered
event of that key with `ts ≥ now − window`; `None` as soon as one source has none. -/
def correlate (c : Cfg) (b : List (SK × List Ev)) (key : Nat) (now : Int) : Option (List (Nat × Ev)) :=
  c.sources.mapM fun src => (lastValid (now - c.window) (get b (src, key))).map fun e => (src, e)

/-- an `add_event` call whose event carries the join-key field -/
structure Arr where
  src : Nat
  key : Nat
  ev : Ev
  deriving DecidableEq, Repr

/-- `add_event(source, event)` for an event with key value `key`:
cleanup → (known source: cap, push, push expiry) → correlate. -/
def addWith (act : Int → List Ev → List Ev) (c : Cfg) (s : St) (a : Arr) : St × Option (List (Nat × Ev)) :=
  let s1 := cleanupWith act c s a.ev.ts
  let s2 : St :=
    if a.src ∈ c.sources then
      let v := capEvict c.maxPerKey (get s1.bufs (a.src, a.key))
      { s1 with bufs := set s1.bufs (a.src, a.key) (v ++ [a.ev]),
                queue := s1.queue ++ [(a.ev.ts + c.window, a.src, a.key)] }
    else s1
  (s2, correlate c s2.bufs a.key a.ev.ts)

/-- the code since the repair -/
def addEvent (c : Cfg) (s : St) (a : Arr) : St × Option (List (Nat × Ev)) := addWith expireVec c s a
/-- the code before the repair -/
def addEventLegacy (c : Cfg) (s : St) (a : Arr) : St × Option (List (Nat × Ev)) := addWith expireVecLegacy c s a

def runWith (act : Int → List Ev → List Ev) (c : Cfg) (s : St) : List Arr → St
  | [] => s
  | a :: rest => runWith act c (addWith act c s a).1 rest

def run (c : Cfg) (s : St) (ops : List Arr) : St := runWith expireVec c s ops

/-- the cap is reached when this event is pushed (so `remove(0)` evicts) -/
def capHit (c : Cfg) (s : St) (a : Arr) : Bool :=
  a.src ∈ c.sources && decide ((get (cleanupWith expireVec c s a.ev.ts).bufs (a.src, a.key)).length ≥ c.maxPerKey)

/-- no push of the history reached the cap -/
def noCapHit (c : Cfg) : St → List Arr → Bool
  | _, [] => true
  | s, a :: rest => !capHit c s a && noCapHit c (addEvent c s a).1 rest

/-- the events `remove(0)` evicts when `a` is pushed: the oldest *arrivals* of its (source, key)
vector beyond `max − 1` -/
def evictedAt (c : Cfg) (s : St) (a : Arr) : List Ev :=
  if a.src ∈ c.sources then
    let v := get (cleanupWith expireVec c s a.ev.ts).bufs (a.src, a.key)
    v.take (v.length + 1 - c.maxPerKey)
  else []

/-- all events evicted by the cap during a history -/
def evictedBy (c : Cfg) : St → List Arr → List Ev
  | _, [] => []
  | s, a :: rest => evictedAt c s a ++ evictedBy c (addEvent c s a).1 rest

/-! ## Specification (what the property promises) -/

/-- all events that arrived from `src` with key `key`, in arrival order -/
def histOf (hist : List Arr) (src key : Nat) : List Ev :=
  (hist.filter fun a => a.src == src && a.key == key).map (·.ev)

/-- the most recently arrived event of `(src, key)` within the window of an event at `t` -/
def specPick (window : Int) (hist : List Arr) (src key : Nat) (t : Int) : Option Ev :=
  ((histOf hist src key).filter fun e => decide (e.ts ≥ t - window)).getLast?

/-- joined output for an arrival at time `t` with key `key` after history `hist` (which includes
the arrival itself): defined iff every source has an in-window event of that key, and then made of
the most recently arrived such event of each source -/
def specJoin (c : Cfg) (hist : List Arr) (key : Nat) (t : Int) : Option (List (Nat × Ev)) :=
  c.sources.mapM fun src => (specPick c.window hist src key t).map fun e => (src, e)

/-- `e` may have been expired by the periodic GC: some arrival of the history is more than a
window ahead of it -/
def expirable (window : Int) (hist : List Arr) (e : Ev) : Bool :=
  hist.any fun b => decide (e.ts < b.ev.ts - window)

end Varpulis.Join
