import Varpulis.Model.Ckpt
import Varpulis.Model.Join
/-!
# M-CKPT × M-JOIN: `JoinBuffer::checkpoint` / `restore` over agent a4's join model (C19)

`Varpulis.Join` (Model/Join.lean, C15) mirrors `JoinBuffer::add_event` / `cleanup_expired` /
`try_correlate`. Here the checkpoint and restore of join.rs are stated over *that* state, so that
C19 for joins is an end-to-end statement about a4's step function `Join.addEvent`.

In a4's representation the two structural premises of `join_restore_partial` hold by construction:
an event *is* its timestamp and payload (`Join.Ev`: "a buffered pair carries its event's own
timestamp" cannot fail), and the expiry queue is a list whose order provably does not matter
(`Join.gcFold_perm`: a `BinaryHeap` iterates in an arbitrary order). Times are nanoseconds here.
-/
namespace Varpulis.Ckpt
open Varpulis.Join

/-- the content of a `JoinCheckpoint` over a4's state: per (source, key) the buffered entries
`(timestamp_ms, payload)` in arrival order, the queue entries `(ms, sub-ms ns, source, key)` in the
order the heap happens to iterate, `last_gc` as `(ms, sub-ms ns)`. (That such a struct survives
JSON unchanged is C20: `decJoin (wire (encJoin c)) = some c` for every `JoinCheckpoint` tree.) -/
structure JCk where
  bufs : List (SK × List (Int × Nat))
  queue : List (Int × Nat × Nat × Nat)
  lastGc : Option (Int × Nat)
  deriving Repr

/-- the (source, key) pairs that have a vector, each once -/
def keysOf {α} : List (SK × α) → List SK
  | [] => []
  | (k, _) :: r => if k ∈ keysOf r then keysOf r else k :: keysOf r

/-- `JoinBuffer::checkpoint`: one entry per (source, key) with its current vector
(`SerializableEvent` keeps `timestamp_millis()` of the event); `qorder` is the order in which
`expiry_queue.iter()` yields the pending entries — some permutation of the queue -/
def jckpt (s : Join.St) (qorder : List (Int × Nat × Nat)) : JCk :=
  { bufs := (keysOf s.bufs).map fun sk => (sk, (get s.bufs sk).map fun e => (msOf e.ts, e.id)),
    queue := qorder.map fun q => (msOf q.1, subOf q.1, q.2.1, q.2.2),
    lastGc := s.lastGc.map fun t => (msOf t, subOf t) }

/-- `JoinBuffer::restore`: buffers rebuilt from the events (their timestamps come back in whole
milliseconds), every queue entry pushed, `last_gc` set -/
def jrestore (c : JCk) : Join.St :=
  { bufs := c.bufs.map fun kv => (kv.1, kv.2.map fun p => ({ ts := ofMs p.1, id := p.2 } : Ev)),
    queue := c.queue.map fun q => (joinTs q.1 q.2.1, q.2.2.1, q.2.2.2),
    lastGc := c.lastGc.map fun p => joinTs p.1 p.2 }

/-- two join states that `add_event` cannot tell apart: the same vector for every (source, key),
the same pending expiries up to order, the same last GC time -/
structure JEq (a b : Join.St) : Prop where
  bufs : ∀ sk, get a.bufs sk = get b.bufs sk
  queue : a.queue.Perm b.queue
  lastGc : a.lastGc = b.lastGc

/-- no buffered event carries a sub-millisecond timestamp (finding `C20-submillisecond-event-timestamps`) -/
def JWhole (s : Join.St) : Prop := ∀ sk, ∀ e ∈ get s.bufs sk, wholeTs e.ts = true

/-- the joined outputs of a continuation -/
def jouts (c : Join.Cfg) : Join.St → List Arr → List (Option (List (Nat × Ev)))
  | _, [] => []
  | s, a :: rest => (addEvent c s a).2 :: jouts c (addEvent c s a).1 rest

end Varpulis.Ckpt
