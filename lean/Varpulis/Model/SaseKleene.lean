import Varpulis.Model.Zdd
/-!
# M-SASE, Kleene fragment (run level) — C03, C05

Mirrors `crates/varpulis-runtime/src/sase.rs` for patterns that are a sequence of
`Event` / `KleenePlus(Event)` steps (no `within`, no negation, no AND/OR): NFA compilation,
`KleeneCapture`, `advance_run_shared`, `try_start_run_shared`, `complete_run`,
`enumerate_with_filter`, `evaluate_deferred_predicate`.  The ZDD handle of a capture is the
tree it denotes (`Model/Zdd.lean`, proved against set-family algebra in C06/C07).
`Vec` indexing (`nfa.states[i]`, `events[idx]`, `aliases[idx]`) is modelled with explicit
`panic` outcomes; `Props/C05.lean` proves they are never taken.

Numeric attributes are exact multiples of 1/8 (`Int` numerators): on such values
`values_equal` / `values_compare` of Int, Float and mixed operands coincide with the exact comparison.
-/
namespace Varpulis.SaseK
open Varpulis.Zdd

/-- an event: arrival index, type (0 = A, 1 = B, 2 = C, …), numeric fields `x`, `y` (eighths, or missing),
partition key field -/
structure Ev where
  id : Nat
  ty : Nat
  x : Option Int
  y : Option Int
  key : Option Nat := none
  deriving DecidableEq, Repr, Inhabited

/-- `Event::get` on the two numeric fields (0 = x, 1 = y) -/
def Ev.get (e : Ev) (f : Nat) : Option Int := if f = 0 then e.x else if f = 1 then e.y else none

/-- `CompareOp` -/
inductive Op | eq | ne | lt | le | gt | ge
  deriving DecidableEq, Repr, Inhabited

/-- `compare_values` on numeric values -/
def Op.eval : Op → Int → Int → Bool
  | .eq, a, b => a == b
  | .ne, a, b => a != b
  | .lt, a, b => decide (a < b)
  | .le, a, b => decide (a ≤ b)
  | .gt, a, b => decide (a > b)
  | .ge, a, b => decide (a ≥ b)

/-- `Predicate` (Compare / CompareRef / And / Or / Not) -/
inductive Pred where
  | cmp (f : Nat) (op : Op) (c : Int)
  | cmpRef (f : Nat) (op : Op) (al : Nat) (rf : Nat)
  | and (p q : Pred)
  | or (p q : Pred)
  | not (p : Pred)
  deriving DecidableEq, Repr, Inhabited

/-- `captured: FxHashMap<String, SharedEvent>` as an association list (first binding wins) -/
abbrev Cap := List (Nat × Ev)

def Cap.get (c : Cap) (al : Nat) : Option Ev := c.lookup al
/-- `captured.insert(alias, event)` -/
def Cap.set (c : Cap) (al : Nat) (e : Ev) : Cap := (al, e) :: c.filter (·.1 ≠ al)
def Cap.setOpt (c : Cap) (al : Option Nat) (e : Ev) : Cap :=
  match al with | some a => c.set a e | none => c

/-- `eval_predicate`: a missing field or a missing captured alias makes the comparison false -/
def evalPred : Pred → Ev → Cap → Bool
  | .cmp f op c, e, _ => match e.get f with | some v => op.eval v c | none => false
  | .cmpRef f op al rf, e, cap =>
      match e.get f, (cap.get al).bind (·.get rf) with
      | some v, some r => op.eval v r
      | _, _ => false
  | .and p q, e, cap => evalPred p e cap && evalPred q e cap
  | .or p q, e, cap => evalPred p e cap || evalPred q e cap
  | .not p, e, cap => !evalPred p e cap

/-- `classify_predicate … == Inconsistent`: the predicate compares against the Kleene state's own alias -/
def selfRef (al : Option Nat) : Pred → Bool
  | .cmp .. => false
  | .cmpRef _ _ a _ => al == some a
  | .and p q => selfRef al p || selfRef al q
  | .or p q => selfRef al p || selfRef al q
  | .not p => selfRef al p

/-- `extract_ref_alias`: alias of the first `CompareRef` in traversal order -/
def extractRefAlias : Pred → Option Nat
  | .cmp .. => none
  | .cmpRef _ _ a _ => some a
  | .and p q => (extractRefAlias p).or (extractRefAlias q)
  | .or p q => (extractRefAlias p).or (extractRefAlias q)
  | .not p => extractRefAlias p

/-! ### NFA and its compilation -/

inductive STy | start | normal | kleene | accept
  deriving DecidableEq, Repr, Inhabited

/-- `State` -/
structure State where
  ty : STy := .normal
  evTy : Option Nat := none
  pred : Option Pred := none
  alias : Option Nat := none
  eps : List Nat := []
  trans : List Nat := []
  selfLoop : Bool := false
  postponed : Option Pred := none
  epsAccept : Bool := false
  deriving Repr, Inhabited

/-- `Nfa` (state ids are positions) -/
structure Nfa where
  states : List State := [{ ty := .start }]
  start : Nat := 0
  deriving Repr, Inhabited

/-- one step of the pattern: `Event{…}` or `KleenePlus(Event{…})` -/
structure Step where
  ty : Nat
  pred : Option Pred := none
  alias : Option Nat := none
  kleene : Bool := false
  deriving Repr, Inhabited

/-- `states.get_mut(i)` followed by an update: nothing happens when `i` is out of range -/
def modifyAt (l : List State) (i : Nat) (f : State → State) : List State := l.modify i f

/-- `Nfa::add_state` -/
def Nfa.addState (n : Nfa) (s : State) : Nfa × Nat := ({ n with states := n.states ++ [s] }, n.states.length)
/-- `Nfa::add_transition` (`get_mut`: nothing happens for an unknown source) -/
def Nfa.addTransition (n : Nfa) (src dst : Nat) : Nfa :=
  { n with states := modifyAt n.states src fun s => { s with trans := s.trans ++ [dst] } }
/-- `Nfa::add_epsilon` -/
def Nfa.addEpsilon (n : Nfa) (src dst : Nat) : Nfa :=
  { n with states := modifyAt n.states src fun s => { s with eps := s.eps ++ [dst] } }
/-- `Nfa::set_accept` -/
def Nfa.setAccept (n : Nfa) (i : Nat) : Nfa :=
  { n with states := modifyAt n.states i fun s => { s with ty := .accept } }

/-- `compile_pattern` for `Event` and `KleenePlus(Event)`; returns the NFA and the end state -/
def compileStep (n : Nfa) (prev : Nat) (s : Step) : Nfa × Nat :=
  let (n1, id) := n.addState { ty := .normal, evTy := some s.ty, pred := s.pred, alias := s.alias }
  let n2 := n1.addTransition prev id
  if !s.kleene then (n2, id)
  else
    let n3 : Nfa := { n2 with states := modifyAt n2.states id fun st =>
      let st := { st with ty := .kleene, selfLoop := true }
      match st.pred with
      | some p => if selfRef st.alias p then { st with postponed := some p, pred := none } else st
      | none => st }
    let n4 := n3.addEpsilon id id
    let (n5, cont) := n4.addState { ty := .normal }
    (n5.addEpsilon id cont, cont)

/-- `NfaCompiler::compile` on `Seq(steps)` (a single step compiles to the same automaton) -/
def compile (steps : List Step) : Nfa :=
  let (n, last) := steps.foldl (fun (acc : Nfa × Nat) s => compileStep acc.1 acc.2 s) (({} : Nfa), 0)
  let n := n.setAccept last
  { n with states := n.states.map fun s =>
      { s with epsAccept := s.eps.any fun e => match n.states[e]? with | some t => t.ty == .accept | none => false } }

/-! ### Runs -/

/-- `StackEntry` (the wall-clock timestamp is not modelled) -/
structure Entry where
  ev : Ev
  alias : Option Nat
  deriving DecidableEq, Repr, Inhabited

/-- `KleeneCapture` -/
structure KCap where
  handle : Z := .base
  events : List Ev := []
  aliases : List (Option Nat) := []
  nextVar : Nat := 0
  deferred : Option Pred := none
  needsZdd : Bool := false
  deriving Repr, Inhabited

/-- the capture created on first use: `KleeneCapture::new()` + deferred predicate of the state -/
def KCap.init (postponed : Option Pred) : KCap :=
  { deferred := postponed, needsZdd := postponed.isSome }

/-- `KleeneCapture::extend` -/
def KCap.extend (k : KCap) (e : Ev) (al : Option Nat) : KCap :=
  { k with nextVar := k.nextVar + 1, events := k.events ++ [e], aliases := k.aliases ++ [al],
           handle := pwo k.handle k.nextVar }

/-- `KleeneCapture::extend_simple` -/
def KCap.extendSimple (k : KCap) (e : Ev) (al : Option Nat) : KCap :=
  { k with nextVar := k.nextVar + 1, events := k.events ++ [e], aliases := k.aliases ++ [al] }

def KCap.add (k : KCap) (e : Ev) (al : Option Nat) : KCap :=
  if k.needsZdd then k.extend e al else k.extendSimple e al

/-- `Run` (fragment: no deadline, no negations, no AND state; `seq` orders `started_at`) -/
structure Run where
  cur : Nat
  stack : List Entry := []
  captured : Cap := []
  seq : Nat := 0
  kc : Option KCap := none
  deriving Repr, Inhabited

/-- `Run::push` / `push_at` / `push_at_kleene` -/
def Run.push (r : Run) (e : Ev) (al : Option Nat) : Run :=
  { r with captured := r.captured.setOpt al e, stack := r.stack ++ [⟨e, al⟩] }

/-- `MatchResult`, plus what the `verif_kleene` hook records for enumerated matches:
events kept by the capture and the ZDD index set behind the match -/
structure Match where
  captured : Cap
  stack : List Entry
  enum : Option (Nat × List Nat) := none
  deriving Repr, Inhabited

/-- `KleeneLimits` -/
structure Limits where
  maxEvents : Nat
  maxResults : Nat
  deriving Repr, Inhabited

/-- `RunAdvanceResult`; the run is threaded explicitly where Rust mutates it in place -/
inductive Adv where
  | cont (r : Run)
  | complete (m : Match)
  | completeCont (r : Run) (m : Match)
  | multi (ms : List Match)
  | noMatch (r : Run)
  | panic
  deriving Repr, Inhabited

/-- an optional predicate holds (`None` = no filter) -/
def predOk (p : Option Pred) (e : Ev) (cap : Cap) : Bool :=
  match p with | some p => evalPred p e cap | none => true

/-- the state's expected event type, if any, is the event's type -/
def tyOk (t : Option Nat) (e : Ev) : Bool :=
  match t with | some t => e.ty == t | none => true

/-- `event_matches_state` -/
def matchesState (st : State) (e : Ev) (cap : Cap) : Bool := tyOk st.evTy e && predOk st.pred e cap

/-- `evaluate_deferred_predicate`: every consecutive pair `(prev, cur)` must satisfy the predicate on `cur`
with `prev` bound to the alias `al` -/
def evalDeferred (p : Pred) (al : Option Nat) (cap : Cap) : List Ev → Bool
  | prev :: cur :: rest =>
      evalPred p cur (cap.setOpt al prev) && evalDeferred p al cap (cur :: rest)
  | _ => true

/-- the alias the previous event is bound to: the Kleene alias carried by the combination's entries
(since the repair `fix: … Kleene alias …`; before it: `extract_ref_alias(pred)`, the first alias mentioned
by the predicate, whichever it was) -/
def deferredAlias (p : Pred) (entries : List Entry) : Option Nat :=
  (entries.head?.bind (·.alias)).or (extractRefAlias p)

/-- `StackEntry { event: self.events[idx], alias: self.aliases[idx] }` (`none` = index out of bounds = panic) -/
def KCap.entry? (k : KCap) (i : Nat) : Option Entry :=
  match k.events[i]?, k.aliases[i]? with
  | some e, some a => some ⟨e, a⟩
  | _, _ => none

/-- `iter_combinations`: the index sets in ZDD iteration order with their stack entries
(`self.events[idx]`, `self.aliases[idx]`: `none` = index out of bounds = panic) -/
def KCap.combos (k : KCap) : Option (List (List Nat × List Entry)) :=
  (sets k.handle).mapM fun s => (s.mapM k.entry?).map fun es => (s, es)

/-- the match built for one accepted combination -/
def mkEnumMatch (r : Run) (k : KCap) (c : List Nat × List Entry) : Match :=
  { captured := c.2.foldl (fun cap en => cap.setOpt en.alias en.ev) r.captured
    stack := r.stack
    enum := some (k.events.length, c.1) }

/-- the loop of `enumerate_with_filter`: skip the empty combination, filter, stop at `max_results` -/
def enumLoop (r : Run) (k : KCap) (p : Pred) (maxResults : Nat) :
    List (List Nat × List Entry) → List Match → List Match
  | [], acc => acc
  | c :: cs, acc =>
      if c.2.isEmpty then enumLoop r k p maxResults cs acc
      else if evalDeferred p (deferredAlias p c.2) r.captured (c.2.map (·.ev)) then
        let acc' := acc ++ [mkEnumMatch r k c]
        if acc'.length ≥ maxResults then acc' else enumLoop r k p maxResults cs acc'
      else enumLoop r k p maxResults cs acc

/-- `enumerate_with_filter` (`none` = panic) -/
def enumerate (r : Run) (k : KCap) (p : Pred) (maxResults : Nat) : Option (List Match) :=
  (k.combos).map fun cs => enumLoop r k p maxResults cs []

/-- `complete_run` -/
def completeRun (r : Run) (lim : Limits) : Adv :=
  match r.kc with
  | some k =>
    match k.deferred with
    | some p => match enumerate r k p lim.maxResults with
        | some ms => .multi ms
        | none => .panic
    | none => .complete { captured := r.captured, stack := r.stack }
  | none => .complete { captured := r.captured, stack := r.stack }

/-- entering a Kleene state through the transitions loop: the capture is created, the cap is
checked *after* the stack push -/
def enterKleene (r : Run) (st : State) (e : Ev) (lim : Limits) : Adv :=
  if st.epsAccept then .completeCont r { captured := r.captured, stack := r.stack }
  else
    let k := match r.kc with | some k => k | none => KCap.init st.postponed
    if k.nextVar ≥ lim.maxEvents then .cont { r with kc := some k }
    else .cont { r with kc := some (k.add e st.alias) }

/-- the `for &next_id in &current_state.transitions` loop of `advance_run_shared` -/
def tryTransitions (nfa : Nfa) (lim : Limits) (r : Run) (e : Ev) : List Nat → Option Adv
  | [] => none
  | next :: rest =>
    match nfa.states[next]? with
    | none => some .panic
    | some ns =>
      if matchesState ns e r.captured then
        let r1 := { r with cur := next }.push e ns.alias
        if ns.ty = .accept then some (completeRun r1 lim)
        else if ns.ty = .kleene && ns.selfLoop then some (enterKleene r1 ns e lim)
        else some (.cont r1)
      else tryTransitions nfa lim r e rest

/-- inner loop over the transitions of an epsilon target -/
def tryEpsTargets (nfa : Nfa) (lim : Limits) (r : Run) (e : Ev) : List Nat → Option Adv
  | [] => none
  | next :: rest =>
    match nfa.states[next]? with
    | none => some .panic
    | some ns =>
      if matchesState ns e r.captured then
        let r1 := { r with cur := next }.push e ns.alias
        if ns.ty = .accept then some (completeRun r1 lim) else some (.cont r1)
      else tryEpsTargets nfa lim r e rest

/-- the `for &eps_id in &current_state.epsilon_transitions` loop: an `Accept` target completes the run
without consuming the event — unless the current state is a trailing Kleene state (`skipAccept`), which has
already reported the closure on every accumulated event (repair `fix: … trailing all …`). -/
def tryEps (nfa : Nfa) (lim : Limits) (r : Run) (e : Ev) (skipAccept : Bool) : List Nat → Option Adv
  | [] => none
  | ep :: rest =>
    match nfa.states[ep]? with
    | none => some .panic
    | some es =>
      if es.ty = .accept then
        if skipAccept then tryEps nfa lim r e skipAccept rest else some (completeRun r lim)
      else match tryEpsTargets nfa lim r e es.trans with
        | some a => some a
        | none => tryEps nfa lim r e skipAccept rest

/-- `advance_run_shared` (strategy `SkipTillAnyMatch`; the AND / Negation arms cannot be reached in the fragment) -/
def advance (nfa : Nfa) (lim : Limits) (r : Run) (e : Ev) : Adv :=
  match nfa.states[r.cur]? with
  | none => .panic
  | some st =>
    if st.ty = .accept then completeRun r lim
    else if st.ty = .kleene && st.selfLoop && matchesState st e r.captured then
      -- cap check before the push
      if (match r.kc with | some k => decide (k.nextVar ≥ lim.maxEvents) | none => false) then .cont r
      else
        let r1 := r.push e st.alias
        if st.epsAccept then .completeCont r1 { captured := r1.captured, stack := r1.stack }
        else
          let k := match r1.kc with | some k => k | none => KCap.init st.postponed
          .cont { r1 with kc := some (k.add e st.alias) }
    else
      match tryTransitions nfa lim r e st.trans with
      | some a => a
      | none =>
        match tryEps nfa lim r e (st.ty = .kleene && st.selfLoop && st.epsAccept) st.eps with
        | some a => a
        | none => .noMatch r

/-- result of `try_start_run_shared` -/
inductive Start where
  | none
  | run (r : Run)
  | panic
  deriving Repr, Inhabited

def startTargets (nfa : Nfa) (e : Ev) (seq : Nat) : List Nat → Option Start
  | [] => none
  | next :: rest =>
    match nfa.states[next]? with
    | none => some .panic
    | some ns =>
      if matchesState ns e [] then some (.run ({ cur := next, seq := seq : Run }.push e ns.alias))
      else startTargets nfa e seq rest

def startEps (nfa : Nfa) (e : Ev) (seq : Nat) : List Nat → Option Start
  | [] => none
  | ep :: rest =>
    match nfa.states[ep]? with
    | none => some .panic
    | some es => match startTargets nfa e seq es.trans with
      | some s => some s
      | none => startEps nfa e seq rest

/-- `try_start_run_shared`: first transition from the start state whose target matches, then the same through
the start state's epsilon targets. (A Kleene first step does not create a capture here — as in the code.) -/
def tryStart (nfa : Nfa) (e : Ev) (seq : Nat) : Start :=
  match nfa.states[nfa.start]? with
  | none => .panic
  | some st =>
    match startTargets nfa e seq st.trans with
    | some s => s
    | none => match startEps nfa e seq st.eps with
      | some s => s
      | none => .none

/-! ### Specification side of C03 (brute force, independent of the ZDD) -/
namespace Spec

/-- all subsets of `{i, …, i+n-1}` as ascending lists; those without the smallest index first
(the documented iteration order of the combinations) -/
def subsets : Nat → Nat → List (List Nat)
  | _, 0 => [[]]
  | i, n + 1 => subsets (i + 1) n ++ (subsets (i + 1) n).map (i :: ·)

/-- consecutive members of the combination satisfy the filter: the later event is tested with the
earlier one bound to the Kleene alias -/
def chainOk (p : Pred) (al : Option Nat) (cap : Cap) : List Ev → Bool
  | prev :: cur :: rest => evalPred p cur (cap.setOpt al prev) && chainOk p al cap (cur :: rest)
  | _ => true

/-- events selected by an index set -/
def pick (evs : List Ev) (s : List Nat) : List Ev := s.filterMap (evs[·]?)

/-- admissible: non-empty and consecutive members satisfy the filter -/
def admissible (p : Pred) (al : Option Nat) (cap : Cap) (evs : List Ev) (s : List Nat) : Bool :=
  !s.isEmpty && chainOk p al cap (pick evs s)

/-- what a completion must report for a self-referencing filter: the first `maxResults` admissible
index sets over the kept events -/
def expectedSets (p : Pred) (al : Option Nat) (cap : Cap) (kept : List Ev) (maxResults : Nat) : List (List Nat) :=
  ((subsets 0 kept.length).filter (admissible p al cap kept)).take maxResults

end Spec

end Varpulis.SaseK
