/-!
# M-RAFTSYNC — the coordinator's local view, the replicated state, and what each operation proposes (C38)

Mirrors, in `crates/varpulis-cluster`:
* `raft/state_machine.rs` — `CoordinatorState`, `WorkerEntry`, `ClusterCommand` (all 16 variants) and
  `apply_command` (`RState`, `Cmd`, `applyCmd`; own minimal model, also used by Model/RaftAgree.lean);
* `coordinator.rs` — `Coordinator::sync_from_raft` (`sync`), and the *local* effect of every state-changing
  call on the fields `sync_from_raft` touches: `register_worker`, `heartbeat`, `deregister_worker`,
  `commit_deploy_group`, `commit_teardown_group`, `commit_migrate_pipeline`, `migrate_pipeline`,
  `handle_worker_failure`, `drain_worker`, `rebalance`, `reconcile_placements`, `health_sweep`,
  connector create / update / delete;
* `api.rs` — which `ClusterCommand`s each handler proposes (`handle_register_worker`, `handle_heartbeat`,
  `handle_delete_worker`, `handle_deploy_group`, `handle_delete_group`, `handle_manual_migrate`,
  `handle_rebalance`, `handle_drain_worker`, `handle_{create,update,delete}_connector`);
* `crates/varpulis-cli/src/main.rs` — the health-loop tick: `sync_from_raft`, `health_sweep` + the
  `WorkerStatusChanged{unhealthy}` proposals, `handle_worker_failure`, `reconcile_placements`, `rebalance`,
  and the start-up assignment `coord.scaling_policy = …`.

An operation is a pair (local update, list of commands proposed), exactly as the code performs it; the
handlers hold the coordinator's write lock across both, so the pair is one atomic step. Worker-call
outcomes, placement choices and generated ids are *inputs* of the operations.

HashMaps are association lists read through `get` (first entry of a key); `put` removes the old entries
of the key. Strings that the code never inspects (addresses+keys, connector bodies, policies, pipeline
ids) are opaque `String`s.
-/
namespace Varpulis.RaftSync

/-! ## association lists -/

abbrev AMap (V : Type) := List (String × V)

def AMap.get {V : Type} (m : AMap V) (k : String) : Option V := (m.find? (fun e => e.1 == k)).map (·.2)
def AMap.put {V : Type} (m : AMap V) (k : String) (v : V) : AMap V := (k, v) :: m.filter (fun e => e.1 != k)
def AMap.del {V : Type} (m : AMap V) (k : String) : AMap V := m.filter (fun e => e.1 != k)
def AMap.upd {V : Type} (m : AMap V) (k : String) (f : V → V) : AMap V :=
  m.map fun e => if e.1 == k then (e.1, f e.2) else e
def AMap.keys {V : Type} (m : AMap V) : List String := m.map (·.1)

/-! ## payloads -/

/-- `worker.rs WorkerStatus` -/
inductive WStatus where
  | registering | ready | unhealthy | draining
  deriving DecidableEq, Repr

/-- `pipeline_group.rs PipelineDeploymentStatus` -/
inductive PStatus where
  | deploying | running | failed | stopped
  deriving DecidableEq, Repr

/-- `pipeline_group.rs GroupStatus` -/
inductive GStatus where
  | deploying | running | partiallyRunning | failed | tornDown
  deriving DecidableEq, Repr

/-- `PipelineDeployment` (address and key of the worker travel with `worker`) -/
structure Pl where
  worker : String
  status : PStatus
  pid : String
  epoch : Nat
  deriving DecidableEq, Repr

/-- `DeployedPipelineGroup` as far as it changes after creation (spec and replica groups are fixed at
deployment; their JSON round trip is checked by the harness through a digest of the whole value) -/
structure GroupV where
  name : String
  status : GStatus
  pls : AMap Pl
  deriving DecidableEq, Repr

/-- `DeployedPipelineGroup::update_status` -/
def GroupV.updateStatus (g : GroupV) : GroupV :=
  if g.pls.isEmpty then g else
  let allRunning := g.pls.all fun e => e.2.status == .running
  let anyRunning := g.pls.any fun e => e.2.status == .running
  let allFailed := g.pls.all fun e => e.2.status == .failed
  { g with status := if allRunning then .running else if allFailed then .failed
                     else if anyRunning then .partiallyRunning else .deploying }

/-! ## the replicated state (`raft/state_machine.rs`) -/

/-- `WorkerEntry` -/
structure RWorker where
  addr : String
  status : String
  cpu : Nat
  running : Nat
  maxP : Nat
  assigned : List String
  events : Nat
  deriving DecidableEq, Repr

/-- a migration task as stored in the replicated state: its `status` member and the rest of the JSON -/
structure RMig where
  status : String
  body : String
  deriving DecidableEq, Repr

/-- `CoordinatorState` -/
structure RState where
  workers : AMap RWorker := []
  groups : AMap GroupV := []
  connectors : AMap String := []
  migrations : AMap RMig := []
  policy : Option String := none
  models : AMap String := []
  deriving DecidableEq, Repr

/-- `ClusterCommand` (raft/mod.rs) -/
inductive Cmd where
  | registerWorker (id addr : String) (cpu running maxP : Nat)
  | deregisterWorker (id : String)
  | workerStatusChanged (id status : String)
  | workerPipelinesUpdated (id : String) (assigned : List String)
  | groupDeployed (name : String) (g : GroupV)
  | groupUpdated (name : String) (g : GroupV)
  | groupRemoved (name : String)
  /-- `task.get("id").and_then(as_str)` is `id?` -/
  | migrationStarted (id? : Option String) (status body : String)
  | migrationUpdated (id status : String)
  | migrationRemoved (id : String)
  | connectorCreated (name body : String)
  | connectorUpdated (name body : String)
  | connectorRemoved (name : String)
  | scalingPolicySet (p : Option String)
  | modelRegistered (name entry : String)
  | modelRemoved (name : String)
  deriving DecidableEq, Repr

/-- `apply_command` -/
def applyCmd (s : RState) : Cmd → RState
  | .registerWorker id addr cpu running maxP =>
    { s with workers := s.workers.put id ({ addr := addr, status := "ready", cpu := cpu, running := running,
                                            maxP := maxP, assigned := [], events := 0 } : RWorker) }
  | .deregisterWorker id => { s with workers := s.workers.del id }
  | .workerStatusChanged id st => { s with workers := s.workers.upd id fun w => { w with status := st } }
  | .workerPipelinesUpdated id a => { s with workers := s.workers.upd id fun w => { w with assigned := a } }
  | .groupDeployed n g => { s with groups := s.groups.put n g }
  | .groupUpdated n g => { s with groups := s.groups.put n g }
  | .groupRemoved n => { s with groups := s.groups.del n }
  | .migrationStarted id? st body =>
    match id? with
    | some id => { s with migrations := s.migrations.put id { status := st, body := body } }
    | none => s
  | .migrationUpdated id st => { s with migrations := s.migrations.upd id fun m => { m with status := st } }
  | .migrationRemoved id => { s with migrations := s.migrations.del id }
  | .connectorCreated n c => { s with connectors := s.connectors.put n c }
  | .connectorUpdated n c => { s with connectors := s.connectors.put n c }
  | .connectorRemoved n => { s with connectors := s.connectors.del n }
  | .scalingPolicySet p => { s with policy := p }
  | .modelRegistered n e => { s with models := s.models.put n e }
  | .modelRemoved n => { s with models := s.models.del n }

def applyAll (s : RState) (cs : List Cmd) : RState := cs.foldl applyCmd s

/-! ## the coordinator's local view (`coordinator.rs Coordinator`) -/

/-- `WorkerNode` -/
structure LWorker where
  addr : String
  status : WStatus
  cpu : Nat
  running : Nat
  maxP : Nat
  assigned : List String
  events : Nat
  lastHb : Nat
  deriving DecidableEq, Repr

/-- `WorkerNode::is_available` -/
def LWorker.isAvailable (w : LWorker) : Bool := decide (w.status = .ready) && decide (w.running < w.maxP)

/-- the fields of `Coordinator` that `sync_from_raft` reads or writes, plus `pending_rebalance` -/
structure LState where
  workers : AMap LWorker := []
  groups : AMap GroupV := []
  connectors : AMap String := []
  policy : Option String := none
  pending : Bool := false
  /-- `heartbeat_timeout` (ms) -/
  timeout : Nat := 15000
  deriving DecidableEq, Repr

/-- status strings of `sync_from_raft` (`_ => Ready`) -/
def parseStatus : String → WStatus
  | "ready" => .ready
  | "unhealthy" => .unhealthy
  | "draining" => .draining
  | "registering" => .registering
  | _ => .ready

/-- `sync_from_raft`, an existing local worker: bookkeeping and capacity from the replicated entry, the local
heartbeat stamp kept unless the replicated status is Ready, status taken only if Unhealthy / Draining -/
def mergeWorker (l : LWorker) (e : RWorker) (now : Nat) : LWorker :=
  let l1 := { l with assigned := e.assigned, events := e.events, cpu := e.cpu, running := e.running, maxP := e.maxP }
  match parseStatus e.status with
  | .unhealthy => { l1 with status := .unhealthy }
  | .draining => { l1 with status := .draining }
  | .ready => { l1 with lastHb := now }
  | .registering => l1

/-- `sync_from_raft`, a worker known only to the replicated state -/
def freshWorker (e : RWorker) (now : Nat) : LWorker :=
  { addr := e.addr, status := parseStatus e.status, cpu := e.cpu, running := e.running, maxP := e.maxP,
    assigned := e.assigned, events := e.events, lastHb := now }

/-- `Coordinator::sync_from_raft`: workers merged entry by entry and restricted to the replicated ids;
groups, connectors and scaling policy replaced -/
def sync (l : LState) (r : RState) (now : Nat) : LState :=
  { l with
    workers := r.workers.map fun e =>
      (e.1, match l.workers.get e.1 with
            | some w => mergeWorker w e.2 now
            | none => freshWorker e.2 now)
    groups := r.groups
    connectors := r.connectors
    policy := r.policy }

/-! ## local updates -/

/-- `w.assigned_pipelines.push(name); w.capacity.pipelines_running += 1` -/
def LWorker.push (n : String) (w : LWorker) : LWorker := { w with assigned := w.assigned ++ [n], running := w.running + 1 }

/-- `Coordinator::unassign_one` -/
def LWorker.pop (n : String) (w : LWorker) : LWorker := { w with assigned := w.assigned.erase n, running := w.running - 1 }

/-- one result of a deploy task -/
structure DRes where
  replica : String
  worker : String
  ok : Bool
  pid : String
  deriving DecidableEq, Repr

/-- one iteration of the result loop of `commit_deploy_group` -/
def commitResult (acc : GroupV × AMap LWorker) (r : DRes) : GroupV × AMap LWorker :=
  if r.ok then
    ({ acc.1 with pls := acc.1.pls.put r.replica { worker := r.worker, status := .running, pid := r.pid, epoch := 0 } },
     acc.2.upd r.worker (LWorker.push r.replica))
  else
    ({ acc.1 with pls := acc.1.pls.put r.replica { worker := r.worker, status := .failed, pid := "", epoch := 0 } }, acc.2)

/-- `Coordinator::commit_deploy_group` -/
def commitDeploy (l : LState) (g name : String) (results : List DRes) : LState :=
  let (grp, ws) := results.foldl commitResult ({ name := name, status := .deploying, pls := [] }, l.workers)
  { l with workers := ws, groups := l.groups.put g grp.updateStatus }

/-- `Coordinator::commit_teardown_group` (tasks = the plan's `(name, worker)` pairs) -/
def commitTeardown (l : LState) (g : String) (tasks : List (String × String)) : LState :=
  { l with workers := tasks.foldl (fun ws t => ws.upd t.2 (LWorker.pop t.1)) l.workers, groups := l.groups.del g }

structure MigPlan where
  g : String
  name : String
  source : String
  target : String
  epoch : Nat
  deriving DecidableEq, Repr

/-- the re-validation of `commit_migrate_pipeline` -/
def migCurrent (l : LState) (p : MigPlan) : Bool :=
  (match l.groups.get p.g with
   | some grp =>
     match grp.pls.get p.name with
     | some d => d.worker == p.source && d.epoch == p.epoch
     | none => false
   | none => false) && (l.workers.get p.target).isSome

/-- bookkeeping of a successful migration (`commit_migrate_pipeline`, steps 4–5 of `migrate_pipeline`) -/
def applyMigration (l : LState) (p : MigPlan) (pid : String) : LState :=
  let groups := match l.groups.get p.g with
    | some grp =>
      let e := ((grp.pls.get p.name).map (·.epoch + 1)).getD 1
      l.groups.put p.g ({ grp with pls := grp.pls.put p.name { worker := p.target, status := .running, pid := pid, epoch := e } }).updateStatus
    | none => l.groups
  { l with groups := groups, workers := (l.workers.upd p.target (LWorker.push p.name)).upd p.source (LWorker.pop p.name) }

/-- `Coordinator::commit_migrate_pipeline` -/
def commitMigrate (l : LState) (p : MigPlan) (pid : String) (success : Bool) : LState :=
  if success && migCurrent l p then applyMigration l p pid else l

/-- one scripted run of the monolithic `migrate_pipeline` -/
structure Mig where
  g : String
  name : String
  target : String
  deployOk : Bool
  pid : String
  deriving DecidableEq, Repr

/-- `Coordinator::migrate_pipeline` (under the write lock): the state afterwards and whether it returned `Ok` -/
def migrateAtomic (l : LState) (m : Mig) : LState × Bool :=
  match l.groups.get m.g with
  | none => (l, false)
  | some grp =>
    match grp.pls.get m.name, l.workers.get m.target with
    | some d, some w =>
      if w.isAvailable && m.deployOk then
        (applyMigration l { g := m.g, name := m.name, source := d.worker, target := m.target, epoch := d.epoch } m.pid, true)
      else (l, false)
    | _, _ => (l, false)

/-- a sequence of `migrate_pipeline` calls (failover, drain, rebalance); `true` if any returned `Ok` -/
def migrateAll (l : LState) (ms : List Mig) : LState × Bool :=
  ms.foldl (fun acc m => let r := migrateAtomic acc.1 m; (r.1, acc.2 || r.2)) (l, false)

/-- `health::health_sweep`, one worker -/
def sweepWorker (timeout now : Nat) (w : LWorker) : LWorker :=
  if w.status = .ready ∧ now - w.lastHb > timeout then { w with status := .unhealthy } else w

def dedup : List String → List String
  | [] => []
  | x :: xs => x :: (dedup xs).filter (· != x)

/-- ids a sweep marks unhealthy -/
def sweepMarked (l : LState) (now : Nat) : List String :=
  (dedup l.workers.keys).filter fun id =>
    match l.workers.get id with
    | some w => decide (w.status = .ready ∧ now - w.lastHb > l.timeout)
    | none => false

/-! ## operations: local update and proposed commands -/

inductive Op where
  /-- `handle_register_worker` on the leader -/
  | register (id addr : String) (cpu running maxP now : Nat)
  /-- `handle_heartbeat` -/
  | heartbeat (id : String) (running events now : Nat)
  /-- `handle_delete_worker` -/
  | deregister (id : String)
  /-- `handle_deploy_group`, commit phase + replication (`g` = generated group id) -/
  | deploy (g name : String) (results : List DRes)
  /-- `handle_delete_group`, commit phase + replication (`tasks` from the plan) -/
  | teardown (g : String) (tasks : List (String × String))
  /-- `handle_manual_migrate`, commit phase + replication -/
  | migrate (p : MigPlan) (pid : String) (success : Bool)
  /-- `handle_rebalance` (the migrations `rebalance()` performed are inputs) -/
  | rebalanceApi (migs : List Mig)
  /-- `handle_drain_worker` -/
  | drain (id : String) (migs : List Mig)
  /-- `handle_create_connector` (`valid` = `validate_connector` accepts the body) -/
  | connCreate (name body : String) (valid : Bool)
  /-- `handle_update_connector`: `name` is the path parameter — the key of the local update *and* of the proposed
  command; `bodyName` is `body.name` (the API does not require it to equal `name`); `body` renders the whole
  connector, `bodyName` included -/
  | connUpdate (name bodyName body : String) (valid : Bool)
  /-- `handle_delete_connector` -/
  | connDelete (name : String)
  /-- health loop: `sync_from_raft` -/
  | tickSync (now : Nat)
  /-- health loop: `health_sweep` + `WorkerStatusChanged{unhealthy}` proposals -/
  | tickSweep (now : Nat)
  /-- health loop: `handle_worker_failure` -/
  | tickFailover (id : String) (migs : List Mig)
  /-- health loop: `reconcile_placements` (`redeployed` = successful re-deployments `(worker, pipeline)`) -/
  | tickReconcile (redeployed : List (String × String))
  /-- health loop: `rebalance()` -/
  | tickRebalance (migs : List Mig)
  /-- start-up: `coord.scaling_policy = scaling_policy` (main.rs) -/
  | startupPolicy (p : Option String)
  deriving Repr

/-- the local update of an operation; `r` is the replicated state as the coordinator reads it (`store_state`) -/
def stepL (l : LState) (r : RState) : Op → LState
  | .register id addr cpu running maxP now =>
    { l with workers := l.workers.put id ({ addr := addr, status := .ready, cpu := cpu, running := running, maxP := maxP,
                                            assigned := [], events := 0, lastHb := now } : LWorker),
             pending := l.pending || !l.groups.isEmpty }
  | .heartbeat id running events now =>
    { l with workers := l.workers.upd id fun w =>
        { w with lastHb := now, running := running, events := events,
                 status := if w.status = .unhealthy then .ready else w.status } }
  | .deregister id => { l with workers := l.workers.del id }
  | .deploy g name results => commitDeploy l g name results
  | .teardown g tasks => if (l.groups.get g).isSome then commitTeardown l g tasks else l
  | .migrate p pid success => commitMigrate l p pid success
  | .rebalanceApi migs => { (migrateAll l migs).1 with pending := false }
  | .drain id migs =>
    match l.workers.get id with
    | none => l
    | some w =>
      if w.status = .draining then l else
      let l1 := { l with workers := l.workers.upd id fun w => { w with status := .draining } }
      let l2 := (migrateAll l1 migs).1
      { l2 with workers := l2.workers.del id }
  | .connCreate name body valid =>
    if (l.connectors.get name).isSome || !valid then l else { l with connectors := l.connectors.put name body }
  | .connUpdate name _ body valid =>
    if (l.connectors.get name).isNone || !valid then l else { l with connectors := l.connectors.put name body }
  | .connDelete name => { l with connectors := l.connectors.del name }
  | .tickSync now => sync l r now
  | .tickSweep now => { l with workers := l.workers.map fun e => (e.1, sweepWorker l.timeout now e.2) }
  | .tickFailover _ migs => (migrateAll l migs).1
  | .tickReconcile redeployed =>
    { l with workers := redeployed.foldl (fun ws t => ws.upd t.1 (LWorker.push t.2)) l.workers }
  | .tickRebalance migs => { (migrateAll l migs).1 with pending := false }
  | .startupPolicy p => { l with policy := p }

/-- the commands an operation proposes (`l` before, `l'` after the local update) -/
def emits (l l' : LState) : Op → List Cmd
  | .register id addr cpu running maxP _ => [.registerWorker id addr cpu running maxP]
  | .heartbeat id _ _ _ =>
    -- repaired (`fix:`): a recovery Unhealthy → Ready is proposed
    match l.workers.get id with
    | some w => if w.status = .unhealthy then [.workerStatusChanged id "ready"] else []
    | none => []
  | .deregister id => [.deregisterWorker id]
  | .deploy g _ _ =>
    match l'.groups.get g with
    | some grp => [.groupDeployed g grp]
    | none => []
  | .teardown g _ => if (l.groups.get g).isSome then [.groupRemoved g] else []
  | .migrate p _ success =>
    if success then
      match l'.groups.get p.g with
      | some grp => [.groupUpdated p.g grp]
      | none => []
    else []
  | .rebalanceApi migs =>
    -- one `GroupUpdated` per group, in some HashMap order (keys are unique: any order gives the same state)
    if (migrateAll l migs).2 then l'.groups.reverse.map fun e => .groupUpdated e.1 e.2 else []
  | .drain id _ =>
    -- repaired (`fix:`): once the worker is gone, the groups and the deregistration are proposed
    match l.workers.get id with
    | none => []
    | some w =>
      if w.status = .draining then []
      else (l'.groups.reverse.map fun e => Cmd.groupUpdated e.1 e.2) ++ [.deregisterWorker id]
  | .connCreate name body valid =>
    -- repaired (`fix:`): validation happens before the proposal
    if (l.connectors.get name).isSome || !valid then [] else [.connectorCreated name body]
  | .connUpdate name _ body valid =>
    -- proposed under the path key, like the local update (not under `body.name`)
    if (l.connectors.get name).isNone || !valid then [] else [.connectorUpdated name body]
  | .connDelete name => [.connectorRemoved name]
  | .tickSync _ => []
  | .tickSweep now => (sweepMarked l now).map fun id => .workerStatusChanged id "unhealthy"
  | .tickFailover _ _ => []
  | .tickReconcile redeployed =>
    (dedup (redeployed.map (·.1))).filterMap fun w =>
      (l'.workers.get w).map fun x => .workerPipelinesUpdated w x.assigned
  | .tickRebalance _ => []
  | .startupPolicy _ => []

/-- the code before the `fix:` commits: heartbeat recovery and drain proposed nothing; connector creation and
update were proposed before validation -/
def emitsPreFix (l l' : LState) : Op → List Cmd
  | .heartbeat _ _ _ _ => []
  | .drain _ _ => []
  | .connCreate name body _ => [.connectorCreated name body]
  | .connUpdate name _ body _ => [.connectorUpdated name body]
  | op => emits l l' op

/-- a wrong variant kept for a witness: the update proposed under the *body's* name while the local view
stores it under the path key (what the judge must catch) -/
def emitsBodyKey (l l' : LState) : Op → List Cmd
  | .connUpdate name bodyName body valid =>
    if (l.connectors.get name).isNone || !valid then [] else [.connectorUpdated bodyName body]
  | op => emits l l' op


structure Sys where
  l : LState := {}
  r : RState := {}
  deriving DecidableEq, Repr

def step (s : Sys) (op : Op) : Sys :=
  let l' := stepL s.l s.r op
  { l := l', r := applyAll s.r (emits s.l l' op) }

def stepPreFix (s : Sys) (op : Op) : Sys :=
  let l' := stepL s.l s.r op
  { l := l', r := applyAll s.r (emitsPreFix s.l l' op) }

def stepBodyKey (s : Sys) (op : Op) : Sys :=
  let l' := stepL s.l s.r op
  { l := l', r := applyAll s.r (emitsBodyKey s.l l' op) }

def run (s : Sys) (ops : List Op) : Sys := ops.foldl step s

/-! ## components of the view and their synchronisation -/

inductive Comp where
  /-- which workers exist, with address/key, cores and pipeline limit -/
  | wset
  /-- worker status -/
  | status
  /-- per-worker bookkeeping: assigned pipelines, running count, events processed -/
  | book
  | groups
  | conns
  | policy
  deriving DecidableEq, Repr

def Comp.all : List Comp := [.wset, .status, .book, .groups, .conns, .policy]

def LWorker.static (w : LWorker) : String × Nat × Nat := (w.addr, w.cpu, w.maxP)
def RWorker.static (w : RWorker) : String × Nat × Nat := (w.addr, w.cpu, w.maxP)

/-- component `c` of the local view is what the replicated state says -/
def CompSync (c : Comp) (l : LState) (r : RState) : Prop :=
  match c with
  | .wset => ∀ id, (l.workers.get id).map LWorker.static = (r.workers.get id).map RWorker.static
  | .status => ∀ id w e, l.workers.get id = some w → r.workers.get id = some e → w.status = parseStatus e.status
  | .book => ∀ id w e, l.workers.get id = some w → r.workers.get id = some e →
      w.assigned = e.assigned ∧ w.running = e.running ∧ w.events = e.events
  | .groups => ∀ g, l.groups.get g = r.groups.get g
  | .conns => ∀ n, l.connectors.get n = r.connectors.get n
  | .policy => l.policy = r.policy

def InSync (l : LState) (r : RState) : Prop := ∀ c, CompSync c l r

/-- component `c` of the view `l'` shows nothing different from `l` (a re-synchronisation `l → l'` did not
revert or alter it) -/
def NoRevert (c : Comp) (l l' : LState) : Prop :=
  match c with
  | .wset => ∀ id, (l'.workers.get id).map LWorker.static = (l.workers.get id).map LWorker.static
  | .status => ∀ id w w', l.workers.get id = some w → l'.workers.get id = some w' → w'.status = w.status
  | .book => ∀ id w w', l.workers.get id = some w → l'.workers.get id = some w' →
      w'.assigned = w.assigned ∧ w'.running = w.running ∧ w'.events = w.events
  | .groups => ∀ g, l'.groups.get g = l.groups.get g
  | .conns => ∀ n, l'.connectors.get n = l.connectors.get n
  | .policy => l'.policy = l.policy

/-! ### decidable forms (used by the judge; `Lemmas/RaftSync.lean` proves them equivalent) -/

def keysOf (l : LState) (r : RState) : List String := l.workers.keys ++ r.workers.keys

/-- a check on the two sides of a key, vacuous unless both are defined -/
def agreeB {A B : Type} (f : A → B → Bool) : Option A → Option B → Bool
  | some a, some b => f a b
  | _, _ => true

def compSyncB (c : Comp) (l : LState) (r : RState) : Bool :=
  match c with
  | .wset => (keysOf l r).all fun id => (l.workers.get id).map LWorker.static == (r.workers.get id).map RWorker.static
  | .status => (keysOf l r).all fun id =>
      agreeB (fun (w : LWorker) (e : RWorker) => w.status == parseStatus e.status) (l.workers.get id) (r.workers.get id)
  | .book => (keysOf l r).all fun id =>
      agreeB (fun (w : LWorker) (e : RWorker) => w.assigned == e.assigned && w.running == e.running && w.events == e.events)
        (l.workers.get id) (r.workers.get id)
  | .groups => (l.groups.keys ++ r.groups.keys).all fun g => l.groups.get g == r.groups.get g
  | .conns => (l.connectors.keys ++ r.connectors.keys).all fun n => l.connectors.get n == r.connectors.get n
  | .policy => l.policy == r.policy

def noRevertB (c : Comp) (l l' : LState) : Bool :=
  match c with
  | .wset => (l.workers.keys ++ l'.workers.keys).all fun id =>
      (l'.workers.get id).map LWorker.static == (l.workers.get id).map LWorker.static
  | .status => (l.workers.keys ++ l'.workers.keys).all fun id =>
      agreeB (fun (w w' : LWorker) => w'.status == w.status) (l.workers.get id) (l'.workers.get id)
  | .book => (l.workers.keys ++ l'.workers.keys).all fun id =>
      agreeB (fun (w w' : LWorker) => w'.assigned == w.assigned && w'.running == w.running && w'.events == w.events)
        (l.workers.get id) (l'.workers.get id)
  | .groups => (l.groups.keys ++ l'.groups.keys).all fun g => l'.groups.get g == l.groups.get g
  | .conns => (l.connectors.keys ++ l'.connectors.keys).all fun n => l'.connectors.get n == l.connectors.get n
  | .policy => l'.policy == l.policy

/-! ## which (operation, component) cells are outside the theorem: the known findings, by call site -/

inductive Kind where
  | register | heartbeat | deregister | deploy | teardown | migrate | rebalanceApi | drain
  | connCreate | connUpdate | connDelete | tickSync | tickSweep | tickFailover | tickReconcile | tickRebalance
  | startupPolicy
  deriving DecidableEq, Repr

def Op.kind : Op → Kind
  | .register .. => .register | .heartbeat .. => .heartbeat | .deregister .. => .deregister
  | .deploy .. => .deploy | .teardown .. => .teardown | .migrate .. => .migrate
  | .rebalanceApi .. => .rebalanceApi | .drain .. => .drain
  | .connCreate .. => .connCreate | .connUpdate .. => .connUpdate | .connDelete .. => .connDelete
  | .tickSync .. => .tickSync | .tickSweep .. => .tickSweep | .tickFailover .. => .tickFailover
  | .tickReconcile .. => .tickReconcile | .tickRebalance .. => .tickRebalance | .startupPolicy .. => .startupPolicy

/-- the finding a broken cell belongs to (`none`: the cell is inside the theorem `step_preserves`) -/
def knownCell : Kind → Comp → Option String
  -- no command carries `pipelines_running` / `events_processed`; `WorkerPipelinesUpdated` is proposed by
  -- `reconcile_placements` only — yet `sync_from_raft` overwrites all three from the replicated entry
  | .heartbeat, .book | .deploy, .book | .teardown, .book | .migrate, .book | .rebalanceApi, .book
  | .tickReconcile, .book | .drain, .book => some "C38-worker-bookkeeping-not-replicated"
  -- main.rs health loop: the results of `handle_worker_failure` are not proposed
  | .tickFailover, .groups | .tickFailover, .book => some "C38-failover-not-replicated"
  -- main.rs health loop: the results of the automatic `rebalance()` are not proposed
  | .tickRebalance, .groups | .tickRebalance, .book => some "C38-auto-rebalance-not-replicated"
  -- main.rs start-up: the configured scaling policy is set locally, `ScalingPolicySet` is never proposed
  | .startupPolicy, .policy => some "C38-startup-scaling-policy-not-replicated"
  | _, _ => none

end Varpulis.RaftSync
