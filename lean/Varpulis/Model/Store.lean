/-!
# M-STORE — `FileStore` checkpoint files and `CheckpointManager` under process crashes

Mirrors crates/varpulis-runtime/src/persistence.rs:
`FileStore::put` (create_dir_all, write `<id>.tmp`, rename), `list_checkpoints`
(names under `checkpoint/` that parse as u64, sorted — so `<id>.tmp` is invisible),
`prune_checkpoints(keep)` (delete the `len - keep` smallest ids, one `remove_file` each),
`load_latest_checkpoint`, `CheckpointManager::{new, checkpoint, recover}`.

The directory `checkpoint/` is a finite map; it is represented canonically as a list
sorted by id (ascending), which *is* what `list_checkpoints` returns. File content is
`good id data` (a complete serialised checkpoint) or `bad` (torn by a crash inside
`fs::write`, truncated or corrupted: does not deserialise). `rename` is atomic,
`fs::write` is not (it can leave a prefix), a crash is a process crash (what was
renamed stays renamed).
-/
namespace Varpulis.Store

inductive Content where
  | good (id data : Nat)
  | bad
  deriving DecidableEq, Repr, Inhabited

structure Disk where
  /-- `checkpoint/<id>`, ascending by id -/
  fin : List (Nat × Content) := []
  /-- `checkpoint/<id>.tmp` -/
  tmp : List (Nat × Content) := []
  deriving Repr, Inhabited

def setKV (l : List (Nat × Content)) (k : Nat) (c : Content) : List (Nat × Content) :=
  (k, c) :: l.filter (·.1 ≠ k)

def eraseKV (l : List (Nat × Content)) (k : Nat) : List (Nat × Content) := l.filter (·.1 ≠ k)

/-- insert into the sorted map, replacing an existing entry (`rename` onto `checkpoint/<id>`) -/
def insertFin : List (Nat × Content) → Nat → Content → List (Nat × Content)
  | [], k, c => [(k, c)]
  | (k', c') :: rest, k, c =>
      if k < k' then (k, c) :: (k', c') :: rest
      else if k = k' then (k, c) :: rest
      else (k', c') :: insertFin rest k c

/-- The disk after the first `k` file-system operations of
`CheckpointManager::checkpoint` for id `n` (save_checkpoint = put; then prune):
0 nothing · 1 `fs::write` of the tmp file started (torn) · 2 tmp file complete ·
3 renamed · 3+j the first `j` `remove_file` calls of the prune done.
Removing the `j` smallest ids of the canonical sorted map is `drop j`; the prune list is
computed once, from the listing after the rename, as `len - keep` ids. -/
def saveK (d : Disk) (n data keep : Nat) : Nat → Disk
  | 0 => d
  | 1 => { d with tmp := setKV d.tmp n .bad }
  | 2 => { d with tmp := setKV d.tmp n (.good n data) }
  | k + 3 =>
      let fin' := insertFin d.fin n (.good n data)
      { fin := fin'.drop (min k (fin'.length - keep)), tmp := eraseKV d.tmp n }

/-- number of file-system operations of a complete `checkpoint()` on disk `d` -/
def saveLen (d : Disk) (n data keep : Nat) : Nat :=
  3 + ((insertFin d.fin n (.good n data)).length - keep)

/-- `load_latest_checkpoint` after the repair: newest id whose file deserialises -/
def recover : List (Nat × Content) → Option (Nat × Nat)
  | [] => none
  | (_, c) :: rest =>
      match recover rest with
      | some r => some r
      | none => match c with
        | .good i x => some (i, x)
        | .bad => none

/-- result of `load_latest_checkpoint` after the repair: the newest readable checkpoint; the
deserialisation error only if files are listed and none is readable -/
inductive LoadResult where
  | found (id data : Nat)
  | nothing
  | err
  deriving DecidableEq, Repr

def loadLatest (fin : List (Nat × Content)) : LoadResult :=
  match recover fin with
  | some (i, x) => .found i x
  | none => if fin.isEmpty then .nothing else .err

/-- `load_latest_checkpoint` at the pinned commit: only the newest id is tried;
`none` = Ok(None), `some none` = Err(deserialisation), `some (some r)` = Ok(Some r) -/
def recoverOld (fin : List (Nat × Content)) : Option (Option (Nat × Nat)) :=
  match fin.getLast? with
  | none => none
  | some (_, .good i x) => some (some (i, x))
  | some (_, .bad) => some none

/-- `CheckpointManager::new` after the repair: next id from the newest *listed* id -/
def nextIdOf (fin : List (Nat × Content)) : Nat :=
  match fin.getLast? with
  | none => 1
  | some (k, _) => k + 1

inductive Op where
  /-- a completed `checkpoint(data)` -/
  | save (data : Nat)
  /-- `checkpoint(data)` interrupted after `k` file-system operations, then a restart -/
  | crash (data k : Nat)
  /-- clean restart (`CheckpointManager::new` on the same directory) -/
  | restart
  deriving Repr

structure Sys where
  disk : Disk := {}
  nextId : Nat := 1
  /-- ghost: every checkpoint whose rename happened, in order (id, data) -/
  written : List (Nat × Nat) := []
  deriving Repr

def step (keep : Nat) (s : Sys) : Op → Sys
  | .save data =>
      { disk := saveK s.disk s.nextId data keep (saveLen s.disk s.nextId data keep),
        nextId := s.nextId + 1, written := s.written ++ [(s.nextId, data)] }
  | .crash data k =>
      let d := saveK s.disk s.nextId data keep k
      { disk := d, nextId := nextIdOf d.fin,
        written := if 3 ≤ k then s.written ++ [(s.nextId, data)] else s.written }
  | .restart => { s with nextId := nextIdOf s.disk.fin }

def run (keep : Nat) (ops : List Op) : Sys := ops.foldl (step keep) {}

/-- external fault: the newest stored checkpoint file becomes unreadable -/
def corruptNewest (fin : List (Nat × Content)) : List (Nat × Content) :=
  match fin.reverse with
  | [] => []
  | (k, _) :: rest => (rest.reverse) ++ [(k, .bad)]

end Varpulis.Store
