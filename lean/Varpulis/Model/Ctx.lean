/-!
# M-CTX — the multi-threaded context runtime as a network of processes with bounded FIFO inboxes

Mirrors crates/varpulis-runtime/src/context.rs:

* `ContextOrchestrator::build_with_checkpoint`: one bounded `mpsc` inbox per context
  (`channel_capacity`), the routing table `ingress_routing : event type → context`.
* `EventTypeRouter::dispatch` (ingress): `try_send` of an input event into the inbox its type is
  routed to; `ChannelFull` is *returned to the caller*, who keeps the event (label `feed`).
* `ContextRuntime::run`: take the next inbox message (label `recv c`); an event is processed by
  the context's engine (`Engine::process_shared`, abstract function `proc`), whose emitted events
  wait in the engine output channel (`pend`); a barrier is answered by `handle_checkpoint_barrier`
  (snapshot of the engine + ack).
* `ContextRuntime::drain_and_route_output`: for each engine output (label `fwd c`): if its type has
  an ingress route to a context, `try_send` it there — **the result is ignored** — and in every case
  send it to the global output channel. `blocking := true` is the variant that awaits `send`.
* `CheckpointCoordinator::initiate` (`start`, then one `inject c` per context: `try_send` of the
  barrier *directly into the inbox*), `receive_ack`/`try_complete` (`collect`).

The scheduler is not modelled: a run is any sequence of labels (`Reach`). Every step appends what
happened to the ghost history `log`; delivery and cut properties are statements about projections
of that history. tokio's `mpsc` is a bounded FIFO queue whose `try_send` fails exactly when it is
full (trusted). The global output channel and the ack channel are taken to be large enough.
-/
namespace Varpulis.Ctx

/-- who put an event into an inbox (ghost tag; the real message does not carry it) -/
inductive Src where
  | ingress
  | ctx (i : Nat)
  deriving DecidableEq, Repr

/-- `ContextMessage` (watermark updates are never sent by anything) -/
inductive Msg (ε : Type) where
  | ev (src : Src) (e : ε)
  | bar (k : Nat)
  deriving DecidableEq, Repr

/-- what a step did (ghost history entry = one record of the implementation trace) -/
inductive Obs (ε : Type) where
  /-- ingress `try_send` of input `e` into inbox `q` -/
  | fed (e : ε) (q : Nat) (ok : Bool)
  /-- context `q` took event `e` (put there by `src`) from its inbox and processed it -/
  | got (q : Nat) (src : Src) (e : ε)
  /-- context `q` took barrier `k`, snapshotted its engine and sent the ack -/
  | gotBar (q : Nat) (k : Nat)
  /-- context `c` forwarded engine output `e`: `try_send` into inbox `dst` (if routed) with result
  `ok`, and to the global output -/
  | fwd (c : Nat) (e : ε) (dst : Option Nat) (ok : Bool)
  | start (k : Nat)
  | injected (k : Nat) (c : Nat) (ok : Bool)
  | collected (c : Nat) (k : Nat) (completed : Bool)
  deriving Repr

/-- scheduler choices -/
inductive Label where
  | feed
  | recv (c : Nat)
  | fwd (c : Nat)
  | start
  | inject (c : Nat)
  | collect
  deriving DecidableEq, Repr

/-- `CheckpointAck`: the engine checkpoint of one context (+ ghost: the history at that moment) -/
structure Snap (σ ε : Type) where
  ctx : Nat
  eng : σ
  hist : List (Obs ε)

/-- `PendingCheckpoint` (+ the contexts `initiate` has not yet sent the barrier to) -/
structure Pending (σ ε : Type) where
  id : Nat
  toInject : List Nat
  got : List (Snap σ ε)

structure Net (σ ε : Type) where
  /-- contexts are `0 .. n-1` -/
  n : Nat
  /-- `channel_capacity` of every inbox -/
  cap : Nat
  /-- `false`: `try_send` with ignored failure (the code); `true`: awaiting `send` -/
  blocking : Bool
  /-- `ingress_routing`, by event type -/
  route : ε → Option Nat
  /-- default context of the `EventTypeRouter` (input types without a route) -/
  dflt : Nat
  /-- engine of context `c`: `process_shared` and the events it emits, in order -/
  proc : Nat → σ → ε → σ × List ε

structure St (σ ε : Type) where
  /-- input events the ingress has not yet dispatched -/
  todo : List ε
  inbox : Nat → List (Msg ε)
  /-- engine output channel of each context: emitted, not yet forwarded -/
  pend : Nat → List ε
  eng : Nat → σ
  /-- global output channel: everything sent to it, in order -/
  out : List ε
  nextId : Nat
  pending : Option (Pending σ ε)
  /-- ack channel (checkpoint id, snapshot) -/
  acks : List (Nat × Snap σ ε)
  /-- completed coordinated checkpoints (`Checkpoint.context_states`) -/
  done : List (Nat × List (Snap σ ε))
  log : List (Obs ε)

def upd {α : Type} (f : Nat → α) (i : Nat) (v : α) : Nat → α := fun j => if j = i then v else f j

@[simp] theorem upd_same {α : Type} (f : Nat → α) (i : Nat) (v : α) : upd f i v i = v := by simp [upd]
theorem upd_other {α : Type} (f : Nat → α) (i j : Nat) (v : α) (h : j ≠ i) : upd f i v j = f j := by
  simp [upd, h]

variable {σ ε : Type}

/-- target inbox of a forwarded engine output: `ingress_routing.get(type)` then
`all_context_txs.get(target)` -/
def tgt (net : Net σ ε) (e : ε) : Option Nat :=
  match net.route e with
  | some q => if q < net.n then some q else none
  | none => none

def init (inputs : List ε) (σ0 : Nat → σ) : St σ ε :=
  { todo := inputs, inbox := fun _ => [], pend := fun _ => [], eng := σ0, out := [],
    nextId := 1, pending := none, acks := [], done := [], log := [] }

/-- One step of the actor chosen by the label; `none` = not enabled. -/
def step (net : Net σ ε) (s : St σ ε) : Label → Option (St σ ε)
  | .feed =>
    match s.todo with
    | [] => none
    | e :: rest =>
      let q := (tgt net e).getD net.dflt
      if (s.inbox q).length < net.cap then
        some { s with todo := rest, inbox := upd s.inbox q (s.inbox q ++ [.ev .ingress e]),
                      log := s.log ++ [.fed e q true] }
      else
        some { s with log := s.log ++ [.fed e q false] }
  | .recv c =>
    if c < net.n ∧ (s.pend c).isEmpty then
      match s.inbox c with
      | [] => none
      | .ev src e :: rest =>
        let r := net.proc c (s.eng c) e
        some { s with inbox := upd s.inbox c rest, eng := upd s.eng c r.1, pend := upd s.pend c r.2,
                      log := s.log ++ [.got c src e] }
      | .bar k :: rest =>
        some { s with inbox := upd s.inbox c rest,
                      acks := s.acks ++ [(k, { ctx := c, eng := s.eng c, hist := s.log })],
                      log := s.log ++ [.gotBar c k] }
    else none
  | .fwd c =>
    if c < net.n then
      match s.pend c with
      | [] => none
      | e :: rest =>
        match tgt net e with
        | none =>
          some { s with pend := upd s.pend c rest, out := s.out ++ [e],
                        log := s.log ++ [.fwd c e none true] }
        | some q =>
          if (s.inbox q).length < net.cap then
            some { s with pend := upd s.pend c rest,
                          inbox := upd s.inbox q (s.inbox q ++ [.ev (.ctx c) e]),
                          out := s.out ++ [e], log := s.log ++ [.fwd c e (some q) true] }
          else if net.blocking then none
          else
            some { s with pend := upd s.pend c rest, out := s.out ++ [e],
                          log := s.log ++ [.fwd c e (some q) false] }
    else none
  | .start =>
    match s.pending with
    | some _ => none
    | none =>
      some { s with pending := some { id := s.nextId, toInject := List.range net.n, got := [] },
                    nextId := s.nextId + 1, log := s.log ++ [.start s.nextId] }
  | .inject c =>
    match s.pending with
    | none => none
    | some p =>
      if c ∈ p.toInject then
        let p' : Pending σ ε := { p with toInject := p.toInject.erase c }
        if (s.inbox c).length < net.cap then
          some { s with pending := some p', inbox := upd s.inbox c (s.inbox c ++ [.bar p.id]),
                        log := s.log ++ [.injected p.id c true] }
        else
          some { s with pending := some p', log := s.log ++ [.injected p.id c false] }
      else none
  | .collect =>
    match s.acks with
    | [] => none
    | (k, sn) :: rest =>
      match s.pending with
      | none => some { s with acks := rest, log := s.log ++ [.collected sn.ctx k false] }
      | some p =>
        if k = p.id then
          let got := p.got.filter (fun x => x.ctx != sn.ctx) ++ [sn]
          if got.length = net.n then
            some { s with acks := rest, pending := none, done := s.done ++ [(k, got)],
                          log := s.log ++ [.collected sn.ctx k true] }
          else
            some { s with acks := rest, pending := some { p with got := got },
                          log := s.log ++ [.collected sn.ctx k false] }
        else some { s with acks := rest, log := s.log ++ [.collected sn.ctx k false] }

/-- the labelled transition relation -/
def Step (net : Net σ ε) (s : St σ ε) (l : Label) (s' : St σ ε) : Prop := step net s l = some s'

/-- reflexive-transitive closure of `Step` from `s0` -/
inductive Reach (net : Net σ ε) (s0 : St σ ε) : St σ ε → Prop where
  | refl : Reach net s0 s0
  | tail {s s' : St σ ε} (l : Label) : Reach net s0 s → Step net s l s' → Reach net s0 s'

/-- labels that can possibly be enabled -/
def candidates (net : Net σ ε) (s : St σ ε) : List Label :=
  [.feed, .start, .collect] ++
    (List.range net.n).flatMap (fun c => [Label.recv c, Label.fwd c]) ++
    (match s.pending with
     | some p => p.toInject.map Label.inject
     | none => [])

/-- executable successor function -/
def next (net : Net σ ε) (s : St σ ε) : List (Label × St σ ε) :=
  (candidates net s).filterMap (fun l => (step net s l).map (fun s' => (l, s')))

/-- run a schedule (list of labels); `none` if some label is not enabled -/
def runL (net : Net σ ε) : St σ ε → List Label → Option (St σ ε)
  | s, [] => some s
  | s, l :: ls => match step net s l with
    | some s' => runL net s' ls
    | none => none

/-! ## projections of the history -/

def enqOf (p : Src) (q : Nat) : Obs ε → Option ε
  | .fed e q' true => if p = .ingress ∧ q' = q then some e else none
  | .fwd c e (some q') true => if p = .ctx c ∧ q' = q then some e else none
  | _ => none

def consOf (p : Src) (q : Nat) : Obs ε → Option ε
  | .got q' p' e => if p' = p ∧ q' = q then some e else none
  | _ => none

def sentOf (c q : Nat) : Obs ε → Option ε
  | .fwd c' e (some q') _ => if c' = c ∧ q' = q then some e else none
  | _ => none

def dropOf (c q : Nat) : Obs ε → Option ε
  | .fwd c' e (some q') false => if c' = c ∧ q' = q then some e else none
  | _ => none

def projOf (p : Src) : Msg ε → Option ε
  | .ev p' e => if p' = p then some e else none
  | .bar _ => none

def outOfOf (c : Nat) : Obs ε → Option ε
  | .fwd c' e _ _ => if c' = c then some e else none
  | _ => none

/-- events successfully enqueued into inbox `q` by `p`, in order -/
def enq (log : List (Obs ε)) (p : Src) (q : Nat) : List ε := log.filterMap (enqOf p q)

/-- events context `q` took from its inbox that `p` had put there, in order -/
def cons (log : List (Obs ε)) (p : Src) (q : Nat) : List ε := log.filterMap (consOf p q)

/-- events context `c` produced for context `q` (every forwarding attempt), in order -/
def sent (log : List (Obs ε)) (c q : Nat) : List ε := log.filterMap (sentOf c q)

/-- events context `c` produced for `q` whose `try_send` failed -/
def drops (log : List (Obs ε)) (c q : Nat) : List ε := log.filterMap (dropOf c q)

/-- events in an inbox that `p` put there -/
def proj (p : Src) (l : List (Msg ε)) : List ε := l.filterMap (projOf p)

/-- everything context `c` sent to the global output, in order -/
def outOf (log : List (Obs ε)) (c : Nat) : List ε := log.filterMap (outOfOf c)

/-- no event is queued or half-processed anywhere -/
def Quiescent (net : Net σ ε) (s : St σ ε) : Prop :=
  ∀ c, c < net.n → s.inbox c = [] ∧ s.pend c = []

instance [DecidableEq ε] (net : Net σ ε) (s : St σ ε) : Decidable (Quiescent net s) := by
  unfold Quiescent; infer_instance

/-! ## coordinated checkpoints -/

/-- A completed checkpoint is a consistent cut (with empty channels, which is what a snapshot
without channel state needs): on every context→context edge, what the producer had enqueued when it
took its snapshot is exactly what the consumer had taken when it took its own. -/
def CutConsistent (parts : List (Snap σ ε)) : Prop :=
  ∀ a ∈ parts, ∀ b ∈ parts, enq a.hist (.ctx a.ctx) b.ctx = cons b.hist (.ctx a.ctx) b.ctx

/-- inputs consumed at the cut are not replayed: drop, per ingress target, as many events as that
context had taken from the ingress when it snapshotted -/
def unconsumed (net : Net σ ε) : (Nat → Nat) → List ε → List ε
  | _, [] => []
  | cnt, e :: rest =>
    let q := (tgt net e).getD net.dflt
    if cnt q = 0 then e :: unconsumed net cnt rest
    else unconsumed net (upd cnt q (cnt q - 1)) rest

def snapOf (parts : List (Snap σ ε)) (c : Nat) : Option (Snap σ ε) := parts.find? (fun x => x.ctx == c)

/-- `build_with_checkpoint(.., recovery_checkpoint)`: every context restarts from its snapshot with
an empty inbox; the caller replays the inputs that were not yet consumed -/
def restore (net : Net σ ε) (inputs : List ε) (σ0 : Nat → σ) (parts : List (Snap σ ε)) : St σ ε :=
  init (unconsumed net (fun q => match snapOf parts q with
                                  | some sn => (cons sn.hist .ingress q).length
                                  | none => 0) inputs)
       (fun c => match snapOf parts c with
                 | some sn => sn.eng
                 | none => σ0 c)

/-! ## stream programs: which context consumes what

`SDecl` is one `stream name = src .context(ctx) …` declaration (single upstream). The routing table
mirrors `ContextOrchestrator::build_with_checkpoint` (ingress routing passes 1 and 2): a type — raw
event type or stream name — is routed to the context of the *last* stream in program order that
consumes it from another context than the one producing it; a consumer in the producer's own
context is fed inside that context's engine. One context per type. -/

structure SDecl (κ : Type) where
  name : κ
  src : κ
  ctx : Nat
  deriving DecidableEq, Repr

section routing
variable {κ : Type} [DecidableEq κ]

/-- context of the stream producing this type (`none` for raw event types) -/
def ownerOf (streams : List (SDecl κ)) (t : κ) : Option Nat :=
  (streams.find? (fun s => s.name = t)).map (·.ctx)

/-- `ingress_routing` -/
def routeTy (streams : List (SDecl κ)) (t : κ) : Option Nat :=
  ((streams.filter (fun s => s.src = t ∧ ownerOf streams t ≠ some s.ctx)).getLast?).map (·.ctx)

/-- the stream never sees an event: its source type is neither produced in its own context nor
routed to it (guard of finding `C26-one-context-per-type`) -/
def starved (streams : List (SDecl κ)) (s : SDecl κ) : Bool :=
  ownerOf streams s.src ≠ some s.ctx ∧ routeTy streams s.src ≠ some s.ctx

/-- the given streams and everything downstream of them -/
def downstream (streams : List (SDecl κ)) (seed : List κ) : List κ :=
  (List.range streams.length).foldl (fun acc _ =>
    acc ++ ((streams.filter (fun s => s.src ∈ acc ∧ s.name ∉ acc)).map (·.name))) seed

end routing

/-- a single-upstream stream as a sequential transducer (`.where/.emit`, count windows, …) -/
structure SFun (τ ε : Type) where
  init : τ
  step : τ → ε → τ × List ε

def SFun.run {τ : Type} (f : SFun τ ε) : τ → List ε → List ε
  | _, [] => []
  | t, x :: xs => (f.step t x).2 ++ SFun.run f (f.step t x).1 xs

/-- everything the stream emits when it is handed `xs`, in order -/
def SFun.outs {τ : Type} (f : SFun τ ε) (xs : List ε) : List ε := f.run f.init xs

/-- a program: event typing, stream declarations (types are numbers), the transducer of each stream -/
structure Prog (τ ε : Type) where
  ty : ε → Nat
  streams : List (SDecl Nat)
  fn : Nat → SFun τ ε

/-- `O` assigns to every type the sequence of its events. The meaning of a single-upstream program
on `inputs`, independent of contexts and schedules: a raw type carries the inputs of that type, a
stream carries what its transducer emits on the sequence of its source type. -/
def Kahn {τ : Type} (P : Prog τ ε) (inputs : List ε) (O : Nat → List ε) : Prop :=
  (∀ t, (∀ s ∈ P.streams, s.name ≠ t) → O t = inputs.filter (fun e => P.ty e = t)) ∧
  (∀ s ∈ P.streams, O s.name = (P.fn s.name).outs (O s.src))

/-- engine state of context `c` after it processed `xs` -/
def engSt (net : Net σ ε) (c : Nat) (s0 : σ) (xs : List ε) : σ :=
  xs.foldl (fun st x => (net.proc c st x).1) s0

/-- everything the engine of context `c` emitted while processing `xs`, in order -/
def engRun (net : Net σ ε) (c : Nat) : σ → List ε → List ε
  | _, [] => []
  | st, x :: xs => (net.proc c st x).2 ++ engRun net c (net.proc c st x).1 xs

/-- What the network theorem needs from the engine of context `c` (M-ENGINE's business): fed any
sequence `X`, it emits only events of its own streams, and each of its streams emits what its
transducer yields on the stream's source sequence — taken from the engine's own emissions when the
source is a stream of the same context, from `X` otherwise. (`X` holds no event of a type the
context produces itself: such events never come back through the inbox.) -/
def EngineOK {τ : Type} (P : Prog τ ε) (net : Net σ ε) (s0 : σ) (c : Nat) : Prop :=
  ∀ X : List ε, (∀ x ∈ X, ownerOf P.streams (P.ty x) ≠ some c) →
    (∀ o ∈ engRun net c s0 X, ∃ s ∈ P.streams, s.ctx = c ∧ P.ty o = s.name) ∧
    ∀ s ∈ P.streams, s.ctx = c →
      (engRun net c s0 X).filter (fun e => P.ty e = s.name) =
        (P.fn s.name).outs
          (if ownerOf P.streams s.src = some c then (engRun net c s0 X).filter (fun e => P.ty e = s.src)
           else X.filter (fun e => P.ty e = s.src))

/-! ## the engine of a context (M-ENGINE's `process_inner`, streams as transducers) -/

def SFun.runSt {τ : Type} (f : SFun τ ε) : τ → List ε → τ
  | t, [] => t
  | t, x :: xs => SFun.runSt f (f.step t x).1 xs

/-- one event through every stream of context `c` that consumes its type, in program order
(`for stream_name in router.get_routes(event_type)`); stream states are kept by stream name -/
def applyEv {τ : Type} (P : Prog τ ε) (c : Nat) (st : Nat → τ) (x : ε) : (Nat → τ) × List ε :=
  (P.streams.filter (fun sd => sd.ctx = c ∧ sd.src = P.ty x)).foldl
    (fun acc sd =>
      let r := (P.fn sd.name).step (acc.1 sd.name) x
      (upd acc.1 sd.name r.1, acc.2 ++ r.2)) (st, [])

/-- one level of the pending queue, in queue order -/
def applyList {τ : Type} (P : Prog τ ε) (c : Nat) : (Nat → τ) → List ε → (Nat → τ) × List ε
  | st, [] => (st, [])
  | st, x :: xs =>
    let r := applyEv P c st x
    let r2 := applyList P c r.1 xs
    (r2.1, r.2 ++ r2.2)

/-- `Engine::process_inner`: the FIFO `pending_events` queue holds all depth-`d` events before any
depth-`d+1` event, so it is processed level by level; every processed event's outputs are emitted
at once and queued one level deeper; events at depth ≥ `fuel` (`MAX_CHAIN_DEPTH = 10`) are dropped -/
def levels {τ : Type} (P : Prog τ ε) (c : Nat) : Nat → (Nat → τ) → List ε → (Nat → τ) × List ε
  | 0, st, _ => (st, [])
  | f + 1, st, xs =>
    let r := applyList P c st xs
    let r2 := levels P c f r.1 r.2
    (r2.1, r.2 ++ r2.2)

/-- nothing was cut off by the depth limit -/
def levelsDone {τ : Type} (P : Prog τ ε) (c : Nat) : Nat → (Nat → τ) → List ε → Bool
  | 0, _, xs => xs.isEmpty
  | f + 1, st, xs => let r := applyList P c st xs; levelsDone P c f r.1 r.2

/-- the network whose contexts run `process_inner` on their share of the program -/
def progNet {τ : Type} (P : Prog τ ε) (n cap : Nat) (blocking : Bool) (fuel : Nat) : Net (Nat → τ) ε :=
  { n := n, cap := cap, blocking := blocking, dflt := 0,
    route := fun e => routeTy P.streams (P.ty e),
    proc := fun c st x => levels P c fuel st [x] }

def progInit {τ : Type} (P : Prog τ ε) : Nat → Nat → τ := fun _ name => (P.fn name).init

/-- the same program with every stream in context 0: "without contexts" -/
def Prog.single {τ : Type} (P : Prog τ ε) : Prog τ ε :=
  { P with streams := P.streams.map (fun sd => { sd with ctx := 0 }) }

/-- the events of each type that a run shows: stream types from the global output channel, raw
types from the inputs -/
def byType {τ : Type} (P : Prog τ ε) (inputs : List ε) (out : List ε) (t : Nat) : List ε :=
  if P.streams.any (fun sd => sd.name == t) then out.filter (fun e => P.ty e = t)
  else inputs.filter (fun e => P.ty e = t)

end Varpulis.Ctx
