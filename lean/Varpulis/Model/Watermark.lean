/-!
# M-WM — per-source watermark tracker and the late-data gate (C24)

Mirrors `crates/varpulis-runtime/src/watermark.rs` (`PerSourceWatermarkTracker`) and the
late-data gate at the top of `Engine::process_inner` (`engine/mod.rs`).
Times and durations are integers (the harness uses milliseconds; the code uses
`DateTime<Utc>` / `chrono::Duration`, exact integer nanoseconds — only order and
subtraction are used). Source / stream / event-type names are natural numbers.
The `FxHashMap<String, SourceWatermark>` is an association list with unique names;
its iteration order does not matter because `recompute_effective` only takes a minimum.
`last_event_time: Instant` is never read by the code mirrored here and is dropped.
-/
namespace Varpulis.Watermark

/-- `struct SourceWatermark` (without `last_event_time`) -/
structure Src where
  name : Nat
  wm : Option Int
  maxTs : Option Int
  ooo : Int
  deriving Repr, DecidableEq

/-- `struct PerSourceWatermarkTracker` -/
structure Tracker where
  sources : List Src
  eff : Option Int
  deriving Repr, DecidableEq

/-- `PerSourceWatermarkTracker::new` -/
def Tracker.new : Tracker := { sources := [], eff := none }

def find (l : List Src) (n : Nat) : Option Src := l.find? (fun s => s.name == n)

/-- `FxHashMap::insert`: replace the entry of that name or add one -/
def insert (l : List Src) (s : Src) : List Src :=
  match l with
  | [] => [s]
  | x :: xs => if x.name == s.name then s :: xs else x :: insert xs s

/-- `register_source`: inserts a fresh `SourceWatermark` (an existing entry of that name is
*replaced*, i.e. its watermark is reset to `None`; the effective watermark is not recomputed). -/
def register (t : Tracker) (n : Nat) (ooo : Int) : Tracker :=
  { t with sources := insert t.sources { name := n, wm := none, maxTs := none, ooo := ooo } }

/-- minimum over the sources that have a watermark: the loop of `recompute_effective` -/
def minWm : List Src → Option Int
  | [] => none
  | s :: rest =>
    match s.wm, minWm rest with
    | some w, some m => some (if w < m then w else m)
    | some w, none => some w
    | none, r => r

/-- `recompute_effective`: empty map → `None`; otherwise the minimum over the sources that have a
watermark, and *unchanged* if no source has one. -/
def recompute (t : Tracker) : Tracker :=
  if t.sources.isEmpty then { t with eff := none }
  else match minWm t.sources with
    | some m => { t with eff := some m }
    | none => t

/-- `Some(max_ts) if event_ts > max_ts => true, None => true, _ => false` -/
def updatedMax (m : Option Int) (ts : Int) : Bool :=
  match m with
  | some m => decide (ts > m)
  | none => true

/-- "watermark never recedes": `Some(c) if w > c => Some(w), None => Some(w), _ => unchanged` -/
def raise (cur : Option Int) (w : Int) : Option Int :=
  match cur with
  | some c => if w > c then some w else some c
  | none => some w

/-- the body of `observe_event` for a registered source -/
def observeSrc (s : Src) (ts : Int) : Src :=
  if updatedMax s.maxTs ts then { s with maxTs := some ts, wm := raise s.wm (ts - s.ooo) } else s

/-- `observe_event`: unknown sources are auto-registered with zero out-of-orderness first -/
def observe (t : Tracker) (n : Nat) (ts : Int) : Tracker :=
  match find t.sources n with
  | some s => recompute { t with sources := insert t.sources (observeSrc s ts) }
  | none =>
    let s : Src := { name := n, wm := none, maxTs := none, ooo := 0 }
    recompute { t with sources := insert t.sources (observeSrc s ts) }

/-- `advance_source_watermark`: only for registered sources, never lowers -/
def advance (t : Tracker) (n : Nat) (w : Int) : Tracker :=
  match find t.sources n with
  | some s => recompute { t with sources := insert t.sources { s with wm := raise s.wm w } }
  | none => t

inductive Op
  | register (n : Nat) (ooo : Int)
  | observe (n : Nat) (ts : Int)
  | advance (n : Nat) (w : Int)
  deriving Repr, DecidableEq

def step (t : Tracker) : Op → Tracker
  | .register n ooo => register t n ooo
  | .observe n ts => observe t n ts
  | .advance n w => advance t n w

def run (t : Tracker) (ops : List Op) : Tracker := ops.foldl step t

/-- watermark of a source (`None` when unknown or not yet set) -/
def wmOf (t : Tracker) (n : Nat) : Option Int := (find t.sources n).bind (·.wm)

/-- order on optional watermarks: "no watermark yet" is below every watermark -/
def wmLe : Option Int → Option Int → Prop
  | none, _ => True
  | some _, none => False
  | some a, some b => a ≤ b

instance : (a b : Option Int) → Decidable (wmLe a b)
  | none, _ => isTrue trivial
  | some _, none => isFalse (fun h => h)
  | some a, some b => inferInstanceAs (Decidable (a ≤ b))

/-! ## The late-data gate of `process_inner` -/

/-- `types::LateDataConfig` -/
structure Cfg where
  lateness : Int
  side : Option Nat
  deriving Repr, DecidableEq

inductive Decision
  | pass
  | drop
  | divert (side : Nat)
  deriving Repr, DecidableEq

/-- first consuming stream (in route order) whose config has a side output -/
def firstSide (cfgs : List (Nat × Cfg)) : List Nat → Option Nat
  | [] => none
  | sn :: rest =>
    match cfgs.lookup sn with
    | some c => (match c.side with | some s => some s | none => firstSide cfgs rest)
    | none => firstSide cfgs rest

/-- the loop `for sn in stream_names { if let Some(cfg) … if ts >= eff - lateness { allowed = true } }` -/
def allowedBy (cfgs : List (Nat × Cfg)) (w ts : Int) (routes : List Nat) : Bool :=
  routes.any fun sn => match cfgs.lookup sn with
    | some c => decide (ts ≥ w - c.lateness)
    | none => false

/-- The gate: `eff` = `tracker.effective_watermark()` (or `none` when tracking is off),
`routes` = `router.get_routes(event_type)` (empty when there is none), `cfgs` = `late_data_configs`. -/
def gate (eff : Option Int) (cfgs : List (Nat × Cfg)) (routes : List Nat) (ts : Int) : Decision :=
  match eff with
  | none => .pass
  | some w =>
    if ts < w then
      if !(allowedBy cfgs w ts routes) && !cfgs.isEmpty then
        match firstSide cfgs routes with
        | some s => .divert s
        | none => .drop
      else .pass
    else .pass

/-- engine state as far as the gate is concerned -/
structure Eng where
  tracker : Option Tracker
  cfgs : List (Nat × Cfg)
  /-- `router`: event type → consuming streams, in registration order -/
  routes : List (Nat × List Nat)
  deriving Repr

def Eng.routesOf (e : Eng) (et : Nat) : List Nat := (e.routes.lookup et).getD []

/-- `process_inner` up to the observation: gate first; a late event returns *before* it is observed;
otherwise the event is observed under its event type as the source name. -/
def process (e : Eng) (et : Nat) (ts : Int) : Eng × Decision :=
  let d := gate (e.tracker.bind (·.eff)) e.cfgs (e.routesOf et) ts
  match d with
  | .pass => ({ e with tracker := e.tracker.map (fun t => observe t et ts) }, .pass)
  | d => (e, d)

/-- a run of the engine over an event sequence: (state before, event, decision) per event -/
def runEng (e : Eng) : List (Nat × Int) → List (Eng × (Nat × Int) × Decision)
  | [] => []
  | (et, ts) :: rest => (e, (et, ts), (process e et ts).2) :: runEng (process e et ts).1 rest

end Varpulis.Watermark
