/-!
# M-COORD — coordinator bookkeeping, placement and failure detection (C32, C33)

State and atomic steps of `varpulis-cluster`'s `Coordinator` as far as workers, pipeline groups and
placements are concerned. Every definition names the Rust function it mirrors. Plan / execute / commit are
separate: plans and worker-call outcomes are *inputs* of the commit steps, so any interleaving of the
public calls is a sequence of these steps. Time is a virtual clock in milliseconds.

HashMaps are association lists; their iteration order never matters for the modelled state, and every
choice that depends on it in the code (placement strategy over `workers.values()`) is an explicit input
(`Chooser`) constrained only by what the code guarantees.

Placements of all groups are kept in one flat list of records keyed by (group, name); `HashMap::insert`
is "drop the first record with the key, append the new one".
-/
namespace Varpulis.Coord

abbrev WId := Nat
abbrev GId := Nat
abbrev Name := String

/-- `worker.rs WorkerStatus` -/
inductive WStatus where
  | registering | ready | unhealthy | draining
  deriving DecidableEq, Repr

/-- `worker.rs WorkerNode` (+ `WorkerCapacity`) -/
structure Worker where
  id : WId
  status : WStatus
  running : Nat
  maxP : Nat
  cores : Nat
  lastHb : Nat
  assigned : List Name
  deriving DecidableEq, Repr

/-- `WorkerNode::is_available` -/
def Worker.isAvailable (w : Worker) : Bool := decide (w.status = .ready) && decide (w.running < w.maxP)

/-- `pipeline_group.rs PipelineDeploymentStatus` (only the two values the coordinator ever writes) -/
inductive PStatus where
  | running | failed
  deriving DecidableEq, Repr

/-- one entry of `DeployedPipelineGroup::placements` (`PipelineDeployment`), tagged with its group -/
structure PRec where
  gid : GId
  name : Name
  worker : WId
  status : PStatus
  /-- `!pipeline_id.is_empty()` -/
  hasId : Bool
  epoch : Nat
  deriving DecidableEq, Repr

/-- `pipeline_group.rs PipelinePlacement` -/
structure PSpec where
  name : Name
  affinity : Option WId
  replicas : Nat
  deriving DecidableEq, Repr

structure St where
  workers : List Worker := []
  groups : List (GId × List PSpec) := []
  placements : List PRec := []
  /-- `Coordinator::heartbeat_timeout` in ms -/
  timeout : Nat := 15000
  /-- groups whose *stored* `DeployedPipelineGroup::status` is not `Running`. The field is an input mirrored
  from the implementation's state: its update rule (`update_status` at commits, forced `Failed` when
  `deploy_group` gives up) is not modelled, and no step of the model changes it. Only `reconcile` reads it. -/
  notRunning : List GId := []
  deriving Repr

def St.getW (s : St) (id : WId) : Option Worker := s.workers.find? (fun w => w.id == id)

def St.updW (s : St) (id : WId) (f : Worker → Worker) : St :=
  { s with workers := s.workers.map fun w => if w.id = id then f w else w }

def PRec.hasKey (g : GId) (n : Name) (r : PRec) : Bool := r.gid == g && r.name == n

def St.getP (s : St) (g : GId) (n : Name) : Option PRec := s.placements.find? (PRec.hasKey g n)

/-- `placements.insert(name, deployment)` -/
def St.insertP (s : St) (r : PRec) : St :=
  { s with placements := s.placements.eraseP (PRec.hasKey r.gid r.name) ++ [r] }

def St.hasGroup (s : St) (g : GId) : Bool := s.groups.any (·.1 == g)

/-- names of the running placements on a worker, in record order -/
def St.runningOn (s : St) (id : WId) : List Name :=
  (s.placements.filter fun r => decide (r.status = .running) && r.worker == id).map (·.name)

/-! ## workers: registration, heartbeat, sweep -/

/-- `Coordinator::register_worker` on a node built by `WorkerNode::new` / the register handler:
status Ready, fresh heartbeat stamp, no assigned pipelines; an existing entry is replaced -/
def register (s : St) (id maxP cores running0 now : Nat) : St :=
  { s with workers :=
      { id := id, status := .ready, running := running0, maxP := maxP, cores := cores, lastHb := now, assigned := [] }
        :: s.workers.filter (fun w => w.id != id) }

/-- `Coordinator::heartbeat`: stamp, overwrite the running count, Unhealthy → Ready -/
def heartbeat (s : St) (id reported now : Nat) : Option St :=
  match s.getW id with
  | none => none
  | some _ => some (s.updW id fun w =>
      { w with lastHb := now, running := reported,
               status := if w.status = .unhealthy then .ready else w.status })

/-- `Coordinator::deregister_worker` (also the last step of `drain_worker`) -/
def deregister (s : St) (id : WId) : Option St :=
  match s.getW id with
  | none => none
  | some _ => some { s with workers := s.workers.filter (fun w => w.id != id) }

/-- one worker of `health::health_sweep` -/
def sweepWorker (timeout now : Nat) (w : Worker) : Worker :=
  if w.status = .ready ∧ now - w.lastHb > timeout then { w with status := .unhealthy } else w

/-- `Coordinator::health_sweep` -/
def sweep (s : St) (now : Nat) : St := { s with workers := s.workers.map (sweepWorker s.timeout now) }

/-- ids newly marked unhealthy by a sweep -/
def sweepMarked (s : St) (now : Nat) : List WId :=
  (s.workers.filter fun w => decide (w.status = .ready ∧ now - w.lastHb > s.timeout)).map (·.id)

/-- first step of `drain_worker` -/
def markDraining (s : St) (id : WId) : St := s.updW id fun w => { w with status := .draining }

/-! ## placement -/

/-- `PlacementStrategy::place` as an input: call index ↦ choice among the offered workers -/
abbrev Chooser := Nat → List Worker → Option WId

/-- what every strategy of `lib.rs` guarantees: the result is one of the offered workers, and some result
is produced when any is offered -/
def Chooser.Valid (ch : Chooser) : Prop :=
  ∀ i ws, (∀ w, ch i ws = some w → ∃ x ∈ ws, x.id = w) ∧ (ws ≠ [] → (ch i ws).isSome)

def St.available (s : St) : List Worker := s.workers.filter Worker.isAvailable

/-- worker selection of `plan_deploy_group` / `deploy_group` for one replica -/
def selectWorker (ch : Chooser) (i : Nat) (s : St) (p : PSpec) : Option WId :=
  match p.affinity with
  | some a =>
    match s.getW a with
    | some w => if w.isAvailable then some a else ch i s.available
    | none => ch i s.available
  | none => ch i s.available

structure Task where
  replica : Name
  pipeline : Name
  worker : WId
  count : Nat
  deriving DecidableEq, Repr

def replicaNames (p : PSpec) : List Name :=
  let c := max p.replicas 1
  if c > 1 then (List.range c).map fun i => p.name ++ "#" ++ toString i else [p.name]

inductive PlanRes where
  | noWorkers
  | ok (tasks : List Task)
  deriving Repr

/-- tasks of one pipeline; `i` is the index of the next strategy call -/
def planReplicas (ch : Chooser) (s : St) (p : PSpec) : Nat → List Name → Option (List Task)
  | _, [] => some []
  | i, r :: rs =>
    match selectWorker ch i s p with
    | none => none
    | some w =>
      match planReplicas ch s p (i + 1) rs with
      | none => none
      | some ts => some ({ replica := r, pipeline := p.name, worker := w, count := max p.replicas 1 } :: ts)

def planPipes (ch : Chooser) (s : St) : Nat → List PSpec → Option (List Task)
  | _, [] => some []
  | i, p :: ps =>
    match planReplicas ch s p i (replicaNames p) with
    | none => none
    | some ts =>
      match planPipes ch s (i + (replicaNames p).length) ps with
      | none => none
      | some ts' => some (ts ++ ts')

/-- `Coordinator::plan_deploy_group` -/
def planDeploy (ch : Chooser) (s : St) (specs : List PSpec) : PlanRes :=
  if s.available.isEmpty then .noWorkers
  else match planPipes ch s 0 specs with
    | none => .noWorkers
    | some ts => .ok ts

/-- candidates of the target choice in `handle_worker_failure` / `drain_worker` -/
def failoverCandidates (s : St) (failed : WId) : List Worker :=
  s.workers.filter fun w => w.isAvailable && w.id != failed

/-- `LeastLoadedPlacement::place` compares `running / cores` (cores ≥ 1), ties by `running` -/
def loadLe (a b : Worker) : Bool :=
  let ca := max a.cores 1
  let cb := max b.cores 1
  decide (a.running * cb < b.running * ca) || (a.running * cb == b.running * ca && decide (a.running ≤ b.running))

/-- is `w` a possible result of `LeastLoadedPlacement.place` over `ws` (a minimum, whatever the order) -/
def isLeastLoaded (ws : List Worker) (w : WId) : Bool :=
  ws.any fun x => x.id == w && ws.all fun y => loadLe x y

inductive MigErr where
  | groupNotFound | pipelineNotFound | workerNotFound | targetUnavailable
  deriving DecidableEq, Repr

structure MigPlan where
  gid : GId
  name : Name
  source : WId
  target : WId
  epoch : Nat
  deriving DecidableEq, Repr

/-- `Coordinator::plan_migrate_pipeline` (with the target re-validation of the `fix:` commits) -/
def planMigrate (s : St) (g : GId) (n : Name) (target : WId) : Except MigErr MigPlan :=
  if !s.hasGroup g then .error .groupNotFound else
  match s.getP g n with
  | none => .error .pipelineNotFound
  | some r =>
    match s.getW target with
    | none => .error .workerNotFound
    | some w =>
      if !w.isAvailable then .error .targetUnavailable
      else .ok { gid := g, name := n, source := r.worker, target := target, epoch := r.epoch }

/-! ## commits -/

/-- `w.assigned_pipelines.push(name); w.capacity.pipelines_running += 1` -/
def Worker.push (n : Name) (w : Worker) : Worker := { w with assigned := w.assigned ++ [n], running := w.running + 1 }

/-- remove one entry `name` from `assigned_pipelines`; `pipelines_running.saturating_sub(1)` -/
def Worker.pop (n : Name) (w : Worker) : Worker := { w with assigned := w.assigned.erase n, running := w.running - 1 }

structure DeployResult where
  replica : Name
  worker : WId
  ok : Bool
  deriving DecidableEq, Repr

/-- one iteration of the result loop of `commit_deploy_group` -/
def commitResult (g : GId) (s : St) (r : DeployResult) : St :=
  if r.ok then
    (s.insertP { gid := g, name := r.replica, worker := r.worker, status := .running, hasId := true, epoch := 0 }).updW
      r.worker (Worker.push r.replica)
  else
    s.insertP { gid := g, name := r.replica, worker := r.worker, status := .failed, hasId := false, epoch := 0 }

/-- `Coordinator::commit_deploy_group`: a fresh group object replaces whatever was stored under the id -/
def commitDeploy (s : St) (g : GId) (specs : List PSpec) (results : List DeployResult) : St :=
  let s0 := { s with placements := s.placements.filter (fun r => r.gid != g),
                     groups := (g, specs) :: s.groups.filter (fun x => x.1 != g) }
  results.foldl (commitResult g) s0

/-- `Coordinator::plan_teardown_group`: the placements with a pipeline id -/
def planTeardown (s : St) (g : GId) : Option (List (Name × WId)) :=
  if s.hasGroup g then
    some ((s.placements.filter fun r => r.gid == g && r.hasId).map fun r => (r.name, r.worker))
  else none

/-- one task of `commit_teardown_group` (the record leaves with its group at the end of the call;
dropping it here gives the same final state) -/
def teardownTask (g : GId) (s : St) (t : Name × WId) : St :=
  let s1 := s.updW t.2 (Worker.pop t.1)
  { s1 with placements := s1.placements.eraseP (PRec.hasKey g t.1) }

/-- `Coordinator::commit_teardown_group` -/
def commitTeardown (s : St) (g : GId) (tasks : List (Name × WId)) : St :=
  let s1 := tasks.foldl (teardownTask g) s
  { s1 with placements := s1.placements.filter (fun r => r.gid != g),
            groups := s1.groups.filter (fun x => x.1 != g) }

/-- is a migration plan still current? (`commit_migrate_pipeline` re-validation, `fix:` commit) -/
def migCurrent (s : St) (p : MigPlan) : Bool :=
  s.hasGroup p.gid &&
  (match s.getP p.gid p.name with
   | some r => r.worker == p.source && r.epoch == p.epoch
   | none => false) &&
  (s.getW p.target).isSome

/-- bookkeeping of a successful migration: placement to the target with the next epoch, target `+1`,
source `−1` (`commit_migrate_pipeline` and step 4/5 of `migrate_pipeline`) -/
def applyMigration (s : St) (p : MigPlan) : St :=
  let s1 := s.insertP { gid := p.gid, name := p.name, worker := p.target, status := .running, hasId := true,
                        epoch := p.epoch + 1 }
  let s2 := s1.updW p.target (Worker.push p.name)
  s2.updW p.source (Worker.pop p.name)

/-- `Coordinator::commit_migrate_pipeline` -/
def commitMigrate (s : St) (p : MigPlan) (success : Bool) : St :=
  if success && migCurrent s p then applyMigration s p else s

/-- the monolithic `Coordinator::migrate_pipeline` (runs under the write lock, hence atomic):
plan on the current state (target must be available), one deploy outcome, bookkeeping -/
def migrateAtomic (s : St) (g : GId) (n : Name) (target : WId) (deployOk : Bool) : St :=
  match s.getP g n, s.getW target with
  | some r, some w =>
    if w.isAvailable && s.hasGroup g && deployOk then
      applyMigration s { gid := g, name := n, source := r.worker, target := target, epoch := r.epoch }
    else s
  | _, _ => s

/-! ## reconcile -/

/-- `group.status == GroupStatus::Running` (the stored status, see `St.notRunning`) -/
def St.groupRunning (s : St) (g : GId) : Bool := !s.notRunning.contains g

/-- what `reconcile_placements` re-deploys: running placements of running groups whose worker is available
but does not list the pipeline among its assigned ones -/
def reconcileCandidates (s : St) : List PRec :=
  s.placements.filter fun r =>
    s.groupRunning r.gid && decide (r.status = .running) &&
    (match s.getW r.worker with
     | some w => w.isAvailable && !w.assigned.contains r.name
     | none => false)

/-- `reconcile_placements` when every re-deploy succeeds (`redeploy = true`) or every one fails -/
def reconcile (s : St) (redeploy : Bool) : St :=
  if redeploy then (reconcileCandidates s).foldl (fun acc r => acc.updW r.worker (Worker.push r.name)) s else s

/-! ## the transition system -/

/-- the atomic state-changing calls; plans are pure functions of the state and therefore not steps -/
inductive Step where
  | register (id maxP cores running0 now : Nat)
  | heartbeat (id reported now : Nat)
  | deregister (id : WId)
  | sweep (now : Nat)
  | markDraining (id : WId)
  | commitDeploy (g : GId) (specs : List PSpec) (results : List DeployResult)
  | commitTeardown (g : GId) (tasks : List (Name × WId))
  | commitMigrate (p : MigPlan) (success : Bool)
  | migrateAtomic (g : GId) (n : Name) (target : WId) (deployOk : Bool)
  deriving Repr

/-- successor function (calls that return an error leave the state unchanged) -/
def step (s : St) : Step → St
  | .register id m c r now => register s id m c r now
  | .heartbeat id n now => (heartbeat s id n now).getD s
  | .deregister id => (deregister s id).getD s
  | .sweep now => sweep s now
  | .markDraining id => markDraining s id
  | .commitDeploy g specs rs => commitDeploy s g specs rs
  | .commitTeardown g ts => commitTeardown s g ts
  | .commitMigrate p ok => commitMigrate s p ok
  | .migrateAtomic g n t ok => migrateAtomic s g n t ok

def run (s : St) (steps : List Step) : St := steps.foldl step s

/-! ## the code before the `fix:` commits (kept for the witness theorems of Props/C32.lean) -/

/-- `assigned_pipelines.retain(|p| p != name)`: drops *every* entry of that name -/
def Worker.popAll (n : Name) (w : Worker) : Worker :=
  { w with assigned := w.assigned.filter (· != n), running := w.running - 1 }

/-- `commit_teardown_group` before the repair (`retain`) -/
def commitTeardownRetain (s : St) (g : GId) (tasks : List (Name × WId)) : St :=
  let s1 := tasks.foldl (fun s t => s.updW t.2 (Worker.popAll t.1)) s
  { s1 with placements := s1.placements.filter (fun r => r.gid != g),
            groups := s1.groups.filter (fun x => x.1 != g) }

/-- `commit_migrate_pipeline` before the repair: no re-validation; the placement is replaced only if the
group still exists, the worker bookkeeping is updated regardless -/
def commitMigrateUnchecked (s : St) (p : MigPlan) (success : Bool) : St :=
  if success then
    let s1 := if s.hasGroup p.gid then
        s.insertP { gid := p.gid, name := p.name, worker := p.target, status := .running, hasId := true,
                    epoch := ((s.getP p.gid p.name).map (·.epoch + 1)).getD 1 }
      else s
    (s1.updW p.target (Worker.push p.name)).updW p.source (Worker.popAll p.name)
  else s

/-! ## the bookkeeping invariant (decidable form) and the step guards of the partial theorem -/

/-- decidable form of `BookInv` (Lemmas/CoordBook.lean, `bookInvB_iff`): every running placement has a
pipeline id and sits on a registered worker; every worker's assigned list is a permutation of the running
placements on it and its running count is their number -/
def bookInvB (s : St) : Bool :=
  (s.placements.all fun r => r.status != .running || (r.hasId && s.workers.any fun w => w.id == r.worker)) &&
  (s.workers.all fun w => w.assigned.isPerm (s.runningOn w.id) && w.running == w.assigned.length)

/-- guard of a teardown commit: every task matches the running record currently stored under its name,
and no running record of the group is left uncovered -/
def tdGuard (g : GId) : St → List (Name × WId) → Bool
  | s, [] => s.placements.all fun r => r.gid != g || r.status != .running
  | s, t :: ts =>
    (match s.getP g t.1 with
     | some r => decide (r.status = .running) && r.worker == t.2
     | none => false) && tdGuard g (teardownTask g s t) ts

/-- why a step falls outside the partial theorem (each value is a known finding, by call site) -/
inductive GuardFail where
  /-- `register_worker` for an id that still has running placements (or with a non-zero initial count) -/
  | reregister
  /-- `heartbeat` reporting a count different from the coordinator's own bookkeeping -/
  | heartbeatCount
  /-- `deregister_worker` / end of `drain_worker` while running placements sit on the worker -/
  | deregisterRunning
  /-- `commit_deploy_group` with a successful result for a worker that is no longer registered -/
  | deployWorkerGone
  /-- `commit_deploy_group` with a reused group id or duplicate replica names (never generated) -/
  | deployInput
  /-- `commit_teardown_group` with a plan that no longer matches the placements -/
  | staleTeardown
  /-- migration of a placement whose deployment had failed -/
  | migrateFailedPlacement
  deriving DecidableEq, Repr

def guardFail (s : St) : Step → Option GuardFail
  | .register id _ _ r0 _ => if (s.runningOn id).isEmpty && r0 == 0 then none else some .reregister
  | .heartbeat id n _ =>
    match s.getW id with
    | some w => if n == w.assigned.length then none else some .heartbeatCount
    | none => none
  | .deregister id => if (s.runningOn id).isEmpty then none else some .deregisterRunning
  | .sweep _ => none
  | .markDraining _ => none
  | .commitDeploy g _ rs =>
    if !(s.placements.all fun r => r.gid != g) || !decide ((rs.map (·.replica)).Nodup) then some .deployInput
    else if rs.all fun r => !r.ok || (s.getW r.worker).isSome then none else some .deployWorkerGone
  | .commitTeardown g ts => if tdGuard g s ts then none else some .staleTeardown
  | .commitMigrate p ok =>
    if ok && migCurrent s p then
      (match s.getP p.gid p.name with
       | some r => if r.status = .running then none else some .migrateFailedPlacement
       | none => none)
    else none
  | .migrateAtomic g n t ok =>
    match s.getP g n, s.getW t with
    | some r, some w =>
      if w.isAvailable && s.hasGroup g && ok then (if r.status = .running then none else some .migrateFailedPlacement)
      else none
    | _, _ => none

/-- all steps of a history are inside the guards -/
def guardedRun : St → List Step → Bool
  | _, [] => true
  | s, st :: rest => (guardFail s st).isNone && guardedRun (step s st) rest

end Varpulis.Coord
