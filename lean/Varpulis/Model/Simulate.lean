import Varpulis.Generated.Simulate
/-!
# Model for C18 — `varpulis simulate` with N workers vs one worker

Mirrors the multi-worker branches of `crates/varpulis-cli/src/main.rs run_simulation`
(`immediate && workers > 1`, preload and streaming): a probe engine decides `stateless`
(`Engine::is_stateless`) and the partition key (`--partition-by`, else `Engine::partition_key`, else
`"symbol"`); stateless programs get the events in consecutive chunks, all others by
`hash(event[key]) % workers` (`hash(event_type)` when the field is missing); every worker is a fresh
engine loaded with the same program and processes its events in their original order
(`process_batch_sync`, which handles events one at a time); all outputs go to one channel.

Engines are abstract step machines (what C16 establishes for the real entry points). rayon / OS
scheduling only decides how the workers' output sequences interleave — irrelevant for multisets —
and is not modelled.
-/
namespace Varpulis.Simulate
open Varpulis.Generated.Simulate

/-! ### Abstract engines -/

/-- a step machine: one input event, a new state and the output events -/
structure Machine (E O σ : Type) where
  step : σ → E → σ × List O

/-- output of a machine on an event sequence (`process_batch_sync` over the whole sequence) -/
def Machine.run {E O σ : Type} (m : Machine E O σ) : σ → List E → List O
  | _, [] => []
  | s, e :: es => (m.step s e).2 ++ m.run (m.step s e).1 es

/-- the output of a step does not depend on the state (the state may still change) -/
def Machine.Stateless {E O σ : Type} (m : Machine E O σ) : Prop :=
  ∃ f : E → List O, ∀ s e, (m.step s e).2 = f e

/-- state partitioned by a key: one state per key, a step reads and writes only the slot of its
event's key (`PartitionedWindowState.windows`, SASE `partition_by` runs, …) -/
def keyed {E O τ K : Type} [DecidableEq K] (key : E → K) (km : Machine E O τ) : Machine E O (K → τ) where
  step s e :=
    let r := km.step (s (key e)) e
    (fun k => if k = key e then r.1 else s k, r.2)

/-- several streams in one program: both see every event -/
def prod {E O σ₁ σ₂ : Type} (m₁ : Machine E O σ₁) (m₂ : Machine E O σ₂) : Machine E O (σ₁ × σ₂) where
  step s e := (((m₁.step s.1 e).1, (m₂.step s.2 e).1), (m₁.step s.1 e).2 ++ (m₂.step s.2 e).2)

/-- N workers: worker `i` is a fresh engine (`init`) that processes, in their original order, the
events assigned to it; the outputs of all workers, here concatenated in worker order (the real
interleaving is some permutation of this) -/
def multiRun {E O σ : Type} (m : Machine E O σ) (n : Nat) (w : E → Nat) (init : σ) (es : List E) : List O :=
  (List.range n).flatMap fun i => m.run init (es.filter fun e => w e = i)

/-- the CLI's distribution for stateless programs: consecutive chunks of `ceil(len / n)` events
(`while !all.is_empty() { chunks.push(all.drain(..chunk_size.min(len))) }`) -/
def chunksGo {E : Type} (c : Nat) : Nat → List E → List (List E)
  | 0, _ => []
  | fuel + 1, es => if es = [] then [] else es.take c :: chunksGo c fuel (es.drop c)

def chunks {E : Type} (n : Nat) (es : List E) : List (List E) :=
  chunksGo ((es.length + n - 1) / n) es.length es

/-- N workers on explicit per-worker event lists (any assignment whatsoever) -/
def partsRun {E O σ : Type} (m : Machine E O σ) (init : σ) (parts : List (List E)) : List O :=
  parts.flatMap fun p => m.run init p

/-- what reaches stdout of a burst of output events when nobody drains the output channel meanwhile:
`send_output_shared` uses `try_send` on a channel of capacity `1000 * workers` and drops on overflow
(worst case of the listed finding `C18-output-listing-loss`; the collector's fixed 100 ms grace
period can lose even more) -/
def listedBurst {O : Type} (capacity : Nat) (burst : List O) : List O := burst.take capacity

/-! ### Events, values and the two notions of key -/

inductive Val
  | null
  | bool (b : Bool)
  | int (n : Int)
  | float (bits : Nat)
  | str (s : String)
  deriving DecidableEq, Repr

structure Ev where
  type : String
  fields : List (String × Val)
  deriving DecidableEq, Repr

def Ev.get (e : Ev) (f : String) : Option Val := e.fields.lookup f

/-- `Value::to_partition_key` (strings as they are, integers in decimal, booleans by name; the
other variants through `Display`, abstracted as `disp`) -/
def toPartitionKey (disp : Val → String) : Val → String
  | .str s => s
  | .int n => toString n
  | .bool b => if b then "true" else "false"
  | v => disp v

/-- the key the partitioned operations use: `event.get(key).map(to_partition_key)`, `"default"`
when the field is missing -/
def engineKey (disp : Val → String) (field : String) (e : Ev) : String :=
  match e.get field with
  | some v => toPartitionKey disp v
  | none => "default"

/-- what the CLI hashes: the `Value` itself (derived `Hash`: variant and payload), the event type
when the field is missing -/
def cliKey (field : String) (e : Ev) : Val ⊕ String :=
  match e.get field with
  | some v => .inl v
  | none => .inr e.type

/-- worker of an event: `hash(cliKey) % workers` for an arbitrary hash function -/
def cliWorker (hash : Val ⊕ String → Nat) (field : String) (n : Nat) (e : Ev) : Nat :=
  hash (cliKey field e) % n

/-! ### `is_stateless` / `partition_key` side conditions (facts regenerated from the source) -/

/-- hand classification of `execute_op_common` (pipeline.rs): does the arm keep data between
events? (`Aggregate`, `PartitionedAggregate`, `Score` are functions of the current events only.)
A new `RuntimeOp` variant makes this definition fail to compile until it is classified. -/
def carriesState : OpKind → Bool
  | .WhereClosure | .WhereExpr | .Having | .Select | .Emit | .EmitExpr | .Print | .Log
  | .Pattern | .Process | .To | .Aggregate | .PartitionedAggregate | .Score => false
  | .Window | .PartitionedWindow | .PartitionedSlidingCountWindow | .Sequence | .TrendAggregate
  | .Forecast | .Enrich | .Distinct | .Limit => true

/-- operations whose state is a map from partition key to per-key state -/
def keyedState : OpKind → Bool
  | .PartitionedWindow | .PartitionedSlidingCountWindow => true
  | _ => false

/-- operations that carry a `partition_key` field -/
def hasPartitionKeyField : OpKind → Bool
  | .PartitionedWindow | .PartitionedSlidingCountWindow | .PartitionedAggregate => true
  | _ => false

/-! ### Two concrete program families used by the correspondence (`vmodel simulate`) -/

/-- `stream Out = T.where(v > c).emit(k: k, w: v * m)` -/
def filterMap (c m : Int) : Machine (String × Int) (String × Int) Unit where
  step _ e := ((), if e.2 > c then [(e.1, e.2 * m)] else [])

/-- per-key part of `T.partition_by(k).window(n).aggregate(s: sum(v), c: count()).emit(…)`:
a tumbling count window of `n` events, emitting (key, sum, count) when it fills -/
def countWindow (n : Nat) : Machine (String × Int) (String × Int × Nat) (List Int) where
  step buf e :=
    let buf' := buf ++ [e.2]
    if buf'.length ≥ n then ([], [(e.1, buf'.foldl (· + ·) 0, buf'.length)]) else (buf', [])

def keyedCountWindow (n : Nat) : Machine (String × Int) (String × Int × Nat) (String → List Int) :=
  keyed (fun e => e.1) (countWindow n)

end Varpulis.Simulate
