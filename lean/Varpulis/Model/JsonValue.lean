/-!
# M-TENANT (JSON ↔ Value part) — event values through the REST API (C44)

Mirrors, arm by arm,

* `crates/varpulis-cli/src/api.rs json_to_runtime_value` (inject and inject-batch bodies → `Value`),
* `crates/varpulis-cli/src/websocket.rs value_to_json` (output events of inject / inject-batch) and
  `crates/varpulis-cli/src/api.rs json_from_value` (log stream) — the two have identical arms,
* the loops of `handle_inject` / `handle_inject_batch` that build the `Event`
  (`Event::new(type)`, then `with_field(key, json_to_runtime_value(value))` per field).

`Json` is a `serde_json::Value` as the request body denotes it: a number is an integer
(`Number::PosInt(u64)` / `NegInt(i64)`, i.e. `-2^63 ≤ n < 2^64`) or a finite binary64 (`Number::Float`).
Floats are carried by their bit pattern, so equality below is exact.
-/
namespace Varpulis.JsonValue

/-- IEEE-754 binary64 by bit pattern -/
structure F64 where
  bits : Nat
  deriving DecidableEq, Repr

def F64.expField (f : F64) : Nat := (f.bits / 2 ^ 52) % 2048
/-- neither NaN nor ±∞ -/
def F64.isFinite (f : F64) : Bool := f.expField != 2047

inductive Json
  | null
  | bool (b : Bool)
  | int (n : Int)        -- integer literal, `-2^63 ≤ n < 2^64` for what serde_json keeps as an integer
  | float (f : F64)      -- `Number::Float`, always finite
  | str (s : String)
  | arr (xs : List Json)
  | obj (kvs : List (String × Json))
  deriving Repr

/-- `varpulis_core::Value` -/
inductive Value
  | null
  | bool (b : Bool)
  | int (i : Int)            -- i64
  | float (f : F64)
  | str (s : String)
  | timestamp (ns : Int)     -- i64 nanoseconds
  | duration (ns : Nat)      -- u64 nanoseconds
  | array (xs : List Value)
  | map (kvs : List (String × Value))
  deriving Repr

def i64Min : Int := -(2 ^ 63)
def i64Max : Int := 2 ^ 63 - 1
def u64Max : Int := 2 ^ 64 - 1

def fitsI64 (n : Int) : Bool := decide (i64Min ≤ n) && decide (n ≤ i64Max)

/-- Rust `n as f64` for a `u64`: round to nearest, ties to even -/
def u64ToF64 (n : Nat) : F64 :=
  if n = 0 then ⟨0⟩ else
  let e := Nat.log2 n
  if e ≤ 52 then ⟨(e + 1023) * 2 ^ 52 + (n * 2 ^ (52 - e) - 2 ^ 52)⟩
  else
    let sh := e - 52
    let m := n / 2 ^ sh
    let r := n % 2 ^ sh
    let half := 2 ^ (sh - 1)
    let m' := if r > half || (r == half && m % 2 == 1) then m + 1 else m
    if m' == 2 ^ 53 then ⟨(e + 1 + 1023) * 2 ^ 52⟩ else ⟨(e + 1023) * 2 ^ 52 + (m' - 2 ^ 52)⟩

/-- the `Number` arm of `json_to_runtime_value`: `as_i64`, else `as_f64`, else `Null` -/
def numToValue (n : Int) : Value :=
  if fitsI64 n then .int n                                   -- n.as_i64()
  else if decide (0 ≤ n) && decide (n ≤ u64Max) then .float (u64ToF64 n.toNat)   -- n.as_f64() of a PosInt
  else .null

mutual
/-- `json_to_runtime_value` -/
def jsonToValue : Json → Value
  | .null => .null
  | .bool b => .bool b
  | .int n => numToValue n
  | .float f => .float f          -- as_i64() is None for Number::Float, as_f64() is the float itself
  | .str s => .str s
  | .arr xs => .array (jsonToValueList xs)
  | .obj kvs => .map (jsonToValueFields kvs)
def jsonToValueList : List Json → List Value
  | [] => []
  | x :: xs => jsonToValue x :: jsonToValueList xs
def jsonToValueFields : List (String × Json) → List (String × Value)
  | [] => []
  | (k, v) :: kvs => (k, jsonToValue v) :: jsonToValueFields kvs
end

mutual
/-- `websocket::value_to_json` = `api::json_from_value` (`json!(f)` of a non-finite float is `null`) -/
def valueToJson : Value → Json
  | .null => .null
  | .bool b => .bool b
  | .int i => .int i
  | .float f => if f.isFinite then .float f else .null
  | .str s => .str s
  | .timestamp ns => .int ns
  | .duration ns => .int ns
  | .array xs => .arr (valueToJsonList xs)
  | .map kvs => .obj (valueToJsonFields kvs)
def valueToJsonList : List Value → List Json
  | [] => []
  | x :: xs => valueToJson x :: valueToJsonList xs
def valueToJsonFields : List (String × Value) → List (String × Json)
  | [] => []
  | (k, v) :: kvs => (k, valueToJson v) :: valueToJsonFields kvs
end

/-! ## the domain on which the API is lossless -/

mutual
/-- every integer fits `i64`, every float is finite -/
def Json.ok : Json → Bool
  | .null | .bool _ | .str _ => true
  | .int n => fitsI64 n
  | .float f => f.isFinite
  | .arr xs => Json.okList xs
  | .obj kvs => Json.okFields kvs
def Json.okList : List Json → Bool
  | [] => true
  | x :: xs => x.ok && Json.okList xs
def Json.okFields : List (String × Json) → Bool
  | [] => true
  | (_, v) :: kvs => v.ok && Json.okFields kvs
end

mutual
/-- the known finding's guard: the payload contains an integer outside `i64` -/
def Json.hasBigInt : Json → Bool
  | .int n => !fitsI64 n
  | .arr xs => Json.hasBigIntList xs
  | .obj kvs => Json.hasBigIntFields kvs
  | _ => false
def Json.hasBigIntList : List Json → Bool
  | [] => false
  | x :: xs => x.hasBigInt || Json.hasBigIntList xs
def Json.hasBigIntFields : List (String × Json) → Bool
  | [] => false
  | (_, v) :: kvs => v.hasBigInt || Json.hasBigIntFields kvs
end

mutual
/-- "same type, same contents": the JSON tree and the runtime value denote the same thing -/
def same : Json → Value → Bool
  | .null, .null => true
  | .bool a, .bool b => a == b
  | .int n, .int i => n == i
  | .float f, .float g => f == g
  | .str s, .str t => s == t
  | .arr xs, .array ys => sameList xs ys
  | .obj kvs, .map kws => sameFields kvs kws
  | _, _ => false
def sameList : List Json → List Value → Bool
  | [], [] => true
  | x :: xs, y :: ys => same x y && sameList xs ys
  | _, _ => false
def sameFields : List (String × Json) → List (String × Value) → Bool
  | [], [] => true
  | (k, v) :: kvs, (k', w) :: kws => k == k' && same v w && sameFields kvs kws
  | _, _ => false
end

mutual
/-- structural equality of JSON trees (number kinds distinguished) as a `Bool` -/
def Json.beq : Json → Json → Bool
  | .null, .null => true
  | .bool a, .bool b => a == b
  | .int n, .int m => n == m
  | .float f, .float g => f == g
  | .str s, .str t => s == t
  | .arr xs, .arr ys => Json.beqList xs ys
  | .obj kvs, .obj kws => Json.beqFields kvs kws
  | _, _ => false
def Json.beqList : List Json → List Json → Bool
  | [], [] => true
  | x :: xs, y :: ys => x.beq y && Json.beqList xs ys
  | _, _ => false
def Json.beqFields : List (String × Json) → List (String × Json) → Bool
  | [], [] => true
  | (k, v) :: kvs, (k', w) :: kws => k == k' && v.beq w && Json.beqFields kvs kws
  | _, _ => false
end

mutual
/-- values JSON can carry without loss: no timestamp/duration (they become plain numbers), floats finite -/
def Value.plain : Value → Bool
  | .null | .bool _ | .int _ | .str _ => true
  | .float f => f.isFinite
  | .timestamp _ | .duration _ => false
  | .array xs => Value.plainList xs
  | .map kvs => Value.plainFields kvs
def Value.plainList : List Value → Bool
  | [] => true
  | x :: xs => x.plain && Value.plainList xs
def Value.plainFields : List (String × Value) → Bool
  | [] => true
  | (_, v) :: kvs => v.plain && Value.plainFields kvs
end

/-! ## events -/

/-- `Event { event_type, data: IndexMap }` as far as the handlers build it -/
structure Event where
  eventType : String
  data : List (String × Value)
  deriving Repr

/-- `IndexMap::insert`: replace in place when the key exists, else append -/
def insertField (k : String) (v : Value) : List (String × Value) → List (String × Value)
  | [] => [(k, v)]
  | (k', w) :: rest => if k' == k then (k, v) :: rest else (k', w) :: insertField k v rest

/-- `Event::with_field` -/
def Event.withField (e : Event) (k : String) (v : Value) : Event := { e with data := insertField k v e.data }

structure InjectEventRequest where
  eventType : String
  fields : List (String × Json)

/-- the event `handle_inject` hands to `tenant.process_event` -/
def injectEvent (body : InjectEventRequest) : Event :=
  body.fields.foldl (fun ev kv => ev.withField kv.1 (jsonToValue kv.2)) { eventType := body.eventType, data := [] }

/-- the events `handle_inject_batch` hands to `tenant.process_event`, in order -/
def injectBatchEvents : List InjectEventRequest → List Event
  | [] => []
  | req :: rest =>
    (req.fields.foldl (fun ev kv => ev.withField kv.1 (jsonToValue kv.2)) { eventType := req.eventType, data := [] })
      :: injectBatchEvents rest

/-- `"fields"` object of an output event in `handle_inject`'s reply -/
def outputFields (e : Event) : List (String × Json) := valueToJsonFields e.data

/-! ## a pipeline that transforms the values through the evaluator

`stream Out = E .emit(a: f0 + 1, b: -f1, c: f2, d: f3)` on events whose `f0` is an `Int` and `f1` a
`Float`: integer addition (no overflow on the domain), float negation (sign bit), two pass-throughs.
The evaluator's arithmetic itself is M-EXPR's subject (C08–C11); here it only sits between the two
conversions. -/

/-- IEEE negation: flip the sign bit -/
def negF64 (f : F64) : F64 := ⟨if f.bits ≥ 2 ^ 63 then f.bits - 2 ^ 63 else f.bits + 2 ^ 63⟩

def lookupField (k : String) (data : List (String × Value)) : Value := (data.lookup k).getD .null

/-- the emitted event's fields; `none` outside the domain (f0 not an Int whose successor fits i64, f1 not a Float) -/
def transformFields (data : List (String × Value)) : Option (List (String × Value)) :=
  match lookupField "f0" data, lookupField "f1" data with
  | .int n, .float f =>
    if fitsI64 (n + 1) then
      some [("a", .int (n + 1)), ("b", .float (negF64 f)), ("c", lookupField "f2" data), ("d", lookupField "f3" data)]
    else none
  | _, _ => none

end Varpulis.JsonValue
