/-!
# M-ZDD, tree layer

Hash-consed refs of `varpulis-zdd` are modelled by the trees they denote.
Each definition names the Rust function it mirrors (crates/varpulis-zdd/src).
Persistent / per-call caches do not appear here: they only memoise the
recursion (table layer, `Model/ZddTable.lean`).
-/
namespace Varpulis.Zdd

inductive Z where
  | empty
  | base
  | node (v : Nat) (lo hi : Z)
  deriving DecidableEq, Repr, Inhabited

/-- `UniqueTable::get_or_create`: zero-suppression rule, otherwise the node. -/
def mk (v : Nat) (lo hi : Z) : Z := if hi = .empty then lo else .node v lo hi

/-- The family denoted, in exactly the order `ArenaIterator`/`ZddIterator` yield it
(lo branch first, then hi branch with the variable pushed on the path). -/
def sets : Z → List (List Nat)
  | .empty => []
  | .base => [[]]
  | .node v lo hi => sets lo ++ (sets hi).map (v :: ·)

/-- `count_ref` / `count_rec`. -/
def count : Z → Nat
  | .empty => 0
  | .base => 1
  | .node _ lo hi => count lo + count hi

/-- `contains_sorted` (loop over the sorted query). -/
def contains : Z → List Nat → Bool
  | .empty, _ => false
  | .base, q => q.isEmpty
  | .node _ lo _, [] => contains lo []
  | .node v lo hi, e :: q =>
      if v = e then contains hi q
      else if v > e then false
      else contains lo (e :: q)

/-- `ZddArena::singleton`. -/
def singleton (v : Nat) : Z := mk v .empty .base

/-- `from_set` after `sort_unstable; dedup`: chain built from the highest variable down. -/
def fromSorted : List Nat → Z
  | [] => .base
  | v :: vs => mk v .empty (fromSorted vs)

/-- insertion into a strictly ascending list (set insert). -/
def insertSorted (v : Nat) : List Nat → List Nat
  | [] => [v]
  | x :: xs => if v < x then v :: x :: xs else if v = x then x :: xs else x :: insertSorted v xs

/-- `sort_unstable(); dedup()` of `from_set` / `contains`. -/
def normalize (l : List Nat) : List Nat := l.foldr insertSorted []

def fromSet (l : List Nat) : Z := fromSorted (normalize l)

/-- `union_refs` (arena.rs) = `union_refs_rec` (ops/common.rs) = `union_rec` (ops/union.rs). -/
def union (a b : Z) : Z :=
  if a = .empty then b
  else if b = .empty then a
  else if a = b then a
  else match a, b with
    | .node av alo ahi, .node bv blo bhi =>
        if av < bv then mk av (union alo (.node bv blo bhi)) ahi
        else if av > bv then mk bv (union (.node av alo ahi) blo) bhi
        else mk av (union alo blo) (union ahi bhi)
    | .node av alo ahi, .base => mk av (union alo .base) ahi
    | .base, .node bv blo bhi => mk bv (union .base blo) bhi
    | _, _ => .base
termination_by sizeOf a + sizeOf b
decreasing_by all_goals simp_wf; all_goals omega

/-- `intersection_refs` (arena.rs) = `intersection_rec` (ops/intersection.rs). -/
def inter (a b : Z) : Z :=
  if a = .empty ∨ b = .empty then .empty
  else if a = b then a
  else match a, b with
    | .node av alo ahi, .node bv blo bhi =>
        if av < bv then inter alo (.node bv blo bhi)
        else if av > bv then inter (.node av alo ahi) blo
        else mk av (inter alo blo) (inter ahi bhi)
    | .node _ alo _, .base => inter alo .base
    | .base, .node _ blo _ => inter .base blo
    | _, _ => .base
termination_by sizeOf a + sizeOf b
decreasing_by all_goals simp_wf; all_goals omega

/-- `difference_rec` (ops/difference.rs), and `difference_refs` (arena.rs) after the repair. -/
def diff (a b : Z) : Z :=
  if a = .empty then .empty
  else if b = .empty then a
  else if a = b then .empty
  else match a, b with
    | .node av alo ahi, .node bv blo bhi =>
        if av < bv then mk av (diff alo (.node bv blo bhi)) ahi
        else if av > bv then diff (.node av alo ahi) blo
        else mk av (diff alo blo) (diff ahi bhi)
    | .node av alo ahi, .base => mk av (diff alo .base) ahi
    | .base, .node _ blo _ => diff .base blo
    | a, _ => a
termination_by sizeOf a + sizeOf b
decreasing_by all_goals simp_wf; all_goals omega

/-- `difference_refs` of arena.rs as found at the pinned commit (arm `av < bv`
recursed into `a_hi \ b`). Kept as the witness model of the defect. -/
def diffBuggy (a b : Z) : Z :=
  if a = .empty then .empty
  else if b = .empty then a
  else if a = b then .empty
  else match a, b with
    | .node av alo ahi, .node bv blo bhi =>
        if av < bv then mk av (diffBuggy alo (.node bv blo bhi)) (diffBuggy ahi (.node bv blo bhi))
        else if av > bv then diffBuggy (.node av alo ahi) blo
        else mk av (diffBuggy alo blo) (diffBuggy ahi bhi)
    | .node av alo ahi, .base => mk av (diffBuggy alo .base) ahi
    | .base, .node _ blo _ => diffBuggy .base blo
    | a, _ => a
termination_by sizeOf a + sizeOf b
decreasing_by all_goals simp_wf; all_goals omega

/-- `product_with_optional_rec` (both APIs): S ∪ {s ∪ {v} | s ∈ S}. -/
def pwo (a : Z) (var : Nat) : Z :=
  match a with
  | .empty => .empty
  | .base => mk var .base .base
  | .node v lo hi =>
      if v < var then mk v (pwo lo var) (pwo hi var)
      else if v = var then mk var lo (union lo hi)
      else mk var (.node v lo hi) (.node v lo hi)

/-- `product_rec` (ops/product.rs): {s ∪ t | s ∈ A, t ∈ B}. -/
def product (a b : Z) : Z :=
  if a = .empty ∨ b = .empty then .empty
  else if a = .base then b
  else if b = .base then a
  else match a, b with
    | .node av alo ahi, .node bv blo bhi =>
        if av < bv then mk av (product alo (.node bv blo bhi)) (product ahi (.node bv blo bhi))
        else if av > bv then mk bv (product (.node av alo ahi) blo) (product (.node av alo ahi) bhi)
        else mk av (product alo blo)
              (union (union (product ahi blo) (product alo bhi)) (product ahi bhi))
    | a, _ => a
termination_by sizeOf a + sizeOf b
decreasing_by all_goals simp_wf; all_goals omega

/-- variables ≥ n and strictly increasing along every path -/
def Ord (n : Nat) : Z → Prop
  | .empty => True
  | .base => True
  | .node v lo hi => n ≤ v ∧ Ord (v + 1) lo ∧ Ord (v + 1) hi

/-- reduced: no stored node whose include-branch is empty -/
def Red : Z → Prop
  | .empty => True
  | .base => True
  | .node _ lo hi => hi ≠ .empty ∧ Red lo ∧ Red hi

end Varpulis.Zdd

namespace Varpulis.Zdd
/-- union of two strictly ascending lists, as a strictly ascending list (spec of `product`) -/
def sunion (t u : List Nat) : List Nat := t.foldr insertSorted u
end Varpulis.Zdd
