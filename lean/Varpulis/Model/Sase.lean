import Varpulis.Model.Zdd
/-!
# M-SASE — the SASE+ pattern matcher (crates/varpulis-runtime/src/sase.rs), sequence fragment

Fragment: patterns of 1..n steps, each `SasePattern::Event` or `KleenePlus(Event)` (`all`),
predicates `Compare` / `CompareRef` / `And` / `Or` / `Not`, optional `partition_by` field,
global negations (`.not`). No `.within` (no wall clock), no `And`/`Or`/`Not` pattern nodes.
Events carry their arrival index, so "in order" / "between" are statements about indices.

Three layers, each definition names the Rust function it mirrors:
* **values / predicates** — `values_equal`, `values_compare`, `compare_values`, `eval_predicate`,
  `classify_predicate`, `Value::to_partition_key`;
* **step level** (`advance`, `tryStart`, `processRuns`, `stepEngine`, `runAll`) — `advance_run_shared`,
  `try_start_run_shared`, `process_runs_shared`/`process_partition_shared` (with `swap_remove`),
  `process_shared`, specialised to the linear NFA that `NfaCompiler::compile_pattern` builds for
  the fragment (a run's control state is the index of the step whose NFA state it sits in);
* **specification / judge** — `Genuine` (statement of C01 as a decidable predicate),
  `Spec.earliest` (reference earliest-continuation semantics, the oracle of C02).
-/
namespace Varpulis.Sase

/-! ## Values -/

/-- `varpulis_core::Value` restricted to what the generators emit. Floats are dyadic and stored in
quarter units (`flt q` = q/4), so that `(a-b).abs() < f64::EPSILON` is exact equality. -/
inductive Val where
  | int (i : Int)
  | flt (q : Int)
  | str (s : String)
  | bool (b : Bool)
  deriving DecidableEq, Repr, Inhabited

inductive Op where
  | eq | ne | lt | le | gt | ge
  deriving DecidableEq, Repr, Inhabited

/-- `values_equal`: Int/Int, Float/Float, mixed via cast, Str/Str, Bool/Bool; other pairs false. -/
def valEq : Val → Val → Bool
  | .int a, .int b => a == b
  | .flt a, .flt b => a == b
  | .int a, .flt b => 4 * a == b
  | .flt a, .int b => a == 4 * b
  | .str a, .str b => a == b
  | .bool a, .bool b => a == b
  | _, _ => false

/-- `values_compare`: Int/Int, Float/Float, mixed via cast, Str/Str; other pairs `None`. -/
def valCompare : Val → Val → Option Ordering
  | .int a, .int b => some (compare a b)
  | .flt a, .flt b => some (compare a b)
  | .int a, .flt b => some (compare (4 * a) b)
  | .flt a, .int b => some (compare a (4 * b))
  | .str a, .str b => some (compare a b)
  | _, _ => none

/-- `compare_values`. -/
def cmpVals (l r : Val) : Op → Bool
  | .eq => valEq l r
  | .ne => !valEq l r
  | .lt => valCompare l r == some .lt
  | .le => valCompare l r == some .lt || valCompare l r == some .eq
  | .gt => valCompare l r == some .gt
  | .ge => valCompare l r == some .gt || valCompare l r == some .eq

/-- decimal rendering of q/4 as Rust's `{}` prints an f64 (`1`, `0.5`, `-1.25`). -/
def fmtQuarter (q : Int) : String :=
  let n := q.natAbs
  let frac := match n % 4 with | 0 => "" | 1 => ".25" | 2 => ".5" | _ => ".75"
  (if q < 0 then "-" else "") ++ toString (n / 4) ++ frac

/-- `Value::to_partition_key`. -/
def pkey : Val → String
  | .str s => s
  | .int n => toString n
  | .bool b => if b then "true" else "false"
  | .flt q => fmtQuarter q

/-! ## Events, predicates, patterns -/

/-- `Event`: `idx` = arrival index (the harness also stores it in the data field `i`). -/
structure Event where
  idx : Nat
  ty : String
  fields : List (String × Val)
  deriving DecidableEq, Repr, Inhabited

/-- `Event::get`. -/
def Event.get (e : Event) (f : String) : Option Val := e.fields.lookup f

/-- `Run::captured` / `MatchResult::captured` (`FxHashMap<String, SharedEvent>`): association list,
newest binding first; `insert` = cons, `get` = first hit. -/
abbrev Caps := List (String × Event)

/-- `sase::Predicate` (without `Expr`). -/
inductive Pred where
  | cmp (f : String) (op : Op) (v : Val)
  | cmpRef (f : String) (op : Op) (alias : String) (rf : String)
  | and (l r : Pred)
  | or (l r : Pred)
  | not (p : Pred)
  deriving DecidableEq, Repr, Inhabited

/-- `eval_predicate`: a missing field or a missing captured alias makes a comparison `false`. -/
def evalPred : Pred → Event → Caps → Bool
  | .cmp f op v, e, _ => match e.get f with
      | some ev => cmpVals ev v op
      | none => false
  | .cmpRef f op a rf, e, caps =>
      match e.get f, (caps.lookup a).bind (·.get rf) with
      | some ev, some rv => cmpVals ev rv op
      | _, _ => false
  | .and l r, e, caps => evalPred l e caps && evalPred r e caps
  | .or l r, e, caps => evalPred l e caps || evalPred r e caps
  | .not p, e, caps => !evalPred p e caps

/-- `classify_predicate pred alias == Inconsistent`: some `CompareRef` mentions the state's own alias. -/
def selfRef : Pred → Option String → Bool
  | .cmp .., _ => false
  | .cmpRef _ _ a _, alias => alias == some a
  | .and l r, alias => selfRef l alias || selfRef r alias
  | .or l r, alias => selfRef l alias || selfRef r alias
  | .not p, alias => selfRef p alias

/-- one step of a sequence: `SasePattern::Event {event_type, predicate, alias}`, wrapped in
`KleenePlus` when `kleene` (`all`). -/
structure Step where
  ty : String
  pred : Option Pred
  alias : Option String
  kleene : Bool
  deriving DecidableEq, Repr, Inhabited

/-- `GlobalNegation` (`.not(T where …)`). -/
structure Neg where
  ty : String
  pred : Option Pred
  deriving DecidableEq, Repr, Inhabited

/-- the intended pattern: `SasePattern::Seq(steps)` (+ `with_partition_by`, `add_negation`). -/
structure Pat where
  steps : List Step
  partition : Option String
  negs : List Neg
  deriving DecidableEq, Repr, Inhabited

/-- `KleenePlus` arm of `compile_pattern`: an Inconsistent predicate of a Kleene state is *moved* to
`postponed_predicate`. -/
def Step.postponed (s : Step) : Option Pred :=
  match s.pred with
  | some q => if s.kleene && selfRef q s.alias then some q else none
  | none => none

/-- what stays in `State::predicate` (evaluated by `event_matches_state`). -/
def Step.eager (s : Step) : Option Pred :=
  match s.pred with
  | some q => if s.kleene && selfRef q s.alias then none else some q
  | none => none

/-- `event_matches_state`: type, then the (eager) predicate against the captures. -/
def matchesState (s : Step) (e : Event) (caps : Caps) : Bool :=
  e.ty == s.ty && (match s.eager with | some q => evalPred q e caps | none => true)

/-- the fragment of this model: a self-referencing `all` filter occurs at most on the *last* step
(elsewhere it makes `complete_run` enumerate ZDD combinations — modelled in Model/SaseKleene). -/
def Pat.inFragment (p : Pat) : Bool :=
  p.steps.dropLast.all fun s => s.postponed.isNone

def Pat.allFree (p : Pat) : Bool := p.steps.all fun s => !s.kleene

/-! ## Runs -/

/-- `StackEntry` (without the wall-clock timestamp). -/
structure Entry where
  ev : Event
  alias : Option String
  deriving DecidableEq, Repr, Inhabited

/-- `MatchResult` (without `duration`). -/
structure Match where
  stack : List Entry
  caps : Caps
  deriving DecidableEq, Repr, Inhabited

/-- `Run`: `pos` = index of the step whose NFA state is `current_state`; `kc` = `kleene_capture`
reduced to its `next_var` counter (in the fragment its `deferred_predicate` is always `None`). -/
structure Run where
  pos : Nat
  stack : List Entry
  caps : Caps
  invalidated : Bool
  kc : Option Nat
  deriving DecidableEq, Repr, Inhabited

structure Cfg where
  maxRuns : Nat := 10000
  maxKleene : Nat := 20
  /-- `MAX_ENUMERATION_RESULTS` / `with_max_enumeration_results` -/
  maxResults : Nat := 10000
  deriving Repr, Inhabited

/-- `Run::push` / `push_at` / `push_at_kleene`: bind the alias (overwriting), push the entry. -/
def Run.push (r : Run) (e : Event) (alias : Option String) : Run :=
  { r with
    caps := (match alias with | some a => (a, e) :: r.caps | none => r.caps)
    stack := r.stack ++ [⟨e, alias⟩] }

/-- the match a run yields (`complete_run` without deferred predicate / the `CompleteAndContinue` arms). -/
def Run.result (r : Run) : Match := ⟨r.stack, r.caps⟩

/-- `RunAdvanceResult` (`CompleteMulti` and `Invalidate` do not occur in the fragment). -/
inductive Adv where
  | continue (r : Run)
  | complete (m : Match)
  | completeAndContinue (r : Run) (m : Match)
  | noMatch
  deriving Repr, Inhabited

/-- Is step `i` the last one (its NFA state, or for a Kleene step its continue state, is the accept state)? -/
def Pat.isLast (p : Pat) (i : Nat) : Bool := i + 1 == p.steps.length

/-- The run consumed `e` into step `i + 1` through the `transitions` loop of `advance_run_shared`
(`current_state = next_id; push_at`, then the Accept / Kleene checks in that order). -/
def enterNext (p : Pat) (cfg : Cfg) (r : Run) (nxt : Step) (e : Event) : Adv :=
  let r' := { r with pos := r.pos + 1 }.push e nxt.alias
  if p.isLast (r.pos + 1) && !nxt.kleene then
    .complete r'.result                                   -- next_state is Accept: complete_run
  else if nxt.kleene then
    if p.isLast (r.pos + 1) then
      .completeAndContinue r' r'.result                   -- has_epsilon_to_accept
    else
      -- kleene_capture created if absent, cap check *after* the push, then extend
      let n := r.kc.getD 0
      .continue { r' with kc := some (if n ≥ cfg.maxKleene then n else n + 1) }
  else .continue r'

/-- the Kleene cap check of the self-loop arm: `kc.next_var >= limits.max_events` (only if a capture exists) -/
def capFull (cfg : Cfg) (r : Run) : Bool :=
  match r.kc with
  | some n => decide (n ≥ cfg.maxKleene)
  | none => false

/-- the postponed (self-referencing) predicate of a Kleene state rejects `e` given the previous capture -/
def postponedFails (cur : Step) (e : Event) (caps : Caps) : Bool :=
  match cur.postponed with
  | some q => !evalPred q e caps
  | none => false

/-- KLEENE SELF-LOOP arm (`current_state` is a Kleene state and `event_matches_state` held). -/
def selfLoop (p : Pat) (cfg : Cfg) (r : Run) (cur : Step) (e : Event) : Adv :=
  if capFull cfg r then .continue r
  -- has_epsilon_to_accept: every event is emitted at once, so the postponed predicate is checked
  -- here against the previously captured event of the closure; a failing event is skipped
  else if p.isLast r.pos && postponedFails cur e r.caps then .noMatch
  else if p.isLast r.pos then .completeAndContinue (r.push e cur.alias) (r.push e cur.alias).result
  else .continue { r.push e cur.alias with kc := some (r.kc.getD 0 + 1) }

/-- "Check transitions" arm for a Normal state: its only transition is the next step's event state;
it has no epsilon transitions, so a non-matching event is `NoMatch`. -/
def viaTransitions (p : Pat) (cfg : Cfg) (r : Run) (e : Event) : Adv :=
  match p.steps[r.pos + 1]? with
  | some nxt => if matchesState nxt e r.caps then enterNext p cfg r nxt e else .noMatch
  | none => .noMatch

/-- "Check epsilon transitions" arm for a Kleene state (it has no event transitions): epsilons are
[self (no transitions), continue]. A continue state that is Accept belongs to a *trailing* `all` step
(Kleene + self-loop + has_epsilon_to_accept): that target is skipped (`continue`) — the closure was
already reported through `CompleteAndContinue`, the run stays — so the arm ends in `NoMatch`.
Otherwise the continue state's only transition is the next step. This arm only checks Accept on the
entered state: a Kleene `nxt` is entered without capture initialisation or emission. -/
def viaEpsilon (p : Pat) (r : Run) (e : Event) : Adv :=
  if p.isLast r.pos then .noMatch
  else match p.steps[r.pos + 1]? with
    | some nxt =>
      if matchesState nxt e r.caps then
        if p.isLast (r.pos + 1) && !nxt.kleene then .complete ({ r with pos := r.pos + 1 }.push e nxt.alias).result
        else .continue ({ r with pos := r.pos + 1 }.push e nxt.alias)
      else .noMatch
    | none => .noMatch

/-- `advance_run_shared`, case order preserved. NFA of the fragment: step `i` owns one event state
(`Normal`, or `Kleene` + self-loop + ε→self + ε→continue); the accept state is the last step's event
state (non-Kleene) or its continue state (Kleene). Runs only ever sit in event states. -/
def advance (p : Pat) (cfg : Cfg) (r : Run) (e : Event) : Adv :=
  match p.steps[r.pos]? with
  | none => .noMatch
  | some cur =>
    -- "Check if we're at an accept state" (only a one-step pattern could leave a run sitting there)
    if p.isLast r.pos && !cur.kleene then .complete r.result
    else if cur.kleene && matchesState cur e r.caps then selfLoop p cfg r cur e
    else if !cur.kleene then viaTransitions p cfg r e
    else viaEpsilon p r e

/-- `try_start_run_shared`: the start state's only transition leads to step 0's event state; the run
is created there (no Accept / Kleene handling on this path). -/
def tryStart (p : Pat) (e : Event) : Option Run :=
  match p.steps with
  | [] => none
  | s0 :: _ =>
    if matchesState s0 e [] then some (({ pos := 0, stack := [], caps := [], invalidated := false, kc := none } : Run).push e s0.alias)
    else none

/-- one global negation against one run (`check_global_negations` inner test). -/
def Neg.hits (n : Neg) (e : Event) (caps : Caps) : Bool :=
  e.ty == n.ty && (match n.pred with | some q => evalPred q e caps | none => true)

/-- does `e` satisfy some `.not` clause w.r.t. the captures `caps`? -/
def negHit (p : Pat) (e : Event) (caps : Caps) : Bool := p.negs.any fun n => n.hits e caps

/-- `check_global_negations` on one run. -/
def markNeg (p : Pat) (e : Event) (r : Run) : Run :=
  if negHit p e r.caps then { r with invalidated := true } else r

/-- `Vec::swap_remove`. -/
def swapRemove (l : List Run) (i : Nat) : List Run :=
  if i + 1 < l.length then (l.set i (l.getLast?.getD default)).dropLast else l.dropLast

/-- the `while i < runs.len()` loop of `process_runs_shared` / `process_partition_shared`
(without the wall-clock `is_timed_out`). -/
def processRuns (p : Pat) (cfg : Cfg) (e : Event) (runs : List Run) (i : Nat) (acc : List Match) :
    List Run × List Match :=
  if h : i < runs.length then
    let r := runs[i]
    if r.invalidated then processRuns p cfg e (swapRemove runs i) i acc
    else match advance p cfg r e with
      | .continue r' => processRuns p cfg e (runs.set i r') (i + 1) acc
      | .complete m => processRuns p cfg e (swapRemove runs i) i (acc ++ [m])
      | .completeAndContinue r' m => processRuns p cfg e (runs.set i r') (i + 1) (acc ++ [m])
      | .noMatch => processRuns p cfg e runs (i + 1) acc
  else (runs, acc)
termination_by runs.length - i
decreasing_by
  all_goals simp_wf
  all_goals (try simp [swapRemove]; try split) <;> simp_all <;> omega

/-- partition key of an event: `to_partition_key` of the field, missing field → `""`;
the unpartitioned `self.runs` is modelled as the single partition `""`. -/
def keyOf (p : Pat) (e : Event) : String :=
  match p.partition with
  | some f => (match e.get f with | some v => pkey v | none => "")
  | none => ""

/-- `SaseEngine` state: `runs` / `partitioned_runs` as a map from key to the `Vec<Run>`;
`dropped` records whether `handle_backpressure*` ever refused a run. -/
structure Eng where
  parts : String → List Run
  dropped : Bool

def Eng.init : Eng := ⟨fun _ => [], false⟩

/-- `process_shared`: global negations first (all partitions), then the existing runs of the event's
partition, then `try_start_run_shared` + `handle_backpressure*` (default strategy `Drop`). -/
def stepEngine (p : Pat) (cfg : Cfg) (s : Eng) (e : Event) : Eng × List Match :=
  let marked : String → List Run := fun k => (s.parts k).map (markNeg p e)
  let key := keyOf p e
  let (runs', ms) := processRuns p cfg e (marked key) 0 []
  match tryStart p e with
  | some r =>
    -- a single-step pattern: the start event already reaches the accept state and completes the match
    if p.isLast 0 && !(p.steps.head?.map (·.kleene)).getD false then
      (⟨fun k => if k = key then runs' else marked k, s.dropped⟩, ms ++ [r.result])
    else if runs'.length < cfg.maxRuns then
      (⟨fun k => if k = key then runs' ++ [r] else marked k, s.dropped⟩, ms)
    else (⟨fun k => if k = key then runs' else marked k, true⟩, ms)
  | none => (⟨fun k => if k = key then runs' else marked k, s.dropped⟩, ms)

/-- feed a stream; the matches of each event, in order. -/
def runFrom (p : Pat) (cfg : Cfg) (s : Eng) : List Event → Eng × List (Event × List Match)
  | [] => (s, [])
  | e :: es =>
    let (s', ms) := stepEngine p cfg s e
    let (s'', rest) := runFrom p cfg s' es
    (s'', (e, ms) :: rest)

def runAll (p : Pat) (cfg : Cfg) (evs : List Event) : Eng × List (Event × List Match) :=
  runFrom p cfg Eng.init evs

/-- all matches emitted on a stream. -/
def matchesOf (p : Pat) (cfg : Cfg) (evs : List Event) : List Match :=
  ((runAll p cfg evs).2.map (·.2)).flatten

/-! ## Deferred enumeration — `complete_run` → `enumerate_with_filter` for a self-referencing `all` filter
on a non-last step

The Kleene capture is created at the first `all` step the run enters; when that step's filter was postponed
and the step is not the last one, `complete_run` reports one match per admissible combination of the kept
events instead of the run's own match. In the fragment modelled here (`Pat.deferredOK`: exactly one `all`
step, not first, not last) the kept events are the entries of that step's group in the stack, and the ZDD
handle after `k` `extend`s is `kleeneHandle k` (Model/Zdd.lean; full powerset, C03/C06). `expand` is applied
to every completed run's match (`stepEngine` itself is unchanged). -/

/-- `extract_ref_alias` -/
def extractRefAlias : Pred → Option String
  | .cmp .. => none
  | .cmpRef _ _ a _ => some a
  | .and l r => (extractRefAlias l).or (extractRefAlias r)
  | .or l r => (extractRefAlias l).or (extractRefAlias r)
  | .not q => extractRefAlias q

/-- aliases a predicate refers to -/
def Pred.refs : Pred → List String
  | .cmp .. => []
  | .cmpRef _ _ a _ => [a]
  | .and l r => l.refs ++ r.refs
  | .or l r => l.refs ++ r.refs
  | .not q => q.refs

def optRefs (o : Option Pred) : List String := match o with | some q => q.refs | none => []

/-- first `all` step from position `i` on -/
def firstKleene : List Step → Nat → Option (Nat × Step)
  | [], _ => none
  | s :: rest, i => if s.kleene then some (i, s) else firstKleene rest (i + 1)

/-- the step whose capture carries a `deferred_predicate`: the first `all` step, if its filter is postponed
and it is not the last step -/
def Pat.deferredStep (p : Pat) : Option (Nat × Step × Pred) :=
  match firstKleene p.steps 0 with
  | some (i, s) =>
    (match s.postponed with
     | some q => if i + 1 < p.steps.length then some (i, s, q) else none
     | none => none)
  | none => none

/-- `captured.insert(alias, event)` for an optional alias -/
def bindOpt (a : Option String) (e : Event) (c : Caps) : Caps :=
  match a with | some a => (a, e) :: c | none => c

/-- `evaluate_deferred_predicate`: every consecutive pair `(prev, cur)` must satisfy the predicate on `cur`
with `prev` bound to `alias` on top of the run's captures -/
def evalDeferred (q : Pred) (alias : Option String) (caps : Caps) : List Event → Bool
  | prev :: cur :: rest => evalPred q cur (bindOpt alias prev caps) && evalDeferred q alias caps (cur :: rest)
  | _ => true

/-- the ZDD handle of a capture after `k` calls of `KleeneCapture::extend` -/
def kleeneHandle (k : Nat) : Varpulis.Zdd.Z := (List.range k).foldl (fun z v => Varpulis.Zdd.pwo z v) .base

/-- entries selected by an index set (`iter_combinations`) -/
def pickEntries (kept : List Entry) (idxs : List Nat) : List Entry := idxs.filterMap (kept[·]?)

/-- the accepted combinations, in ZDD iteration order, cut at `max_results` -/
def combosOf (cfg : Cfg) (q : Pred) (caps : Caps) (kept : List Entry) : List (List Entry) :=
  (((Varpulis.Zdd.sets (kleeneHandle kept.length)).map (pickEntries kept)).filter fun es =>
      !es.isEmpty &&
      evalDeferred q ((es.head?.bind (·.alias)).or (extractRefAlias q)) caps (es.map (·.ev))).take (max cfg.maxResults 1)

/-- the group of step `i` in a completed stack (all other steps hold exactly one entry) -/
def groupOf (p : Pat) (i : Nat) (stack : List Entry) : List Entry :=
  (stack.drop i).take (stack.length + 1 - p.steps.length)

/-- `complete_run`: `enumerate_with_filter` when the capture has a deferred predicate, else the run's match.
The reported stack is the run's whole stack (`rebuild_stack_with_combination` keeps it), the captures are the
run's captures overlaid with the combination's entries. -/
def expand (p : Pat) (cfg : Cfg) (m : Match) : List Match :=
  match p.deferredStep with
  | none => [m]
  | some (i, _, q) =>
    let kept := if cfg.maxKleene = 0 then [] else groupOf p i m.stack
    (combosOf cfg q m.caps kept).map fun es => ⟨m.stack, es.foldl (fun c en => bindOpt en.alias en.ev c) m.caps⟩

/-- `process_shared` including the enumeration at completion -/
def stepEngineK (p : Pat) (cfg : Cfg) (s : Eng) (e : Event) : Eng × List Match :=
  ((stepEngine p cfg s e).1, (stepEngine p cfg s e).2.flatMap (expand p cfg))

def runFromK (p : Pat) (cfg : Cfg) (s : Eng) : List Event → Eng × List (Event × List Match)
  | [] => (s, [])
  | e :: es =>
    ((runFromK p cfg (stepEngineK p cfg s e).1 es).1, (e, (stepEngineK p cfg s e).2) :: (runFromK p cfg (stepEngineK p cfg s e).1 es).2)

/-- all matches emitted on a stream, enumeration included -/
def matchesOfK (p : Pat) (cfg : Cfg) (evs : List Event) : List Match :=
  (((runFromK p cfg Eng.init evs).2.map (·.2)).flatten)

/-- the last step carries no postponed filter -/
def Pat.lastPlainB (p : Pat) : Bool :=
  match p.steps.getLast? with
  | some s => s.postponed.isNone
  | none => true

/-- the second fragment: exactly one `all` step, neither first nor last, with a self-referencing filter;
the filter does not mention aliases of later steps; later filters and `.not` clauses do not mention the
`all` step's alias (they are evaluated against the *last accumulated* event, not the combination's). -/
def Pat.deferredOK (p : Pat) : Bool :=
  match p.deferredStep with
  | some (i, s, q) =>
    decide (0 < i) && (p.steps.filter (·.kleene)).length == 1 && p.lastPlainB &&
    (p.steps.drop (i + 1)).all (fun t => (match t.alias with | some a => !q.refs.contains a | none => true) &&
                                        (match s.alias with | some b => !(optRefs t.pred).contains b | none => true)) &&
    p.negs.all (fun n => match s.alias with | some b => !(optRefs n.pred).contains b | none => true)
  | none => false

/-- the fragment of the extended C01 theorem -/
def Pat.inFragmentK (p : Pat) : Bool := p.inFragment || p.deferredOK

/-! ### shapes the model mirrors but on which the code violates C01 (known findings) -/

/-- one `all` step, neither first nor last, with a self-referencing filter (enumeration at completion);
unlike `deferredOK`, later filters / `.not` clauses may mention the Kleene alias -/
def Pat.shapeA (p : Pat) : Bool :=
  match p.deferredStep with
  | some (i, _, _) => decide (0 < i) && (p.steps.filter (·.kleene)).length == 1 && p.lastPlainB
  | none => false

/-- guard of C01-enum-later-ref: a filter of a step after the enumerated `all` step, or a `.not` clause,
mentions the Kleene alias (the engine evaluated it against the last *accumulated* event, not against the last
event of the reported combination), or the enumerated filter mentions a later alias -/
def Pat.laterRefsKleene (p : Pat) : Bool := p.shapeA && !p.deferredOK

/-- guard of C01-late-selfref-all: a self-referencing `all` filter on a non-last step that is not the first
`all` step — the capture already exists without `deferred_predicate`, so the filter is never evaluated -/
def Pat.lateSelfRef (p : Pat) : Bool :=
  !p.inFragment && p.deferredStep.isNone && p.lastPlainB

/-- everything the step-level model mirrors -/
def Pat.modelled (p : Pat) : Bool := p.inFragmentK || p.shapeA || p.lateSelfRef

/-! ## NFA level — `NfaCompiler::compile` and the generic interpreter `advance_run_shared`

The step-level functions above are this interpreter specialised to the NFA that `compile` builds for a
sequence of `Event` / `KleenePlus(Event)` steps (theorem `advanceN_compile`, Lemmas/Sase.lean). -/

/-- `StateType` (without `Negation` / `And`, which the fragment never creates) -/
inductive SType where
  | start | normal | kleene | accept
  deriving DecidableEq, Repr, Inhabited

/-- `sase::State` -/
structure NState where
  stype : SType := .normal
  ty : Option String := none
  pred : Option Pred := none
  alias : Option String := none
  eps : List Nat := []
  trans : List Nat := []
  selfLoop : Bool := false
  postponed : Option Pred := none
  epsAccept : Bool := false
  deriving DecidableEq, Repr, Inhabited

/-- `Nfa::states` (`start_state` = 0) -/
abbrev Nfa := List NState

/-- `Nfa::add_transition` -/
def addTrans (n : Nfa) (src dst : Nat) : Nfa := n.modify src fun s => { s with trans := s.trans ++ [dst] }

/-- `Nfa::add_epsilon` -/
def addEps (n : Nfa) (src dst : Nat) : Nfa := n.modify src fun s => { s with eps := s.eps ++ [dst] }

/-- `compile_pattern` for `Event` and `KleenePlus(Event)`: new NFA and the pattern's end state. -/
def compileStep (n : Nfa) (prev : Nat) (s : Step) : Nfa × Nat :=
  let id := n.length
  let n1 := addTrans (n ++ [{ ty := some s.ty, pred := s.pred, alias := s.alias }]) prev id
  if s.kleene then
    -- Kleene + self_loop, inconsistent predicate moved to `postponed_predicate`
    let n2 := n1.modify id fun x => { x with stype := .kleene, selfLoop := true, pred := s.eager, postponed := s.postponed }
    let n3 := addEps n2 id id
    let cont := n3.length
    (addEps (n3 ++ [({} : NState)]) id cont, cont)
  else (n1, id)

/-- the `Seq` arm: each step is compiled with the previous step's end state as `prev` -/
def compileSteps (n : Nfa) (prev : Nat) : List Step → Nfa × Nat
  | [] => (n, prev)
  | s :: rest => compileSteps (compileStep n prev s).1 (compileStep n prev s).2 rest

/-- `NfaCompiler::compile`: compile, `set_accept(end)`, pre-compute `has_epsilon_to_accept` -/
def compile (p : Pat) : Nfa :=
  let r := compileSteps [{ stype := .start }] 0 p.steps
  let n := r.1.modify r.2 fun s => { s with stype := .accept }
  n.map fun s => { s with epsAccept := s.eps.any fun i => (n[i]?.map (·.stype)) == some .accept }

/-- `event_matches_state` -/
def matchesN (s : NState) (e : Event) (caps : Caps) : Bool :=
  (match s.ty with | some t => e.ty == t | none => true) &&
  (match s.pred with | some q => evalPred q e caps | none => true)

/-- the `for &next_id in &current_state.transitions` loop (first match wins); `none` = fell through.
`Run.pos` holds `current_state` at this level. -/
def transLoop (nfa : Nfa) (cfg : Cfg) (r : Run) (e : Event) : List Nat → Option Adv
  | [] => none
  | nid :: rest =>
    match nfa[nid]? with
    | none => none
    | some nx =>
      if matchesN nx e r.caps then
        let r' := { r with pos := nid }.push e nx.alias
        some (
          if nx.stype == .accept then .complete r'.result
          else if nx.stype == .kleene && nx.selfLoop then
            if nx.epsAccept then .completeAndContinue r' r'.result
            else
              let n := r.kc.getD 0
              .continue { r' with kc := some (if n ≥ cfg.maxKleene then n else n + 1) }
          else .continue r')
      else transLoop nfa cfg r e rest

/-- inner loop of the epsilon arm: the transitions of an epsilon target -/
def epsInner (nfa : Nfa) (r : Run) (e : Event) : List Nat → Option Adv
  | [] => none
  | nid :: rest =>
    match nfa[nid]? with
    | none => none
    | some nx =>
      if matchesN nx e r.caps then
        let r' := { r with pos := nid }.push e nx.alias
        some (if nx.stype == .accept then .complete r'.result else .continue r')
      else epsInner nfa r e rest

/-- the `for &eps_id in &current_state.epsilon_transitions` loop. `skipAccept`: the current state is
Kleene + self_loop + has_epsilon_to_accept (trailing `all`), for which an Accept target is skipped. -/
def epsLoop (nfa : Nfa) (r : Run) (e : Event) (skipAccept : Bool) : List Nat → Adv
  | [] => .noMatch
  | eid :: rest =>
    match nfa[eid]? with
    | none => .noMatch
    | some es =>
      if es.stype == .accept then
        if skipAccept then epsLoop nfa r e skipAccept rest else .complete r.result
      else match epsInner nfa r e es.trans with
        | some a => a
        | none => epsLoop nfa r e skipAccept rest

/-- the KLEENE SELF-LOOP arm over an NFA state -/
def selfLoopN (cur : NState) (cfg : Cfg) (r : Run) (e : Event) : Adv :=
  if capFull cfg r then .continue r
  else if cur.epsAccept && (match cur.postponed with | some q => !evalPred q e r.caps | none => false) then .noMatch
  else if cur.epsAccept then .completeAndContinue (r.push e cur.alias) (r.push e cur.alias).result
  else .continue { r.push e cur.alias with kc := some (r.kc.getD 0 + 1) }

/-- `advance_run_shared` over an arbitrary NFA of `Start`/`Normal`/`Kleene`/`Accept` states -/
def advanceN (nfa : Nfa) (cfg : Cfg) (r : Run) (e : Event) : Adv :=
  match nfa[r.pos]? with
  | none => .noMatch
  | some cur =>
    if cur.stype == .accept then .complete r.result
    else if cur.stype == .kleene && cur.selfLoop && matchesN cur e r.caps then selfLoopN cur cfg r e
    else match transLoop nfa cfg r e cur.trans with
      | some a => a
      | none => epsLoop nfa r e (cur.stype == .kleene && cur.selfLoop && cur.epsAccept) cur.eps

/-- `try_start_run_shared` over the NFA: first transition of the start state whose target matches -/
def tryStartN (nfa : Nfa) (e : Event) : Option Run :=
  match nfa[0]? with
  | none => none
  | some st => st.trans.findSome? fun nid =>
      match nfa[nid]? with
      | some nx => if matchesN nx e [] then
          some (({ pos := nid, stack := [], caps := [], invalidated := false, kc := none } : Run).push e nx.alias) else none
      | none => none

/-- NFA id of step `i`'s event state -/
def sid (steps : List Step) (i : Nat) : Nat := 1 + i + (steps.take i).countP (·.kleene)


/-! ## C01 — `Genuine`, the statement as a decidable predicate (also the judge) -/

/-- the captures a stack determines: every aliased entry binds its alias, later entries win. -/
def Entry.binding (en : Entry) : Caps := match en.alias with | some a => [(a, en.ev)] | none => []

def capsOf : List Entry → Caps
  | [] => []
  | en :: rest => capsOf rest ++ en.binding

/-- the filter an entry of step `s` must satisfy, given the captures at that moment. The first event
of an `all` group is exempt from a *self-referencing* filter (there is no earlier event of the group
to refer to); every later event of the group must satisfy it against its predecessor. -/
def stepOk (s : Step) (first : Bool) (en : Entry) (caps : Caps) : Bool :=
  en.ev.ty == s.ty && en.alias == s.alias &&
  (match s.pred with
   | some q => if first && s.postponed.isSome then true else evalPred q en.ev caps
   | none => true)

/-- Can `stack` (oldest first) be read as: the steps `todo` matched in order — a plain step by exactly
one entry, an `all` step by one or more — every entry satisfying `stepOk` against the captures
accumulated so far (`done` = entries already read, newest last)? `inK`: the head of `todo` is an
`all` step that already took at least one entry. -/
def explains : (todo : List Step) → (inK : Bool) → (done : List Entry) → (stack : List Entry) → Bool
  | [], _, _, [] => true
  | [], _, _, _ :: _ => false
  | [s], inK, _, [] => s.kleene && inK
  | _ :: _ :: _, _, _, [] => false
  | s :: todo, inK, done, en :: rest =>
    if s.kleene then
      (stepOk s (!inK) en (capsOf done) && explains (s :: todo) true (done ++ [en]) rest)
      || (inK && explains todo false done (en :: rest))
    else
      stepOk s true en (capsOf done) && explains todo false (done ++ [en]) rest
termination_by todo _ _ stack => todo.length + stack.length

/-- captures of a stack as of (strictly before) arrival index `i`. -/
def capsBefore (stack : List Entry) (i : Nat) : Caps := capsOf (stack.filter fun en => en.ev.idx < i)

/-- no event strictly between the first and the last entry satisfies a `.not` clause
(evaluated, like the filter references, against the match's captures at that moment). -/
def noNegBetween (p : Pat) (evs : List Event) (stack : List Entry) : Bool :=
  match stack.head?, stack.getLast? with
  | some f, some l =>
    evs.all fun g => !(f.ev.idx < g.idx && g.idx < l.ev.idx && negHit p g (capsBefore stack g.idx))
  | _, _ => true

/-- **C01 as a decidable predicate.** `evs` = the stream (prefix) the match was emitted on. -/
def Genuine (p : Pat) (evs : List Event) (m : Match) : Bool :=
  -- built from input events, in arrival order
  (m.stack.map (·.ev)).isSublist evs
  -- each event has its step's type and satisfies its step's filter, in step order
  && explains p.steps false [] m.stack
  -- all events share the partition value
  && (match m.stack with | [] => false | en :: rest => rest.all fun x => keyOf p x.ev == keyOf p en.ev)
  -- no `.not` event between first and last
  && noNegBetween p evs m.stack
  -- the reported captures are those of the stack
  && m.caps == capsOf m.stack

/-! ### `GenuineK`: C01 for matches that come out of the enumeration -/

/-- the two capture maps agree on every alias -/
def capsEquiv (c1 c2 : Caps) : Bool := ((c1 ++ c2).map (·.1)).all fun a => c1.lookup a == c2.lookup a

/-- the clauses of `Genuine` that speak about the events of the match -/
def GenuineCore (p : Pat) (evs : List Event) (st : List Entry) : Bool :=
  (st.map (·.ev)).isSublist evs
  && explains p.steps false [] st
  && (match st with | [] => false | en :: rest => rest.all fun x => keyOf p x.ev == keyOf p en.ev)
  && noNegBetween p evs st

/-- all subsequences -/
def subseqs {α} : List α → List (List α)
  | [] => [[]]
  | x :: xs => (subseqs xs).map (x :: ·) ++ subseqs xs

/-- the event lists an enumerated match may stand for: the reported stack with the enumerated step's group
replaced by one of its subsequences (the combination itself is not part of `MatchResult`) -/
def candidates (p : Pat) (stack : List Entry) : List (List Entry) :=
  match p.deferredStep with
  | none => [stack]
  | some (i, _, _) =>
    (subseqs (groupOf p i stack)).map fun es => stack.take i ++ es ++ stack.drop (i + (groupOf p i stack).length)

/-- **C01 for the extended fragment**: the reported match stands for a genuine occurrence — some candidate
event list is genuine and determines exactly the reported captures. -/
def GenuineK (p : Pat) (evs : List Event) (m : Match) : Bool :=
  (candidates p m.stack).any fun st => GenuineCore p evs st && capsEquiv m.caps (capsOf st)

/-! ## C02 — `Spec.earliest`, reference earliest-continuation semantics -/

namespace Spec

/-- Follow the remaining steps `todo` over the later events `later`, taking for the head step the
earliest event of partition `key` that satisfies it given the captures so far. An event satisfying a
`.not` clause *before the completion* kills the candidate; the completing event itself does not. -/
def follow (p : Pat) (key : String) : (todo : List Step) → (stack : List Entry) → (later : List Event) → Option Match
  | [], stack, _ => some ⟨stack, capsOf stack⟩
  | _ :: _, _, [] => none
  | s :: todo, stack, g :: later =>
    if keyOf p g == key && matchesState s g (capsOf stack) then
      if todo.isEmpty then some ⟨stack ++ [⟨g, s.alias⟩], capsOf (stack ++ [⟨g, s.alias⟩])⟩
      else if negHit p g (capsOf stack) then none
      else follow p key todo (stack ++ [⟨g, s.alias⟩]) later
    else if negHit p g (capsOf stack) then none
    else follow p key (s :: todo) stack later

/-- the match (if any) that begins at `e`, given the events after it. -/
def startAt (p : Pat) (e : Event) (later : List Event) : Option Match :=
  match p.steps with
  | [] => none
  | s0 :: rest =>
    if matchesState s0 e [] then follow p (keyOf p e) rest [⟨e, s0.alias⟩] later else none

/-- **the oracle of C02**: one candidate per event that can begin the pattern. -/
def earliest (p : Pat) : List Event → List Match
  | [] => []
  | e :: later => (startAt p e later).toList ++ earliest p later

/-- What the engine implements instead of `follow`: `check_global_negations` runs *before* the runs
advance, so an event that satisfies a `.not` clause kills the candidate even when it would complete it
(NF = negation first). Differs from `follow` only on such events (known finding C02-neg-at-completion). -/
def followNF (p : Pat) (key : String) : (todo : List Step) → (stack : List Entry) → (later : List Event) → Option Match
  | [], stack, _ => some ⟨stack, capsOf stack⟩
  | _ :: _, _, [] => none
  | s :: todo, stack, g :: later =>
    if negHit p g (capsOf stack) then none
    else if keyOf p g == key && matchesState s g (capsOf stack) then
      if todo.isEmpty then some ⟨stack ++ [⟨g, s.alias⟩], capsOf (stack ++ [⟨g, s.alias⟩])⟩
      else followNF p key todo (stack ++ [⟨g, s.alias⟩]) later
    else followNF p key (s :: todo) stack later

def startAtNF (p : Pat) (e : Event) (later : List Event) : Option Match :=
  match p.steps with
  | [] => none
  | s0 :: rest =>
    if matchesState s0 e [] then followNF p (keyOf p e) rest [⟨e, s0.alias⟩] later else none

def earliestNF (p : Pat) : List Event → List Match
  | [] => []
  | e :: later => (startAtNF p e later).toList ++ earliestNF p later

end Spec

/-- the completing event of `m` itself satisfies a `.not` clause (w.r.t. the captures before it) -/
def negAtCompletion (p : Pat) (m : Match) : Bool :=
  match m.stack.getLast? with
  | some l => negHit p l.ev (capsOf m.stack.dropLast)
  | none => false

/-- guard of the known finding C02-neg-at-completion: no oracle match is completed by an event that
satisfies a `.not` clause -/
def noNegAtCompletion (p : Pat) (evs : List Event) : Bool :=
  (Spec.earliest p evs).all fun m => !negAtCompletion p m

/-- arrival index of the completing (last) event of a match. -/
def Match.lastIdx (m : Match) : Nat := match m.stack.getLast? with | some en => en.ev.idx | none => 0

end Varpulis.Sase
