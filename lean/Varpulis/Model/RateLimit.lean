/-!
# M-RATE — token bucket and per-IP rate limiter (`crates/varpulis-cluster/src/rate_limit.rs`)

Exact-arithmetic model: the `f64` token count and the `Instant` clock are `Rat`
(seconds on a virtual clock).  Every definition names the Rust function it mirrors.
IEEE rounding of `elapsed.as_secs_f64() * refill_rate` and the nanosecond rounding of
`Duration::from_secs_f64` are *not* modelled (the tie drives the real code on a dyadic
time grid where the f64 token arithmetic is exact, and compares retry-after within 2 ns).
-/
namespace Varpulis.RateLimit

/-- Rust panics are explicit outcomes. -/
inductive Outcome (α : Type) where
  | ok (a : α)
  | panic
  deriving Repr, DecidableEq

/-- `RateLimitConfig` (`enabled`, `requests_per_second`, `burst_size`, `max_tracked_ips`). -/
structure Config where
  enabled : Bool := true
  rate : Nat
  burst : Nat
  cap : Nat
  deriving Repr, DecidableEq

/-- `TokenBucket` (`tokens`, `last_update`, `max_tokens`, `refill_rate`). -/
structure Bucket where
  tokens : Rat
  last : Rat
  maxTokens : Rat
  rate : Rat
  deriving Repr, DecidableEq

/-- `RateLimiter::MAX_RESET_AFTER` (seconds): what `reset_after` reports when no token will
ever arrive (refill rate 0). Introduced by the `fix:` commit. -/
def maxResetAfter : Rat := 3600

/-- `TokenBucket::new` at clock reading `now`. -/
def Bucket.new (burst rate : Nat) (now : Rat) : Bucket :=
  { tokens := burst, last := now, maxTokens := burst, rate := rate }

/-- `TokenBucket::refill`: `Instant::duration_since` saturates at zero. -/
def Bucket.refill (b : Bucket) (now : Rat) : Bucket :=
  let elapsed := if b.last ≤ now then now - b.last else 0
  let newTokens := elapsed * b.rate
  { b with tokens := min (b.tokens + newTokens) b.maxTokens, last := now }

/-- `TokenBucket::try_consume`. -/
def Bucket.tryConsume (b : Bucket) (now : Rat) : Bucket × Bool :=
  let b := b.refill now
  if 1 ≤ b.tokens then ({ b with tokens := b.tokens - 1 }, true) else (b, false)

/-- `TokenBucket::remaining`: `tokens as u32` (truncation; tokens are never negative). -/
def Bucket.remaining (b : Bucket) : Nat := b.tokens.floor.toNat

/-- `TokenBucket::reset_after` (seconds) since the `fix:` commit:
`Duration::try_from_secs_f64(needed / rate)` capped at `MAX_RESET_AFTER`; the quotient is
`+inf` for rate 0 and then the cap is returned. -/
def Bucket.resetAfter (b : Bucket) : Outcome Rat :=
  if 1 ≤ b.tokens then .ok 0
  else if b.rate = 0 then .ok maxResetAfter
  else .ok (min ((1 - b.tokens) / b.rate) maxResetAfter)

/-- `TokenBucket::reset_after` as it was on the unchanged tree:
`Duration::from_secs_f64(needed / 0.0)` = `from_secs_f64(+inf)` panics. -/
def Bucket.resetAfterOld (b : Bucket) : Outcome Rat :=
  if 1 ≤ b.tokens then .ok 0
  else if b.rate = 0 then .panic
  else .ok ((1 - b.tokens) / b.rate)

/-- `RateLimitResult`. Durations in seconds. -/
inductive Result where
  | allowed (remaining : Nat) (resetAfter : Rat)
  | limited (retryAfter : Rat)
  deriving Repr, DecidableEq

def Result.isAllowed : Result → Bool
  | .allowed _ _ => true
  | .limited _ => false

/-- `RateLimiter`: configuration and the per-IP map (`HashMap<IpAddr, TokenBucket>`; the
iteration order is abstracted, keys are unique). -/
structure Limiter where
  cfg : Config
  buckets : List (Nat × Bucket) := []
  deriving Repr

def Limiter.new (cfg : Config) : Limiter := { cfg := cfg }

def lookup (bs : List (Nat × Bucket)) (ip : Nat) : Option Bucket := (bs.find? (·.1 = ip)).map (·.2)

def erase (bs : List (Nat × Bucket)) (ip : Nat) : List (Nat × Bucket) := bs.filter (·.1 ≠ ip)

def insert (bs : List (Nat × Bucket)) (ip : Nat) (b : Bucket) : List (Nat × Bucket) :=
  (ip, b) :: erase bs ip

/-- The keys that `buckets.iter().min_by_key(|(_, b)| b.last_update)` may return: the entries with
minimal `last_update` (which one depends on the hash-map iteration order). -/
def minLastKeys (bs : List (Nat × Bucket)) : List Nat :=
  (bs.filter fun (_, b) => bs.all fun (_, b') => b.last ≤ b'.last).map (·.1)

/-- deterministic representative of `min_by_key` (first minimal entry in list order). -/
def pickVictim (bs : List (Nat × Bucket)) : Option Nat := (minLastKeys bs).head?

/-- the eviction branch of `RateLimiter::check`: only for an untracked IP at capacity;
`victim` is the result of `min_by_key` (none iff the map is empty). -/
def evictFor (cfg : Config) (bs : List (Nat × Bucket)) (ip : Nat) (victim : Option Nat) : List (Nat × Bucket) :=
  if (lookup bs ip).isNone && cfg.cap ≤ bs.length then
    match victim with
    | some v => erase bs v
    | none => bs
  else bs

/-- `RateLimiter::check` with the victim chosen by `min_by_key` given explicitly (`victim`), so that
statements quantify over every hash-map iteration order. The map is updated before the result is
built, so a panic in `reset_after` leaves the consumed token consumed (tokio's `RwLock` does not poison). -/
def Limiter.checkWith (l : Limiter) (ip : Nat) (now : Rat) (victim : Option Nat) : Limiter × Outcome Result :=
  if !l.cfg.enabled then (l, .ok (.allowed 4294967295 0))
  else
    let bs := evictFor l.cfg l.buckets ip victim
    let b := (lookup bs ip).getD (Bucket.new l.cfg.burst l.cfg.rate now)
    let (b', admitted) := b.tryConsume now
    let l' := { l with buckets := insert bs ip b' }
    match b'.resetAfter with
    | .panic => (l', .panic)
    | .ok d => (l', .ok (if admitted then .allowed b'.remaining d else .limited d))

/-- `RateLimiter::check` with the deterministic victim. -/
def Limiter.check (l : Limiter) (ip : Nat) (now : Rat) : Limiter × Outcome Result :=
  l.checkWith ip now (pickVictim l.buckets)

/-- the same with the unchanged tree's `reset_after` (for the defect witness). -/
def Limiter.checkOld (l : Limiter) (ip : Nat) (now : Rat) : Limiter × Outcome Result :=
  if !l.cfg.enabled then (l, .ok (.allowed 4294967295 0))
  else
    let bs := evictFor l.cfg l.buckets ip (pickVictim l.buckets)
    let b := (lookup bs ip).getD (Bucket.new l.cfg.burst l.cfg.rate now)
    let (b', admitted) := b.tryConsume now
    let l' := { l with buckets := insert bs ip b' }
    match b'.resetAfterOld with
    | .panic => (l', .panic)
    | .ok d => (l', .ok (if admitted then .allowed b'.remaining d else .limited d))

/-- `RateLimiter::cleanup(max_age)` at clock reading `now`. -/
def Limiter.cleanup (l : Limiter) (now maxAge : Rat) : Limiter :=
  { l with buckets := l.buckets.filter fun (_, b) => (if b.last ≤ now then now - b.last else 0) < maxAge }

/-! ### traces -/

/-- one bucket driven by the request times `ts`: the admission flag of every request. -/
def Bucket.run : Bucket → List Rat → List (Rat × Bool)
  | _, [] => []
  | b, t :: ts => let (b', a) := b.tryConsume t; (t, a) :: Bucket.run b' ts

/-- a request to the limiter: client, clock reading, and the victim `min_by_key` would return. -/
structure Req where
  ip : Nat
  now : Rat
  victim : Option Nat := none
  deriving Repr

/-- the limiter driven by a request sequence; `none` marks a panicking call. -/
def Limiter.run : Limiter → List Req → List (Req × Outcome Result)
  | _, [] => []
  | l, r :: rs => let (l', o) := l.checkWith r.ip r.now r.victim; (r, o) :: Limiter.run l' rs

/-- number of requests admitted with a time stamp in the closed window `[lo, hi]`. -/
def admittedIn (tr : List (Rat × Bool)) (lo hi : Rat) : Nat :=
  (tr.filter fun (t, a) => a && decide (lo ≤ t) && decide (t ≤ hi)).length

/-- was the request admitted? -/
def admittedFlag : Outcome Result → Bool
  | .ok res => res.isAllowed
  | .panic => false

/-- the admissions of client `c` in a limiter trace. -/
def clientTrace (c : Nat) (tr : List (Req × Outcome Result)) : List (Rat × Bool) :=
  (tr.filter (·.1.ip = c)).map fun p => (p.1.now, admittedFlag p.2)

/-- "while that client is tracked": client `c`'s entry survives every eviction performed while
serving `reqs` (its bucket is never the `min_by_key` victim). -/
def StaysTracked (c : Nat) : Limiter → List Req → Prop
  | _, [] => True
  | l, r :: rs => lookup (evictFor l.cfg l.buckets r.ip r.victim) c = lookup l.buckets c
      ∧ StaysTracked c (l.checkWith r.ip r.now r.victim).1 rs

/-! ### rounding: the same bucket with every computed token count off by at most `ε` -/

/-- one `try_consume` evaluated with rounding: the capped token count `w` the implementation
computes (`(tokens + elapsed·rate).min(max)` in f64) is within `ε` of the exact value and inside
`[0, max]` (rounding is monotone and `0`, `max` are representable); the comparison with `1.0` and
the subtraction of `1.0` are exact in binary floating point. -/
def ApproxStep (ε : Rat) (b : Bucket) (t : Rat) (b' : Bucket) (a : Bool) : Prop :=
  b'.last = t ∧ b'.maxTokens = b.maxTokens ∧ b'.rate = b.rate ∧
  ∃ w : Rat, 0 ≤ w ∧ w ≤ b.maxTokens ∧
    w ≤ min (b.tokens + (t - b.last) * b.rate) b.maxTokens + ε ∧
    min (b.tokens + (t - b.last) * b.rate) b.maxTokens - ε ≤ w ∧
    (a = true → 1 ≤ w) ∧ (a = false → w < 1) ∧ b'.tokens = w - (if a then 1 else 0)

/-- a trace of request times and admission flags produced by such steps -/
def ApproxRun (ε : Rat) : Bucket → List (Rat × Bool) → Prop
  | _, [] => True
  | b, p :: tr => ∃ b', ApproxStep ε b p.1 b' p.2 ∧ ApproxRun ε b' tr

/-- number of requests (admitted or not) with a time stamp in the window -/
def requestsIn (tr : List (Rat × Bool)) (lo hi : Rat) : Nat :=
  (tr.filter fun p => decide (lo ≤ p.1) && decide (p.1 ≤ hi)).length

end Varpulis.RateLimit
