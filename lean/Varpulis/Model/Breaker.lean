/-!
# M-SINK — circuit breaker, resilient sink, dead-letter queue
(`crates/varpulis-runtime/src/circuit_breaker.rs`, `sink.rs ResilientSink`, `dead_letter.rs`)

A state machine over a virtual clock (milliseconds, `Nat`). Concurrent senders are interleaved
`start`/`finish` steps: `ResilientSink::send` is `allow_request`, then the `await` of the inner
sink (where other senders run), then `record_success`/`record_failure` and the DLQ write.
Every definition names the Rust function it mirrors. Events are abstract identifiers.
-/
namespace Varpulis.Breaker

/-- `circuit_breaker::State` -/
inductive BState where
  | closed
  | opened
  | halfOpen
  deriving Repr, DecidableEq

/-- `CircuitBreakerConfig` (`failure_threshold`, `reset_timeout` in ms) -/
structure Cfg where
  threshold : Nat
  resetTimeout : Nat
  deriving Repr, DecidableEq

/-- `CircuitBreaker`: `InnerState` (`state`, `consecutive_failures`, `last_failure_time`,
`probe_in_flight` — added by the `fix:` commit) and the three metric counters. -/
structure Breaker where
  state : BState := .closed
  fails : Nat := 0
  lastFailure : Option Nat := none
  probe : Bool := false
  failuresTotal : Nat := 0
  successesTotal : Nat := 0
  rejectionsTotal : Nat := 0
  deriving Repr, DecidableEq

/-- `CircuitBreaker::allow_request` at clock reading `now` (since the `fix:` commit: while
half-open only the probe that caused the transition is admitted). -/
def allow (c : Cfg) (b : Breaker) (now : Nat) : Breaker × Bool :=
  match b.state with
  | .closed => (b, true)
  | .opened =>
    match b.lastFailure with
    | some t =>
      if c.resetTimeout ≤ now - t then ({ b with state := .halfOpen, probe := true }, true)
      else ({ b with rejectionsTotal := b.rejectionsTotal + 1 }, false)
    | none => ({ b with rejectionsTotal := b.rejectionsTotal + 1 }, false)
  | .halfOpen =>
    if b.probe then ({ b with rejectionsTotal := b.rejectionsTotal + 1 }, false)
    else ({ b with probe := true }, true)

/-- `CircuitBreaker::allow_request` on the unchanged tree: half-open admits every caller. -/
def allowOld (c : Cfg) (b : Breaker) (now : Nat) : Breaker × Bool :=
  match b.state with
  | .closed => (b, true)
  | .opened =>
    match b.lastFailure with
    | some t =>
      if c.resetTimeout ≤ now - t then ({ b with state := .halfOpen }, true)
      else ({ b with rejectionsTotal := b.rejectionsTotal + 1 }, false)
    | none => ({ b with rejectionsTotal := b.rejectionsTotal + 1 }, false)
  | .halfOpen => (b, true)

/-- `CircuitBreaker::record_success` -/
def recordSuccess (b : Breaker) : Breaker :=
  let b := { b with successesTotal := b.successesTotal + 1, fails := 0 }
  if b.state = .halfOpen then { b with state := .closed, probe := false } else b

/-- `CircuitBreaker::record_failure` at clock reading `now` -/
def recordFailure (c : Cfg) (b : Breaker) (now : Nat) : Breaker :=
  let b := { b with failuresTotal := b.failuresTotal + 1, fails := b.fails + 1, lastFailure := some now }
  match b.state with
  | .closed => if c.threshold ≤ b.fails then { b with state := .opened } else b
  | .halfOpen => { b with state := .opened, probe := false }
  | .opened => b

/-! ### the breaker driven by interleaved callers -/

/-- one call on the breaker -/
inductive Op where
  | allow (now : Nat)
  | success
  | failure (now : Nat)
  deriving Repr, DecidableEq

/-- one step; the answer is `some admitted?` for `allow`, `none` otherwise -/
def stepB (c : Cfg) (b : Breaker) : Op → Breaker × Option Bool
  | .allow now => let (b', a) := allow c b now; (b', some a)
  | .success => (recordSuccess b, none)
  | .failure now => (recordFailure c b now, none)

/-- run a sequence of calls: the state after each call and the answers -/
def runB (c : Cfg) : Breaker → List Op → List (Breaker × Option Bool)
  | _, [] => []
  | b, op :: ops => let r := stepB c b op; r :: runB c r.1 ops

def finalB (c : Cfg) (b : Breaker) (ops : List Op) : Breaker := ops.foldl (fun b op => (stepB c b op).1) b

/-- the results recorded so far, oldest first (`true` = success) -/
def resultsOf : List Op → List Bool
  | [] => []
  | .success :: ops => true :: resultsOf ops
  | .failure _ :: ops => false :: resultsOf ops
  | .allow _ :: ops => resultsOf ops

/-- number of failures at the end of a result history (the "consecutive failures") -/
def trailingFailures (rs : List Bool) : Nat := (rs.reverse.takeWhile (· == false)).length

/-! ### the resilient sink -/

/-- a `DlqEntry` as read back from the DLQ file (`connector`, `error`, the event) -/
structure DlqEntry where
  connector : String
  error : String
  event : Nat
  deriving Repr, DecidableEq

/-- what the inner sink answers to one `send`/`send_batch`: success, or an error message after
having delivered the first `k` events of the batch (`k = 0` for a single send). -/
inductive Downstream where
  | ok
  | fail (msg : String) (k : Nat)
  deriving Repr, DecidableEq

/-- what `ResilientSink::send`/`send_batch` returned -/
inductive SendResult where
  | ok
  | rejected            -- `Err("circuit breaker open for sink …")`
  | failed (msg : String)
  deriving Repr, DecidableEq

/-- `ResilientSink` with its breaker, the inner sink's deliveries, the DLQ file, and the senders
currently inside `inner.send(..).await` (sender ↦ the events of its call). `log` is a ghost
record of every completed call. -/
structure Sys where
  cfg : Cfg
  name : String
  breaker : Breaker := {}
  delivered : List Nat := []
  dlq : List DlqEntry := []
  inflight : List (Nat × List Nat) := []
  log : List (List Nat × SendResult) := []
  deriving Repr

/-- the error text of a breaker rejection (`send_to_dlq("circuit breaker open", …)`) -/
def openMsg : String := "circuit breaker open"

/-- `ResilientSink::send_to_dlq` → `DeadLetterQueue::write_batch` -/
def toDlq (s : Sys) (msg : String) (evs : List Nat) : List DlqEntry :=
  s.dlq ++ evs.map fun e => { connector := s.name, error := msg, event := e }

/-- first half of `ResilientSink::send` / `send_batch` for sender `i`: `allow_request`; when
rejected the events go to the DLQ and the call returns `Err`; otherwise the sender enters the
inner sink's `send`. Returns `some result` when the call is already complete. -/
def start (s : Sys) (i : Nat) (evs : List Nat) (now : Nat) : Sys × Option SendResult :=
  let (b, admitted) := allow s.cfg s.breaker now
  if admitted then ({ s with breaker := b, inflight := (i, evs) :: s.inflight }, none)
  else ({ s with breaker := b, dlq := toDlq s openMsg evs, log := (evs, .rejected) :: s.log }, some .rejected)

/-- remove the first entry of sender `i` -/
def removeFirst (i : Nat) : List (Nat × List Nat) → List (Nat × List Nat)
  | [] => []
  | p :: ps => if p.1 = i then ps else p :: removeFirst i ps

/-- second half for sender `i`: the inner sink answered `d`. -/
def finish (s : Sys) (i : Nat) (d : Downstream) (now : Nat) : Sys × Option SendResult :=
  match s.inflight.lookup i with
  | none => (s, none)
  | some evs =>
    let rest := removeFirst i s.inflight
    match d with
    | .ok =>
      ({ s with breaker := recordSuccess s.breaker, delivered := s.delivered ++ evs, inflight := rest,
                log := (evs, .ok) :: s.log }, some .ok)
    | .fail msg k =>
      ({ s with breaker := recordFailure s.cfg s.breaker now, delivered := s.delivered ++ evs.take k,
                dlq := toDlq s msg evs, inflight := rest, log := (evs, .failed msg) :: s.log }, some (.failed msg))

/-- a step of the system -/
inductive Step where
  | start (sender : Nat) (evs : List Nat) (now : Nat)
  | finish (sender : Nat) (d : Downstream) (now : Nat)
  deriving Repr, DecidableEq

def stepS (s : Sys) : Step → Sys
  | .start i evs now => (start s i evs now).1
  | .finish i d now => (finish s i d now).1

def runS (s : Sys) (steps : List Step) : Sys := steps.foldl stepS s

/-- every event handed over by a `start` step -/
def handed : List Step → List Nat
  | [] => []
  | .start _ evs _ :: r => evs ++ handed r
  | .finish _ _ _ :: r => handed r

end Varpulis.Breaker
