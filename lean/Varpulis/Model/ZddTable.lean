import Varpulis.Model.Zdd
/-!
# M-ZDD, table layer

The hash-consed node table of `varpulis-zdd` (`table.rs`), the arena operations with their
persistent caches (`arena.rs`), garbage collection, and the standalone `Zdd` operations
(`ops/*.rs`, `remap_nodes`). Every definition names the Rust function it mirrors.

* A `Table` is the `Vec<ZddNode>` of `UniqueTable` (index = node id). The `FxHashMap` index is
  modelled by "first position of an equal triple" (`lookup`).
* `treeOf t r` maps a ref to the tree (Model/Zdd.lean) it denotes.
* Rust recursions over refs have no structural measure in Lean: they carry a fuel argument and
  return `none` when it runs out or when `get_node` would index out of bounds (a Rust panic).
  The refinement theorems (Lemmas/ZddTable.lean) show that with fuel `rank a + rank b + 1`
  (node ids: children are created before their parents) the result is never `none`
  under the table invariant `TWF` — this is the termination-by-node-id argument.
* Caches (`FxHashMap`) are association lists; `insert` conses, `get` is `List.lookup`
  (first match = latest insert). Their contents are not observable except through results.
-/
namespace Varpulis.ZddT
open Varpulis.Zdd

/-- `ZddRef` (refs.rs) -/
inductive Ref where
  | E
  | B
  | N (i : Nat)
  deriving DecidableEq, Repr, Inhabited

/-- 0 for terminals, id+1 for nodes: the measure of all recursions over refs -/
def Ref.rank : Ref → Nat
  | .E => 0
  | .B => 0
  | .N i => i + 1

/-- derived `Ord` of `ZddRef`: `Empty < Base < Node(id)`, nodes by id (used to normalise commutative cache keys) -/
def Ref.le : Ref → Ref → Bool
  | .E, _ => true
  | .B, .E => false
  | .B, _ => true
  | .N _, .E => false
  | .N _, .B => false
  | .N i, .N j => decide (i ≤ j)

/-- `ZddNode` (node.rs) -/
structure Node where
  v : Nat
  lo : Ref
  hi : Ref
  deriving DecidableEq, Repr, Inhabited

/-- `UniqueTable.nodes`; the id of a node is its index -/
abbrev Table := Array Node

/-- a ref that `get_node` can dereference: terminal or id < len -/
def Valid (t : Table) (r : Ref) : Prop := r.rank ≤ t.size
instance (t : Table) (r : Ref) : Decidable (Valid t r) := inferInstanceAs (Decidable (_ ≤ _))

/-- `UniqueTable.index.get(&node)`: position of the (first) equal triple -/
def lookup (t : Table) (nd : Node) : Option Nat := t.findIdx? (· == nd)

/-- `UniqueTable::get_or_create` -/
def getOrCreate (t : Table) (v : Nat) (lo hi : Ref) : Table × Ref :=
  if hi = .E then (t, lo)
  else match lookup t ⟨v, lo, hi⟩ with
    | some i => (t, .N i)
    | none => (t.push ⟨v, lo, hi⟩, .N t.size)

/-- the tree denoted by a ref, with fuel (a dangling id denotes nothing) -/
def treeF (t : Table) : Nat → Ref → Z
  | _, .E => .empty
  | _, .B => .base
  | 0, .N _ => .empty
  | fuel + 1, .N i => match t[i]? with
      | some nd => .node nd.v (treeF t fuel nd.lo) (treeF t fuel nd.hi)
      | none => .empty

/-- the tree denoted by a ref -/
def treeOf (t : Table) (r : Ref) : Z := treeF t r.rank r

/-! ### table invariant -/

/-- `t'` extends `t`: every stored node keeps its id and content (push only) -/
def Ext (t t' : Table) : Prop := ∀ (i : Nat) (nd : Node), t[i]? = some nd → t'[i]? = some nd

/-- table well-formedness: children created before parents, zero-suppressed (reduced), variables
strictly increasing along edges, no two equal triples (hash-consing) -/
structure TWF (t : Table) : Prop where
  below : ∀ {i : Nat} {nd : Node}, t[i]? = some nd → nd.lo.rank ≤ i ∧ nd.hi.rank ≤ i
  red : ∀ {i : Nat} {nd : Node}, t[i]? = some nd → nd.hi ≠ .E
  ord : ∀ {i : Nat} {nd : Node} {j : Nat} {c : Node}, t[i]? = some nd → (nd.lo = .N j ∨ nd.hi = .N j) → t[j]? = some c → nd.v < c.v
  nodup : ∀ {i j : Nat} {nd : Node}, t[i]? = some nd → t[j]? = some nd → i = j

def childOk (t : Table) (own : Nat) (v : Nat) : Ref → Bool
  | .E => true
  | .B => true
  | .N i => i < own && (match t[i]? with | some c => v < c.v | none => false)

/-- executable `TWF` (run by the C07 judge on dumped tables); `twf_iff` -/
def twf (t : Table) : Bool :=
  (List.range t.size).all fun i =>
    match t[i]? with
    | none => false
    | some nd => nd.hi != .E && childOk t i nd.v nd.lo && childOk t i nd.v nd.hi
        && (List.range i).all fun j => t[j]? != some nd

/-! ### C07 judge on a dumped table -/

inductive Verdict where
  | ok
  | notWF
  | dangling (regs : List Nat)
  | wrongTree (regs : List Nat)
  | notCanonical
  deriving DecidableEq, Repr

/-- Judge of a dumped arena: table well-formed, every handle dereferenceable and denoting the
model's tree, handle equality ⇔ family equality over all pairs. `judge_sound`. -/
def judgeTable (t : Table) (regs : List (Nat × Ref)) (model : Nat → Z) : Verdict :=
  if !twf t then .notWF
  else
    let dang := regs.filter fun (_, x) => !decide (Valid t x)
    if !dang.isEmpty then .dangling (dang.map (·.1)) else
    let bad := regs.filter fun (r, x) => treeF t (t.size + 1) x != model r
    if !bad.isEmpty then .wrongTree (bad.map (·.1))
    else
      let viol := regs.any fun (r1, x1) => regs.any fun (r2, x2) =>
        (sets (model r1) == sets (model r2)) != (x1 == x2)
      if viol then .notCanonical else .ok

/-! ### caches -/

/-- `FxHashMap<(ZddRef, ZddRef), ZddRef>` -/
abbrev Cache2 := List ((Ref × Ref) × Ref)
/-- `FxHashMap<ZddRef, ZddRef>` (per-call cache of `product_with_optional`) -/
abbrev Cache1 := List (Ref × Ref)
/-- `count_cache` -/
abbrev CacheN := List (Ref × Nat)
/-- `remap` / `node_map`: old id ↦ new ref -/
abbrev RMap := List (Nat × Ref)

/-- `get_node_info` (arena.rs, ops/common.rs); `none` = out-of-bounds panic of `get_node` -/
def nodeInfo (t : Table) : Ref → Option (Option Nat × Ref × Ref)
  | .E => some (none, .E, .E)
  | .B => some (none, .B, .E)
  | .N i => match t[i]? with
    | some nd => some (some nd.v, nd.lo, nd.hi)
    | none => none

/-- `let (a, b) = if a <= b { (a, b) } else { (b, a) }` -/
def norm (a b : Ref) : Ref × Ref := if a.le b then (a, b) else (b, a)

/-! ### arena operations (arena.rs); the same recursions serve `ops/*.rs` with a per-call cache -/

/-- `ZddArena::union_refs` = `ops/common.rs union_refs_rec` = `ops/union.rs union_rec` -/
def unionT : Nat → Table → Cache2 → Ref → Ref → Option (Table × Cache2 × Ref)
  | 0, _, _, _, _ => none
  | fuel + 1, t, c, a, b =>
    if a = .E then some (t, c, b)
    else if b = .E then some (t, c, a)
    else if a = b then some (t, c, a)
    else
      let (a, b) := norm a b
      match c.lookup (a, b) with
      | some r => some (t, c, r)
      | none =>
        if a = .B ∧ b = .B then some (t, c, .B) else do
        let (av, alo, ahi) ← nodeInfo t a
        let (bv, blo, bhi) ← nodeInfo t b
        let (t, c, r) ← (match av, bv with
          | some av, some bv =>
            if av < bv then do
              let (t, c, nlo) ← unionT fuel t c alo b
              let (t, r) := getOrCreate t av nlo ahi
              pure (t, c, r)
            else if av > bv then do
              let (t, c, nlo) ← unionT fuel t c a blo
              let (t, r) := getOrCreate t bv nlo bhi
              pure (t, c, r)
            else do
              let (t, c, nlo) ← unionT fuel t c alo blo
              let (t, c, nhi) ← unionT fuel t c ahi bhi
              let (t, r) := getOrCreate t av nlo nhi
              pure (t, c, r)
          | some av, none => do
              let (t, c, nlo) ← unionT fuel t c alo b
              let (t, r) := getOrCreate t av nlo ahi
              pure (t, c, r)
          | none, some bv => do
              let (t, c, nlo) ← unionT fuel t c a blo
              let (t, r) := getOrCreate t bv nlo bhi
              pure (t, c, r)
          | none, none => none /- unreachable!() -/)
        pure (t, ((a, b), r) :: c, r)

/-- fuel that always suffices under `TWF` (`unionT_spec`) -/
def unionA (t : Table) (c : Cache2) (a b : Ref) : Option (Table × Cache2 × Ref) :=
  unionT (a.rank + b.rank + 1) t c a b

/-- `ZddArena::intersection_refs` (= `ops/intersection.rs intersection_rec`, whose `(Some, None)` /
`(None, Some)` arms omit the `== Base` test that is always true there) -/
def interT : Nat → Table → Cache2 → Ref → Ref → Option (Table × Cache2 × Ref)
  | 0, _, _, _, _ => none
  | fuel + 1, t, c, a, b =>
    if a = .E ∨ b = .E then some (t, c, .E)
    else if a = b then some (t, c, a)
    else
      let (a, b) := norm a b
      match c.lookup (a, b) with
      | some r => some (t, c, r)
      | none =>
        if a = .B ∧ b = .B then some (t, c, .B) else do
        let (av, alo, ahi) ← nodeInfo t a
        let (bv, blo, bhi) ← nodeInfo t b
        let (t, c, r) ← (match av, bv with
          | some av, some bv =>
            if av < bv then interT fuel t c alo b
            else if av > bv then interT fuel t c a blo
            else do
              let (t, c, nlo) ← interT fuel t c alo blo
              let (t, c, nhi) ← interT fuel t c ahi bhi
              let (t, r) := getOrCreate t av nlo nhi
              pure (t, c, r)
          | some _, none => if b = .B then interT fuel t c alo .B else pure (t, c, .E)
          | none, some _ => if a = .B then interT fuel t c .B blo else pure (t, c, .E)
          | none, none => if a = .B ∧ b = .B then pure (t, c, .B) else pure (t, c, .E))
        pure (t, ((a, b), r) :: c, r)

def interA (t : Table) (c : Cache2) (a b : Ref) : Option (Table × Cache2 × Ref) :=
  interT (a.rank + b.rank + 1) t c a b

/-- `ZddArena::difference_refs` (after the repair; = `ops/difference.rs difference_rec`) -/
def diffT : Nat → Table → Cache2 → Ref → Ref → Option (Table × Cache2 × Ref)
  | 0, _, _, _, _ => none
  | fuel + 1, t, c, a, b =>
    if a = .E then some (t, c, .E)
    else if b = .E then some (t, c, a)
    else if a = b then some (t, c, .E)
    else
      match c.lookup (a, b) with
      | some r => some (t, c, r)
      | none => do
        let (av, alo, ahi) ← nodeInfo t a
        let (bv, blo, bhi) ← nodeInfo t b
        let (t, c, r) ← (match av, bv with
          | some av, some bv =>
            if av < bv then do
              let (t, c, nlo) ← diffT fuel t c alo b
              let (t, r) := getOrCreate t av nlo ahi
              pure (t, c, r)
            else if av > bv then diffT fuel t c a blo
            else do
              let (t, c, nlo) ← diffT fuel t c alo blo
              let (t, c, nhi) ← diffT fuel t c ahi bhi
              let (t, r) := getOrCreate t av nlo nhi
              pure (t, c, r)
          | some av, none =>
            if b = .B then do
              let (t, c, nlo) ← diffT fuel t c alo .B
              let (t, r) := getOrCreate t av nlo ahi
              pure (t, c, r)
            else pure (t, c, a)
          | none, some _ => if a = .B then diffT fuel t c .B blo else pure (t, c, .E)
          | none, none => if a = .B ∧ b = .B then pure (t, c, .E) else pure (t, c, a))
        pure (t, ((a, b), r) :: c, r)

def diffA (t : Table) (c : Cache2) (a b : Ref) : Option (Table × Cache2 × Ref) :=
  diffT (a.rank + b.rank + 1) t c a b

/-- `ZddArena::product_with_optional_rec` (per-call cache `pc`, persistent union cache `uc`).
`persist = false` gives `ops/product.rs product_with_optional_rec`, whose inner
`ops/common.rs union_refs` starts from an empty cache and drops it. -/
def pwoT (persist : Bool) : Nat → Table → Cache2 → Cache1 → Ref → Nat → Option (Table × Cache2 × Cache1 × Ref)
  | _, t, uc, pc, .E, _ => some (t, uc, pc, .E)
  | _, t, uc, pc, .B, var => let (t, r) := getOrCreate t var .B .B; some (t, uc, pc, r)
  | 0, _, _, _, .N _, _ => none
  | fuel + 1, t, uc, pc, .N i, var =>
    match pc.lookup (.N i) with
    | some r => some (t, uc, pc, r)
    | none => do
      let n ← t[i]?
      let (t, uc, pc, r) ← (
        if n.v < var then do
          let (t, uc, pc, nlo) ← pwoT persist fuel t uc pc n.lo var
          let (t, uc, pc, nhi) ← pwoT persist fuel t uc pc n.hi var
          let (t, r) := getOrCreate t n.v nlo nhi
          pure (t, uc, pc, r)
        else if n.v = var then do
          let (t, uc', nhi) ← unionA t (if persist then uc else []) n.lo n.hi
          let (t, r) := getOrCreate t var n.lo nhi
          pure (t, if persist then uc' else uc, pc, r)
        else
          let (t, r) := getOrCreate t var (.N i) (.N i)
          pure (t, uc, pc, r))
      pure (t, uc, (.N i, r) :: pc, r)

/-- `ZddArena::count_ref` with the persistent `count_cache` -/
def countT : Nat → Table → CacheN → Ref → Option (CacheN × Nat)
  | _, _, cc, .E => some (cc, 0)
  | _, _, cc, .B => some (cc, 1)
  | 0, _, _, .N _ => none
  | fuel + 1, t, cc, .N i =>
    match cc.lookup (.N i) with
    | some k => some (cc, k)
    | none => do
      let nd ← t[i]?
      let (cc, k1) ← countT fuel t cc nd.lo
      let (cc, k2) ← countT fuel t cc nd.hi
      pure ((.N i, k1 + k2) :: cc, k1 + k2)

/-- `ZddArena::contains_sorted` / `Zdd::contains_sorted` (the loop) -/
def containsT : Nat → Table → Ref → List Nat → Option Bool
  | _, _, .E, _ => some false
  | _, _, .B, q => some q.isEmpty
  | 0, _, .N _, _ => none
  | fuel + 1, t, .N i, q => do
    let nd ← t[i]?
    match q with
    | [] => containsT fuel t nd.lo []
    | x :: q' =>
      if nd.v = x then containsT fuel t nd.hi q'
      else if nd.v > x then some false
      else containsT fuel t nd.lo (x :: q')

/-- chain built by `from_set` from the highest variable down (`for &var in sorted.iter().rev()`) -/
def fromSortedT (t : Table) : List Nat → Table × Ref
  | [] => (t, .B)
  | v :: vs => let (t, r) := fromSortedT t vs; getOrCreate t v .E r

/-! ### arena (arena.rs `ZddArena`) -/

structure Arena where
  table : Table := #[]
  ucache : Cache2 := []
  icache : Cache2 := []
  dcache : Cache2 := []
  ccache : CacheN := []
  deriving Repr, Inhabited

namespace Arena

/-- `ZddArena::singleton` -/
def singleton (s : Arena) (var : Nat) : Arena × Ref :=
  let (t, r) := getOrCreate s.table var .E .B
  ({ s with table := t }, r)

/-- `ZddArena::from_set` (`sort_unstable; dedup` = `normalize`; the early return for an empty slice is the `[]` case) -/
def fromSet (s : Arena) (elements : List Nat) : Arena × Ref :=
  let (t, r) := fromSortedT s.table (normalize elements)
  ({ s with table := t }, r)

/-- `ZddArena::union` -/
def union (s : Arena) (a b : Ref) : Option (Arena × Ref) := do
  let (t, c, r) ← unionA s.table s.ucache a b
  pure ({ s with table := t, ucache := c }, r)

/-- `ZddArena::intersection` -/
def inter (s : Arena) (a b : Ref) : Option (Arena × Ref) := do
  let (t, c, r) ← interA s.table s.icache a b
  pure ({ s with table := t, icache := c }, r)

/-- `ZddArena::difference` -/
def diff (s : Arena) (a b : Ref) : Option (Arena × Ref) := do
  let (t, c, r) ← diffA s.table s.dcache a b
  pure ({ s with table := t, dcache := c }, r)

/-- `ZddArena::product_with_optional` (fresh per-call cache, dropped afterwards) -/
def pwo (s : Arena) (a : Ref) (var : Nat) : Option (Arena × Ref) := do
  let (t, uc, _, r) ← pwoT true (a.rank + 1) s.table s.ucache [] a var
  pure ({ s with table := t, ucache := uc }, r)

/-- `ZddArena::count` -/
def count (s : Arena) (a : Ref) : Option (Arena × Nat) := do
  let (cc, k) ← countT (a.rank + 1) s.table s.ccache a
  pure ({ s with ccache := cc }, k)

/-- `ZddArena::contains` (`sort_unstable; dedup` then `contains_sorted`) -/
def contains (s : Arena) (a : Ref) (q : List Nat) : Option Bool :=
  containsT (a.rank + 1) s.table a (normalize q)

end Arena

/-! ### garbage collection and remapping -/

/-- `ZddArena::remap_to_new_table` (source = the old arena table) and `ops/common.rs remap_ref`
(source = the other `Zdd`'s table, target = a clone of `self`'s table): identical code. -/
def remapT (src : Table) : Nat → Table → RMap → Ref → Option (Table × RMap × Ref)
  | _, nt, m, .E => some (nt, m, .E)
  | _, nt, m, .B => some (nt, m, .B)
  | 0, _, _, .N _ => none
  | fuel + 1, nt, m, .N id =>
    match m.lookup id with
    | some r => some (nt, m, r)
    | none => do
      let nd ← src[id]?
      let (nt, m, nlo) ← remapT src fuel nt m nd.lo
      let (nt, m, nhi) ← remapT src fuel nt m nd.hi
      let (nt, r) := getOrCreate nt nd.v nlo nhi
      pure (nt, (id, r) :: m, r)

/-- `live_handles.iter().map(|h| remap_to_new_table(h.root, ..)).collect()` -/
def remapAll (src : Table) : Table → RMap → List Ref → Option (Table × RMap × List Ref)
  | nt, m, [] => some (nt, m, [])
  | nt, m, h :: hs => do
    let (nt, m, r) ← remapT src h.rank nt m h
    let (nt, m, rs) ← remapAll src nt m hs
    pure (nt, m, r :: rs)

namespace Arena

/-- `ZddArena::gc`: the mark phase only sizes the new table (`with_capacity(marked.len())`) and has no
other effect; phase 2 rebuilds the live nodes in a fresh table; phase 3 swaps the table and clears
all four caches. Returns the remapped handles. -/
def gc (s : Arena) (live : List Ref) : Option (Arena × List Ref) := do
  let (nt, _, roots) ← remapAll s.table #[] [] live
  pure ({ table := nt, ucache := [], icache := [], dcache := [], ccache := [] }, roots)

/-- `ZddArena::gc_caches_only` -/
def gcCachesOnly (s : Arena) : Arena :=
  { s with ucache := [], icache := [], dcache := [], ccache := [] }

end Arena

/-! ### standalone `Zdd` (zdd.rs, ops/*.rs): every value owns its table; binary operations clone
`self.table`, `remap_nodes(other)` into the clone, then run the recursion with a per-call cache -/

/-- `ops/product.rs product_rec` (per-call cache `c`; the inner `ops/common.rs union_refs` calls
start from an empty cache each) -/
def productT : Nat → Table → Cache2 → Ref → Ref → Option (Table × Cache2 × Ref)
  | 0, _, _, _, _ => none
  | fuel + 1, t, c, a, b =>
    if a = .E ∨ b = .E then some (t, c, .E)
    else if a = .B then some (t, c, b)
    else if b = .B then some (t, c, a)
    else
      let (a, b) := norm a b
      match c.lookup (a, b) with
      | some r => some (t, c, r)
      | none => do
        let (av, alo, ahi) ← nodeInfo t a
        let (bv, blo, bhi) ← nodeInfo t b
        let (t, c, r) ← (match av, bv with
          | some av, some bv =>
            if av < bv then do
              let (t, c, nlo) ← productT fuel t c alo b
              let (t, c, nhi) ← productT fuel t c ahi b
              let (t, r) := getOrCreate t av nlo nhi
              pure (t, c, r)
            else if av > bv then do
              let (t, c, nlo) ← productT fuel t c a blo
              let (t, c, nhi) ← productT fuel t c a bhi
              let (t, r) := getOrCreate t bv nlo nhi
              pure (t, c, r)
            else do
              let (t, c, lolo) ← productT fuel t c alo blo
              let (t, c, hilo) ← productT fuel t c ahi blo
              let (t, c, lohi) ← productT fuel t c alo bhi
              let (t, c, hihi) ← productT fuel t c ahi bhi
              let (t, _, u1) ← unionA t [] hilo lohi
              let (t, _, nhi) ← unionA t [] u1 hihi
              let (t, r) := getOrCreate t av lolo nhi
              pure (t, c, r)
          | some _, none => pure (t, c, a)
          | none, some _ => pure (t, c, b)
          | none, none => none /- unreachable!() -/)
        pure (t, ((a, b), r) :: c, r)

/-- `Zdd` (zdd.rs) -/
structure ZddS where
  root : Ref
  table : Table
  deriving Repr, Inhabited

namespace ZddS

def empty : ZddS := ⟨.E, #[]⟩
def base : ZddS := ⟨.B, #[]⟩

/-- `Zdd::singleton` -/
def singleton (var : Nat) : ZddS :=
  let (t, r) := getOrCreate #[] var .E .B
  ⟨r, t⟩

/-- `Zdd::from_set` -/
def fromSet (elements : List Nat) : ZddS :=
  let (t, r) := fromSortedT #[] (normalize elements)
  ⟨r, t⟩

/-- `remap_nodes(other, &mut table, &mut node_map)` into a clone of `self.table` -/
def remapInto (self other : ZddS) : Option (Table × Ref) := do
  let (t, _, r) ← remapT other.table other.root.rank self.table [] other.root
  pure (t, r)

/-- `Zdd::union` -/
def union (self other : ZddS) : Option ZddS := do
  let (t, oroot) ← remapInto self other
  let (t, _, r) ← unionA t [] self.root oroot
  pure ⟨r, t⟩

/-- `Zdd::intersection` -/
def inter (self other : ZddS) : Option ZddS := do
  let (t, oroot) ← remapInto self other
  let (t, _, r) ← interA t [] self.root oroot
  pure ⟨r, t⟩

/-- `Zdd::difference` -/
def diff (self other : ZddS) : Option ZddS := do
  let (t, oroot) ← remapInto self other
  let (t, _, r) ← diffA t [] self.root oroot
  pure ⟨r, t⟩

/-- `Zdd::product` -/
def product (self other : ZddS) : Option ZddS := do
  let (t, oroot) ← remapInto self other
  let (t, _, r) ← productT (self.root.rank + oroot.rank + 1) t [] self.root oroot
  pure ⟨r, t⟩

/-- `Zdd::product_with_optional` (reads nodes through `zdd = self`, whose table is a prefix of the clone) -/
def pwo (self : ZddS) (var : Nat) : Option ZddS := do
  let (t, _, _, r) ← pwoT false (self.root.rank + 1) self.table [] [] self.root var
  pure ⟨r, t⟩

/-- `Zdd::count` (per-call cache) -/
def count (self : ZddS) : Option Nat := do
  let (_, k) ← countT (self.root.rank + 1) self.table [] self.root
  pure k

/-- `Zdd::contains` -/
def contains (self : ZddS) (q : List Nat) : Option Bool :=
  containsT (self.root.rank + 1) self.table self.root (normalize q)

end ZddS

end Varpulis.ZddT
