/-!
# M-CKPT, part 1: the checkpoint value trees and their JSON encoding (C20)

Mirrors `crates/varpulis-runtime/src/persistence.rs` (the `Serializable*` / `*Checkpoint`
structs with the representation `serde` derives for them, `value_to_serializable`,
`serializable_to_value`, `From<&Event> for SerializableEvent`, `From<SerializableEvent> for Event`)
and `codec.rs` (`serialize`, `deserialize`, `is_json`).

JSON is an abstract tree.  What `serde_json` does between tree and text is trusted, with one
rule modelled explicitly (`wire`): the writer prints a non-finite float as `null`.
Hash maps are association lists: the encoder writes the entries in the order of the list, the
decoder reads them back in that order, so equality of lists implies equality of maps.
Integers are unbounded (`Int`/`Nat`); every value that reaches the encoder comes out of an
`i64`/`u64`/`usize`/`u32` field, so no range check is modelled.
-/
namespace Varpulis.Ckpt

/-- `f64` up to the payload of a NaN (`Value`'s own equality identifies all NaNs);
`fin bits` is a finite double given by its bit pattern (so `-0.0` and `0.0` differ). -/
inductive F64 where
  | fin (bits : Nat)
  | nan
  | pinf
  | ninf
  deriving DecidableEq, Repr, Inhabited

def F64.isFinite : F64 → Bool
  | .fin _ => true
  | _ => false

/-- the abstract JSON tree -/
inductive Json where
  | null
  | bool (b : Bool)
  | int (i : Int)
  | num (f : F64)
  | str (s : String)
  | arr (l : List Json)
  | obj (l : List (String × Json))
  deriving Repr, Inhabited

mutual
/-- `serde_json`'s writer followed by its parser, on trees: a non-finite float is written as
`null` (`serde_json::ser::Serializer::serialize_f64`), everything else reads back as written. -/
def wire : Json → Json
  | .null => .null
  | .bool b => .bool b
  | .int i => .int i
  | .num f => if f.isFinite then .num f else .null
  | .str s => .str s
  | .arr l => .arr (wireL l)
  | .obj l => .obj (wireO l)
def wireL : List Json → List Json
  | [] => []
  | j :: js => wire j :: wireL js
def wireO : List (String × Json) → List (String × Json)
  | [] => []
  | (k, j) :: r => (k, wire j) :: wireO r
end

mutual
/-- no non-finite float anywhere in the tree -/
def Clean : Json → Bool
  | .num f => f.isFinite
  | .arr l => CleanL l
  | .obj l => CleanO l
  | _ => true
def CleanL : List Json → Bool
  | [] => true
  | j :: js => Clean j && CleanL js
def CleanO : List (String × Json) → Bool
  | [] => true
  | (_, j) :: r => Clean j && CleanO r
end

/-! ## primitive readers (what `serde` accepts for the Rust type) -/

def decInt : Json → Option Int
  | .int i => some i
  | _ => none

/-- `u64` / `usize` / `u32` -/
def decNat : Json → Option Nat
  | .int i => if 0 ≤ i then some i.toNat else none
  | _ => none

def decBool : Json → Option Bool
  | .bool b => some b
  | _ => none

def decStr : Json → Option String
  | .str s => some s
  | _ => none

/-- `Option<T>`: `null` is `None` -/
def encOpt {α} (f : α → Json) : Option α → Json
  | none => .null
  | some a => f a

def decOpt {α} (d : Json → Option α) : Json → Option (Option α)
  | .null => some none
  | j => (d j).map some

/-- `Vec<T>` -/
def encList {α} (f : α → Json) (l : List α) : Json := .arr (l.map f)

def decList {α} (d : Json → Option α) : Json → Option (List α)
  | .arr l => l.mapM d
  | _ => none

/-- `HashMap<String, T>` (entries in list order) -/
def encMap {α} (f : α → Json) (m : List (String × α)) : Json := .obj (m.map fun kv => (kv.1, f kv.2))

def decMap {α} (d : Json → Option α) : Json → Option (List (String × α))
  | .obj kvs => kvs.mapM fun kv => (d kv.2).map fun a => (kv.1, a)
  | _ => none

/-- a required struct field -/
def req {α} (kvs : List (String × Json)) (k : String) (d : Json → Option α) : Option α :=
  (kvs.lookup k).bind d

/-- a field of type `Option<T>`: a missing key is `None` (serde's rule for `Option` fields) -/
def optF {α} (kvs : List (String × Json)) (k : String) (d : Json → Option α) : Option (Option α) :=
  match kvs.lookup k with
  | none => some none
  | some j => decOpt d j

/-- a field with `#[serde(default)]` -/
def dflt {α} (kvs : List (String × Json)) (k : String) (d : Json → Option α) (a : α) : Option α :=
  match kvs.lookup k with
  | none => some a
  | some j => d j

/-! ## values -/

/-- `persistence::SerializableValue` -/
inductive SV where
  | int (i : Int)
  | float (f : F64)
  | bool (b : Bool)
  | str (s : String)
  | null
  | ts (i : Int)
  | dur (n : Nat)
  | arr (l : List SV)
  | map (l : List (String × SV))
  deriving Repr, Inhabited

/-- `varpulis_core::Value` (`Map` is an `IndexMap`: insertion-ordered, unique keys) -/
inductive Val where
  | int (i : Int)
  | float (f : F64)
  | bool (b : Bool)
  | str (s : String)
  | null
  | ts (i : Int)
  | dur (n : Nat)
  | arr (l : List Val)
  | map (l : List (String × Val))
  deriving Repr, Inhabited

mutual
/-- structural equality (used by the driver to compare decoded trees) -/
def SV.beq : SV → SV → Bool
  | .int a, .int b => a == b
  | .float a, .float b => a == b
  | .bool a, .bool b => a == b
  | .str a, .str b => a == b
  | .null, .null => true
  | .ts a, .ts b => a == b
  | .dur a, .dur b => a == b
  | .arr a, .arr b => SV.beqL a b
  | .map a, .map b => SV.beqM a b
  | _, _ => false
def SV.beqL : List SV → List SV → Bool
  | [], [] => true
  | a :: as, b :: bs => SV.beq a b && SV.beqL as bs
  | _, _ => false
def SV.beqM : List (String × SV) → List (String × SV) → Bool
  | [], [] => true
  | (k, a) :: as, (l, b) :: bs => k == l && SV.beq a b && SV.beqM as bs
  | _, _ => false
end
instance : BEq SV := ⟨SV.beq⟩

mutual
def Val.beq : Val → Val → Bool
  | .int a, .int b => a == b
  | .float a, .float b => a == b
  | .bool a, .bool b => a == b
  | .str a, .str b => a == b
  | .null, .null => true
  | .ts a, .ts b => a == b
  | .dur a, .dur b => a == b
  | .arr a, .arr b => Val.beqL a b
  | .map a, .map b => Val.beqM a b
  | _, _ => false
def Val.beqL : List Val → List Val → Bool
  | [], [] => true
  | a :: as, b :: bs => Val.beq a b && Val.beqL as bs
  | _, _ => false
def Val.beqM : List (String × Val) → List (String × Val) → Bool
  | [], [] => true
  | (k, a) :: as, (l, b) :: bs => k == l && Val.beq a b && Val.beqM as bs
  | _, _ => false
end
instance : BEq Val := ⟨Val.beq⟩

mutual
/-- `value_to_serializable` -/
def v2s : Val → SV
  | .int i => .int i
  | .float f => .float f
  | .bool b => .bool b
  | .str s => .str s
  | .null => .null
  | .ts i => .ts i
  | .dur n => .dur n
  | .arr l => .arr (v2sL l)
  | .map l => .map (v2sM l)
def v2sL : List Val → List SV
  | [] => []
  | v :: vs => v2s v :: v2sL vs
def v2sM : List (String × Val) → List (String × SV)
  | [] => []
  | (k, v) :: r => (k, v2s v) :: v2sM r
end

mutual
/-- `serializable_to_value` (entries inserted in order; keys of a value that came out of
`value_to_serializable` are unique, so no entry is overwritten) -/
def s2v : SV → Val
  | .int i => .int i
  | .float f => .float f
  | .bool b => .bool b
  | .str s => .str s
  | .null => .null
  | .ts i => .ts i
  | .dur n => .dur n
  | .arr l => .arr (s2vL l)
  | .map l => .map (s2vM l)
def s2vL : List SV → List Val
  | [] => []
  | v :: vs => s2v v :: s2vL vs
def s2vM : List (String × SV) → List (String × Val)
  | [] => []
  | (k, v) :: r => (k, s2v v) :: s2vM r
end

/-- `float_repr::serialize` (since the repair): a finite float is a JSON number, a non-finite
one a tagged string, so that `wire` never sees a non-finite number. -/
def encF : F64 → Json
  | .fin b => .num (.fin b)
  | .nan => .str "NaN"
  | .pinf => .str "inf"
  | .ninf => .str "-inf"

/-- `float_repr::deserialize`: number, one of the three tags, or — tolerant towards checkpoints
written before the repair — `null`, read as NaN. -/
def decF : Json → Option F64
  | .num f => some f
  | .null => some .nan
  | .str s => if s = "NaN" then some .nan else if s = "inf" then some .pinf
              else if s = "-inf" then some .ninf else none
  | _ => none

/-- the representation before the repair: `#[derive(Serialize)]` hands the `f64` to the writer -/
def encFOld (f : F64) : Json := .num f

/-- `#[derive(Deserialize)]` for an `f64`: only a number -/
def decFOld : Json → Option F64
  | .num f => some f
  | _ => none

mutual
/-- `#[derive(Serialize)]` of `SerializableValue`: externally tagged enum; `Map` is a vector of pairs -/
def encSV : SV → Json
  | .int i => .obj [("Int", .int i)]
  | .float f => .obj [("Float", encF f)]
  | .bool b => .obj [("Bool", .bool b)]
  | .str s => .obj [("String", .str s)]
  | .null => .str "Null"
  | .ts i => .obj [("Timestamp", .int i)]
  | .dur n => .obj [("Duration", .int n)]
  | .arr l => .obj [("Array", .arr (encSVs l))]
  | .map l => .obj [("Map", .arr (encSVm l))]
def encSVs : List SV → List Json
  | [] => []
  | v :: vs => encSV v :: encSVs vs
def encSVm : List (String × SV) → List Json
  | [] => []
  | (k, v) :: r => .arr [.str k, encSV v] :: encSVm r
end

mutual
/-- `#[derive(Deserialize)]` of `SerializableValue` -/
def decSV : Json → Option SV
  | .str s => if s = "Null" then some .null else none
  | .obj [(tag, j)] =>
    if tag = "Int" then (decInt j).map .int
    else if tag = "Float" then (decF j).map .float
    else if tag = "Bool" then (decBool j).map .bool
    else if tag = "String" then (decStr j).map .str
    else if tag = "Timestamp" then (decInt j).map .ts
    else if tag = "Duration" then (decNat j).map .dur
    else if tag = "Array" then (match j with | .arr l => (decSVs l).map .arr | _ => none)
    else if tag = "Map" then (match j with | .arr l => (decSVm l).map .map | _ => none)
    else none
  | _ => none
def decSVs : List Json → Option (List SV)
  | [] => some []
  | j :: js => match decSV j, decSVs js with
    | some v, some vs => some (v :: vs)
    | _, _ => none
def decSVm : List Json → Option (List (String × SV))
  | [] => some []
  | .arr [.str k, j] :: js => match decSV j, decSVm js with
    | some v, some vs => some ((k, v) :: vs)
    | _, _ => none
  | _ :: _ => none
end

/-! ## events -/

/-- `event::Event`; `ts` = nanoseconds since the epoch (`DateTime<Utc>`), `data` in insertion
order with unique keys (`IndexMap`) -/
structure Event where
  etype : String
  ts : Int
  data : List (String × Val)
  deriving Repr, Inhabited, BEq

/-- `persistence::SerializableEvent`: the timestamp in whole milliseconds only -/
structure SerEvent where
  etype : String
  tsMs : Int
  fields : List (String × SV)
  deriving Repr, Inhabited, BEq

/-- `DateTime::timestamp_millis` (floor) -/
def msOf (t : Int) : Int := t / 1000000

/-- `DateTime::from_timestamp_millis` (always `Some` for a value that `timestamp_millis` produced) -/
def ofMs (m : Int) : Int := m * 1000000

/-- `From<&Event> for SerializableEvent` -/
def serOfEvent (e : Event) : SerEvent :=
  { etype := e.etype, tsMs := msOf e.ts, fields := v2sM e.data }

/-- `From<SerializableEvent> for Event` -/
def eventOfSer (s : SerEvent) : Event :=
  { etype := s.etype, ts := ofMs s.tsMs, data := s2vM s.fields }

/-- a timestamp without sub-millisecond part -/
def wholeTs (t : Int) : Bool := t % 1000000 == 0

/-- the guard of finding `C20-submillisecond-event-timestamps`: an event whose timestamp is a
whole number of milliseconds survives the conversion, any other comes back truncated -/
def Event.whole (e : Event) : Bool := wholeTs e.ts

/-- what `eventOfSer ∘ serOfEvent` does to an event -/
def Event.truncMs (e : Event) : Event := { e with ts := ofMs (msOf e.ts) }

def encSE (e : SerEvent) : Json :=
  .obj [("event_type", .str e.etype), ("timestamp_ms", .int e.tsMs), ("fields", encMap encSV e.fields)]

def decSE : Json → Option SerEvent
  | .obj kvs => do
    let ty ← req kvs "event_type" decStr
    let ms ← req kvs "timestamp_ms" decInt
    let fs ← req kvs "fields" (decMap decSV)
    pure { etype := ty, tsMs := ms, fields := fs }
  | _ => none

/-! ## component checkpoints -/

/-- `PartitionedWindowCheckpoint` -/
structure PartWinCkpt where
  events : List SerEvent
  windowStartMs : Option Int
  /-- `events_since_emit` (`#[serde(default)]`): the slide counter of a partitioned sliding count window -/
  eventsSinceEmit : Option Nat
  /-- `window_start_subms_ns` (`#[serde(default)]`): sub-millisecond part of `window_start_ms` -/
  windowStartSub : Nat
  deriving Repr, Inhabited, BEq

def encPWC (p : PartWinCkpt) : Json :=
  .obj [("events", encList encSE p.events), ("window_start_ms", encOpt .int p.windowStartMs),
        ("events_since_emit", encOpt (fun n : Nat => .int n) p.eventsSinceEmit),
        ("window_start_subms_ns", .int p.windowStartSub)]

def decPWC : Json → Option PartWinCkpt
  | .obj kvs => do
    let ev ← req kvs "events" (decList decSE)
    let ws ← optF kvs "window_start_ms" decInt
    let se ← optF kvs "events_since_emit" decNat
    let wsub ← dflt kvs "window_start_subms_ns" decNat 0
    pure { events := ev, windowStartMs := ws, eventsSinceEmit := se, windowStartSub := wsub }
  | _ => none

/-- `WindowCheckpoint` -/
structure WindowCkpt where
  events : List SerEvent
  windowStartMs : Option Int
  lastEmitMs : Option Int
  partitions : List (String × PartWinCkpt)
  deriving Repr, Inhabited, BEq

def encWC (w : WindowCkpt) : Json :=
  .obj [("events", encList encSE w.events), ("window_start_ms", encOpt .int w.windowStartMs),
        ("last_emit_ms", encOpt .int w.lastEmitMs), ("partitions", encMap encPWC w.partitions)]

def decWC : Json → Option WindowCkpt
  | .obj kvs => do
    let ev ← req kvs "events" (decList decSE)
    let ws ← optF kvs "window_start_ms" decInt
    let le ← optF kvs "last_emit_ms" decInt
    let ps ← req kvs "partitions" (decMap decPWC)
    pure { events := ev, windowStartMs := ws, lastEmitMs := le, partitions := ps }
  | _ => none

/-- `StackEntryCheckpoint` -/
structure StackCkpt where
  event : SerEvent
  alias : Option String
  deriving Repr, Inhabited, BEq

def encStack (s : StackCkpt) : Json := .obj [("event", encSE s.event), ("alias", encOpt .str s.alias)]

def decStack : Json → Option StackCkpt
  | .obj kvs => do
    let e ← req kvs "event" decSE
    let a ← optF kvs "alias" decStr
    pure { event := e, alias := a }
  | _ => none

/-- `RunCheckpoint` -/
structure RunCkpt where
  currentState : Nat
  stack : List StackCkpt
  captured : List (String × SerEvent)
  startedAtMs : Option Int
  deadlineMs : Option Int
  partitionKey : Option SV
  invalidated : Bool
  pendingNegationCount : Nat
  kleeneEvents : Option (List SerEvent)
  /-- `and_branches`, added by the repair of the lost AND progress: (branch index, event) -/
  andBranches : Option (List (Nat × SerEvent))
  /-- sub-millisecond remainders of the two event-time fields -/
  startedAtSub : Nat
  deadlineSub : Nat
  deriving Repr, Inhabited, BEq

/-- one completed AND branch `(usize, SerializableEvent)`: a two-element array -/
def encAB (p : Nat × SerEvent) : Json := .arr [.int p.1, encSE p.2]

def decAB : Json → Option (Nat × SerEvent)
  | .arr [i, j] => do
    let n ← decNat i
    let e ← decSE j
    pure (n, e)
  | _ => none

def encRun (r : RunCkpt) : Json :=
  .obj [("current_state", .int r.currentState), ("stack", encList encStack r.stack),
        ("captured", encMap encSE r.captured),
        ("event_time_started_at_ms", encOpt .int r.startedAtMs),
        ("event_time_deadline_ms", encOpt .int r.deadlineMs),
        ("partition_key", encOpt encSV r.partitionKey), ("invalidated", .bool r.invalidated),
        ("pending_negation_count", .int r.pendingNegationCount),
        ("kleene_events", encOpt (encList encSE) r.kleeneEvents),
        ("and_branches", encOpt (encList encAB) r.andBranches),
        ("event_time_started_at_subms_ns", .int r.startedAtSub),
        ("event_time_deadline_subms_ns", .int r.deadlineSub)]

def decRun : Json → Option RunCkpt
  | .obj kvs => do
    let cs ← req kvs "current_state" decNat
    let st ← req kvs "stack" (decList decStack)
    let ca ← req kvs "captured" (decMap decSE)
    let sa ← optF kvs "event_time_started_at_ms" decInt
    let dl ← optF kvs "event_time_deadline_ms" decInt
    let pk ← optF kvs "partition_key" decSV
    let iv ← req kvs "invalidated" decBool
    let pn ← req kvs "pending_negation_count" decNat
    let ke ← optF kvs "kleene_events" (decList decSE)
    let ab ← optF kvs "and_branches" (decList decAB)
    let ss ← dflt kvs "event_time_started_at_subms_ns" decNat 0
    let ds ← dflt kvs "event_time_deadline_subms_ns" decNat 0
    pure { currentState := cs, stack := st, captured := ca, startedAtMs := sa, deadlineMs := dl,
           partitionKey := pk, invalidated := iv, pendingNegationCount := pn, kleeneEvents := ke,
           andBranches := ab, startedAtSub := ss, deadlineSub := ds }
  | _ => none

/-- `SaseCheckpoint` -/
structure SaseCkpt where
  activeRuns : List RunCkpt
  partitionedRuns : List (String × List RunCkpt)
  watermarkMs : Option Int
  maxTimestampMs : Option Int
  created : Nat
  completed : Nat
  dropped : Nat
  evicted : Nat
  watermarkSub : Nat
  maxTimestampSub : Nat
  deriving Repr, Inhabited, BEq

def encSase (s : SaseCkpt) : Json :=
  .obj [("active_runs", encList encRun s.activeRuns),
        ("partitioned_runs", encMap (encList encRun) s.partitionedRuns),
        ("watermark_ms", encOpt .int s.watermarkMs), ("max_timestamp_ms", encOpt .int s.maxTimestampMs),
        ("total_runs_created", .int s.created), ("total_runs_completed", .int s.completed),
        ("total_runs_dropped", .int s.dropped), ("total_runs_evicted", .int s.evicted),
        ("watermark_subms_ns", .int s.watermarkSub), ("max_timestamp_subms_ns", .int s.maxTimestampSub)]

def decSase : Json → Option SaseCkpt
  | .obj kvs => do
    let ar ← req kvs "active_runs" (decList decRun)
    let pr ← req kvs "partitioned_runs" (decMap (decList decRun))
    let wm ← optF kvs "watermark_ms" decInt
    let mt ← optF kvs "max_timestamp_ms" decInt
    let c ← req kvs "total_runs_created" decNat
    let d ← req kvs "total_runs_completed" decNat
    let e ← req kvs "total_runs_dropped" decNat
    let f ← req kvs "total_runs_evicted" decNat
    let ws ← dflt kvs "watermark_subms_ns" decNat 0
    let ms ← dflt kvs "max_timestamp_subms_ns" decNat 0
    pure { activeRuns := ar, partitionedRuns := pr, watermarkMs := wm, maxTimestampMs := mt,
           created := c, completed := d, dropped := e, evicted := f, watermarkSub := ws, maxTimestampSub := ms }
  | _ => none

/-- one buffered join entry `(i64, SerializableEvent)`: a two-element array -/
def encJE (p : Int × SerEvent) : Json := .arr [.int p.1, encSE p.2]

def decJE : Json → Option (Int × SerEvent)
  | .arr [.int t, j] => (decSE j).map fun e => (t, e)
  | _ => none

/-- one pending expiry `(i64, u32, String, String)`: (expiry ms, sub-ms ns, source, key) -/
structure QEntry where
  ms : Int
  sub : Nat
  source : String
  key : String
  deriving Repr, Inhabited, BEq, DecidableEq

def encQE (q : QEntry) : Json := .arr [.int q.ms, .int q.sub, .str q.source, .str q.key]

def decQE : Json → Option QEntry
  | .arr [a, b, c, d] => do
    let ms ← decInt a
    let sub ← decNat b
    let s ← decStr c
    let k ← decStr d
    pure { ms := ms, sub := sub, source := s, key := k }
  | _ => none

/-- `JoinCheckpoint` -/
structure JoinCkpt where
  buffers : List (String × List (String × List (Int × SerEvent)))
  sources : List String
  joinKeys : List (String × String)
  windowMs : Int
  /-- `last_gc_ms`, `last_gc_subms_ns`, `expiry_queue`: added by the repair of the lost GC bookkeeping -/
  lastGcMs : Option Int
  lastGcSub : Nat
  expiryQueue : Option (List QEntry)
  deriving Repr, Inhabited, BEq

def encJoin (j : JoinCkpt) : Json :=
  .obj [("buffers", encMap (encMap (encList encJE)) j.buffers), ("sources", encList .str j.sources),
        ("join_keys", encMap .str j.joinKeys), ("window_duration_ms", .int j.windowMs),
        ("last_gc_ms", encOpt .int j.lastGcMs), ("last_gc_subms_ns", .int j.lastGcSub),
        ("expiry_queue", encOpt (encList encQE) j.expiryQueue)]

def decJoin : Json → Option JoinCkpt
  | .obj kvs => do
    let b ← req kvs "buffers" (decMap (decMap (decList decJE)))
    let s ← req kvs "sources" (decList decStr)
    let k ← req kvs "join_keys" (decMap decStr)
    let w ← req kvs "window_duration_ms" decInt
    let g ← optF kvs "last_gc_ms" decInt
    let gs ← dflt kvs "last_gc_subms_ns" decNat 0
    let q ← optF kvs "expiry_queue" (decList decQE)
    pure { buffers := b, sources := s, joinKeys := k, windowMs := w, lastGcMs := g, lastGcSub := gs,
           expiryQueue := q }
  | _ => none

/-- `SourceWatermarkCheckpoint` -/
structure SrcWmCkpt where
  watermarkMs : Option Int
  maxTimestampMs : Option Int
  oooMs : Int
  watermarkSub : Nat
  maxTimestampSub : Nat
  deriving Repr, Inhabited, BEq

def encSrcWm (s : SrcWmCkpt) : Json :=
  .obj [("watermark_ms", encOpt .int s.watermarkMs), ("max_timestamp_ms", encOpt .int s.maxTimestampMs),
        ("max_out_of_orderness_ms", .int s.oooMs), ("watermark_subms_ns", .int s.watermarkSub),
        ("max_timestamp_subms_ns", .int s.maxTimestampSub)]

def decSrcWm : Json → Option SrcWmCkpt
  | .obj kvs => do
    let w ← optF kvs "watermark_ms" decInt
    let m ← optF kvs "max_timestamp_ms" decInt
    let o ← req kvs "max_out_of_orderness_ms" decInt
    let ws ← dflt kvs "watermark_subms_ns" decNat 0
    let ms ← dflt kvs "max_timestamp_subms_ns" decNat 0
    pure { watermarkMs := w, maxTimestampMs := m, oooMs := o, watermarkSub := ws, maxTimestampSub := ms }
  | _ => none

/-- `WatermarkCheckpoint` -/
structure WmCkpt where
  sources : List (String × SrcWmCkpt)
  effectiveMs : Option Int
  effectiveSub : Nat
  /-- `last_applied_watermark_ms` / `_subms_ns`: added by the repair, filled in by the engine -/
  lastAppliedMs : Option Int
  lastAppliedSub : Nat
  deriving Repr, Inhabited, BEq

def encWm (w : WmCkpt) : Json :=
  .obj [("sources", encMap encSrcWm w.sources), ("effective_watermark_ms", encOpt .int w.effectiveMs),
        ("effective_watermark_subms_ns", .int w.effectiveSub),
        ("last_applied_watermark_ms", encOpt .int w.lastAppliedMs),
        ("last_applied_watermark_subms_ns", .int w.lastAppliedSub)]

def decWm : Json → Option WmCkpt
  | .obj kvs => do
    let s ← req kvs "sources" (decMap decSrcWm)
    let e ← optF kvs "effective_watermark_ms" decInt
    let es ← dflt kvs "effective_watermark_subms_ns" decNat 0
    let la ← optF kvs "last_applied_watermark_ms" decInt
    let ls ← dflt kvs "last_applied_watermark_subms_ns" decNat 0
    pure { sources := s, effectiveMs := e, effectiveSub := es, lastAppliedMs := la, lastAppliedSub := ls }
  | _ => none

/-- `DistinctCheckpoint` (most recent key first) -/
def encDistinct (keys : List String) : Json := .obj [("keys", encList .str keys)]

def decDistinct : Json → Option (List String)
  | .obj kvs => req kvs "keys" (decList decStr)
  | _ => none

/-- `LimitCheckpoint` -/
def encLimit (l : Nat × Nat) : Json := .obj [("max", .int l.1), ("count", .int l.2)]

def decLimit : Json → Option (Nat × Nat)
  | .obj kvs => do
    let m ← req kvs "max" decNat
    let c ← req kvs "count" decNat
    pure (m, c)
  | _ => none

/-- `EngineCheckpoint` -/
structure EngineCkpt where
  version : Nat
  windowStates : List (String × WindowCkpt)
  saseStates : List (String × SaseCkpt)
  joinStates : List (String × JoinCkpt)
  variables : List (String × SV)
  eventsProcessed : Nat
  outputEventsEmitted : Nat
  watermarkState : Option WmCkpt
  distinctStates : List (String × List String)
  limitStates : List (String × (Nat × Nat))
  deriving Repr, Inhabited, BEq

def encEngine (c : EngineCkpt) : Json :=
  .obj [("version", .int c.version), ("window_states", encMap encWC c.windowStates),
        ("sase_states", encMap encSase c.saseStates), ("join_states", encMap encJoin c.joinStates),
        ("variables", encMap encSV c.variables), ("events_processed", .int c.eventsProcessed),
        ("output_events_emitted", .int c.outputEventsEmitted),
        ("watermark_state", encOpt encWm c.watermarkState),
        ("distinct_states", encMap encDistinct c.distinctStates),
        ("limit_states", encMap encLimit c.limitStates)]

def decEngine : Json → Option EngineCkpt
  | .obj kvs => do
    let v ← dflt kvs "version" decNat 1
    let w ← req kvs "window_states" (decMap decWC)
    let s ← req kvs "sase_states" (decMap decSase)
    let j ← req kvs "join_states" (decMap decJoin)
    let va ← req kvs "variables" (decMap decSV)
    let ep ← req kvs "events_processed" decNat
    let oe ← req kvs "output_events_emitted" decNat
    let wm ← optF kvs "watermark_state" decWm
    let d ← dflt kvs "distinct_states" (decMap decDistinct) []
    let l ← dflt kvs "limit_states" (decMap decLimit) []
    pure { version := v, windowStates := w, saseStates := s, joinStates := j, variables := va,
           eventsProcessed := ep, outputEventsEmitted := oe, watermarkState := wm,
           distinctStates := d, limitStates := l }
  | _ => none

/-- `PartialMatchCheckpoint` (legacy part of `Checkpoint`) -/
structure PartialMatchCkpt where
  state : String
  matched : List SerEvent
  startMs : Int
  deriving Repr, Inhabited, BEq

def encPM (p : PartialMatchCkpt) : Json :=
  .obj [("state", .str p.state), ("matched_events", encList encSE p.matched), ("start_ms", .int p.startMs)]

def decPM : Json → Option PartialMatchCkpt
  | .obj kvs => do
    let s ← req kvs "state" decStr
    let m ← req kvs "matched_events" (decList decSE)
    let t ← req kvs "start_ms" decInt
    pure { state := s, matched := m, startMs := t }
  | _ => none

/-- `PatternCheckpoint` -/
def encPattern (l : List PartialMatchCkpt) : Json := .obj [("partial_matches", encList encPM l)]

def decPattern : Json → Option (List PartialMatchCkpt)
  | .obj kvs => req kvs "partial_matches" (decList decPM)
  | _ => none

/-- `Checkpoint`: what the stores write (the engine state sits in `context_states["main"]`) -/
structure Ckpt where
  id : Nat
  timestampMs : Int
  eventsProcessed : Nat
  windowStates : List (String × WindowCkpt)
  patternStates : List (String × List PartialMatchCkpt)
  metadata : List (String × String)
  contextStates : List (String × EngineCkpt)
  deriving Repr, Inhabited, BEq

def encCkpt (c : Ckpt) : Json :=
  .obj [("id", .int c.id), ("timestamp_ms", .int c.timestampMs), ("events_processed", .int c.eventsProcessed),
        ("window_states", encMap encWC c.windowStates), ("pattern_states", encMap encPattern c.patternStates),
        ("metadata", encMap .str c.metadata), ("context_states", encMap encEngine c.contextStates)]

def decCkpt : Json → Option Ckpt
  | .obj kvs => do
    let i ← req kvs "id" decNat
    let t ← req kvs "timestamp_ms" decInt
    let e ← req kvs "events_processed" decNat
    let w ← req kvs "window_states" (decMap decWC)
    let p ← req kvs "pattern_states" (decMap decPattern)
    let m ← req kvs "metadata" (decMap decStr)
    let c ← dflt kvs "context_states" (decMap decEngine) []
    pure { id := i, timestampMs := t, eventsProcessed := e, windowStates := w, patternStates := p,
           metadata := m, contextStates := c }
  | _ => none

/-! ## codec.rs -/

/-- the first byte `serde_json::to_vec` writes for a tree -/
def Json.firstByte : Json → Char
  | .null => 'n'
  | .bool b => if b then 't' else 'f'
  | .int i => if i < 0 then '-' else '0'   -- some digit
  | .num _ => '0'
  | .str _ => '"'
  | .arr _ => '['
  | .obj _ => '{'

/-- checkpoint bytes as far as `codec::deserialize` looks at them: nothing at all, or some ASCII
whitespace followed by a JSON document, or by something that is not JSON (first byte given) -/
inductive Bytes where
  | empty
  | json (ws : Nat) (doc : Json)
  | other (ws : Nat) (first : Char)
  deriving Repr, Inhabited

/-- `codec::serialize(_, CheckpointFormat::Json)` = `serde_json::to_vec` -/
def serialize (j : Json) : Bytes := .json 0 (wire j)

/-- `codec::is_json`: the first non-whitespace byte is `{` or `[` -/
def isJson : Bytes → Bool
  | .empty => false
  | .json _ doc => doc.firstByte == '{' || doc.firstByte == '['
  | .other _ c => c == '{' || c == '['

inductive DeErr where
  | emptyData
  | notJson
  | shape
  deriving Repr, DecidableEq

/-- `codec::deserialize::<T>` where `dec` is `T`'s derived `Deserialize`.  `binaryCodec` = the
cargo feature: when on, data that does not look like JSON goes to the MessagePack reader (not
modelled: `shape`); when off it is handed to the JSON parser all the same. -/
def deserialize {α} (binaryCodec : Bool) (dec : Json → Option α) : Bytes → Except DeErr α
  | .empty => .error .emptyData
  | .json ws doc =>
    if isJson (.json ws doc) || !binaryCodec then
      match dec doc with
      | some a => .ok a
      | none => .error .shape
    else .error .shape
  | .other _ _ => .error .notJson

end Varpulis.Ckpt

/-!
# M-CKPT, part 2: component states, `checkpoint` and `restore` field by field (C19)

Each component is a configuration-free *state* (what `restore` has to bring back), a step function
taking the configuration of the freshly loaded program as an argument, `ckpt` (the Rust
`checkpoint()`), and `restore` (the Rust `restore()` applied to the component of a freshly loaded
engine).  Hash maps are association lists in a canonical order; wall-clock fields (`Instant`s:
`Run::started_at`, `Run::deadline`, `StackEntry::timestamp`, `SourceWatermark::last_event_time`)
are not part of the state: they are either never read (`StackEntry::timestamp`,
`last_event_time`) or belong to processing-time behaviour, which the property excludes.
-/
namespace Varpulis.Ckpt

/-- `persistence::subms_ns` -/
def subOf (t : Int) : Nat := (t % 1000000).toNat

/-- `persistence::timestamp_from_parts` -/
def joinTs (ms : Int) (sub : Nat) : Int := ofMs ms + sub

def emptyWC : WindowCkpt := { events := [], windowStartMs := none, lastEmitMs := none, partitions := [] }

def emptyPWC : PartWinCkpt := { events := [], windowStartMs := none, eventsSinceEmit := none, windowStartSub := 0 }

/-- what a window hands to the rest of the pipeline on one operation -/
abbrev Emit := Option (List Event)

/-! ## window.rs -/

/-- `TumblingWindow` (`duration` is configuration) -/
structure TumblingSt where
  buf : List Event
  start : Option Int
  deriving Repr, Inhabited, BEq

/-- `TumblingWindow::add_shared` -/
def TumblingSt.add (dur : Int) (w : TumblingSt) (e : Event) : TumblingSt × Emit :=
  let start := w.start.getD e.ts
  if e.ts ≥ start + dur then ({ buf := [e], start := some e.ts }, some w.buf)
  else ({ buf := w.buf ++ [e], start := some start }, none)

/-- `TumblingWindow::advance_watermark` -/
def TumblingSt.wm (dur : Int) (w : TumblingSt) (t : Int) : TumblingSt × Emit :=
  match w.start with
  | some s => if t ≥ s + dur ∧ w.buf ≠ [] then ({ buf := [], start := some t }, some w.buf) else (w, none)
  | none => (w, none)

/-- `TumblingWindow::checkpoint`: `window_start` in whole milliseconds -/
def TumblingSt.ckpt (w : TumblingSt) : WindowCkpt :=
  { emptyWC with events := w.buf.map serOfEvent, windowStartMs := w.start.map msOf }

/-- `TumblingWindow::restore` -/
def TumblingSt.restore (cp : WindowCkpt) : TumblingSt :=
  { buf := cp.events.map eventOfSer, start := cp.windowStartMs.map ofMs }

/-- no sub-millisecond timestamp in the state (guard of the sub-millisecond finding) -/
def TumblingSt.Whole (w : TumblingSt) : Bool := w.buf.all Event.whole && w.start.all wholeTs

/-- the prefix `events.iter().position(|e| e.timestamp >= cutoff)` drains -/
def dropExpired (cutoff : Int) (l : List Event) : List Event := l.dropWhile fun e => e.ts < cutoff

/-- `SlidingWindow` (`window_size`, `slide_interval` are configuration) -/
structure SlidingSt where
  buf : List Event
  lastEmit : Option Int
  deriving Repr, Inhabited, BEq

/-- `SlidingWindow::add_shared` -/
def SlidingSt.add (size slide : Int) (w : SlidingSt) (e : Event) : SlidingSt × Emit :=
  let buf := dropExpired (e.ts - size) (w.buf ++ [e])
  let emit := match w.lastEmit with
    | none => true
    | some l => decide (e.ts ≥ l + slide)
  if emit then ({ buf := buf, lastEmit := some e.ts }, some buf) else ({ buf := buf, lastEmit := w.lastEmit }, none)

/-- `SlidingWindow::advance_watermark` -/
def SlidingSt.wm (size slide : Int) (w : SlidingSt) (t : Int) : SlidingSt × Emit :=
  let buf := dropExpired (t - size) w.buf
  let emit := match w.lastEmit with
    | none => !buf.isEmpty
    | some l => decide (t ≥ l + slide) && !buf.isEmpty
  if emit then ({ buf := buf, lastEmit := some t }, some buf) else ({ buf := buf, lastEmit := w.lastEmit }, none)

def SlidingSt.ckpt (w : SlidingSt) : WindowCkpt :=
  { emptyWC with events := w.buf.map serOfEvent, lastEmitMs := w.lastEmit.map msOf }

def SlidingSt.restore (cp : WindowCkpt) : SlidingSt :=
  { buf := cp.events.map eventOfSer, lastEmit := cp.lastEmitMs.map ofMs }

def SlidingSt.Whole (w : SlidingSt) : Bool := w.buf.all Event.whole && w.lastEmit.all wholeTs

/-- `CountWindow` (`count` is configuration) -/
structure CountSt where
  buf : List Event
  deriving Repr, Inhabited, BEq

/-- `CountWindow::add_shared` -/
def CountSt.add (n : Nat) (w : CountSt) (e : Event) : CountSt × Emit :=
  let buf := w.buf ++ [e]
  if buf.length ≥ n then ({ buf := [] }, some buf) else ({ buf := buf }, none)

def CountSt.ckpt (w : CountSt) : WindowCkpt := { emptyWC with events := w.buf.map serOfEvent }

def CountSt.restore (cp : WindowCkpt) : CountSt := { buf := cp.events.map eventOfSer }

def CountSt.Whole (w : CountSt) : Bool := w.buf.all Event.whole

/-- `SlidingCountWindow` (`window_size`, `slide_size` are configuration) -/
structure SlidingCountSt where
  buf : List Event
  since : Nat
  deriving Repr, Inhabited, BEq

/-- `SlidingCountWindow::new`: the counter starts at `slide - size` (saturating), so that the first
emission is due as soon as the window is first full also when the slide exceeds the size -/
def SlidingCountSt.fresh (size slide : Nat) : SlidingCountSt := { buf := [], since := slide - size }

/-- `SlidingCountWindow::add_shared` -/
def SlidingCountSt.add (size slide : Nat) (w : SlidingCountSt) (e : Event) : SlidingCountSt × Emit :=
  let buf0 := w.buf ++ [e]
  let buf := buf0.drop (buf0.length - size)
  let since := w.since + 1
  if buf.length ≥ size ∧ since ≥ slide then ({ buf := buf, since := 0 }, some buf)
  else ({ buf := buf, since := since }, none)

/-- `SlidingCountWindow::checkpoint`: the buffer only — the slide counter is not stored -/
def SlidingCountSt.ckpt (w : SlidingCountSt) : WindowCkpt :=
  { emptyWC with events := w.buf.map serOfEvent }

/-- `SlidingCountWindow::restore`: `events_since_emit = 0` (finding `C19-sliding-count-counter-reset`;
an existing test pins this reset) -/
def SlidingCountSt.restore (cp : WindowCkpt) : SlidingCountSt :=
  { buf := cp.events.map eventOfSer, since := 0 }

/-- the counter is 0 (just emitted, or nothing added yet): the guard under which a plain sliding
count window does come back -/
def SlidingCountSt.Whole (w : SlidingCountSt) : Bool := w.buf.all Event.whole && w.since == 0

/-- `SessionWindow` (`gap` is configuration) -/
structure SessionSt where
  buf : List Event
  last : Option Int
  deriving Repr, Inhabited, BEq

/-- `SessionWindow::add_shared` -/
def SessionSt.add (gap : Int) (w : SessionSt) (e : Event) : SessionSt × Emit :=
  match w.last with
  | some l => if e.ts - l > gap then ({ buf := [e], last := some e.ts }, some w.buf)
              else ({ buf := w.buf ++ [e], last := some e.ts }, none)
  | none => ({ buf := w.buf ++ [e], last := some e.ts }, none)

/-- `SessionWindow::advance_watermark` -/
def SessionSt.wm (gap : Int) (w : SessionSt) (t : Int) : SessionSt × Emit :=
  match w.last with
  | some l => if t ≥ l + gap ∧ w.buf ≠ [] then ({ buf := [], last := none }, some w.buf) else (w, none)
  | none => (w, none)

/-- `SessionWindow::checkpoint`: `last_event_time` travels in `window_start_ms` -/
def SessionSt.ckpt (w : SessionSt) : WindowCkpt :=
  { emptyWC with events := w.buf.map serOfEvent, windowStartMs := w.last.map msOf }

def SessionSt.restore (cp : WindowCkpt) : SessionSt :=
  { buf := cp.events.map eventOfSer, last := cp.windowStartMs.map ofMs }

def SessionSt.Whole (w : SessionSt) : Bool := w.buf.all Event.whole && w.last.all wholeTs

/-! ### partitioned windows: one sub-window per key (`FxHashMap<String, W>` as an association list) -/

/-- replace the entry of `k`, or append it -/
def upsert {σ} (k : String) (v : σ) : List (String × σ) → List (String × σ)
  | [] => [(k, v)]
  | (k', v') :: r => if k' = k then (k, v) :: r else (k', v') :: upsert k v r

/-- `Partitioned*Window::add_shared` / `Partitioned*State::add`: `pk` is
`event.get(key).map(to_partition_key).unwrap_or("default")` -/
def partAdd {σ} (pk : Event → String) (fresh : σ) (add : σ → Event → σ × Emit)
    (wins : List (String × σ)) (e : Event) : List (String × σ) × Emit :=
  let k := pk e
  let r := add ((wins.lookup k).getD fresh) e
  (upsert k r.1 wins, r.2)

/-- `PartitionedTumblingWindow::advance_watermark` / `PartitionedSlidingWindow::advance_watermark`:
every partition is advanced, the emissions are concatenated, no partition is removed -/
def partWmKeep {σ} (wm : σ → Int → σ × Emit) (wins : List (String × σ)) (t : Int) : List (String × σ) × List Event :=
  (wins.map fun kv => (kv.1, (wm kv.2 t).1), (wins.map fun kv => ((wm kv.2 t).2).getD []).flatten)

/-- `PartitionedSessionWindow::advance_watermark`: closed sessions are removed from the map -/
def partWmDrop {σ} (wm : σ → Int → σ × Emit) (wins : List (String × σ)) (t : Int) : List (String × σ) × List Event :=
  ((wins.filter fun kv => ((wm kv.2 t).2).isNone).map fun kv => (kv.1, (wm kv.2 t).1),
   (wins.map fun kv => ((wm kv.2 t).2).getD []).flatten)

/-- a partition of `PartitionedTumblingWindow::checkpoint`: the sub-millisecond part of
`window_start` is kept (`window_start_subms_ns`) -/
def tumblingPwc (w : TumblingSt) : PartWinCkpt :=
  { emptyPWC with events := w.buf.map serOfEvent, windowStartMs := w.start.map msOf,
                  windowStartSub := (w.start.map subOf).getD 0 }

def tumblingOfPwc (p : PartWinCkpt) : TumblingSt :=
  { buf := p.events.map eventOfSer, start := p.windowStartMs.map fun ms => joinTs ms p.windowStartSub }

/-- `PartitionedSlidingWindow::checkpoint` stores `last_emit` in the `window_start_ms` slot … -/
def slidingPwc (w : SlidingSt) : PartWinCkpt :=
  { emptyPWC with events := w.buf.map serOfEvent, windowStartMs := w.lastEmit.map msOf,
                  windowStartSub := (w.lastEmit.map subOf).getD 0 }

/-- … and `PartitionedSlidingWindow::restore` reads it back from there -/
def slidingOfPwc (p : PartWinCkpt) : SlidingSt :=
  { buf := p.events.map eventOfSer, lastEmit := p.windowStartMs.map fun ms => joinTs ms p.windowStartSub }

/-- `PartitionedSessionWindow::checkpoint` / `restore` (`last_event_time` in `window_start_ms`) -/
def sessionPwc (w : SessionSt) : PartWinCkpt :=
  { emptyPWC with events := w.buf.map serOfEvent, windowStartMs := w.last.map msOf,
                  windowStartSub := (w.last.map subOf).getD 0 }

def sessionOfPwc (p : PartWinCkpt) : SessionSt :=
  { buf := p.events.map eventOfSer, last := p.windowStartMs.map fun ms => joinTs ms p.windowStartSub }

/-- `create_checkpoint` / `restore_checkpoint`, `RuntimeOp::PartitionedWindow` (count windows) -/
def countPwc (w : CountSt) : PartWinCkpt := { emptyPWC with events := w.buf.map serOfEvent }

def countOfPwc (p : PartWinCkpt) : CountSt := { buf := p.events.map eventOfSer }

/-- `create_checkpoint`, `RuntimeOp::PartitionedSlidingCountWindow`: the slide counter is read
through `SlidingCountWindow::events_since_emit()` … -/
def slidingCountPwc (w : SlidingCountSt) : PartWinCkpt :=
  { emptyPWC with events := w.buf.map serOfEvent, eventsSinceEmit := some w.since }

/-- … and `restore_checkpoint` puts it back with `set_events_since_emit` after `restore` -/
def slidingCountOfPwc (p : PartWinCkpt) : SlidingCountSt :=
  { buf := p.events.map eventOfSer, since := p.eventsSinceEmit.getD 0 }

/-- `Partitioned*Window::checkpoint` and the two `Partitioned*State` arms of `create_checkpoint` -/
def partCkpt {σ} (ck : σ → PartWinCkpt) (wins : List (String × σ)) : WindowCkpt :=
  { emptyWC with partitions := wins.map fun kv => (kv.1, ck kv.2) }

/-- `Partitioned*Window::restore` (`windows.clear()`, one insert per checkpointed partition) and
`restore_checkpoint` for the two `Partitioned*State` ops (fresh engine: the map is empty) -/
def partRestore {σ} (rs : PartWinCkpt → σ) (cp : WindowCkpt) : List (String × σ) :=
  cp.partitions.map fun kv => (kv.1, rs kv.2)

/-- the window operator of one stream (`WindowType` and the two `Partitioned*State` runtime ops) -/
inductive WinSt where
  | tumbling (w : TumblingSt)
  | sliding (w : SlidingSt)
  | count (w : CountSt)
  | slidingCount (w : SlidingCountSt)
  | session (w : SessionSt)
  | pTumbling (ws : List (String × TumblingSt))
  | pSliding (ws : List (String × SlidingSt))
  | pSession (ws : List (String × SessionSt))
  | pCount (ws : List (String × CountSt))
  | pSlidingCount (ws : List (String × SlidingCountSt))
  deriving Repr, Inhabited, BEq

/-- the same operator in a freshly loaded engine, as far as `restore` looks at it: only its kind
matters, every field of the state is overwritten (`windows.clear()` for the partitioned forms;
the two `Partitioned*State` maps of a freshly loaded engine are empty) -/
def WinSt.fresh : WinSt → WinSt
  | .tumbling _ => .tumbling { buf := [], start := none }
  | .sliding _ => .sliding { buf := [], lastEmit := none }
  | .count _ => .count { buf := [] }
  | .slidingCount _ => .slidingCount { buf := [], since := 0 }
  | .session _ => .session { buf := [], last := none }
  | .pTumbling _ => .pTumbling []
  | .pSliding _ => .pSliding []
  | .pSession _ => .pSession []
  | .pCount _ => .pCount []
  | .pSlidingCount _ => .pSlidingCount []

/-- `Engine::create_checkpoint`, the `RuntimeOp::Window | PartitionedWindow | PartitionedSlidingCountWindow` arms -/
def WinSt.ckpt : WinSt → WindowCkpt
  | .tumbling w => w.ckpt
  | .sliding w => w.ckpt
  | .count w => w.ckpt
  | .slidingCount w => w.ckpt
  | .session w => w.ckpt
  | .pTumbling ws => partCkpt tumblingPwc ws
  | .pSliding ws => partCkpt slidingPwc ws
  | .pSession ws => partCkpt sessionPwc ws
  | .pCount ws => partCkpt countPwc ws
  | .pSlidingCount ws => partCkpt slidingCountPwc ws

/-- `Engine::restore_checkpoint`, window arms: the operator of the freshly loaded engine decides
which `restore` runs -/
def WinSt.restore (fresh : WinSt) (cp : WindowCkpt) : WinSt :=
  match fresh with
  | .tumbling _ => .tumbling (TumblingSt.restore cp)
  | .sliding _ => .sliding (SlidingSt.restore cp)
  | .count _ => .count (CountSt.restore cp)
  | .slidingCount _ => .slidingCount (SlidingCountSt.restore cp)
  | .session _ => .session (SessionSt.restore cp)
  | .pTumbling _ => .pTumbling (partRestore tumblingOfPwc cp)
  | .pSliding _ => .pSliding (partRestore slidingOfPwc cp)
  | .pSession _ => .pSession (partRestore sessionOfPwc cp)
  | .pCount _ => .pCount (partRestore countOfPwc cp)
  | .pSlidingCount _ => .pSlidingCount (partRestore slidingCountOfPwc cp)

/-- the guard under which a window operator comes back from a checkpoint: no buffered event
carries a sub-millisecond timestamp (finding `C20-submillisecond-event-timestamps`; for the plain
time windows this includes their own start / last-emit time, which the partitioned forms keep
exactly), and a plain sliding count window has its slide counter at 0 (finding
`C19-sliding-count-counter-reset`) -/
def WinSt.Restorable : WinSt → Bool
  | .tumbling w => w.Whole
  | .sliding w => w.Whole
  | .count w => w.Whole
  | .slidingCount w => w.Whole
  | .session w => w.Whole
  | .pTumbling ws => ws.all fun kv => kv.2.buf.all Event.whole
  | .pSliding ws => ws.all fun kv => kv.2.buf.all Event.whole
  | .pSession ws => ws.all fun kv => kv.2.buf.all Event.whole
  | .pCount ws => ws.all fun kv => kv.2.buf.all Event.whole
  | .pSlidingCount ws => ws.all fun kv => kv.2.buf.all Event.whole

/-- the configuration of a window operator, from the program text -/
structure WinCfg where
  dur : Int := 0      -- tumbling duration / sliding size / session gap (ns)
  slide : Int := 0    -- sliding interval (ns)
  n : Nat := 0        -- count / sliding count size
  m : Nat := 0        -- sliding count slide
  deriving Repr, Inhabited

inductive WinOp where
  | add (e : Event)
  | wm (t : Int)
  deriving Repr, Inhabited

/-- one operation on the window operator of a stream: `execute_pipeline`'s window arm for `add`,
`apply_watermark_to_windows` for `wm` (count based windows ignore watermarks) -/
def WinSt.step (c : WinCfg) (pk : Event → String) : WinSt → WinOp → WinSt × List Event
  | .tumbling w, .add e => let r := w.add c.dur e; (.tumbling r.1, r.2.getD [])
  | .tumbling w, .wm t => let r := w.wm c.dur t; (.tumbling r.1, r.2.getD [])
  | .sliding w, .add e => let r := w.add c.dur c.slide e; (.sliding r.1, r.2.getD [])
  | .sliding w, .wm t => let r := w.wm c.dur c.slide t; (.sliding r.1, r.2.getD [])
  | .count w, .add e => let r := w.add c.n e; (.count r.1, r.2.getD [])
  | .count w, .wm _ => (.count w, [])
  | .slidingCount w, .add e => let r := w.add c.n c.m e; (.slidingCount r.1, r.2.getD [])
  | .slidingCount w, .wm _ => (.slidingCount w, [])
  | .session w, .add e => let r := w.add c.dur e; (.session r.1, r.2.getD [])
  | .session w, .wm t => let r := w.wm c.dur t; (.session r.1, r.2.getD [])
  | .pTumbling ws, .add e => let r := partAdd pk { buf := [], start := none } (TumblingSt.add c.dur) ws e; (.pTumbling r.1, r.2.getD [])
  | .pTumbling ws, .wm t => let r := partWmKeep (TumblingSt.wm c.dur) ws t; (.pTumbling r.1, r.2)
  | .pSliding ws, .add e => let r := partAdd pk { buf := [], lastEmit := none } (SlidingSt.add c.dur c.slide) ws e; (.pSliding r.1, r.2.getD [])
  | .pSliding ws, .wm t => let r := partWmKeep (SlidingSt.wm c.dur c.slide) ws t; (.pSliding r.1, r.2)
  | .pSession ws, .add e => let r := partAdd pk { buf := [], last := none } (SessionSt.add c.dur) ws e; (.pSession r.1, r.2.getD [])
  | .pSession ws, .wm t => let r := partWmDrop (SessionSt.wm c.dur) ws t; (.pSession r.1, r.2)
  | .pCount ws, .add e => let r := partAdd pk { buf := [] } (CountSt.add c.n) ws e; (.pCount r.1, r.2.getD [])
  | .pCount ws, .wm _ => (.pCount ws, [])
  | .pSlidingCount ws, .add e => let r := partAdd pk (SlidingCountSt.fresh c.n c.m) (SlidingCountSt.add c.n c.m) ws e; (.pSlidingCount r.1, r.2.getD [])
  | .pSlidingCount ws, .wm _ => (.pSlidingCount ws, [])

/-- outputs of a whole continuation -/
def runOps {σ ι ο} (step : σ → ι → σ × ο) : σ → List ι → List ο
  | _, [] => []
  | s, i :: is => (step s i).2 :: runOps step (step s i).1 is

end Varpulis.Ckpt

namespace Varpulis.Ckpt

/-! ## sase.rs: runs -/

/-- `KleeneCapture`.  Predicates are not data in the model: `deferred` is the id of the NFA
state whose `postponed_predicate` was copied into the capture.  `needs_zdd` is not a separate
field: the code sets it together with `deferred_predicate` and never changes either afterwards,
so `needs_zdd = deferred.isSome`; the ZDD handle is a function of the number of events. -/
structure KC where
  events : List Event
  aliases : List (Option String)
  deferred : Option Nat
  deriving Repr, Inhabited, BEq

/-- `NegationConstraint` (`deadline: Instant` is wall-clock and not part of the state) -/
structure Neg where
  forbidden : String
  pred : Option Nat
  nextState : Nat
  deadline : Option Int
  deriving Repr, Inhabited, BEq

/-- `Run` -/
structure Run where
  currentState : Nat
  stack : List (Event × Option String)
  captured : List (String × Event)
  startedAt : Option Int
  deadline : Option Int
  partitionKey : Option Val
  invalidated : Bool
  pendingNegs : List Neg
  /-- `AndState`: (branch index, event), listed by branch index -/
  andState : Option (List (Nat × Event))
  kleene : Option KC
  deriving Repr, Inhabited, BEq

/-- `Run::checkpoint` -/
def Run.ckpt (r : Run) : RunCkpt :=
  { currentState := r.currentState,
    stack := r.stack.map fun p => { event := serOfEvent p.1, alias := p.2 },
    captured := r.captured.map fun p => (p.1, serOfEvent p.2),
    startedAtMs := r.startedAt.map msOf, startedAtSub := (r.startedAt.map subOf).getD 0,
    deadlineMs := r.deadline.map msOf, deadlineSub := (r.deadline.map subOf).getD 0,
    partitionKey := r.partitionKey.map v2s, invalidated := r.invalidated,
    pendingNegationCount := r.pendingNegs.length,
    kleeneEvents := r.kleene.map fun kc => kc.events.map serOfEvent,
    andBranches := r.andState.map fun l => l.map fun p => (p.1, serOfEvent p.2) }

/-- `Run::from_checkpoint`: pending negations are dropped (only their number was stored), the
Kleene capture comes back with its events only: no aliases, no deferred predicate -/
def Run.fromCkpt (c : RunCkpt) : Run :=
  { currentState := c.currentState,
    stack := c.stack.map fun s => (eventOfSer s.event, s.alias),
    captured := c.captured.map fun p => (p.1, eventOfSer p.2),
    startedAt := c.startedAtMs.map fun ms => joinTs ms c.startedAtSub,
    deadline := c.deadlineMs.map fun ms => joinTs ms c.deadlineSub,
    partitionKey := c.partitionKey.map s2v, invalidated := c.invalidated,
    pendingNegs := [],
    andState := c.andBranches.map fun l => l.map fun p => (p.1, eventOfSer p.2),
    kleene := c.kleeneEvents.map fun evs =>
      { events := evs.map eventOfSer, aliases := evs.map fun _ => none, deferred := none } }

/-- `Run::from_checkpoint` before the repair of the AND progress -/
def Run.fromCkptOld (c : RunCkpt) : Run := { Run.fromCkpt c with andState := none }

/-- what the rest of `sase.rs` can see of a Kleene capture: the aliases are read only by
`iter_combinations` / `get_combination_captured`, which run only under a deferred predicate
(`complete_run` → `enumerate_with_filter`) -/
def KC.view (kc : KC) : KC := if kc.deferred.isSome then kc else { kc with aliases := [] }

def Run.view (r : Run) : Run := { r with kleene := r.kleene.map KC.view }

/-- every event the run holds has a whole-millisecond timestamp -/
def Run.Whole (r : Run) : Bool :=
  r.stack.all (fun p => p.1.whole) && r.captured.all (fun p => p.2.whole)
    && (match r.andState with | some l => l.all (fun p => p.2.whole) | none => true)
    && (match r.kleene with | some kc => kc.events.all Event.whole | none => true)

/-- the guard under which a run comes back: no pending negation, no deferred Kleene predicate
(finding `C19-kleene-deferred`), no sub-millisecond event (finding `C20-submillisecond-event-timestamps`) -/
def Run.Restorable (r : Run) : Bool :=
  r.pendingNegs.isEmpty && (match r.kleene with | some kc => kc.deferred.isNone | none => true) && r.Whole

/-- `complete_run`: with a deferred predicate the combinations are enumerated
(`CompleteMulti`), otherwise there is exactly one match -/
inductive Completion where
  | single
  | enumerate (candidates : Nat)
  deriving Repr, DecidableEq

def Run.complete (r : Run) : Completion :=
  match r.kleene with
  | some kc => if kc.deferred.isSome then .enumerate (2 ^ kc.events.length - 1) else .single
  | none => .single

/-- `advance_run_shared`, first loop: does the event violate a pending negation?
(`predOk` evaluates the constraint's predicate; `none` = no predicate = always) -/
def Run.violates (predOk : Nat → Event → Bool) (r : Run) (e : Event) : Bool :=
  r.pendingNegs.any fun n => n.forbidden == e.etype && (match n.pred with | some p => predOk p e | none => true)

/-- `advance_and_state`: which branch does the event complete (first not yet completed branch of
its type)? `branches` = `AndConfig::branches` as event types -/
def Run.andNext (branches : List String) (r : Run) (e : Event) : Option Nat :=
  let done := (r.andState.getD []).map (·.1)
  (List.range branches.length).find? fun i => !done.contains i && branches[i]? == some e.etype

/-- `SaseEngine` as far as `checkpoint`/`restore` touch it -/
structure SaseSt where
  runs : List Run
  partitioned : List (String × List Run)
  watermark : Option Int
  maxTimestamp : Option Int
  created : Nat
  completed : Nat
  dropped : Nat
  evicted : Nat
  deriving Repr, Inhabited, BEq

/-- `SaseEngine::checkpoint` -/
def SaseSt.ckpt (s : SaseSt) : SaseCkpt :=
  { activeRuns := s.runs.map Run.ckpt,
    partitionedRuns := s.partitioned.map fun kv => (kv.1, kv.2.map Run.ckpt),
    watermarkMs := s.watermark.map msOf, watermarkSub := (s.watermark.map subOf).getD 0,
    maxTimestampMs := s.maxTimestamp.map msOf, maxTimestampSub := (s.maxTimestamp.map subOf).getD 0,
    created := s.created, completed := s.completed, dropped := s.dropped, evicted := s.evicted }

/-- `SaseEngine::restore` -/
def SaseSt.restore (c : SaseCkpt) : SaseSt :=
  { runs := c.activeRuns.map Run.fromCkpt,
    partitioned := c.partitionedRuns.map fun kv => (kv.1, kv.2.map Run.fromCkpt),
    watermark := c.watermarkMs.map fun ms => joinTs ms c.watermarkSub,
    maxTimestamp := c.maxTimestampMs.map fun ms => joinTs ms c.maxTimestampSub,
    created := c.created, completed := c.completed, dropped := c.dropped, evicted := c.evicted }

def SaseSt.view (s : SaseSt) : SaseSt :=
  { s with runs := s.runs.map Run.view, partitioned := s.partitioned.map fun kv => (kv.1, kv.2.map Run.view) }

def SaseSt.Restorable (s : SaseSt) : Bool :=
  s.runs.all Run.Restorable && s.partitioned.all fun kv => kv.2.all Run.Restorable

/-! ## join.rs -/

/-- one entry of `expiry_queue`: (expiry time, source, key) -/
structure Expiry where
  t : Int
  source : String
  key : String
  deriving Repr, Inhabited, BEq, DecidableEq

/-- the order of `BinaryHeap<Reverse<(DateTime, String, String)>>`: lexicographic -/
def Expiry.le (a b : Expiry) : Bool :=
  a.t < b.t || (a.t == b.t && (a.source < b.source || (a.source == b.source && a.key ≤ b.key)))

/-- `BinaryHeap::push` on the heap represented by its sorted listing (what `pop` would yield) -/
def heapPush (x : Expiry) : List Expiry → List Expiry
  | [] => [x]
  | y :: r => if x.le y then x :: y :: r else y :: heapPush x r

def heapOfList (l : List Expiry) : List Expiry := l.foldr heapPush []

def HeapSorted : List Expiry → Prop
  | [] => True
  | [_] => True
  | a :: b :: r => a.le b = true ∧ HeapSorted (b :: r)

/-- `JoinBuffer` (sources, join keys, window, per-key cap and GC interval are configuration) -/
structure JoinSt where
  buffers : List (String × List (String × List (Int × Event)))
  queue : List Expiry
  lastGc : Option Int
  deriving Repr, Inhabited, BEq

/-- configuration of a join, as `JoinBuffer::checkpoint` copies it into the checkpoint -/
structure JoinCfg where
  sources : List String
  joinKeys : List (String × String)
  windowMs : Int
  deriving Repr, Inhabited

/-- `JoinBuffer::checkpoint` -/
def JoinSt.ckpt (c : JoinCfg) (j : JoinSt) : JoinCkpt :=
  { buffers := j.buffers.map fun sb => (sb.1, sb.2.map fun kb => (kb.1, kb.2.map fun p => (msOf p.1, serOfEvent p.2))),
    sources := c.sources, joinKeys := c.joinKeys, windowMs := c.windowMs,
    lastGcMs := j.lastGc.map msOf, lastGcSub := (j.lastGc.map subOf).getD 0,
    expiryQueue := some (j.queue.map fun x => { ms := msOf x.t, sub := subOf x.t, source := x.source, key := x.key }) }

/-- `JoinBuffer::restore`: the pair's timestamp is taken from the restored event; the queue is
pushed entry by entry (or rebuilt from the events for a checkpoint without queue, `windowNs` =
`self.window_duration`) -/
def JoinSt.restore (windowNs : Int) (c : JoinCkpt) : JoinSt :=
  let buffers := c.buffers.map fun sb => (sb.1, sb.2.map fun kb => (kb.1, kb.2.map fun p =>
    ((eventOfSer p.2).ts, eventOfSer p.2)))
  { buffers := buffers,
    queue := match c.expiryQueue with
      | some q => heapOfList (q.map fun x => { t := joinTs x.ms x.sub, source := x.source, key := x.key })
      | none => heapOfList ((buffers.map fun sb => (sb.2.map fun kb => kb.2.map fun p =>
          ({ t := p.1 + windowNs, source := sb.1, key := kb.1 } : Expiry)).flatten).flatten),
    lastGc := c.lastGcMs.map fun ms => joinTs ms c.lastGcSub }

/-- invariants of every reachable `JoinBuffer`: a buffered pair carries the event's own timestamp
(`add_event` pushes `(event.timestamp, event)`), and the heap is a heap -/
def JoinSt.WF (j : JoinSt) : Prop :=
  (∀ sb ∈ j.buffers, ∀ kb ∈ sb.2, ∀ p ∈ kb.2, p.1 = p.2.ts) ∧ HeapSorted j.queue

/-- no buffered event carries a sub-millisecond timestamp (guard of the sub-millisecond finding) -/
def JoinSt.Whole (j : JoinSt) : Prop := ∀ sb ∈ j.buffers, ∀ kb ∈ sb.2, ∀ p ∈ kb.2, p.2.whole = true

/-! ## distinct, limit, variables, watermarks (engine/mod.rs, watermark.rs) -/

/-- `LruCache::insert` on the key listing, least recently used first -/
def lruInsert (l : List String) (k : String) : List String := l.erase k ++ [k]

/-- `create_checkpoint`, `RuntimeOp::Distinct` arm: `seen.iter().rev()` — most recent first -/
def distinctCkpt (seen : List String) : List String := seen.reverse

/-- `restore_checkpoint`: `seen.clear()`, then the keys are inserted from the back -/
def distinctRestore (keys : List String) : List String := keys.reverse.foldl lruInsert []

/-- `RuntimeOp::Distinct` on one event: `seen.insert(key, ()).is_none()` — the event passes iff its
key was not in the LRU; either way the key becomes the most recent one (the capacity of 100 000
keys is not modelled) -/
def distinctStep (seen : List String) (key : String) : List String × Bool :=
  (lruInsert seen key, !seen.contains key)

/-- `RuntimeOp::Limit` on a batch of `n` events: `truncate(max - count)`, then count what passed -/
def limitStep (l : Nat × Nat) (n : Nat) : (Nat × Nat) × Nat :=
  let pass := min n (l.1 - l.2)
  ((l.1, l.2 + pass), pass)

/-- `PerSourceWatermarkTracker` + the engine's `last_applied_watermark`
(`max_out_of_orderness` in whole milliseconds: it comes from the program text) -/
structure SrcWm where
  watermark : Option Int
  maxTs : Option Int
  oooMs : Int
  deriving Repr, Inhabited, BEq

structure WmSt where
  sources : List (String × SrcWm)
  effective : Option Int
  lastApplied : Option Int
  deriving Repr, Inhabited, BEq

def SrcWm.ckpt (s : SrcWm) : SrcWmCkpt :=
  { watermarkMs := s.watermark.map msOf, watermarkSub := (s.watermark.map subOf).getD 0,
    maxTimestampMs := s.maxTs.map msOf, maxTimestampSub := (s.maxTs.map subOf).getD 0, oooMs := s.oooMs }

def SrcWm.ofCkpt (c : SrcWmCkpt) : SrcWm :=
  { watermark := c.watermarkMs.map fun ms => joinTs ms c.watermarkSub,
    maxTs := c.maxTimestampMs.map fun ms => joinTs ms c.maxTimestampSub, oooMs := c.oooMs }

/-- `PerSourceWatermarkTracker::checkpoint`, completed by `create_checkpoint` -/
def WmSt.ckpt (w : WmSt) : WmCkpt :=
  { sources := w.sources.map fun kv => (kv.1, kv.2.ckpt),
    effectiveMs := w.effective.map msOf, effectiveSub := (w.effective.map subOf).getD 0,
    lastAppliedMs := w.lastApplied.map msOf, lastAppliedSub := (w.lastApplied.map subOf).getD 0 }

/-- `PerSourceWatermarkTracker::restore` into the tracker of a freshly loaded engine (`fresh`: the
sources the program registers, without any watermark yet) and `restore_checkpoint`'s
`last_applied_watermark` -/
def WmSt.restore (fresh : List (String × SrcWm)) (c : WmCkpt) : WmSt :=
  -- `sources.entry(name).or_insert_with(..)` then all three fields overwritten: every checkpointed
  -- source gets its checkpointed values, a registered source the checkpoint does not mention stays
  -- fresh.  The listing order of a hash map is not observable (the tracker only looks sources up and
  -- takes the minimum of their watermarks); the model lists the checkpointed sources first.
  { sources := (c.sources.map fun kv => (kv.1, SrcWm.ofCkpt kv.2))
      ++ fresh.filter (fun kv => !(c.sources.map (·.1)).contains kv.1),
    effective := c.effectiveMs.map fun ms => joinTs ms c.effectiveSub,
    lastApplied := match c.lastAppliedMs with
      | some ms => some (joinTs ms c.lastAppliedSub)
      | none => c.effectiveMs.map fun ms => joinTs ms c.effectiveSub }

/-- `restore_checkpoint` before the repair: the applied watermark is taken to be the effective one -/
def WmSt.restoreOld (fresh : List (String × SrcWm)) (c : WmCkpt) : WmSt :=
  { WmSt.restore fresh c with lastApplied := c.effectiveMs.map fun ms => joinTs ms c.effectiveSub }

/-- `advance_external_watermark`: is the new effective watermark applied to the windows? -/
def WmSt.applies (w : WmSt) (newEffective : Int) : Bool :=
  match w.lastApplied with
  | none => true
  | some l => decide (newEffective > l)

/-! ## the engine -/

/-- the stateful parts of one `StreamDefinition` -/
structure StreamSt where
  win : Option WinSt
  sase : Option SaseSt
  join : Option JoinSt
  distinct : Option (List String)
  limit : Option (Nat × Nat)
  deriving Repr, Inhabited, BEq

/-- the part of the program that `restore` reads from the freshly loaded engine -/
structure StreamCfg where
  join : JoinCfg
  windowNs : Int
  deriving Repr, Inhabited

/-- `Engine` as far as `create_checkpoint`/`restore_checkpoint` touch it; `streams` listed by name -/
structure EngineSt where
  streams : List (String × StreamSt)
  variables : List (String × Val)
  processed : Nat
  emitted : Nat
  wm : Option WmSt
  deriving Repr, Inhabited, BEq

/-- `Engine::create_checkpoint` (`cfg n` = configuration of stream `n`) -/
def EngineSt.ckpt (cfg : String → StreamCfg) (s : EngineSt) : EngineCkpt :=
  { version := 1,
    windowStates := s.streams.filterMap fun kv => kv.2.win.map fun w => (kv.1, w.ckpt),
    saseStates := s.streams.filterMap fun kv => kv.2.sase.map fun x => (kv.1, x.ckpt),
    joinStates := s.streams.filterMap fun kv => kv.2.join.map fun j => (kv.1, j.ckpt (cfg kv.1).join),
    variables := s.variables.map fun kv => (kv.1, v2s kv.2),
    eventsProcessed := s.processed, outputEventsEmitted := s.emitted,
    watermarkState := s.wm.map WmSt.ckpt,
    distinctStates := s.streams.filterMap fun kv => kv.2.distinct.map fun d => (kv.1, distinctCkpt d),
    limitStates := s.streams.filterMap fun kv => kv.2.limit.map fun l => (kv.1, l) }

/-- `restore_checkpoint` for one stream of the freshly loaded engine: every part that the
checkpoint has an entry for (by stream name) is overwritten, the others stay fresh -/
def StreamSt.restore (cfg : StreamCfg) (c : EngineCkpt) (name : String) (fresh : StreamSt) : StreamSt :=
  { win := match fresh.win, c.windowStates.lookup name with
      | some fw, some cp => some (fw.restore cp)
      | fw, _ => fw,
    sase := match fresh.sase, c.saseStates.lookup name with
      | some _, some cp => some (SaseSt.restore cp)
      | fs, _ => fs,
    join := match fresh.join, c.joinStates.lookup name with
      | some _, some cp => some (JoinSt.restore cfg.windowNs cp)
      | fj, _ => fj,
    distinct := match fresh.distinct, c.distinctStates.lookup name with
      | some _, some keys => some (distinctRestore keys)
      | fd, _ => fd,
    limit := match fresh.limit, c.limitStates.lookup name with
      | some _, some l => some l
      | fl, _ => fl }

/-- `Engine::restore_checkpoint` applied to a freshly loaded engine -/
def EngineSt.restore (cfg : String → StreamCfg) (fresh : EngineSt) (c : EngineCkpt) : EngineSt :=
  { streams := fresh.streams.map fun kv => (kv.1, StreamSt.restore (cfg kv.1) c kv.1 kv.2),
    variables := c.variables.foldl (fun acc kv => upsert kv.1 (s2v kv.2) acc) fresh.variables,
    processed := c.eventsProcessed, emitted := c.outputEventsEmitted,
    wm := match c.watermarkState with
      | some wc => some (WmSt.restore ((fresh.wm.map (·.sources)).getD []) wc)
      | none => fresh.wm }

end Varpulis.Ckpt

namespace Varpulis.Ckpt

/-! ## the freshly loaded engine, and what of an engine state is observable -/

def SaseSt.empty : SaseSt :=
  { runs := [], partitioned := [], watermark := none, maxTimestamp := none, created := 0, completed := 0,
    dropped := 0, evicted := 0 }

/-- the same stream definition after `Engine::load` of the same program -/
def StreamSt.fresh (s : StreamSt) : StreamSt :=
  { win := s.win.map WinSt.fresh, sase := s.sase.map fun _ => SaseSt.empty,
    join := s.join.map fun _ => { buffers := [], queue := [], lastGc := none },
    distinct := s.distinct.map fun _ => [], limit := s.limit.map fun l => (l.1, 0) }

/-- the engine after `Engine::load` of the same program: `vars0` = the variables the program
declares with their initial values, `src0` = the watermark sources it registers -/
def EngineSt.fresh (s : EngineSt) (vars0 : List (String × Val)) (src0 : List (String × SrcWm)) : EngineSt :=
  { streams := s.streams.map fun kv => (kv.1, kv.2.fresh), variables := vars0, processed := 0, emitted := 0,
    wm := s.wm.map fun _ => { sources := src0, effective := none, lastApplied := none } }

def StreamSt.view (s : StreamSt) : StreamSt := { s with sase := s.sase.map SaseSt.view }

/-- two engine states that no operation can tell apart: equal stream states up to the unread
Kleene aliases (`Run.view`), the same variable and watermark-source *maps* (hash maps: compared by
lookup), equal counters -/
structure EngineSt.Equiv (a b : EngineSt) : Prop where
  streams : (a.streams.map fun kv => (kv.1, kv.2.view)) = (b.streams.map fun kv => (kv.1, kv.2.view))
  variables : ∀ k, a.variables.lookup k = b.variables.lookup k
  processed : a.processed = b.processed
  emitted : a.emitted = b.emitted
  wm : match a.wm, b.wm with
    | some x, some y => (∀ k, x.sources.lookup k = y.sources.lookup k) ∧ x.effective = y.effective ∧ x.lastApplied = y.lastApplied
    | none, none => True
    | _, _ => False

/-- what has to hold of an engine state for `restore ∘ checkpoint` to give it back: the structural
invariants of the hash maps and buffers (they hold of every reachable state) and — the two
unrepaired losses — no pending negation and no deferred Kleene predicate in any run -/
structure EngineSt.Restorable (s : EngineSt) (vars0 : List (String × Val)) (src0 : List (String × SrcWm)) : Prop where
  names : (s.streams.map (·.1)).Nodup
  /-- findings `C20-submillisecond-event-timestamps` / `C19-sliding-count-counter-reset` -/
  windows : ∀ kv ∈ s.streams, ∀ w, kv.2.win = some w → w.Restorable = true
  joinWhole : ∀ kv ∈ s.streams, ∀ j, kv.2.join = some j → j.Whole
  sase : ∀ kv ∈ s.streams, ∀ x, kv.2.sase = some x → x.Restorable = true
  join : ∀ kv ∈ s.streams, ∀ j, kv.2.join = some j → j.WF
  distinct : ∀ kv ∈ s.streams, ∀ d, kv.2.distinct = some d → d.Nodup
  varNames : (s.variables.map (·.1)).Nodup
  vars0 : ∀ k, s.variables.lookup k = none → vars0.lookup k = none
  srcNames : ∀ w, s.wm = some w → (w.sources.map (·.1)).Nodup
  src0 : ∀ w, s.wm = some w → ∀ k, w.sources.lookup k = none → src0.lookup k = none
  /-- the engine records an applied watermark as soon as the tracker has an effective one -/
  applied : ∀ w, s.wm = some w → w.lastApplied = none → w.effective = none

end Varpulis.Ckpt

namespace Varpulis.Ckpt

/-! ## watermark.rs: the step functions of the tracker (for the component-level correspondence) -/

/-- `recompute_effective`: the minimum over the sources that have a watermark; untouched when no
source has one; `None` when there is no source at all -/
def WmSt.recompute (w : WmSt) : WmSt :=
  if w.sources.isEmpty then { w with effective := none }
  else match w.sources.filterMap (·.2.watermark) with
    | [] => w
    | x :: r => { w with effective := some (r.foldl min x) }

/-- `observe_event` (an unknown source registers itself with zero out-of-orderness) -/
def WmSt.observe (w : WmSt) (src : String) (ts : Int) : WmSt :=
  let sw : SrcWm := (w.sources.lookup src).getD { watermark := none, maxTs := none, oooMs := 0 }
  let updated : Bool := match sw.maxTs with
    | some m => decide (ts > m)
    | none => true
  let sw' : SrcWm :=
    if updated then
      let nw := ts - sw.oooMs * 1000000
      { sw with maxTs := some ts,
                watermark := match sw.watermark with
                  | some x => if nw > x then some nw else some x
                  | none => some nw }
    else sw
  ({ w with sources := upsert src sw' w.sources }).recompute

/-- `advance_source_watermark` (ignored for an unknown source) -/
def WmSt.advance (w : WmSt) (src : String) (t : Int) : WmSt :=
  match w.sources.lookup src with
  | none => w
  | some sw =>
    let sw' : SrcWm := match sw.watermark with
      | some x => if t > x then { sw with watermark := some t } else sw
      | none => { sw with watermark := some t }
    ({ w with sources := upsert src sw' w.sources }).recompute

end Varpulis.Ckpt

/-! ## concrete states used by the witness theorems and non-vacuity examples of Props/C19 -/
namespace Varpulis.Ckpt.Witness
open Varpulis.Ckpt

def ev (id : Int) : Event := { etype := "T", ts := id * 1000000000, data := [("id", .int id)] }

def bEv : Event := { etype := "B", ts := 5000000, data := [] }

/-- a run in the middle of `A -> all B -> C` (no deferred predicate) -/
def midRun : Run :=
  { currentState := 2, stack := [(bEv, some "b")], captured := [("b", bEv)], startedAt := none, deadline := none,
    partitionKey := none, invalidated := false, pendingNegs := [], andState := none,
    kleene := some { events := [bEv], aliases := [some "b"], deferred := none } }

end Varpulis.Ckpt.Witness

namespace Varpulis.Ckpt

/-- the tracker's restore before the repair of the millisecond truncation (`a716ea8`): watermark and
maximum timestamp come back in whole milliseconds -/
def SrcWm.ofCkptOld (c : SrcWmCkpt) : SrcWm :=
  { watermark := c.watermarkMs.map ofMs, maxTs := c.maxTimestampMs.map ofMs, oooMs := c.oooMs }

/-- one operation on `PerSourceWatermarkTracker` -/
inductive WmOp where
  | observe (src : String) (ts : Int)
  | advance (src : String) (t : Int)
  deriving Repr, Inhabited

/-- the operation and what the caller then reads: `effective_watermark()` -/
def WmSt.step (w : WmSt) : WmOp → WmSt × Option Int
  | .observe src ts => let w' := w.observe src ts; (w', w'.effective)
  | .advance src t => let w' := w.advance src t; (w', w'.effective)

end Varpulis.Ckpt
