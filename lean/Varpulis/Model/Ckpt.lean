/-!
# M-CKPT, part 1: the checkpoint value trees and their JSON encoding (C20)

Mirrors `crates/varpulis-runtime/src/persistence.rs` (the `Serializable*` / `*Checkpoint`
structs with the representation `serde` derives for them, `value_to_serializable`,
`serializable_to_value`, `From<&Event> for SerializableEvent`, `From<SerializableEvent> for Event`)
and `codec.rs` (`serialize`, `deserialize`, `is_json`).

JSON is an abstract tree.  What `serde_json` does between tree and text is trusted, with one
rule modelled explicitly (`wire`): the writer prints a non-finite float as `null`.
Hash maps are association lists: the encoder writes the entries in the order of the list, the
decoder reads them back in that order, so equality of lists implies equality of maps.
Integers are unbounded (`Int`/`Nat`); every value that reaches the encoder comes out of an
`i64`/`u64`/`usize`/`u32` field, so no range check is modelled.
-/
namespace Varpulis.Ckpt

/-- `f64` up to the payload of a NaN (`Value`'s own equality identifies all NaNs);
`fin bits` is a finite double given by its bit pattern (so `-0.0` and `0.0` differ). -/
inductive F64 where
  | fin (bits : Nat)
  | nan
  | pinf
  | ninf
  deriving DecidableEq, Repr, Inhabited

def F64.isFinite : F64 → Bool
  | .fin _ => true
  | _ => false

/-- the abstract JSON tree -/
inductive Json where
  | null
  | bool (b : Bool)
  | int (i : Int)
  | num (f : F64)
  | str (s : String)
  | arr (l : List Json)
  | obj (l : List (String × Json))
  deriving Repr, Inhabited

mutual
/-- `serde_json`'s writer followed by its parser, on trees: a non-finite float is written as
`null` (`serde_json::ser::Serializer::serialize_f64`), everything else reads back as written. -/
def wire : Json → Json
  | .null => .null
  | .bool b => .bool b
  | .int i => .int i
  | .num f => if f.isFinite then .num f else .null
  | .str s => .str s
  | .arr l => .arr (wireL l)
  | .obj l => .obj (wireO l)
def wireL : List Json → List Json
  | [] => []
  | j :: js => wire j :: wireL js
def wireO : List (String × Json) → List (String × Json)
  | [] => []
  | (k, j) :: r => (k, wire j) :: wireO r
end

mutual
/-- no non-finite float anywhere in the tree -/
def Clean : Json → Bool
  | .num f => f.isFinite
  | .arr l => CleanL l
  | .obj l => CleanO l
  | _ => true
def CleanL : List Json → Bool
  | [] => true
  | j :: js => Clean j && CleanL js
def CleanO : List (String × Json) → Bool
  | [] => true
  | (_, j) :: r => Clean j && CleanO r
end

/-! ## primitive readers (what `serde` accepts for the Rust type) -/

def decInt : Json → Option Int
  | .int i => some i
  | _ => none

/-- `u64` / `usize` / `u32` -/
def decNat : Json → Option Nat
  | .int i => if 0 ≤ i then some i.toNat else none
  | _ => none

def decBool : Json → Option Bool
  | .bool b => some b
  | _ => none

def decStr : Json → Option String
  | .str s => some s
  | _ => none

/-- `Option<T>`: `null` is `None` -/
def encOpt {α} (f : α → Json) : Option α → Json
  | none => .null
  | some a => f a

def decOpt {α} (d : Json → Option α) : Json → Option (Option α)
  | .null => some none
  | j => (d j).map some

/-- `Vec<T>` -/
def encList {α} (f : α → Json) (l : List α) : Json := .arr (l.map f)

def decList {α} (d : Json → Option α) : Json → Option (List α)
  | .arr l => l.mapM d
  | _ => none

/-- `HashMap<String, T>` (entries in list order) -/
def encMap {α} (f : α → Json) (m : List (String × α)) : Json := .obj (m.map fun kv => (kv.1, f kv.2))

def decMap {α} (d : Json → Option α) : Json → Option (List (String × α))
  | .obj kvs => kvs.mapM fun kv => (d kv.2).map fun a => (kv.1, a)
  | _ => none

/-- a required struct field -/
def req {α} (kvs : List (String × Json)) (k : String) (d : Json → Option α) : Option α :=
  (kvs.lookup k).bind d

/-- a field of type `Option<T>`: a missing key is `None` (serde's rule for `Option` fields) -/
def optF {α} (kvs : List (String × Json)) (k : String) (d : Json → Option α) : Option (Option α) :=
  match kvs.lookup k with
  | none => some none
  | some j => decOpt d j

/-- a field with `#[serde(default)]` -/
def dflt {α} (kvs : List (String × Json)) (k : String) (d : Json → Option α) (a : α) : Option α :=
  match kvs.lookup k with
  | none => some a
  | some j => d j

/-! ## values -/

/-- `persistence::SerializableValue` -/
inductive SV where
  | int (i : Int)
  | float (f : F64)
  | bool (b : Bool)
  | str (s : String)
  | null
  | ts (i : Int)
  | dur (n : Nat)
  | arr (l : List SV)
  | map (l : List (String × SV))
  deriving Repr, Inhabited

/-- `varpulis_core::Value` (`Map` is an `IndexMap`: insertion-ordered, unique keys) -/
inductive Val where
  | int (i : Int)
  | float (f : F64)
  | bool (b : Bool)
  | str (s : String)
  | null
  | ts (i : Int)
  | dur (n : Nat)
  | arr (l : List Val)
  | map (l : List (String × Val))
  deriving Repr, Inhabited

mutual
/-- structural equality (used by the driver to compare decoded trees) -/
def SV.beq : SV → SV → Bool
  | .int a, .int b => a == b
  | .float a, .float b => a == b
  | .bool a, .bool b => a == b
  | .str a, .str b => a == b
  | .null, .null => true
  | .ts a, .ts b => a == b
  | .dur a, .dur b => a == b
  | .arr a, .arr b => SV.beqL a b
  | .map a, .map b => SV.beqM a b
  | _, _ => false
def SV.beqL : List SV → List SV → Bool
  | [], [] => true
  | a :: as, b :: bs => SV.beq a b && SV.beqL as bs
  | _, _ => false
def SV.beqM : List (String × SV) → List (String × SV) → Bool
  | [], [] => true
  | (k, a) :: as, (l, b) :: bs => k == l && SV.beq a b && SV.beqM as bs
  | _, _ => false
end
instance : BEq SV := ⟨SV.beq⟩

mutual
def Val.beq : Val → Val → Bool
  | .int a, .int b => a == b
  | .float a, .float b => a == b
  | .bool a, .bool b => a == b
  | .str a, .str b => a == b
  | .null, .null => true
  | .ts a, .ts b => a == b
  | .dur a, .dur b => a == b
  | .arr a, .arr b => Val.beqL a b
  | .map a, .map b => Val.beqM a b
  | _, _ => false
def Val.beqL : List Val → List Val → Bool
  | [], [] => true
  | a :: as, b :: bs => Val.beq a b && Val.beqL as bs
  | _, _ => false
def Val.beqM : List (String × Val) → List (String × Val) → Bool
  | [], [] => true
  | (k, a) :: as, (l, b) :: bs => k == l && Val.beq a b && Val.beqM as bs
  | _, _ => false
end
instance : BEq Val := ⟨Val.beq⟩

mutual
/-- `value_to_serializable` -/
def v2s : Val → SV
  | .int i => .int i
  | .float f => .float f
  | .bool b => .bool b
  | .str s => .str s
  | .null => .null
  | .ts i => .ts i
  | .dur n => .dur n
  | .arr l => .arr (v2sL l)
  | .map l => .map (v2sM l)
def v2sL : List Val → List SV
  | [] => []
  | v :: vs => v2s v :: v2sL vs
def v2sM : List (String × Val) → List (String × SV)
  | [] => []
  | (k, v) :: r => (k, v2s v) :: v2sM r
end

mutual
/-- `serializable_to_value` (entries inserted in order; keys of a value that came out of
`value_to_serializable` are unique, so no entry is overwritten) -/
def s2v : SV → Val
  | .int i => .int i
  | .float f => .float f
  | .bool b => .bool b
  | .str s => .str s
  | .null => .null
  | .ts i => .ts i
  | .dur n => .dur n
  | .arr l => .arr (s2vL l)
  | .map l => .map (s2vM l)
def s2vL : List SV → List Val
  | [] => []
  | v :: vs => s2v v :: s2vL vs
def s2vM : List (String × SV) → List (String × Val)
  | [] => []
  | (k, v) :: r => (k, s2v v) :: s2vM r
end

/-- `float_repr::serialize` (since the repair): a finite float is a JSON number, a non-finite
one a tagged string, so that `wire` never sees a non-finite number. -/
def encF : F64 → Json
  | .fin b => .num (.fin b)
  | .nan => .str "NaN"
  | .pinf => .str "inf"
  | .ninf => .str "-inf"

/-- `float_repr::deserialize`: number, one of the three tags, or — tolerant towards checkpoints
written before the repair — `null`, read as NaN. -/
def decF : Json → Option F64
  | .num f => some f
  | .null => some .nan
  | .str s => if s = "NaN" then some .nan else if s = "inf" then some .pinf
              else if s = "-inf" then some .ninf else none
  | _ => none

/-- the representation before the repair: `#[derive(Serialize)]` hands the `f64` to the writer -/
def encFOld (f : F64) : Json := .num f

/-- `#[derive(Deserialize)]` for an `f64`: only a number -/
def decFOld : Json → Option F64
  | .num f => some f
  | _ => none

mutual
/-- `#[derive(Serialize)]` of `SerializableValue`: externally tagged enum; `Map` is a vector of pairs -/
def encSV : SV → Json
  | .int i => .obj [("Int", .int i)]
  | .float f => .obj [("Float", encF f)]
  | .bool b => .obj [("Bool", .bool b)]
  | .str s => .obj [("String", .str s)]
  | .null => .str "Null"
  | .ts i => .obj [("Timestamp", .int i)]
  | .dur n => .obj [("Duration", .int n)]
  | .arr l => .obj [("Array", .arr (encSVs l))]
  | .map l => .obj [("Map", .arr (encSVm l))]
def encSVs : List SV → List Json
  | [] => []
  | v :: vs => encSV v :: encSVs vs
def encSVm : List (String × SV) → List Json
  | [] => []
  | (k, v) :: r => .arr [.str k, encSV v] :: encSVm r
end

mutual
/-- `#[derive(Deserialize)]` of `SerializableValue` -/
def decSV : Json → Option SV
  | .str s => if s = "Null" then some .null else none
  | .obj [(tag, j)] =>
    if tag = "Int" then (decInt j).map .int
    else if tag = "Float" then (decF j).map .float
    else if tag = "Bool" then (decBool j).map .bool
    else if tag = "String" then (decStr j).map .str
    else if tag = "Timestamp" then (decInt j).map .ts
    else if tag = "Duration" then (decNat j).map .dur
    else if tag = "Array" then (match j with | .arr l => (decSVs l).map .arr | _ => none)
    else if tag = "Map" then (match j with | .arr l => (decSVm l).map .map | _ => none)
    else none
  | _ => none
def decSVs : List Json → Option (List SV)
  | [] => some []
  | j :: js => match decSV j, decSVs js with
    | some v, some vs => some (v :: vs)
    | _, _ => none
def decSVm : List Json → Option (List (String × SV))
  | [] => some []
  | .arr [.str k, j] :: js => match decSV j, decSVm js with
    | some v, some vs => some ((k, v) :: vs)
    | _, _ => none
  | _ :: _ => none
end

/-! ## events -/

/-- `event::Event`; `ts` = nanoseconds since the epoch (`DateTime<Utc>`), `data` in insertion
order with unique keys (`IndexMap`) -/
structure Event where
  etype : String
  ts : Int
  data : List (String × Val)
  deriving Repr, Inhabited, BEq

/-- `persistence::SerializableEvent`; `subNs` is the field `timestamp_subms_ns` added by the repair -/
structure SerEvent where
  etype : String
  tsMs : Int
  subNs : Nat
  fields : List (String × SV)
  deriving Repr, Inhabited, BEq

/-- `DateTime::timestamp_millis` (floor) -/
def msOf (t : Int) : Int := t / 1000000

/-- `DateTime::from_timestamp_millis` (always `Some` for a value that `timestamp_millis` produced) -/
def ofMs (m : Int) : Int := m * 1000000

/-- `From<&Event> for SerializableEvent` -/
def serOfEvent (e : Event) : SerEvent :=
  { etype := e.etype, tsMs := msOf e.ts, subNs := (e.ts % 1000000).toNat, fields := v2sM e.data }

/-- `From<SerializableEvent> for Event` -/
def eventOfSer (s : SerEvent) : Event :=
  { etype := s.etype, ts := ofMs s.tsMs + s.subNs, data := s2vM s.fields }

/-- the conversion before the repair: no sub-millisecond part -/
def eventOfSerOld (s : SerEvent) : Event :=
  { etype := s.etype, ts := ofMs s.tsMs, data := s2vM s.fields }

def encSE (e : SerEvent) : Json :=
  .obj [("event_type", .str e.etype), ("timestamp_ms", .int e.tsMs),
        ("timestamp_subms_ns", .int e.subNs), ("fields", encMap encSV e.fields)]

def decSE : Json → Option SerEvent
  | .obj kvs => do
    let ty ← req kvs "event_type" decStr
    let ms ← req kvs "timestamp_ms" decInt
    let sub ← dflt kvs "timestamp_subms_ns" decNat 0
    let fs ← req kvs "fields" (decMap decSV)
    pure { etype := ty, tsMs := ms, subNs := sub, fields := fs }
  | _ => none

/-! ## component checkpoints -/

/-- `PartitionedWindowCheckpoint` -/
structure PartWinCkpt where
  events : List SerEvent
  windowStartMs : Option Int
  /-- added by the repair of the sliding count window (`#[serde(default)]`) -/
  eventsSinceEmit : Option Nat
  /-- `window_start_subms_ns`, added by the repair of the millisecond truncation -/
  windowStartSub : Nat
  deriving Repr, Inhabited, BEq

def encPWC (p : PartWinCkpt) : Json :=
  .obj [("events", encList encSE p.events), ("window_start_ms", encOpt .int p.windowStartMs),
        ("events_since_emit", encOpt (fun n : Nat => .int n) p.eventsSinceEmit),
        ("window_start_subms_ns", .int p.windowStartSub)]

def decPWC : Json → Option PartWinCkpt
  | .obj kvs => do
    let ev ← req kvs "events" (decList decSE)
    let ws ← optF kvs "window_start_ms" decInt
    let se ← optF kvs "events_since_emit" decNat
    let wsub ← dflt kvs "window_start_subms_ns" decNat 0
    pure { events := ev, windowStartMs := ws, eventsSinceEmit := se, windowStartSub := wsub }
  | _ => none

/-- `WindowCheckpoint` -/
structure WindowCkpt where
  events : List SerEvent
  windowStartMs : Option Int
  lastEmitMs : Option Int
  partitions : List (String × PartWinCkpt)
  /-- added by the repair of the sliding count window (`#[serde(default)]`) -/
  eventsSinceEmit : Option Nat
  /-- `window_start_subms_ns` / `last_emit_subms_ns`, added by the repair of the millisecond truncation -/
  windowStartSub : Nat
  lastEmitSub : Nat
  deriving Repr, Inhabited, BEq

def encWC (w : WindowCkpt) : Json :=
  .obj [("events", encList encSE w.events), ("window_start_ms", encOpt .int w.windowStartMs),
        ("last_emit_ms", encOpt .int w.lastEmitMs), ("partitions", encMap encPWC w.partitions),
        ("events_since_emit", encOpt (fun n : Nat => .int n) w.eventsSinceEmit),
        ("window_start_subms_ns", .int w.windowStartSub), ("last_emit_subms_ns", .int w.lastEmitSub)]

def decWC : Json → Option WindowCkpt
  | .obj kvs => do
    let ev ← req kvs "events" (decList decSE)
    let ws ← optF kvs "window_start_ms" decInt
    let le ← optF kvs "last_emit_ms" decInt
    let ps ← req kvs "partitions" (decMap decPWC)
    let se ← optF kvs "events_since_emit" decNat
    let wsub ← dflt kvs "window_start_subms_ns" decNat 0
    let lsub ← dflt kvs "last_emit_subms_ns" decNat 0
    pure { events := ev, windowStartMs := ws, lastEmitMs := le, partitions := ps, eventsSinceEmit := se,
           windowStartSub := wsub, lastEmitSub := lsub }
  | _ => none

/-- `StackEntryCheckpoint` -/
structure StackCkpt where
  event : SerEvent
  alias : Option String
  deriving Repr, Inhabited, BEq

def encStack (s : StackCkpt) : Json := .obj [("event", encSE s.event), ("alias", encOpt .str s.alias)]

def decStack : Json → Option StackCkpt
  | .obj kvs => do
    let e ← req kvs "event" decSE
    let a ← optF kvs "alias" decStr
    pure { event := e, alias := a }
  | _ => none

/-- `RunCheckpoint` -/
structure RunCkpt where
  currentState : Nat
  stack : List StackCkpt
  captured : List (String × SerEvent)
  startedAtMs : Option Int
  deadlineMs : Option Int
  partitionKey : Option SV
  invalidated : Bool
  pendingNegationCount : Nat
  kleeneEvents : Option (List SerEvent)
  /-- `and_branches`, added by the repair of the lost AND progress: (branch index, event) -/
  andBranches : Option (List (Nat × SerEvent))
  /-- sub-millisecond remainders of the two event-time fields -/
  startedAtSub : Nat
  deadlineSub : Nat
  deriving Repr, Inhabited, BEq

/-- one completed AND branch `(usize, SerializableEvent)`: a two-element array -/
def encAB (p : Nat × SerEvent) : Json := .arr [.int p.1, encSE p.2]

def decAB : Json → Option (Nat × SerEvent)
  | .arr [i, j] => do
    let n ← decNat i
    let e ← decSE j
    pure (n, e)
  | _ => none

def encRun (r : RunCkpt) : Json :=
  .obj [("current_state", .int r.currentState), ("stack", encList encStack r.stack),
        ("captured", encMap encSE r.captured),
        ("event_time_started_at_ms", encOpt .int r.startedAtMs),
        ("event_time_deadline_ms", encOpt .int r.deadlineMs),
        ("partition_key", encOpt encSV r.partitionKey), ("invalidated", .bool r.invalidated),
        ("pending_negation_count", .int r.pendingNegationCount),
        ("kleene_events", encOpt (encList encSE) r.kleeneEvents),
        ("and_branches", encOpt (encList encAB) r.andBranches),
        ("event_time_started_at_subms_ns", .int r.startedAtSub),
        ("event_time_deadline_subms_ns", .int r.deadlineSub)]

def decRun : Json → Option RunCkpt
  | .obj kvs => do
    let cs ← req kvs "current_state" decNat
    let st ← req kvs "stack" (decList decStack)
    let ca ← req kvs "captured" (decMap decSE)
    let sa ← optF kvs "event_time_started_at_ms" decInt
    let dl ← optF kvs "event_time_deadline_ms" decInt
    let pk ← optF kvs "partition_key" decSV
    let iv ← req kvs "invalidated" decBool
    let pn ← req kvs "pending_negation_count" decNat
    let ke ← optF kvs "kleene_events" (decList decSE)
    let ab ← optF kvs "and_branches" (decList decAB)
    let ss ← dflt kvs "event_time_started_at_subms_ns" decNat 0
    let ds ← dflt kvs "event_time_deadline_subms_ns" decNat 0
    pure { currentState := cs, stack := st, captured := ca, startedAtMs := sa, deadlineMs := dl,
           partitionKey := pk, invalidated := iv, pendingNegationCount := pn, kleeneEvents := ke,
           andBranches := ab, startedAtSub := ss, deadlineSub := ds }
  | _ => none

/-- `SaseCheckpoint` -/
structure SaseCkpt where
  activeRuns : List RunCkpt
  partitionedRuns : List (String × List RunCkpt)
  watermarkMs : Option Int
  maxTimestampMs : Option Int
  created : Nat
  completed : Nat
  dropped : Nat
  evicted : Nat
  watermarkSub : Nat
  maxTimestampSub : Nat
  deriving Repr, Inhabited, BEq

def encSase (s : SaseCkpt) : Json :=
  .obj [("active_runs", encList encRun s.activeRuns),
        ("partitioned_runs", encMap (encList encRun) s.partitionedRuns),
        ("watermark_ms", encOpt .int s.watermarkMs), ("max_timestamp_ms", encOpt .int s.maxTimestampMs),
        ("total_runs_created", .int s.created), ("total_runs_completed", .int s.completed),
        ("total_runs_dropped", .int s.dropped), ("total_runs_evicted", .int s.evicted),
        ("watermark_subms_ns", .int s.watermarkSub), ("max_timestamp_subms_ns", .int s.maxTimestampSub)]

def decSase : Json → Option SaseCkpt
  | .obj kvs => do
    let ar ← req kvs "active_runs" (decList decRun)
    let pr ← req kvs "partitioned_runs" (decMap (decList decRun))
    let wm ← optF kvs "watermark_ms" decInt
    let mt ← optF kvs "max_timestamp_ms" decInt
    let c ← req kvs "total_runs_created" decNat
    let d ← req kvs "total_runs_completed" decNat
    let e ← req kvs "total_runs_dropped" decNat
    let f ← req kvs "total_runs_evicted" decNat
    let ws ← dflt kvs "watermark_subms_ns" decNat 0
    let ms ← dflt kvs "max_timestamp_subms_ns" decNat 0
    pure { activeRuns := ar, partitionedRuns := pr, watermarkMs := wm, maxTimestampMs := mt,
           created := c, completed := d, dropped := e, evicted := f, watermarkSub := ws, maxTimestampSub := ms }
  | _ => none

/-- one buffered join entry `(i64, SerializableEvent)`: a two-element array -/
def encJE (p : Int × SerEvent) : Json := .arr [.int p.1, encSE p.2]

def decJE : Json → Option (Int × SerEvent)
  | .arr [.int t, j] => (decSE j).map fun e => (t, e)
  | _ => none

/-- one pending expiry `(i64, u32, String, String)`: (expiry ms, sub-ms ns, source, key) -/
structure QEntry where
  ms : Int
  sub : Nat
  source : String
  key : String
  deriving Repr, Inhabited, BEq, DecidableEq

def encQE (q : QEntry) : Json := .arr [.int q.ms, .int q.sub, .str q.source, .str q.key]

def decQE : Json → Option QEntry
  | .arr [a, b, c, d] => do
    let ms ← decInt a
    let sub ← decNat b
    let s ← decStr c
    let k ← decStr d
    pure { ms := ms, sub := sub, source := s, key := k }
  | _ => none

/-- `JoinCheckpoint` -/
structure JoinCkpt where
  buffers : List (String × List (String × List (Int × SerEvent)))
  sources : List String
  joinKeys : List (String × String)
  windowMs : Int
  /-- `last_gc_ms`, `last_gc_subms_ns`, `expiry_queue`: added by the repair of the lost GC bookkeeping -/
  lastGcMs : Option Int
  lastGcSub : Nat
  expiryQueue : Option (List QEntry)
  deriving Repr, Inhabited, BEq

def encJoin (j : JoinCkpt) : Json :=
  .obj [("buffers", encMap (encMap (encList encJE)) j.buffers), ("sources", encList .str j.sources),
        ("join_keys", encMap .str j.joinKeys), ("window_duration_ms", .int j.windowMs),
        ("last_gc_ms", encOpt .int j.lastGcMs), ("last_gc_subms_ns", .int j.lastGcSub),
        ("expiry_queue", encOpt (encList encQE) j.expiryQueue)]

def decJoin : Json → Option JoinCkpt
  | .obj kvs => do
    let b ← req kvs "buffers" (decMap (decMap (decList decJE)))
    let s ← req kvs "sources" (decList decStr)
    let k ← req kvs "join_keys" (decMap decStr)
    let w ← req kvs "window_duration_ms" decInt
    let g ← optF kvs "last_gc_ms" decInt
    let gs ← dflt kvs "last_gc_subms_ns" decNat 0
    let q ← optF kvs "expiry_queue" (decList decQE)
    pure { buffers := b, sources := s, joinKeys := k, windowMs := w, lastGcMs := g, lastGcSub := gs,
           expiryQueue := q }
  | _ => none

/-- `SourceWatermarkCheckpoint` -/
structure SrcWmCkpt where
  watermarkMs : Option Int
  maxTimestampMs : Option Int
  oooMs : Int
  watermarkSub : Nat
  maxTimestampSub : Nat
  deriving Repr, Inhabited, BEq

def encSrcWm (s : SrcWmCkpt) : Json :=
  .obj [("watermark_ms", encOpt .int s.watermarkMs), ("max_timestamp_ms", encOpt .int s.maxTimestampMs),
        ("max_out_of_orderness_ms", .int s.oooMs), ("watermark_subms_ns", .int s.watermarkSub),
        ("max_timestamp_subms_ns", .int s.maxTimestampSub)]

def decSrcWm : Json → Option SrcWmCkpt
  | .obj kvs => do
    let w ← optF kvs "watermark_ms" decInt
    let m ← optF kvs "max_timestamp_ms" decInt
    let o ← req kvs "max_out_of_orderness_ms" decInt
    let ws ← dflt kvs "watermark_subms_ns" decNat 0
    let ms ← dflt kvs "max_timestamp_subms_ns" decNat 0
    pure { watermarkMs := w, maxTimestampMs := m, oooMs := o, watermarkSub := ws, maxTimestampSub := ms }
  | _ => none

/-- `WatermarkCheckpoint` -/
structure WmCkpt where
  sources : List (String × SrcWmCkpt)
  effectiveMs : Option Int
  effectiveSub : Nat
  /-- `last_applied_watermark_ms` / `_subms_ns`: added by the repair, filled in by the engine -/
  lastAppliedMs : Option Int
  lastAppliedSub : Nat
  deriving Repr, Inhabited, BEq

def encWm (w : WmCkpt) : Json :=
  .obj [("sources", encMap encSrcWm w.sources), ("effective_watermark_ms", encOpt .int w.effectiveMs),
        ("effective_watermark_subms_ns", .int w.effectiveSub),
        ("last_applied_watermark_ms", encOpt .int w.lastAppliedMs),
        ("last_applied_watermark_subms_ns", .int w.lastAppliedSub)]

def decWm : Json → Option WmCkpt
  | .obj kvs => do
    let s ← req kvs "sources" (decMap decSrcWm)
    let e ← optF kvs "effective_watermark_ms" decInt
    let es ← dflt kvs "effective_watermark_subms_ns" decNat 0
    let la ← optF kvs "last_applied_watermark_ms" decInt
    let ls ← dflt kvs "last_applied_watermark_subms_ns" decNat 0
    pure { sources := s, effectiveMs := e, effectiveSub := es, lastAppliedMs := la, lastAppliedSub := ls }
  | _ => none

/-- `DistinctCheckpoint` (most recent key first) -/
def encDistinct (keys : List String) : Json := .obj [("keys", encList .str keys)]

def decDistinct : Json → Option (List String)
  | .obj kvs => req kvs "keys" (decList decStr)
  | _ => none

/-- `LimitCheckpoint` -/
def encLimit (l : Nat × Nat) : Json := .obj [("max", .int l.1), ("count", .int l.2)]

def decLimit : Json → Option (Nat × Nat)
  | .obj kvs => do
    let m ← req kvs "max" decNat
    let c ← req kvs "count" decNat
    pure (m, c)
  | _ => none

/-- `EngineCheckpoint` -/
structure EngineCkpt where
  version : Nat
  windowStates : List (String × WindowCkpt)
  saseStates : List (String × SaseCkpt)
  joinStates : List (String × JoinCkpt)
  variables : List (String × SV)
  eventsProcessed : Nat
  outputEventsEmitted : Nat
  watermarkState : Option WmCkpt
  distinctStates : List (String × List String)
  limitStates : List (String × (Nat × Nat))
  deriving Repr, Inhabited, BEq

def encEngine (c : EngineCkpt) : Json :=
  .obj [("version", .int c.version), ("window_states", encMap encWC c.windowStates),
        ("sase_states", encMap encSase c.saseStates), ("join_states", encMap encJoin c.joinStates),
        ("variables", encMap encSV c.variables), ("events_processed", .int c.eventsProcessed),
        ("output_events_emitted", .int c.outputEventsEmitted),
        ("watermark_state", encOpt encWm c.watermarkState),
        ("distinct_states", encMap encDistinct c.distinctStates),
        ("limit_states", encMap encLimit c.limitStates)]

def decEngine : Json → Option EngineCkpt
  | .obj kvs => do
    let v ← dflt kvs "version" decNat 1
    let w ← req kvs "window_states" (decMap decWC)
    let s ← req kvs "sase_states" (decMap decSase)
    let j ← req kvs "join_states" (decMap decJoin)
    let va ← req kvs "variables" (decMap decSV)
    let ep ← req kvs "events_processed" decNat
    let oe ← req kvs "output_events_emitted" decNat
    let wm ← optF kvs "watermark_state" decWm
    let d ← dflt kvs "distinct_states" (decMap decDistinct) []
    let l ← dflt kvs "limit_states" (decMap decLimit) []
    pure { version := v, windowStates := w, saseStates := s, joinStates := j, variables := va,
           eventsProcessed := ep, outputEventsEmitted := oe, watermarkState := wm,
           distinctStates := d, limitStates := l }
  | _ => none

/-- `PartialMatchCheckpoint` (legacy part of `Checkpoint`) -/
structure PartialMatchCkpt where
  state : String
  matched : List SerEvent
  startMs : Int
  deriving Repr, Inhabited, BEq

def encPM (p : PartialMatchCkpt) : Json :=
  .obj [("state", .str p.state), ("matched_events", encList encSE p.matched), ("start_ms", .int p.startMs)]

def decPM : Json → Option PartialMatchCkpt
  | .obj kvs => do
    let s ← req kvs "state" decStr
    let m ← req kvs "matched_events" (decList decSE)
    let t ← req kvs "start_ms" decInt
    pure { state := s, matched := m, startMs := t }
  | _ => none

/-- `PatternCheckpoint` -/
def encPattern (l : List PartialMatchCkpt) : Json := .obj [("partial_matches", encList encPM l)]

def decPattern : Json → Option (List PartialMatchCkpt)
  | .obj kvs => req kvs "partial_matches" (decList decPM)
  | _ => none

/-- `Checkpoint`: what the stores write (the engine state sits in `context_states["main"]`) -/
structure Ckpt where
  id : Nat
  timestampMs : Int
  eventsProcessed : Nat
  windowStates : List (String × WindowCkpt)
  patternStates : List (String × List PartialMatchCkpt)
  metadata : List (String × String)
  contextStates : List (String × EngineCkpt)
  deriving Repr, Inhabited, BEq

def encCkpt (c : Ckpt) : Json :=
  .obj [("id", .int c.id), ("timestamp_ms", .int c.timestampMs), ("events_processed", .int c.eventsProcessed),
        ("window_states", encMap encWC c.windowStates), ("pattern_states", encMap encPattern c.patternStates),
        ("metadata", encMap .str c.metadata), ("context_states", encMap encEngine c.contextStates)]

def decCkpt : Json → Option Ckpt
  | .obj kvs => do
    let i ← req kvs "id" decNat
    let t ← req kvs "timestamp_ms" decInt
    let e ← req kvs "events_processed" decNat
    let w ← req kvs "window_states" (decMap decWC)
    let p ← req kvs "pattern_states" (decMap decPattern)
    let m ← req kvs "metadata" (decMap decStr)
    let c ← dflt kvs "context_states" (decMap decEngine) []
    pure { id := i, timestampMs := t, eventsProcessed := e, windowStates := w, patternStates := p,
           metadata := m, contextStates := c }
  | _ => none

/-! ## codec.rs -/

/-- the first byte `serde_json::to_vec` writes for a tree -/
def Json.firstByte : Json → Char
  | .null => 'n'
  | .bool b => if b then 't' else 'f'
  | .int i => if i < 0 then '-' else '0'   -- some digit
  | .num _ => '0'
  | .str _ => '"'
  | .arr _ => '['
  | .obj _ => '{'

/-- checkpoint bytes as far as `codec::deserialize` looks at them: nothing at all, or some ASCII
whitespace followed by a JSON document, or by something that is not JSON (first byte given) -/
inductive Bytes where
  | empty
  | json (ws : Nat) (doc : Json)
  | other (ws : Nat) (first : Char)
  deriving Repr, Inhabited

/-- `codec::serialize(_, CheckpointFormat::Json)` = `serde_json::to_vec` -/
def serialize (j : Json) : Bytes := .json 0 (wire j)

/-- `codec::is_json`: the first non-whitespace byte is `{` or `[` -/
def isJson : Bytes → Bool
  | .empty => false
  | .json _ doc => doc.firstByte == '{' || doc.firstByte == '['
  | .other _ c => c == '{' || c == '['

inductive DeErr where
  | emptyData
  | notJson
  | shape
  deriving Repr, DecidableEq

/-- `codec::deserialize::<T>` where `dec` is `T`'s derived `Deserialize`.  `binaryCodec` = the
cargo feature: when on, data that does not look like JSON goes to the MessagePack reader (not
modelled: `shape`); when off it is handed to the JSON parser all the same. -/
def deserialize {α} (binaryCodec : Bool) (dec : Json → Option α) : Bytes → Except DeErr α
  | .empty => .error .emptyData
  | .json ws doc =>
    if isJson (.json ws doc) || !binaryCodec then
      match dec doc with
      | some a => .ok a
      | none => .error .shape
    else .error .shape
  | .other _ _ => .error .notJson

end Varpulis.Ckpt
