import Varpulis.Model.RaftSync
/-!
# M-RAFTAGREE — replicated log, state machines of several coordinators, Raft's guarantees as premises (C37)

Mirrors `crates/varpulis-cluster/src/raft/store.rs` (`MemStore::apply_to_state_machine`,
`get_snapshot_builder` / `build_snapshot`, `install_snapshot`) on top of the model of `apply_command` in
Model/RaftSync.lean. Consensus itself (openraft) is *not* modelled: its guarantees appear as the explicit
premises `RaftGuarantees` about a cluster configuration (the logs of all nodes and of the leader of every
term at one instant) — Log Matching and Leader Completeness in the form of the Raft paper, plus the two
protocol facts that connect them to state machines (entries originate at the leader of their term; a node
applies only committed entries of its own log).
-/
namespace Varpulis.RaftAgree
open Varpulis.RaftSync

/-- `openraft::EntryPayload` -/
inductive Payload where
  | blank
  | normal (c : Cmd)
  | membership (m : String)
  deriving DecidableEq, Repr

/-- a log entry; its index is its position in the (logical) log -/
structure LEntry where
  term : Nat
  payload : Payload
  deriving DecidableEq, Repr

/-- `MemStore::apply_to_state_machine`, one entry, as far as `CoordinatorState` is concerned (blank and
membership entries only move `last_applied_log` / `last_membership`) -/
def applyEntry (s : RState) (e : LEntry) : RState :=
  match e.payload with
  | .normal c => applyCmd s c
  | _ => s

/-- applying a batch of entries in log order -/
def applyLog (s : RState) (es : List LEntry) : RState := es.foldl applyEntry s

/-- the state-machine half of a store: `last_applied_log` (as a count of applied entries) and `state` -/
structure SM where
  applied : Nat := 0
  state : RState := {}
  deriving DecidableEq, Repr

/-- storage events of one node, as openraft drives `RaftStorage` -/
inductive Ev where
  /-- `apply_to_state_machine(entries)` -/
  | apply (es : List LEntry)
  /-- `install_snapshot(meta, data)`: `data` was produced by `build_snapshot` on some node, `meta.last_log_id`
  is that node's `last_applied_log` -/
  | install (snap : SM)
  /-- process restart on the in-memory store: everything is lost -/
  | restartMem
  deriving Repr

/-- `get_snapshot_builder` + `build_snapshot`: the snapshot is the state machine itself (JSON round trip
of `CoordinatorState` checked by the harness) -/
def SM.snapshot (m : SM) : SM := m

def SM.step (m : SM) : Ev → SM
  | .apply es => { applied := m.applied + es.length, state := applyLog m.state es }
  | .install snap => snap
  | .restartMem => {}

/-- state machines reachable along the committed log `C`: batches are the next entries of `C`, installed
snapshots were built by state machines reachable along `C` -/
inductive Reach (C : List LEntry) : SM → Prop where
  | init : Reach C {}
  | apply (m : SM) (k : Nat) : Reach C m → m.applied + k ≤ C.length →
      Reach C (m.step (.apply ((C.drop m.applied).take k)))
  | install (m snap : SM) : Reach C m → Reach C snap → Reach C (m.step (.install snap.snapshot))
  | restart (m : SM) : Reach C m → Reach C (m.step .restartMem)

/-! ## a cluster at one instant, and Raft's guarantees about it -/

structure Node where
  /-- the node's logical log (compacted prefix included) -/
  log : List LEntry
  sm : SM
  deriving Repr

structure Cluster where
  nodes : List Node
  /-- the log of the leader of each term, as it stood at the end of its leadership (or stands now);
  a function of the term: Election Safety -/
  leaderLog : Nat → Option (List LEntry)
  /-- `committed i t`: the entry with index `i` and term `t` is committed -/
  committed : Nat → Nat → Prop

/-- every log the guarantees speak about -/
def Cluster.IsLog (c : Cluster) (l : List LEntry) : Prop := (∃ n ∈ c.nodes, n.log = l) ∨ ∃ t, c.leaderLog t = some l

/-- the premises: what openraft is trusted to guarantee (given storage that keeps its contract, C35/C36) -/
structure RaftGuarantees (c : Cluster) : Prop where
  /-- **Log Matching**: two logs with an entry of the same index and term are identical up to that index -/
  logMatching : ∀ a b, c.IsLog a → c.IsLog b → ∀ i (ha : i < a.length) (hb : i < b.length),
    a[i].term = b[i].term → a.take (i + 1) = b.take (i + 1)
  /-- **Leader Completeness**: a committed entry is in the log of the leader of every later term -/
  leaderCompleteness : ∀ i t, c.committed i t → ∀ t' L, t < t' → c.leaderLog t' = some L →
    ∃ h : i < L.length, L[i].term = t
  /-- an entry of term `t` was created by the leader of `t`, whose log has it at that index (leaders only append) -/
  origin : ∀ n ∈ c.nodes, ∀ i (h : i < n.log.length), ∃ L, c.leaderLog n.log[i].term = some L ∧
    ∃ h' : i < L.length, L[i].term = n.log[i].term
  /-- a node applies only committed entries of its own log -/
  appliedCommitted : ∀ n ∈ c.nodes, ∀ i, i < n.sm.applied → ∃ h : i < n.log.length, c.committed i n.log[i].term

/-- a write acknowledged to a client: the leader of term `t` appended `cmd` at index `i`, and the entry is
committed (`client_write` answers after commit and apply) -/
structure Acked (c : Cluster) (i t : Nat) (cmd : Cmd) : Prop where
  committed : c.committed i t
  atLeader : ∃ L, c.leaderLog t = some L ∧ ∃ h : i < L.length, L[i] = { term := t, payload := .normal cmd }

end Varpulis.RaftAgree
