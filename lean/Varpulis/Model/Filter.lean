import Varpulis.Model.Value
/-!
# Filter expressions in the two evaluation contexts (C09)

* `.where(e)`: `engine/pipeline.rs RuntimeOp::WhereExpr` keeps an event iff
  `evaluator.rs eval_expr_with_functions(e, event, …)` is `Some(Bool(true))` — `evalE`, `whereAccepts`.
* step filter `… -> T where e`: `engine/compiler.rs expr_to_sase_predicate(e)` — `toPred` — builds a
  `sase.rs Predicate`, evaluated by `sase.rs eval_predicate` — `evalP`, `stepAccepts` — through
  `compare_values / values_equal / values_compare`.

The fragment is the one the property quantifies over: comparisons between fields and literals,
bare boolean operands, `and` / `or` / `not`. Field values are arbitrary `Value`s (the tie sends
int/float/string/bool/missing), floats are bit patterns (`Varpulis.Val.F64`) and every float
primitive below is exact on all bit patterns. No Mathlib.
-/
namespace Varpulis.Filter
open Varpulis.Val

/-! ### exact `f64` primitives -/

/-- the float's value times 2^1074 (every finite double is an integer multiple of 2^-1074);
for ±∞ the same formula yields ±2^2098, beyond every finite double, so `scaled` is an order key on
all non-NaN doubles with `-0.0` and `0.0` both at 0 -/
def scaled (f : F64) : Int :=
  let mag : Nat := if f.expo == 0 then f.mant else (2 ^ 52 + f.mant) * 2 ^ (f.expo - 1)
  if f.sign then -(mag : Int) else (mag : Int)

def isFinite (f : F64) : Bool := f.expo != 2047

/-- `f64::partial_cmp` (IEEE order; `None` iff a NaN is involved) -/
def partialCmp (a b : F64) : Option Ordering :=
  if a.isNan || b.isNan then none else some (compare (scaled a) (scaled b))

/-- `evaluator.rs cmp_int_float`: the exact order of an integer and a float, `None` only for NaN -/
def cmpIntFloat (a : Int) (b : F64) : Option Ordering :=
  if b.isNan then none else some (compare (a * 2 ^ 1074) (scaled b))

/-- `n as f64` for an `i64`: round to nearest, ties to even -/
def ofInt (n : Int) : F64 :=
  if n == 0 then ⟨0⟩ else
  let a : Nat := n.natAbs
  let p : Nat := Nat.log2 a
  let s : Nat := if n < 0 then 2 ^ 63 else 0
  if p ≤ 52 then ⟨s + (1023 + p) * 2 ^ 52 + (a - 2 ^ p) * 2 ^ (52 - p)⟩
  else
    let sh := p - 52
    let q := a / 2 ^ sh
    let r := a % 2 ^ sh
    let half := 2 ^ (sh - 1)
    let q' := if r > half || (r == half && q % 2 == 1) then q + 1 else q
    if q' == 2 ^ 53 then ⟨s + (1023 + p + 1) * 2 ^ 52⟩ else ⟨s + (1023 + p) * 2 ^ 52 + (q' - 2 ^ 52)⟩

/-- `(a - b).abs() < f64::EPSILON` with the subtraction rounded to nearest-even: a non-finite
operand gives ±∞ or NaN (false); otherwise the rounded difference is below 2^-52 exactly when the
exact difference is below the midpoint 2^-52 − 2^-106 of 2^-52 and its predecessor (the tie rounds
to the even neighbour 2^-52). In units of 2^-1074. -/
def epsEq (a b : F64) : Bool :=
  isFinite a && isFinite b && decide ((scaled a - scaled b).natAbs < 2 ^ 1022 - 2 ^ 968)

/-! ### expressions -/

/-- literal operands (`Expr::Int | Float | Str | Bool | Null`) -/
inductive Lit where
  | int (n : Int) | float (f : F64) | str (s : String) | bool (b : Bool) | null
  deriving Repr

def Lit.toValue : Lit → Value
  | .int n => .int n | .float f => .float f | .str s => .str s | .bool b => .bool b | .null => .null

/-- `compiler.rs expr_to_value`: the literals a `Predicate::Compare` can carry -/
def Lit.compareValue : Lit → Option Value
  | .null => none
  | l => some l.toValue

/-- arithmetic operators allowed inside an operand (`BinOp::Add | Sub | Mul | Div`) -/
inductive ArithOp where
  | add | sub | mul | div
  deriving DecidableEq, Repr

inductive Operand where
  | field (name : String)   -- `Expr::Ident`
  | lit (l : Lit)
  | arith (op : ArithOp) (a b : Operand)   -- `Expr::Binary { op ∈ {Add,Sub,Mul,Div}, .. }` over the current event
  deriving Repr

inductive CmpOp where
  | eq | ne | lt | le | gt | ge
  deriving DecidableEq, Repr

/-- the remaining comparison operators of the grammar (`comparison_op`): `in`, `not in`, `is` -/
inductive OtherOp where
  | isIn | notIn | is
  deriving DecidableEq, Repr

inductive FExpr where
  | cmp (op : CmpOp) (l r : Operand)   -- `Expr::Binary { op ∈ {Eq,NotEq,Lt,Le,Gt,Ge}, .. }`
  | other (op : OtherOp) (l r : Operand) -- `Expr::Binary { op ∈ {In,NotIn,Is}, .. }`
  | atom (o : Operand)                 -- a bare field or literal used as a condition
  | and (a b : FExpr)
  | or (a b : FExpr)
  | not (a : FExpr)                    -- `Expr::Unary { op: Not, .. }`
  deriving Repr

/-- event payload: field name ↦ value; a missing field has no entry -/
abbrev Event := List (String × Value)

/-! ### the VPL evaluator (`eval_expr_with_functions`, empty bindings) -/

/-- `i64` wrap-around (`wrapping_add/sub/mul/div`) -/
def wrap64 (n : Int) : Int := (n + 2 ^ 63) % 2 ^ 64 - 2 ^ 63

/-- an IEEE-754 binary64 operation, computed by Lean's `Float` (the same hardware operation the
Rust code executes); only NaN-ness of a NaN result matters downstream, payloads are not compared -/
def fop (f : Float → Float → Float) (a b : F64) : F64 :=
  ⟨(f (Float.ofBits a.bits.toUInt64) (Float.ofBits b.bits.toUInt64)).toBits.toNat⟩

def floatArith : ArithOp → F64 → F64 → F64
  | .add => fop (· + ·) | .sub => fop (· - ·) | .mul => fop (· * ·) | .div => fop (· / ·)

def intArith : ArithOp → Int → Int → Int
  | .add, a, b => wrap64 (a + b) | .sub, a, b => wrap64 (a - b) | .mul, a, b => wrap64 (a * b)
  | .div, a, b => wrap64 (Int.tdiv a b)

/-- arms `BinOp::Add … BinOp::Div` of `eval_expr_with_functions`: `Int∘Int` wrapping, `Float∘Float`,
mixed through `as f64`, `Str + Str` concatenation; `/` only with a non-zero divisor; else no value -/
def evalArith (op : ArithOp) (x y : Value) : Option Value :=
  match x, y with
  | .int a, .int b => if op == .div && b == 0 then none else some (.int (intArith op a b))
  | .float a, .float b => if op == .div && b.isZero then none else some (.float (floatArith op a b))
  | .int a, .float b => if op == .div && b.isZero then none else some (.float (floatArith op (ofInt a) b))
  | .float a, .int b => if op == .div && b == 0 then none else some (.float (floatArith op a (ofInt b)))
  | .str a, .str b => if op == .add then some (.str (a ++ b)) else none
  | _, _ => none

def evalOperand : Operand → Event → Option Value
  | .field f, ev => lookupV f ev
  | .lit l, _ => some l.toValue
  | .arith op a b, ev =>
    match evalOperand a ev, evalOperand b ev with
    | some x, some y => evalArith op x y
    | _, _ => none

/-- `is_some_and(Ordering::is_lt)` etc.; `ord` is only used with the four ordering operators -/
def ordResult : CmpOp → Option Ordering → Bool
  | .lt, some .lt => true
  | .le, some .lt => true
  | .le, some .eq => true
  | .gt, some .gt => true
  | .ge, some .gt => true
  | .ge, some .eq => true
  | _, _ => false

/-- arms `BinOp::Eq … BinOp::Ge` of `eval_expr_with_functions` on two evaluated operands -/
def evalCmp (op : CmpOp) (x y : Value) : Option Value :=
  match op with
  | .eq => some (.bool (veq x y))
  | .ne => some (.bool (!veq x y))
  | _ =>
    match x, y with
    | .int a, .int b => some (.bool (ordResult op (some (compare a b))))
    | .float a, .float b => some (.bool (ordResult op (partialCmp a b)))
    | .int a, .float b => some (.bool (ordResult op (cmpIntFloat a b)))
    | .float a, .int b => some (.bool (ordResult op ((cmpIntFloat b a).map Ordering.swap)))
    | .str a, .str b => some (.bool (ordResult op (some (compare a b))))   -- since the `fix:` commit
    | _, _ => none

/-- the comparison arms before the `fix:` commit "string ordering in .where": no `Str`/`Str` arm -/
def evalCmpOld (op : CmpOp) (x y : Value) : Option Value :=
  match x, y with
  | .str _, .str _ => (match op with | .eq => evalCmp op x y | .ne => evalCmp op x y | _ => none)
  | _, _ => evalCmp op x y

/-- `str::contains` (substring) on the characters -/
def isInfixL (a : List Char) : List Char → Bool
  | [] => a.isEmpty
  | c :: cs => a.isPrefixOf (c :: cs) || isInfixL a cs

/-- arms `BinOp::In` / `BinOp::NotIn` of `eval_expr_with_functions`; `BinOp::Is` has no arm (`_ => None`) -/
def evalOther (op : OtherOp) (x y : Value) : Option Value :=
  match op with
  | .is => none
  | .isIn =>
    match x, y with
    | v, .array l => some (.bool (l.any fun e => veq e v))
    | .str k, .map m => some (.bool (lookupV k m).isSome)
    | .str sub, .str s => some (.bool (isInfixL sub.toList s.toList))
    | _, _ => none
  | .notIn =>
    match x, y with
    | v, .array l => some (.bool (!(l.any fun e => veq e v)))
    | .str k, .map m => some (.bool (!(lookupV k m).isSome))
    | .str sub, .str s => some (.bool (!isInfixL sub.toList s.toList))
    | _, _ => none

def asBool : Value → Option Bool
  | .bool b => some b
  | _ => none

def evalE : FExpr → Event → Option Value
  | .cmp op l r, ev =>
    match evalOperand l ev, evalOperand r ev with
    | some x, some y => evalCmp op x y
    | _, _ => none
  | .other op l r, ev =>
    match evalOperand l ev, evalOperand r ev with
    | some x, some y => evalOther op x y
    | _, _ => none
  | .atom o, ev => evalOperand o ev
  | .and a b, ev =>
    match evalE a ev, evalE b ev with
    | some x, some y => match asBool x, asBool y with
      | some p, some q => some (.bool (p && q))
      | _, _ => none
    | _, _ => none
  | .or a b, ev =>
    match evalE a ev, evalE b ev with
    | some x, some y => match asBool x, asBool y with
      | some p, some q => some (.bool (p || q))
      | _, _ => none
    | _, _ => none
  | .not a, ev =>
    match evalE a ev with
    | some (.bool p) => some (.bool (!p))
    | _ => none

/-- `.and_then(|v| v.as_bool()).unwrap_or(false)` -/
def isTrue : Option Value → Bool
  | some (.bool true) => true
  | _ => false

/-- `.where(e)` keeps the event -/
def whereAccepts (e : FExpr) (ev : Event) : Bool := isTrue (evalE e ev)

/-! ### the SASE predicate evaluator -/

/-- `sase.rs values_equal` -/
def valuesEqual : Value → Value → Bool
  | .int a, .int b => a == b
  | .float a, .float b => epsEq a b
  | .int a, .float b => epsEq (ofInt a) b
  | .float b, .int a => epsEq (ofInt a) b
  | .str a, .str b => a == b
  | .bool a, .bool b => a == b
  | _, _ => false

/-- `sase.rs values_compare` -/
def valuesCompare : Value → Value → Option Ordering
  | .int a, .int b => some (compare a b)
  | .float a, .float b => partialCmp a b
  | .int a, .float b => cmpIntFloat a b
  | .float a, .int b => (cmpIntFloat b a).map Ordering.swap
  | .str a, .str b => some (compare a b)
  | _, _ => none

/-- `sase.rs compare_values` -/
def compareValues (x y : Value) (op : CmpOp) : Bool :=
  match op with
  | .eq => valuesEqual x y
  | .ne => !valuesEqual x y
  | _ => ordResult op (valuesCompare x y)

/-- `sase.rs Predicate` (without `CompareRef`: no captured aliases in the fragment) -/
inductive Pred where
  | compare (field : String) (op : CmpOp) (value : Value)
  | and (a b : Pred)
  | or (a b : Pred)
  | not (a : Pred)
  | expr (e : FExpr)
  deriving Repr

/-- the `Ident op literal` shape `expr_to_sase_predicate` turns into `Predicate::Compare` -/
def comparePath : Operand → Operand → Option (String × Value)
  | .field f, .lit l => (l.compareValue).map fun v => (f, v)
  | _, _ => none

/-- `compiler.rs expr_to_sase_predicate` (since the `fix:` commit a binary operator without a
predicate form falls back to `Predicate::Expr` like every other unsupported shape) -/
def toPred : FExpr → Pred
  | .cmp op l r =>
    match comparePath l r with
    | some (f, v) => .compare f op v
    | none => .expr (.cmp op l r)
  | .other op l r => .expr (.other op l r)
  | .atom o => .expr (.atom o)
  | .and a b => .and (toPred a) (toPred b)
  | .or a b => .or (toPred a) (toPred b)
  | .not a => .not (toPred a)

/-- `sase.rs eval_predicate` (no captured events) -/
def evalP : Pred → Event → Bool
  | .compare f op v, ev =>
    match lookupV f ev with
    | some x => compareValues x v op
    | none => false
  | .and a b, ev => evalP a ev && evalP b ev
  | .or a b, ev => evalP a ev || evalP b ev
  | .not a, ev => !evalP a ev
  | .expr e, ev => isTrue (evalE e ev)

/-- the step `T where e` accepts the event -/
def stepAccepts (e : FExpr) (ev : Event) : Bool := evalP (toPred e) ev

/-- `expr_to_sase_predicate` before the `fix:` commit: `In`/`NotIn`/`Is` (any binary operator other
than the six comparisons, `and`, `or`) made the *whole* translation return `None` (the `?` in the
`and`/`or`/`not` arms propagates it) -/
def toPredOld : FExpr → Option Pred
  | .other _ _ _ => none
  | .and a b => match toPredOld a, toPredOld b with
    | some p, some q => some (.and p q)
    | _, _ => none
  | .or a b => match toPredOld a, toPredOld b with
    | some p, some q => some (.or p q)
    | _, _ => none
  | .not a => (toPredOld a).map .not
  | e => some (toPred e)

/-- … and a step whose filter has no predicate accepts every event of its type -/
def stepAcceptsOld (e : FExpr) (ev : Event) : Bool :=
  match toPredOld e with
  | some p => evalP p ev
  | none => true

/-! ### the front end: constant folding (`varpulis-parser optimize.rs`)

`parse` folds the expression of `.where(...)` (`fold_stream_op`: `StreamOp::Where`) but passes
`StreamOp::FollowedBy` through unchanged, so a step filter reaches `expr_to_sase_predicate` as
written. -/

/-- `fold_binary`, first part: both operands literals of the same numeric type -/
def foldLit (op : ArithOp) : Operand → Operand → Option Operand
  | .lit (.int x), .lit (.int y) => if op == .div && y == 0 then none else some (.lit (.int (intArith op x y)))
  | .lit (.float x), .lit (.float y) =>
    if op == .div && y.isZero then none else some (.lit (.float (floatArith op x y)))
  | _, _ => none

def isLitInt (n : Int) : Operand → Bool
  | .lit (.int m) => m == n
  | _ => false

/-- `fold_binary`, second part: the identity rewrites `x*0, 0*x → 0; x*1, 1*x, x+0, 0+x, x-0, x/1 → x`,
applied without knowing the type of `x` (C10 finding `C10-identity-rewrite`) -/
def foldIdent (op : ArithOp) (a b : Operand) : Option Operand :=
  match op with
  | .mul => if isLitInt 0 b || isLitInt 0 a then some (.lit (.int 0))
            else if isLitInt 1 b then some a else if isLitInt 1 a then some b else none
  | .add => if isLitInt 0 b then some a else if isLitInt 0 a then some b else none
  | .sub => if isLitInt 0 b then some a else none
  | .div => if isLitInt 1 b then some a else none

/-- `fold_expr` on an operand -/
def foldOpd : Operand → Operand
  | .arith op a b =>
    match foldLit op (foldOpd a) (foldOpd b) with
    | some r => r
    | none => match foldIdent op (foldOpd a) (foldOpd b) with
      | some r => r
      | none => .arith op (foldOpd a) (foldOpd b)
  | o => o

/-- `fold_expr` on a filter expression -/
def foldE : FExpr → FExpr
  | .cmp op l r => .cmp op (foldOpd l) (foldOpd r)
  | .other op l r => .other op (foldOpd l) (foldOpd r)
  | .atom o => .atom (foldOpd o)
  | .and a b => .and (foldE a) (foldE b)
  | .or a b => .or (foldE a) (foldE b)
  | .not a => .not (foldE a)

/-- no identity rewrite fires anywhere in the operand (literal∘literal folding may) -/
def identFreeOpd : Operand → Bool
  | .arith op a b =>
    identFreeOpd a && identFreeOpd b &&
      ((foldLit op (foldOpd a) (foldOpd b)).isSome || (foldIdent op (foldOpd a) (foldOpd b)).isNone)
  | _ => true

def identFree : FExpr → Bool
  | .cmp _ l r => identFreeOpd l && identFreeOpd r
  | .other _ l r => identFreeOpd l && identFreeOpd r
  | .atom o => identFreeOpd o
  | .and a b => identFree a && identFree b
  | .or a b => identFree a && identFree b
  | .not a => identFree a

/-- `.where(e)` as the engine runs it: on the folded expression -/
def whereAcceptsFE (e : FExpr) (ev : Event) : Bool := whereAccepts (foldE e) ev

/-! ### where the two contexts can differ: the guard of the partial theorem -/

/-- the two ways the code still makes the two contexts disagree -/
inductive Finding where
  /-- `==`/`!=` of a field with a numeric literal: `Value` equality (exact, `Int ≠ Float`) in
  `.where`, `|a − b| < ε` with int/float mixing in a step -/
  | eqEpsilon
  /-- an operand of `not` / `or` that has no boolean value in the VPL evaluator (missing field,
  incomparable types, non-boolean operand): `.where` drops the event, the step treats it as `false` -/
  | errorOperand
  deriving DecidableEq, Repr

def numeric : Value → Bool
  | .int _ => true | .float _ => true | _ => false

def isStr : Value → Bool
  | .str _ => true | _ => false

/-- `==` / `!=` of field value `x` with literal `v` mean the same in both contexts -/
def eqSafe (x v : Value) : Bool :=
  match x, v with
  | .float a, .float b => floatEq a b == epsEq a b
  | .int a, .float b => !epsEq (ofInt a) b
  | .float b, .int a => !epsEq (ofInt a) b
  | _, _ => true

/-- reason (if any) why `field op literal` fails to have the *same boolean value* in both contexts -/
def whyCmpStrong (op : CmpOp) (x v : Value) : Option Finding :=
  match op with
  | .eq => if eqSafe x v then none else some .eqEpsilon
  | .ne => if eqSafe x v then none else some .eqEpsilon
  | _ => if (numeric x && numeric v) || (isStr x && isStr v) then none else some .errorOperand

/-- reason (if any) why `field op literal` may be *accepted* by one context only -/
def whyCmpWeak (op : CmpOp) (x v : Value) : Option Finding :=
  match op with
  | .eq => if eqSafe x v then none else some .eqEpsilon
  | .ne => if eqSafe x v then none else some .eqEpsilon
  | _ => none

def isBoolResult : Option Value → Bool
  | some (.bool _) => true
  | _ => false

def orElse {α : Type} : Option α → Option α → Option α
  | some a, _ => some a
  | none, b => b

/-- first reason why `e` might not have the same boolean value in both contexts -/
def whyStrong : FExpr → Event → Option Finding
  | .cmp op l r, ev =>
    match comparePath l r with
    | some (f, v) =>
      match lookupV f ev with
      | some x => whyCmpStrong op x v
      | none => some .errorOperand
    | none => if isBoolResult (evalE (.cmp op l r) ev) then none else some .errorOperand
  | .other op l r, ev => if isBoolResult (evalE (.other op l r) ev) then none else some .errorOperand
  | .atom o, ev => if isBoolResult (evalOperand o ev) then none else some .errorOperand
  | .and a b, ev => orElse (whyStrong a ev) (whyStrong b ev)
  | .or a b, ev => orElse (whyStrong a ev) (whyStrong b ev)
  | .not a, ev => whyStrong a ev

/-- first reason why `e` might be accepted by one context only: below `and` only the atoms matter,
below `or` / `not` the operands must have the same boolean value -/
def whyWeak : FExpr → Event → Option Finding
  | .cmp op l r, ev =>
    match comparePath l r with
    | some (f, v) =>
      match lookupV f ev with
      | some x => whyCmpWeak op x v
      | none => none
    | none => none
  | .other _ _ _, _ => none
  | .atom _, _ => none
  | .and a b, ev => orElse (whyWeak a ev) (whyWeak b ev)
  | .or a b, ev => orElse (whyStrong a ev) (whyStrong b ev)
  | .not a, ev => whyStrong a ev

/-- the guard of `where_step_agree_partial` -/
def agreeGuard (e : FExpr) (ev : Event) : Bool := (whyWeak e ev).isNone


end Varpulis.Filter
