/-!
# M-PATH — `validate_path` over an abstract file system with symlinks (C31)

Mirrors `crates/varpulis-cli/src/security.rs validate_path` and the two library calls it is
made of: `Path::join` / `PathBuf::from` / `Path::is_absolute` / `Path::starts_with` (std, Unix) and
`Path::canonicalize` = `realpath(3)` (glibc), which is *trusted* to be `canon` below; the
correspondence harness compares `canon` with the real resolver on generated trees.

Representation: a canonical absolute path is the list of its component names (`[]` = `/`).
The file system is a flat association list from canonical paths to node kinds.
-/
namespace Varpulis.PathSec

inductive Kind
  | file
  | dir
  | link (target : String)
  deriving DecidableEq, Repr, Inhabited

/-- canonical absolute path ↦ node kind; `/` itself is always a directory -/
abbrev FS := List (List String × Kind)

/-- `lstat` -/
def look (fs : FS) (p : List String) : Option Kind :=
  if p = [] then some .dir else fs.lookup p

/-- the file system plus the process' current directory (a canonical path) -/
structure World where
  fs : FS
  cwd : List String := []

/-- raw components of a path string; empty components (`//`, leading/trailing `/`) are kept and
skipped by `resolve`, so that "something follows this component" is visible (`file/` is an error) -/
def splitSlash : List Char → List (List Char)
  | [] => [[]]
  | c :: cs =>
    match splitSlash cs with
    | [] => [[]]
    | h :: t => if c = '/' then [] :: h :: t else (c :: h) :: t

/-- (`= s.splitOn "/"`, written over `List Char` so that concrete witnesses reduce in the kernel) -/
def comps (s : String) : List String := (splitSlash s.toList).map String.ofList

/-- `Path::is_absolute` on Unix -/
def isAbs (s : String) : Bool := s.toList.head? == some '/'

/-- glibc `__eloop_threshold ()` on Linux: at most 40 symlinks are followed per resolution -/
def maxSymlinks : Nat := 40

/-- `realpath(3)` component walk. `cur` is the already resolved prefix (a chain of real
directories), the third argument the raw components still to be walked.
`.`/empty components are skipped, `..` drops the last resolved component (never above `/`),
a missing entry is ENOENT, a regular file followed by anything (even a bare `/`) is ENOTDIR,
a symlink's target is spliced in front of the rest (absolute targets restart at `/`),
the 41st symlink is ELOOP. -/
def resolve (fs : FS) : Nat → List String → List String → Option (List String)
  | _, cur, [] => some cur
  | fuel, cur, c :: rest =>
    if c = "" ∨ c = "." then resolve fs fuel cur rest
    else if c = ".." then resolve fs fuel cur.dropLast rest
    else
      match look fs (cur ++ [c]) with
      | none => none
      | some .file => if rest = [] then some (cur ++ [c]) else none
      | some .dir => resolve fs fuel (cur ++ [c]) rest
      | some (.link t) =>
        match fuel with
        | 0 => none
        | fuel' + 1 => resolve fs fuel' (if isAbs t then [] else cur) (comps t ++ rest)
termination_by fuel _ rest => (fuel, rest.length)

/-- `Path::canonicalize`: `""` is ENOENT, an interior NUL is `InvalidInput`, relative paths start
at the current directory -/
def canon (w : World) (s : String) : Option (List String) :=
  if s.toList.isEmpty ∨ s.toList.contains '\x00' then none
  else resolve w.fs maxSymlinks (if isAbs s then [] else w.cwd) (comps s)

/-- `workdir.join(requested)` (`PathBuf::push`): an absolute argument replaces the base; a
separator is added unless the base is empty or already ends in one -/
def join (wd p : String) : String :=
  if isAbs p then p
  else if wd.toList.isEmpty ∨ wd.toList.getLast? == some '/' then String.ofList (wd.toList ++ p.toList)
  else String.ofList (wd.toList ++ '/' :: p.toList)

inductive Res
  | ok (c : List String)
  | errWorkdir
  | errInvalid
  | errTraversal
  deriving DecidableEq, Repr

/-- `validate_path(path, workdir)`: canonicalise the work directory (`InvalidWorkdir`), then the
joined path (`InvalidPath`), then `Path::starts_with` — a *component-wise* prefix test
(`PathTraversal`). -/
def validate (w : World) (path wd : String) : Res :=
  match canon w wd with
  | none => .errWorkdir
  | some cw =>
    match canon w (join wd path) with
    | none => .errInvalid
    | some c => if cw.isPrefixOf c then .ok c else .errTraversal

/-! ### Two broken variants (the seeded changes `seeded/C31-*`), used for counterexample theorems -/

/-- prefix test on the *un*-canonicalised joined path, canonicalisation afterwards -/
def validateLexical (w : World) (path wd : String) : Res :=
  match canon w wd with
  | none => .errWorkdir
  | some _ =>
    if (comps wd).isPrefixOf (comps (join wd path)) then
      match canon w (join wd path) with
      | none => .errInvalid
      | some c => .ok c
    else .errTraversal

/-- rendering of a canonical path -/
def render (c : List String) : List Char := c.flatMap fun n => '/' :: n.toList

/-- prefix test on the rendered strings instead of on components -/
def validateStr (w : World) (path wd : String) : Res :=
  match canon w wd with
  | none => .errWorkdir
  | some cw =>
    match canon w (join wd path) with
    | none => .errInvalid
    | some c => if (render cw).isPrefixOf (render c) then .ok c else .errTraversal

end Varpulis.PathSec
