import Varpulis.Model.Expand
/-!
# M-CONN — cluster connector declarations (`connector_config.rs`) and the VPL rules that read them back

* `render`, `renderValue`, `escape`  mirror `ClusterConnector::to_vpl_declaration` (after the fix:
  unquoted only for canonical decimal integers, `"` and `\` escaped);
* `validate` mirrors `validate_connector` (after the fix: parameter names are identifiers, values
  contain no line break);
* `connectorDecl`, `configValue`, `lexString`, `ident`, `skip` mirror the grammar rules
  `connector_decl`, `connector_type`, `connector_params`, `connector_param`, `config_value`,
  `integer`, `float`, `duration`, `string`, `boolean`, `identifier`, `WHITESPACE`, `COMMENT` of
  `varpulis.pest` (PEG: ordered choice, greedy repetition, implicit skipping between the tokens of a
  non-atomic rule) together with `parse_connector_decl` / `parse_config_value` (after the fix:
  `\"` and `\\` are unescaped in configuration strings);
* `valueText` mirrors how the runtime turns a parsed parameter into its string
  (`engine/mod.rs`, `sink_factory.rs`: `Str`/`Ident` as is, `Int`/`Float`/`Bool` through `to_string`);
* `findMissing`, `inject` mirror `find_missing_connectors` / `inject_connectors` (without the
  `client_id_mode = append_pipeline` rewriting, which is modelled by `appendClientIds`).

Text is `List Char`. No Mathlib.
-/
namespace Varpulis.Connector

abbrev Text := List Char

structure Connector where
  name : Text
  ctype : Text
  /-- `HashMap<String, String>`: a list with distinct keys, in the map's iteration order -/
  params : List (Text × Text)
  deriving DecidableEq, Repr

/-! ## rendering -/

open Varpulis.Expand (isDigit digitVal digitsVal fmtNat canonDigits)

def isAlpha (c : Char) : Bool := ('a' ≤ c && c ≤ 'z') || ('A' ≤ c && c ≤ 'Z')
def isIdStart (c : Char) : Bool := isAlpha c || c == '_'
def isIdChar (c : Char) : Bool := isAlpha c || isDigit c || c == '_'

def i64Max : Nat := 9223372036854775807

/-- `v.parse::<i64>().is_ok_and(|i| i >= 0 && i.to_string() == v)`: decimal digits, no sign, no
leading zero, at most `i64::MAX` -/
def isCanonInt (v : Text) : Bool := canonDigits v && digitsVal v ≤ i64Max

/-- `escape_vpl_string` -/
def escape : Text → Text
  | [] => []
  | c :: cs => if c = '\\' then '\\' :: '\\' :: escape cs else if c = '"' then '\\' :: '"' :: escape cs else c :: escape cs

/-- `vpl_param_value` -/
def renderValue (v : Text) : Text := if isCanonInt v then v else '"' :: escape v ++ ['"']

def renderParam (p : Text × Text) : Text := p.1 ++ ": ".toList ++ renderValue p.2

/-- `Vec<String>::join(", ")` -/
def joinComma : List Text → Text
  | [] => []
  | [x] => x
  | x :: xs => x ++ ", ".toList ++ joinComma xs

/-- `ClusterConnector::to_vpl_declaration` -/
def render (c : Connector) : Text :=
  "connector ".toList ++ c.name ++ " = ".toList ++ c.ctype ++ ['('] ++ joinComma (c.params.map renderParam) ++ [')']

/-! ## validation -/

/-- `is_valid_connector_name` (the VPL identifier rule) -/
def isIdent (s : Text) : Bool :=
  match s with
  | [] => false
  | c :: cs => isIdStart c && cs.all isIdChar

def VALID_TYPES : List Text := ["mqtt", "kafka", "nats", "http", "console"].map String.toList

/-- `validate_required_params` -/
def requiredOk (ctype : Text) (params : List (Text × Text)) : Bool :=
  let has (k : String) := params.any fun p => p.1 == k.toList
  if ctype == "mqtt".toList then has "host"
  else if ctype == "kafka".toList then has "brokers"
  else if ctype == "http".toList then has "url"
  else if ctype == "nats".toList then has "servers"
  else ctype == "console".toList

/-- `validate_connector` -/
def validate (c : Connector) : Bool :=
  isIdent c.name && VALID_TYPES.contains c.ctype && requiredOk c.ctype c.params &&
    c.params.all fun p => isIdent p.1 && p.2.all fun ch => ch != '\n' && ch != '\r'

/-! ## reading the declaration back: the grammar rules -/

/-- parsed `config_value` (the cases a connector parameter can produce) -/
inductive CV where
  | int (i : Nat)          -- `integer` → `ConfigValue::Int(parse().unwrap_or(0))`
  | float (raw : Text)     -- `float`
  | dur (raw : Text)       -- `duration`
  | str (s : Text)         -- `string`, unescaped
  | bool (b : Bool)
  | ident (s : Text)
  | array                  -- `config_array` (never rendered)
  deriving DecidableEq, Repr

def isWsChar (c : Char) : Bool := c == ' ' || c == '\t' || c == '\r' || c == '\n'

/-- after `/*`: up to and including the first `*/`; `none` when unterminated -/
def skipBlock : Text → Option Text
  | [] => none
  | '*' :: '/' :: r => some r
  | _ :: r => skipBlock r

/-- implicit `(WHITESPACE | COMMENT)*` between tokens; fuel = length of the input -/
def skipGo : Nat → Text → Text
  | 0, s => s
  | fuel + 1, s =>
    match s with
    | c :: r =>
      if isWsChar c then skipGo fuel r
      else if c = '#' then skipGo fuel (r.dropWhile (· != '\n'))
      else if c = '/' then
        match r with
        | '*' :: r' => match skipBlock r' with
          | some r'' => skipGo fuel r''
          | none => s
        | _ => s
      else s
    | [] => []

def skip (s : Text) : Text := skipGo s.length s

/-- `identifier = @{ (ASCII_ALPHA | "_") ~ (ASCII_ALPHANUMERIC | "_")* }` -/
def ident (s : Text) : Option (Text × Text) :=
  match s with
  | c :: r => if isIdStart c then some (c :: r.takeWhile isIdChar, r.dropWhile isIdChar) else none
  | [] => none

/-- a literal keyword/punctuation token -/
def lit (k : String) (s : Text) : Option Text :=
  if k.toList.isPrefixOf s then some (s.drop k.length) else none

/-- `string_content = { (!("\"" | "\\") ~ ANY | "\\" ~ ANY)* }` followed by the closing quote;
returns the *unescaped* content (`\"` → `"`, `\\` → `\`, any other `\x` stays) and the rest -/
def lexStringBody : Text → Option (Text × Text)
  | [] => none
  | '"' :: r => some ([], r)
  | '\\' :: c :: r =>
    (lexStringBody r).map fun (s, rest) => (if c = '"' || c = '\\' then c :: s else '\\' :: c :: s, rest)
  | ['\\'] => none
  | c :: r => (lexStringBody r).map fun (s, rest) => (c :: s, rest)

def DUR_UNITS : List String := ["ns", "us", "ms", "s", "m", "h", "d"]

/-- `config_value = { config_array | float | duration | integer | string | boolean | identifier }` -/
def configValue (s : Text) : Option (CV × Text) :=
  match s with
  | '[' :: _ => some (.array, [])     -- not followed further: never produced by `render`
  | '"' :: r => (lexStringBody r).map fun (v, rest) => (.str v, rest)
  | c :: _ =>
    if isDigit c then
      let ds := s.takeWhile isDigit
      let r := s.dropWhile isDigit
      -- float: digits "." digits (exponent optional)
      match r with
      | '.' :: d :: r' =>
        if isDigit d then
          let frac := (d :: r').takeWhile isDigit
          let r2 := (d :: r').dropWhile isDigit
          let (ex, r3) : Text × Text :=
            match r2 with
            | e :: r4 =>
              if e = 'e' || e = 'E' then
                let (sg, r5) : Text × Text := match r4 with
                  | '+' :: x => (['+'], x)
                  | '-' :: x => (['-'], x)
                  | x => ([], x)
                if (r5.head?.map isDigit).getD false then (e :: sg ++ r5.takeWhile isDigit, r5.dropWhile isDigit) else ([], r2)
              else ([], r2)
            | [] => ([], r2)
          some (.float (ds ++ '.' :: frac ++ ex), r3)
        else
          some (.int (if digitsVal ds ≤ i64Max then digitsVal ds else 0), r)   -- digits followed by ".x": integer, the rest fails later
      | _ =>
        match DUR_UNITS.find? fun u => u.toList.isPrefixOf r with
        | some u => some (.dur (ds ++ u.toList), r.drop u.length)
        | none => some (.int (if digitsVal ds ≤ i64Max then digitsVal ds else 0), r)
    else if "true".toList.isPrefixOf s then some (.bool true, s.drop 4)
    else if "false".toList.isPrefixOf s then some (.bool false, s.drop 5)
    else (ident s).map fun (i, rest) => (.ident i, rest)
  | [] => none

def TYPE_WORDS : List String := ["mqtt", "kafka", "nats", "http", "amqp", "file", "websocket", "grpc"]

/-- `connector_type = { "mqtt" | … | "grpc" | identifier }` (ordered choice, no backtracking after success) -/
def connectorType (s : Text) : Option (Text × Text) :=
  match TYPE_WORDS.find? fun w => w.toList.isPrefixOf s with
  | some w => some (w.toList, s.drop w.length)
  | none => ident s

/-- `connector_param ~ ("," ~ connector_param)*`; fuel = length of the input -/
def paramsGo : Nat → Text → Option (List (Text × CV) × Text)
  | 0, _ => none
  | fuel + 1, s =>
    match ident s with
    | none => none
    | some (k, r1) =>
      match lit ":" (skip r1) with
      | none => none
      | some r2 =>
        match configValue (skip r2) with
        | none => none
        | some (v, r3) =>
          match lit "," (skip r3) with
          | some r4 =>
            match paramsGo fuel (skip r4) with
            | some (ps, r5) => some ((k, v) :: ps, r5)
            | none => some ([(k, v)], r3)       -- the `("," ~ connector_param)*` iteration fails: stop before the comma
          | none => some ([(k, v)], r3)

structure Decl where
  name : Text
  ctype : Text
  params : List (Text × CV)
  deriving DecidableEq, Repr

/-- `connector_decl = { "connector" ~ identifier ~ "=" ~ connector_type ~ "(" ~ connector_params? ~ ")" }` -/
def connectorDecl (s : Text) : Option (Decl × Text) :=
  match lit "connector" s with
  | none => none
  | some r0 =>
    match ident (skip r0) with
    | none => none
    | some (name, r1) =>
      match lit "=" (skip r1) with
      | none => none
      | some r2 =>
        match connectorType (skip r2) with
        | none => none
        | some (ty, r3) =>
          match lit "(" (skip r3) with
          | none => none
          | some r4 =>
            let r4 := skip r4
            match paramsGo (r4.length + 1) r4 with
            | some (ps, r5) => (lit ")" (skip r5)).map fun r6 => ({ name := name, ctype := ty, params := ps }, r6)
            | none => (lit ")" r4).map fun r6 => ({ name := name, ctype := ty, params := [] }, r6)

/-- the string the runtime hands to the connector for a parsed parameter (`None`: not convertible
exactly in this model — floats and durations are never rendered unquoted after the fix) -/
def valueText : CV → Option Text
  | .int i => some (fmtNat i)
  | .str s => some s
  | .ident s => some s
  | .bool b => some (if b then "true".toList else "false".toList)
  | .float _ => none
  | .dur _ => none
  | .array => none

/-- the parameters a declaration text declares, as the runtime sees them -/
def lexParams (s : Text) : Option (List (Text × Text)) :=
  match connectorDecl s with
  | some (d, []) => d.params.mapM fun p => (valueText p.2).map fun v => (p.1, v)
  | _ => none

/-! ## injection -/

open Varpulis.Expand (trim trimStart rustLines isWs containsSub)

/-- the texts following each occurrence of `pat`, searching on from just behind the previous
occurrence (`while let Some(pos) = trimmed[search_pos..].find(pattern)`) -/
def afterEach (pat : Text) : Nat → Text → List Text
  | 0, _ => []
  | _ + 1, [] => []
  | fuel + 1, c :: cs =>
    if pat.isPrefixOf (c :: cs) then (c :: cs).drop pat.length :: afterEach pat fuel ((c :: cs).drop pat.length)
    else afterEach pat fuel cs

/-- names referenced by `.from(` / `.to(` on one (trimmed) line, added to `acc` unless present -/
def refsOfLine (t : Text) (acc : List Text) : List Text :=
  ([".from(", ".to("].map String.toList).foldl (fun acc pat =>
    (afterEach pat (t.length + 1) t).foldl (fun acc after =>
      let name := after.takeWhile isIdChar
      if !after.isEmpty && !name.isEmpty && (name.head?.map isAlpha).getD false && !acc.contains name
      then acc ++ [name] else acc) acc) acc

/-- `connector NAME = …` on one (trimmed) line -/
def declOfLine (t : Text) : Option Text :=
  if "connector ".toList.isPrefixOf t then
    let rest := t.drop 10
    if rest.contains '=' then
      let name := trim (rest.takeWhile (· != '='))
      if name.isEmpty then none else some name
    else none
  else none

/-- `find_missing_connectors` -/
def findMissing (source : Text) : List Text :=
  let ls := (rustLines source).map trim
  let declared := ls.filterMap declOfLine
  let referenced := ls.foldl (fun acc t => refsOfLine t acc) []
  referenced.filter fun n => !declared.contains n

/-- `str::replacen(pat, to, 1)` -/
def replaceFirst (pat to : Text) : Text → Text
  | [] => []
  | c :: cs => if pat.isPrefixOf (c :: cs) then to ++ (c :: cs).drop pat.length else c :: replaceFirst pat to cs

/-- `rest.split_whitespace().next()` -/
def firstWord (t : Text) : Option Text :=
  let w := (t.dropWhile isWs).takeWhile (fun c => !isWs c)
  if w.isEmpty then none else some w

/-- `ends_inside_string`: does the text end inside a double-quoted string literal? (`st` = inside) -/
def insideGo : Bool → Text → Bool
  | st, [] => st
  | true, '\\' :: _ :: r => insideGo true r
  | true, ['\\'] => true
  | st, '"' :: r => insideGo (!st) r
  | st, _ :: r => insideGo st r

def endsInsideString (t : Text) : Bool := insideGo false t

/-- replace the first occurrence of `pat` that does not lie inside a string literal
(`match_indices(pat).find(|i| !ends_inside_string(&line[..i]))` + `replace_range`); `pre` = text before -/
def replaceOutside (pat to : Text) (pre : Text) : Text → Option Text
  | [] => none
  | c :: cs =>
    if pat.isPrefixOf (c :: cs) && !endsInsideString pre then some (pre ++ to ++ (c :: cs).drop pat.length)
    else replaceOutside pat to (pre ++ [c]) cs

/-- one line of `append_pipeline_client_ids` -/
def appendLine (cname baseId : Text) (line : Text) : Text :=
  let t := trim line
  if "stream ".toList.isPrefixOf t then
    match firstWord (t.drop 7) with
    | some pname =>
      let pats := [".from(".toList ++ cname ++ [','], ".to(".toList ++ cname ++ [',']]
      let ins (p : Text) : Text := p.dropLast ++ ", client_id: \"".toList ++ escape baseId ++ ['-'] ++ pname ++ "\",".toList
      ((pats.filterMap fun p => replaceOutside p (ins p) [] line).head?).getD line
    | none => line
  else line

/-- `append_pipeline_client_ids` -/
def appendClientIds (source cname baseId : Text) : Text :=
  let body := ((rustLines source).map fun l => appendLine cname baseId l ++ ['\n']).flatten
  if source.getLast? == some '\n' then body else body.dropLast

/-- the connectors stored by the coordinator: `HashMap<String, ClusterConnector>` in iteration order -/
abbrev Store := List (Text × Connector)

def Connector.param (c : Connector) (k : String) : Option Text := (c.params.find? fun p => p.1 == k.toList).map (·.2)

/-- `inject_connectors`: the enriched source -/
def inject (source : Text) (store : Store) : Text :=
  let decls := (findMissing source).filterMap fun n => (store.find? fun e => e.1 == n).map fun e => render e.2
  let enriched := store.foldl (fun src e =>
    if e.2.param "client_id_mode" == some "append_pipeline".toList then
      appendClientIds src e.2.name ((e.2.param "client_id").getD e.2.name)
    else src) source
  if decls.isEmpty then enriched else (decls.map fun d => d ++ ['\n']).flatten ++ enriched

end Varpulis.Connector
