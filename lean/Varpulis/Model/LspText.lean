/-!
# M-TEXT (LSP part) — position / word / slice helpers of the language server (C43)

Mirrors the text helpers shared by the handlers of `crates/varpulis-lsp`:
`diagnostics.rs position_to_line_col`, `get_error_end_column`, `clamp_to_document`;
`navigation.rs byte_offset_to_position`, `word_at_position`; `hover.rs get_word_at_position`;
`completion.rs char_col_to_byte` + the prefix slice of `get_completion_context`;
`semantic.rs` identifier token length + the slice `remaining[..byte_len]`.

Representation: a `&str` is a `List Char`; a *byte* offset into it is a `Nat` measured with
`Char.utf8Size` (APIs that take byte offsets: `position_to_line_col`, `&s[..n]`); APIs that index
`Vec<char>` / count `chars()` use list positions. Rust panics (slicing off a char boundary or past
the end, `Vec` range out of bounds) are the explicit outcome `.panic`.
The character classes (`char::is_alphanumeric`, …) are parameters: the theorems hold for any.
-/
namespace Varpulis.LspText

inductive Outcome (α : Type) where
  | ok (a : α)
  | none
  | panic
  deriving Repr, DecidableEq

abbrev Str := List Char

/-- `str::len()` — length in UTF-8 bytes -/
def blen : Str → Nat
  | [] => 0
  | c :: cs => c.utf8Size + blen cs

/-- `&s[..n]` — prefix up to byte offset `n`; panics when `n` is past the end or inside a character -/
def sliceTo : Str → Nat → Outcome Str
  | [], n => if n = 0 then .ok [] else .panic
  | c :: cs, n =>
    if n = 0 then .ok []
    else if n < c.utf8Size then .panic
    else match sliceTo cs (n - c.utf8Size) with
      | .ok p => .ok (c :: p)
      | _ => .panic

/-- `&s[n..]` -/
def sliceFrom : Str → Nat → Outcome Str
  | [], n => if n = 0 then .ok [] else .panic
  | c :: cs, n =>
    if n = 0 then .ok (c :: cs)
    else if n < c.utf8Size then .panic
    else sliceFrom cs (n - c.utf8Size)

/-- pieces between `\n` (never empty: a text without newline is one line) -/
def splitNl : Str → List Str
  | [] => [[]]
  | c :: cs =>
    match splitNl cs with
    | [] => [[]]
    | h :: t => if c = '\n' then [] :: h :: t else (c :: h) :: t

def stripCr (l : Str) : Str := if l.getLast? = some '\r' then l.dropLast else l

/-- `str::lines()`: split at `\n`; a line that was terminated by `\n` loses one trailing `\r`
(`\r\n` is a line ending, a lone `\r` is not: the unterminated last piece keeps it); a final empty
piece is dropped -/
def lines (s : Str) : List Str :=
  let ps := splitNl s
  let terminated := ps.dropLast.map stripCr
  match ps.getLast? with
  | some (c :: l) => terminated ++ [c :: l]
  | _ => terminated

/-- `position_to_line_col` (diagnostics.rs) = `byte_offset_to_position` (navigation.rs): walk the
characters until the byte position is reached, counting lines and characters since the last `\n` -/
def posToLineColGo (position : Nat) : Str → Nat → Nat → Nat → Nat × Nat
  | [], line, col, _ => (line, col)
  | ch :: rest, line, col, pos =>
    if pos ≥ position then (line, col)
    else if ch = '\n' then posToLineColGo position rest (line + 1) 0 (pos + ch.utf8Size)
    else posToLineColGo position rest line (col + 1) (pos + ch.utf8Size)

def posToLineCol (source : Str) (position : Nat) : Nat × Nat :=
  posToLineColGo position source 0 0 0

/-- `while start > 0 && is_word_char(chars.get(start - 1))  { start -= 1 }` -/
def wordStart (isWord : Char → Bool) (chars : Str) : Nat → Nat
  | 0 => 0
  | s + 1 => match chars[s]? with
    | some c => if isWord c then wordStart isWord chars s else s + 1
    | none => s + 1

/-- `while end < chars.len() && is_word_char(chars.get(end)) { end += 1 }` (fuel = remaining length) -/
def wordEnd (isWord : Char → Bool) (chars : Str) : Nat → Nat → Nat
  | 0, e => e
  | fuel + 1, e => match chars[e]? with
    | some c => if isWord c then wordEnd isWord chars fuel (e + 1) else e
    | none => e

/-- `chars[start..end]` on a `Vec<char>` -/
def vecSlice (chars : Str) (s e : Nat) : Outcome Str :=
  if s > e ∨ e > chars.length then .panic else .ok ((chars.take e).drop s)

/-- `get_word_at_position` (hover.rs) = `word_at_position` (navigation.rs) -/
def wordAt (isWord : Char → Bool) (text : Str) (line col : Nat) : Outcome Str :=
  match (lines text)[line]? with
  | none => .none
  | some l =>
    if col > blen l then .none            -- `col > line.len()` compares with the *byte* length
    else
      let s := wordStart isWord l col
      let e := wordEnd isWord l (l.length - col) col
      if s = e then .none else vecSlice l s e

/-- `char_col_to_byte`: byte offset of the `col`-th character, the line's byte length if there is none -/
def charColToByte : Str → Nat → Nat
  | [], _ => 0
  | _ :: _, 0 => 0
  | c :: cs, n + 1 => c.utf8Size + charColToByte cs n

/-- prefix slice of `get_completion_context` after the repair: `&line[..char_col_to_byte(line, col)]` -/
def complPrefix (text : Str) (line col : Nat) : Outcome Str :=
  let l := ((lines text)[line]?).getD []
  sliceTo l (charColToByte l col)

/-- before the repair: `&line[..col.min(line.len())]` — the character offset used as a byte offset -/
def complPrefixBuggy (text : Str) (line col : Nat) : Outcome Str :=
  let l := ((lines text)[line]?).getD []
  sliceTo l (min col (blen l))

/-- identifier token of `match_token` after the repair: byte length of the leading run of word
characters, then the slice `remaining[..byte_len]` whose `chars().count()` is the token length -/
def identToken (isWord : Char → Bool) (s : Str) : Outcome Nat :=
  match sliceTo s (blen (s.takeWhile isWord)) with
  | .ok p => .ok p.length
  | _ => .panic

/-- before the repair: the *number of characters* of the run was returned as the byte length -/
def identTokenBuggy (isWord : Char → Bool) (s : Str) : Outcome Nat :=
  match sliceTo s (s.takeWhile isWord).length with
  | .ok p => .ok p.length
  | _ => .panic

/-- text after the connector name in `detect_connector_param_context` after the repair:
`after.trim_start()[connector.len()..]`, `connector` = leading identifier of the trimmed text
(`extract_first_identifier`) -/
def afterConnector (isWs isWord : Char → Bool) (after : Str) : Outcome Str :=
  let t := after.dropWhile isWs
  sliceFrom t (blen (t.takeWhile isWord))

/-- before the repair the *untrimmed* text was sliced: `after[connector.len()..]` -/
def afterConnectorBuggy (isWs isWord : Char → Bool) (after : Str) : Outcome Str :=
  sliceFrom after (blen ((after.dropWhile isWs).takeWhile isWord))

/-- `s.rfind(pat)` followed by `&s[idx + pat.len()..]`: the text after the last occurrence of `pat` -/
def afterLast (pat : Str) : Str → Option Str
  | [] => none
  | c :: cs => match afterLast pat cs with
    | some r => some r
    | none => if pat.isPrefixOf (c :: cs) then some ((c :: cs).drop pat.length) else none

/-- `str::trim` -/
def trimWs (isWs : Char → Bool) (s : Str) : Str := ((s.dropWhile isWs).reverse.dropWhile isWs).reverse

/-- one branch of `completion.rs detect_connector_param_context` on the text after `.from(` / `.to(`:
not closed by `)`, starts (after blanks) with an identifier (`extract_first_identifier`), and what
follows the identifier (the slice `afterConnector`) starts with `,` — or the identifier is all there is -/
def connectorBranch (isWs isWord isAlpha : Char → Bool) (after : Str) : Outcome Bool :=
  if after.contains ')' then .ok false
  else match after.dropWhile isWs with
    | [] => .ok false
    | c :: t =>
      if !(isAlpha c || c == '_') then .ok false
      else match afterConnector isWs isWord after with
        | .ok rest => .ok ((rest.dropWhile isWs).head? == some ',' || trimWs isWs after == (c :: t).takeWhile isWord)
        | _ => .panic

/-- `detect_connector_param_context(prefix, _).is_some()`: is the cursor among the parameters of
`.from(Connector, …` / `.to(Connector, …` (`.from(` is looked for first, then `.to(`) -/
def connectorCtx (isWs isWord isAlpha : Char → Bool) (pre : Str) : Outcome Bool :=
  match afterLast ".from(".toList pre with
  | some after => connectorBranch isWs isWord isAlpha after
  | none => match afterLast ".to(".toList pre with
    | some after => connectorBranch isWs isWord isAlpha after
    | none => .ok false

/-- `get_error_end_column` after the repair: columns are character columns -/
def errorEndColumn (isWord : Char → Bool) (source : Str) (line startCol : Nat) : Outcome Nat :=
  match (lines source)[line]? with
  | some l =>
    let tokenLen := ((l.drop startCol).takeWhile isWord).length
    if tokenLen > 0 then .ok (startCol + tokenLen) else .ok (startCol + 1)
  | none => .ok (startCol + 1)

/-- before the repair: `&line_text[start_col.min(line_text.len())..]` -/
def errorEndColumnBuggy (isWord : Char → Bool) (source : Str) (line startCol : Nat) : Outcome Nat :=
  match (lines source)[line]? with
  | some l =>
    match sliceFrom l (min startCol (blen l)) with
    | .ok rem =>
      let tokenLen := (rem.takeWhile isWord).length
      if tokenLen > 0 then .ok (startCol + tokenLen) else .ok (startCol + 1)
    | _ => .panic
  | none => .ok (startCol + 1)

/-- the document's lines as a client sees them: the pieces between `\n` (a `\r` before the `\n`
is counted as a character of its line — the lenient reading) -/
def docLines (s : Str) : List Str := splitNl s

/-- `clamp_to_document`: a line past the end becomes the end of the last line, a column past the end
of its line becomes the line's length (in characters) -/
def clampPos (source : Str) (line col : Nat) : Nat × Nat :=
  let ls := docLines source
  if line < ls.length then (line, min col (ls[line]?.getD []).length)
  else (ls.length - 1, (ls.getLast?.getD []).length)

/-- a position lies within the document: an existing line, a column up to its length -/
def validPos (source : Str) (p : Nat × Nat) : Prop :=
  p.1 < (docLines source).length ∧ p.2 ≤ ((docLines source)[p.1]?.getD []).length

instance (source : Str) (p : Nat × Nat) : Decidable (validPos source p) := by
  unfold validPos; exact inferInstance

end Varpulis.LspText
